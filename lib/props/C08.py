"""C08: thread-safe API is free of data races; loop-confined API fails fast off-thread.

proof   Properties_C08.v: soundness of the protection discipline over the abstract trace semantics
        (C08_discipline_sound, C08_scoped_discipline_sound, C08_confined_fail_fast, C08_static_access_sound, ...)
        + the generated-fact obligation `discipline_ok summaries table table_waivers = true` on the access
        summaries that lib/gen_C08.py regenerates from the clang AST of the current sources.
tie     (T) the summaries; (C) a ThreadSanitizer scenario suite and a fail-fast suite on the real classes.
verdict every violation of the table (Coq's own list, printed by coq/C08_Eval.v) and every TSan report is
        matched by signature against KNOWN_FINDINGS.txt; anything else is a VIOLATION whose replay is the
        scenario + TSan's first report (both stacks) or, if no run exhibits it, the broken obligation.
"""
import os, re, sys, json, glob, time, signal, subprocess
from concurrent.futures import ThreadPoolExecutor
import vlib

PROP = "C08"
TSAN_SOURCES = ["C08_tsan_loop.cc", "C08_tsan_conn.cc", "C08_tsan_base.cc"]
# (fwrite_unlocked: the wrapper also tells TSan that stdio writes into the buffer the program handed to setbuffer)
THOROUGH_ROUNDS = 40                                  # per scenario and per poller (epoll, poll)
TSAN_WRAP = ["__tsan_read8", "__tsan_write4", "__tsan_read4", "fwrite_unlocked"]       # forced schedules (harness/C08_tsan.h)
FAILFAST_OPS = ["loop", "updateChannel", "removeChannel", "hasChannel", "pool_start", "pool_getNextLoop",
                "pool_getLoopForHash", "pool_getAllLoops", "conn_connectEstablished", "conn_connectDestroyed",
                "server_start", "server_dtor"]
# scenarios the quick tier may skip when the machine is busy (none by default: all run in parallel in ~2 s)
SLOW = {"client_stop", "client_flags_vs_loop", "client_disconnect_flag_vs_loop", "connector_flag_vs_loop"}
# which scenarios are the direct witnesses of which member (used to look harder for a new static violation)
TSAN_ENV = {"TSAN_OPTIONS": "halt_on_error=0 exitcode=66 report_thread_leaks=0 report_signal_unsafe=0 history_size=4 "
                            "second_deadlock_stack=1"}


# ------------------------------------------------------------------ Coq's report
def eval_report():
    """Regenerate the summaries and run coq/C08_Eval.v (vm_compute of render_report) in a PRIVATE directory - no global Coq
    lock, so it can run while chk.prove() builds the proofs - and parse its records.  C08_Eval imports only C08_Model and
    Gen_C08, which are compiled here from the same sources the proof build uses."""
    import shutil, tempfile
    os.makedirs(os.path.join(vlib.WORK, "C08"), exist_ok=True)
    tmp = tempfile.mkdtemp(prefix="eval_", dir=os.path.join(vlib.WORK, "C08"))
    try:
        rc, out = vlib.sh([sys.executable, os.path.join(vlib.ROOT, "lib/gen_C08.py")],
                          env={"VERIF_REPO": vlib.REPO, "C08_OUT_DIR": tmp}, timeout=600)
        try:
            eval_report.summary = json.load(open(os.path.join(tmp, "summary.json")))
        except Exception:
            eval_report.summary = None
        for f in ("C08_Model.v", "C08_Eval.v"):
            shutil.copy(os.path.join(vlib.COQ, f), tmp)
        rc, out = vlib.sh(["bash", "-c", "ulimit -s unlimited 2>/dev/null; cd %s && coqc -Q . Muduo C08_Model.v && "
                           "coqc -Q . Muduo Gen_C08.v && coqc -Q . Muduo C08_Eval.v" % tmp], timeout=900)
    finally:
        shutil.rmtree(tmp, ignore_errors=True)
    recs = {"V": [], "O": [], "E": [], "N": []}
    if rc != 0:
        return None, out[-2000:]
    for m in re.finditer(r'"((?:[^"]|"")*)"', out):
        s = m.group(1).replace('""', '"').strip()
        w = s.split("|")
        if w and w[0] in recs:
            recs[w[0]].append(w[1:])
    return recs, out[-500:]


def load_summary():
    p = os.path.join(vlib.WORK, "C08", "summary.json")
    if not os.path.exists(p):
        vlib.sh([sys.executable, os.path.join(vlib.ROOT, "lib/gen_C08.py")], env={"VERIF_REPO": vlib.REPO}, timeout=600)
    return json.load(open(p))


def line_index(summary):
    idx = {}
    for c, cd in summary["classes"].items():
        for m, md in cd["methods"].items():
            for a in md["accesses"]:
                idx.setdefault((a[5], a[6]), set()).add((c, a[0], m, a[1]))
            # a MutexLockGuard constructed on a member mutex ("L") / the implicit destruction of the synchronisation members
            # at a destructor's closing brace ("D"): only reached through frames of the primitives (Mutex.h, Condition.*)
            for a in md.get("lockuses", []):
                idx.setdefault((a[1], a[2]), set()).add((c, a[0], m, "L"))
            for a in md.get("destroys", []):
                idx.setdefault((a[1], a[2]), set()).add((c, a[0], m, "D"))
    return idx


PRIMITIVE_FILES = ("muduo/base/Mutex.h", "muduo/base/Condition.h", "muduo/base/Condition.cc", "muduo/base/Atomic.h",
                   "muduo/net/SocketsOps.cc", "muduo/net/SocketsOps.h",      # SocketsOps: thin system-call wrappers
                   "muduo/base/LogStream.h")                                # FixedBuffer reached through a buffer member
_THREAD_ROOTS = {}


def thread_roots(cls):
    if not _THREAD_ROOTS:
        for line in open(os.path.join(vlib.ROOT, "lib", "C08_table.txt")):
            w = line.split("#")[0].split()
            if len(w) >= 4 and w[0] == "method" and w[3] == "thread":
                _THREAD_ROOTS.setdefault(w[1], []).append(w[2])
        _THREAD_ROOTS.setdefault("", [])
    return _THREAD_ROOTS.get(cls, [])


_TABLE_CLASS = {}


def table_class(cls, field):
    if not _TABLE_CLASS:
        for line in open(os.path.join(vlib.ROOT, "lib", "C08_table.txt")):
            w = line.split("#")[0].split()
            if len(w) >= 4 and w[0] == "field":
                _TABLE_CLASS[(w[1], w[2])] = w[3]
    return _TABLE_CLASS.get((cls, field), "?")


BORROW_KINDS = ("rawthis", "borrowed-view", "borrowed-ptr", "borrowed-ref", "rawthis-callback", "borrowed-callback")
_TABLE_CONTRACT = {}


def table_contract(cls, meth):
    if not _TABLE_CONTRACT:
        for line in open(os.path.join(vlib.ROOT, "lib", "C08_table.txt")):
            w = line.split("#")[0].split()
            if len(w) >= 4 and w[0] == "method":
                _TABLE_CONTRACT[(w[1], w[2])] = w[3]
    return _TABLE_CONTRACT.get((cls, meth), "?")


# (class, method, number of bodies the extractor must have analysed): the operations named in the property text
NAMED_BODIES = [("EventLoop", "runInLoop", 1), ("EventLoop", "queueInLoop", 1), ("EventLoop", "runAt", 1), ("EventLoop", "runAfter", 1),
                ("EventLoop", "runEvery", 1), ("EventLoop", "cancel", 1), ("EventLoop", "quit", 1), ("EventLoop", "queueSize", 1),
                ("EventLoop", "loop", 1), ("EventLoop", "updateChannel", 1), ("EventLoop", "removeChannel", 1),
                ("TimerQueue", "addTimer", 1), ("TimerQueue", "cancel", 1),
                ("TcpConnection", "send", 3), ("TcpConnection", "shutdown", 1), ("TcpConnection", "forceClose", 1),
                ("TcpConnection", "forceCloseWithDelay", 1), ("TcpConnection", "startRead", 1), ("TcpConnection", "stopRead", 1),
                ("TcpConnection", "connectEstablished", 1), ("TcpConnection", "connectDestroyed", 1),
                ("TcpServer", "start", 1), ("TcpClient", "connect", 1), ("TcpClient", "disconnect", 1), ("TcpClient", "stop", 1),
                ("TcpClient", "connection", 1), ("EventLoopThreadPool", "start", 1), ("EventLoopThreadPool", "getNextLoop", 1),
                ("ThreadPool", "run", 1), ("BlockingQueue", "put", 2), ("BlockingQueue", "take", 1), ("BlockingQueue", "drain", 1),
                ("BlockingQueue", "size", 1), ("BoundedBlockingQueue", "put", 2), ("BoundedBlockingQueue", "take", 1),
                ("BoundedBlockingQueue", "size", 1), ("CountDownLatch", "wait", 1), ("CountDownLatch", "countDown", 1),
                ("CountDownLatch", "getCount", 1), ("AsyncLogging", "append", 1), ("Logging", "Logger_Logger", 4),
                ("Logging", "Logger_dtor_Logger", 1), ("Logging", "Logger_Impl", 1), ("Logging", "Logger_formatTime", 1)]


def counterpart(recs, cls, site, field, kind):
    """the other end of the race: a conflicting effective access of the member at another site, preferring one that
    itself obeys the discipline (e.g. the loop thread's store), and a write over a read."""
    flat = table_class(cls, field) in ("atomic", "threadlocal")     # sites of such members are plain method names
    cands = []
    myctx = set(e[4] for e in recs["E"] if e[0] == cls and e[2] == field and e[3] == kind and
                (e[1].split("/")[-1] if flat else e[1]) == site)
    for e in recs["E"]:
        # e = class, site, field, kind, ctx, locks, ok, dbg, line
        es = e[1].split("/")[-1] if flat else e[1]
        if e[0] != cls or e[2] != field or es == site or e[4] in ("excl", "teardown") or e[7] == "dbg":
            continue
        if myctx == {"loop"} and e[4] == "loop":
            continue                            # both on the loop thread: not the other end of a race
        if kind == "R" and e[3] != "W":
            continue
        cands.append((0 if e[6] == "ok" else 1, 0 if e[4] == "loop" else 1, 0 if e[3] == "W" else 1, len(cands),
                      "%s:%s" % (es, e[3])))
    if not cands:
        for e in recs["E"]:
            if e[0] == cls and e[2] == field and e[1] != site and e[4] != "excl" and (kind == "W" or e[3] == "W"):
                return "%s:%s" % (e[1], e[3])
        return "-"
    return sorted(cands)[0][4]


def viol_key(recs, v):
    cls, site, what, kind = v[0], v[1], v[2], v[3]
    if kind in ("R", "W"):
        return "%s::%s@%s:%s|%s" % (cls, what, site, kind, counterpart(recs, cls, site, what, kind))
    if kind == "destroy":
        return "%s::%s@%s:destroy|%s" % (cls, what, site, "/".join(thread_roots(cls)) or "-")
    if kind == "useafter":
        return "%s::%s@%s:useafter|~%s" % (cls, what, site, cls)
    if kind in BORROW_KINDS:
        return "%s::%s@%s:%s" % (cls, what, site, kind)
    return "%s::%s@%s:%s" % (cls, what or "-", site, kind)


def viol_text(recs, v, summary):
    cls, site, what, kind = v[0], v[1], v[2], v[3]
    meth = site.split("/")[-1]
    where = ""
    try:
        md = summary["classes"][cls]["methods"][meth]
        lines = sorted(set("%s:%s" % (a[5], a[6]) for a in md["accesses"] if a[0] == what and a[1] == kind))
        where = " at " + ",".join(lines[:3])
    except KeyError:
        pass
    if kind in ("R", "W"):
        cp = counterpart(recs, cls, site, what, kind)
        return ("%s::%s is %s in %s%s without the protection its class requires, conflicting with %s"
                % (cls, what, "read" if kind == "R" else "written", site, where, cp))
    if kind == "destroy":
        try:
            md = summary["classes"][cls]["methods"][meth]
            where = " at " + ",".join(sorted(set("%s:%s" % (a[1], a[2]) for a in md["destroys"] if a[0] == what)))
            jg = md.get("join")
        except KeyError:
            jg = None
        return ("%s::%s is destroyed by %s%s while the object's thread (%s) may still use it: %s" %
                (cls, what, site, where, "/".join(thread_roots(cls)) or "?",
                 "no join() on any path" if jg is None else
                 "join() is skipped on the strength of %s, which that thread itself writes" % ",".join(jg)))
    if kind in ("rawthis-callback", "borrowed-callback"):
        where, tgt = "", "?"
        try:
            md = summary["classes"][cls]["methods"][meth]
            ra = [a for a in md["regargs"] if a[3] == what]
            where = " at " + ",".join(sorted(set("%s:%s" % (a[6], a[7]) for a in ra)))
            tgt = "/".join(sorted(set("%s::%s" % (a[0], a[1]) for a in ra)))
        except (KeyError, IndexError):
            pass
        return ("%s::%s registers %s bound to %s as a callback on a shared_ptr-managed object (%s)%s: the callback lives as long "
                "as that object and fires on its loop thread, possibly after this %s is gone"
                % (cls, site, what, "the raw `this`" if kind == "rawthis-callback" else "a borrowed argument", tgt, where, cls))
    if kind in BORROW_KINDS:
        where = ""
        try:
            md = summary["classes"][cls]["methods"][meth]
            want = {"rawthis": ("this", "member"), "borrowed-view": ("view",), "borrowed-ptr": ("ptr",), "borrowed-ref": ("ref",)}[kind]
            pa = [a for a in md["postargs"] if a[1] == what and a[2] in want and not a[4]]
            where = " at " + ",".join(sorted(set("%s:%s" % (a[5], a[6]) for a in pa))) + \
                    " (bound argument of type %s)" % "; ".join(sorted(set(a[3] for a in pa)))
        except (KeyError, IndexError):
            pass
        if kind == "rawthis":
            return ("%s::%s posts %s bound to the raw `this`%s on its cross-thread branch; %s is shared_ptr-managed: the last owner "
                    "can destroy the object before the loop thread runs the functor" % (cls, site, what, where, cls))
        return ("%s::%s posts %s with a BORROWED argument%s on its cross-thread branch: the functor runs later on the loop thread "
                "and reads memory the caller may already have rewritten or freed (an owned copy is required)" % (cls, site, what, where))
    if kind == "useafter":
        flags = [w[2] for w in (l.split("#")[0].split() for l in open(os.path.join(vlib.ROOT, "lib", "C08_table.txt")))
                 if len(w) >= 3 and w[0] == "exitflag" and w[1] == cls]
        try:
            tl = summary["classes"][cls]["methods"][meth]["tails"]
            flags = [g for g in flags if what in tl.get(g, [])] or flags
        except KeyError:
            pass
        return ("%s::%s still uses %s after storing %s, on which the owner thread may leave its loop and destroy the "
                "object (~%s): use after release" % (cls, site, what, "/".join(flags) or "the exit flag", cls))
    if kind in ("nostaticclass", "staticclass"):
        e = (summary.get("statics") or {}).get(what, {})
        acc = ", ".join("%s:%s" % (a[0], a[1]) for a in e.get("accs", [])[:8]) or "-"
        head = ("static-storage variable %s (%s, type %s, %s bytes in %s) - ONE location shared by all objects and threads - "
                % (e.get("demangled", what), site, e.get("type", "?"), e.get("size", "?"), e.get("section", "?")))
        if kind == "nostaticclass":
            return head + "has no protection class in lib/C08_table.txt (accessed by %s)" % acc
        return head + "does not live up to its class in lib/C08_table.txt (tls=%s atomic=%s, accessed by %s)" % (e.get("tls"), e.get("atomic"), acc)
    if kind == "call":
        return "%s::%s (an any-thread / loop context) calls the loop-only or set-up method %s directly" % (cls, site, what)
    if kind == "nofailfast":
        return "%s::%s is a confined operation but does not begin with %s (no fail-fast off-thread)" % (cls, site, what)
    if kind == "nocontract":
        return "%s::%s is public or registered as a callback but has no contract in lib/C08_table.txt" % (cls, site)
    if kind == "noclass":
        return "%s::%s (accessed in %s) has no protection class in lib/C08_table.txt" % (cls, what, site)
    return "%s::%s %s %s" % (cls, site, what, kind)


# ------------------------------------------------------------------ TSan
FRAME = re.compile(r"^\s+#(\d+) (.+?) (/[^\s:]+):(\d+)(?::\d+)? \(")
SECTION = re.compile(r"^  (Write|Read|Previous write|Previous read|Atomic write|Atomic read|Previous atomic write|Previous atomic read) of size (\d+)")


def parse_tsan_all(stderr):
    """every report of a run -> [{'kind':..., 'text':..., 'stacks': [(what, [(func, file, line)...]), ...]}]"""
    reps = []
    for block in stderr.split("=================="):
        m = re.search(r"WARNING: ThreadSanitizer: ([^\(\n]+)", block)
        if not m:
            continue
        stacks, cur = [], None
        for line in block.split("\n"):
            s = SECTION.match(line)
            if s:
                cur = (s.group(1), [])
                stacks.append(cur)
                continue
            f = FRAME.match(line)
            if f and cur is not None:
                cur[1].append((f.group(2), f.group(3), int(f.group(4))))
            elif cur is not None and line.strip() == "":
                cur = None
        reps.append({"kind": m.group(1).strip(), "text": "==================" + block + "==================", "stacks": stacks})
    if not reps and ("ThreadSanitizer:DEADLYSIGNAL" in stderr or "ERROR: ThreadSanitizer" in stderr):
        reps.append({"kind": "crash", "text": stderr[:6000], "stacks": []})
    return reps


def parse_tsan(stderr):
    r = parse_tsan_all(stderr)
    return r[0] if r else None


def short_report(rep, maxframes=12):
    """both stacks, symbolised, trimmed (std:: glue frames dropped) - the replay text."""
    out = ["ThreadSanitizer: " + rep["kind"]]
    for what, frames in rep["stacks"]:
        out.append("  %s:" % what)
        n = 0
        for (fn, fl, ln) in frames:
            if "/include/c++/" in fl:
                continue
            out.append("    %s  %s:%d" % (fn[:110], fl, ln))
            n += 1
            if n >= maxframes:
                break
    return "\n".join(out)


def map_report(rep, idx):
    """-> (set of (class, field) common to both stacks, [(class, field, method, kind) per stack]).
    Each stack is attributed by its first frame inside /repo; frames of the synchronisation primitives (Mutex.h,
    Condition.*, Atomic.h) are passed through to the frame that uses the primitive - a MutexLockGuard on a member mutex
    or the implicit destruction of a member at a destructor's closing brace (entries "L"/"D" of the index)."""
    per = []
    repo = vlib.REPO.rstrip("/") + "/"
    for what, frames in rep["stacks"][:2]:
        hit = set()
        via_prim = False
        for (fn, fl, ln) in frames:
            if not fl.startswith(repo):
                continue
            rel = fl[len(repo):]
            if rel in PRIMITIVE_FILES:
                via_prim = True
                continue
            cand = idx.get((rel, ln), set())
            if via_prim:
                prim = set(x for x in cand if x[3] in ("L", "D"))
                hit = prim or set(x for x in cand if x[3] not in ("L", "D"))
            else:
                hit = set(x for x in cand if x[3] not in ("L", "D"))
            break
        per.append(hit)
    if len(per) < 2:
        return set(), per
    common = set((c, f) for (c, f, m, k) in per[0]) & set((c, f) for (c, f, m, k) in per[1])
    return common, per


def norm_static_name(dem):
    n = dem.replace("(anonymous namespace)", "{anon}")
    prev = None
    while prev != n:
        prev = n
        n = re.sub(r"\([^()]*\)", "", n)
    n = re.sub(r"\[abi:[^\]]*\]", "", n)
    return re.sub(r"\s+", "", n)


FRAME_METHOD = re.compile(r"muduo::(?:net::)?(?:detail::)?(\w+)::(~?\w+)\(")


def lifetime_methods(rep):
    """a report about memory that is gone: heap-use-after-free, or a race one side of which is the deallocation.
    -> set of (class, method) over the in-repo frames of all stacks, or None if it is not such a report."""
    is_lt = "use-after-free" in rep["kind"] or bool(re.search(r"#0 (operator delete|free|cfree)\b", rep["text"]))
    for what, frames in rep["stacks"][:2]:
        # ... or one side is the object's destructor tearing its members down
        if any(re.search(r"::~\w+\(\)", fn) for (fn, fl, ln) in frames):
            is_lt = True
    if not is_lt:
        return None
    res = set()
    for what, frames in rep["stacks"]:
        for (fn, fl, ln) in frames:
            m = FRAME_METHOD.search(fn)
            if m:
                res.add((m.group(1), m.group(2)))
    return res


def fail_tail(se, so):
    """what ended a scenario abnormally: the FATAL / assertion / signal lines of its output, then its last lines."""
    txt = (se or "") + "\n" + (so or "")
    keyl = [l for l in txt.split("\n") if re.search(r"FATAL|Assertion|abortNotInLoopThread|DEADLYSIGNAL|TIMEOUT|terminate called|AddressSanitizer", l)]
    last = [l for l in txt.strip().split("\n")[-6:]]
    return "\n".join(keyl[:12] + ["..."] + last)[-3000:]


def run_one(exe, args, env, timeout=40):
    t0 = time.time()
    try:
        p = subprocess.run([exe] + args, stdout=subprocess.PIPE, stderr=subprocess.PIPE, timeout=timeout,
                           env=dict(os.environ, **env))
        return p.returncode, p.stdout.decode("utf-8", "replace"), p.stderr.decode("utf-8", "replace"), time.time() - t0
    except subprocess.TimeoutExpired as ex:
        return 124, (ex.stdout or b"").decode("utf-8", "replace"), (ex.stderr or b"").decode("utf-8", "replace") + "\nTIMEOUT", time.time() - t0


POLLER_ENV = {"epoll": {}, "poll": {"MUDUO_USE_POLL": "1"}}      # muduo/net/poller/DefaultPoller.cc


def run_scenarios(exe, names, rounds, jobs=12, poller="epoll"):
    """-> list of (name, "round/poller", rc, stdout, stderr, secs)"""
    work = [(n, r) for r in range(rounds) for n in names]
    env = dict(TSAN_ENV, **POLLER_ENV[poller])
    with ThreadPoolExecutor(max_workers=jobs) as ex:
        res = list(ex.map(lambda nr: (nr[0], "%d/%s" % (nr[1], poller)) + run_one(exe, [nr[0]], env), work))
    return res


def load_cases(paths):
    """corpus / replay files:  `scenario <name> [rounds=N]` | `failfast <op>` | `static <key>`  (+ comments)."""
    items = []
    for p in paths:
        for line in open(p):
            line = line.strip()
            if not line or line.startswith("#"):
                continue
            if line.startswith("---"):
                break
            w = line.split()
            if w[0] in ("scenario", "failfast", "static") and len(w) >= 2:
                items.append((w[0], w[1], dict(x.split("=", 1) for x in w[2:] if "=" in x), os.path.basename(p)))
    return items


# ------------------------------------------------------------------ the check
def run(chk, replay=None):
    tier = chk.tier
    # the two driver builds (TSan / ASan libraries of muduo + harness) do not depend on the proof: start them now so that a
    # fresh checkout pays max(proof build, driver build) instead of their sum
    bg = ThreadPoolExecutor(max_workers=3)
    fut_tsan = bg.submit(vlib.build_driver, "C08_tsan", TSAN_SOURCES, "tsan", ("base", "net"), (), (), TSAN_WRAP)
    fut_ff = bg.submit(vlib.build_driver, "C08_failfast", ["C08_failfast.cc"], "asan")
    fut_eval = bg.submit(eval_report)
    pr = chk.prove()
    recs, evalout = fut_eval.result()
    summary = getattr(eval_report, "summary", None) or load_summary()
    idx = line_index(summary)
    known = dict((k["key"], k["text"]) for k in vlib.known_findings() if k["property"] == PROP)

    def known_for_member(cls, field, methods, fns=()):
        """a TSan report on cls::field between `methods` is explained by a recorded finding on that member at one of them"""
        for key in known:
            m = re.match(r"([\w~]+)::([\w~]+)@([^:|]+):(\w+)(?:\|(\S+))?", key)
            if not m or m.group(1) != cls or m.group(2) != field:
                continue
            if m.group(3).split("/")[-1] in methods:
                return key
            # lifetime findings: the reporting frame is a callee of the site (quit -> wakeup); the other end identifies it
            if m.group(4) in ("useafter", "destroy") and m.group(5) and set(m.group(5).split("/")) & set(methods) and \
               any(("::%s(" % m.group(3).split("/")[-1]) in fn for fn in fns):
                return key
        return None

    # ---- builds
    tsan = fut_tsan.result()
    ff = fut_ff.result()
    bg.shutdown(wait=False)
    rc, out, err, _ = run_one(tsan, ["--list"], {})
    all_scen = [s for s in out.split() if s]

    # ---- what to run
    static_only = None
    if replay:
        items = load_cases([replay])
        scen = [(n, int(o.get("rounds", 5))) for (k, n, o, f) in items if k == "scenario"]
        ffops = [n for (k, n, o, f) in items if k == "failfast"]
        static_only = [n for (k, n, o, f) in items if k == "static"]
    else:
        corpus = load_cases(sorted(glob.glob(os.path.join(vlib.ROOT, "corpus", PROP, "*.case"))))
        rounds = 1 if tier == "quick" else THOROUGH_ROUNDS
        scen = [(n, max(rounds, int(o.get("rounds", 1)) if tier != "quick" else 1)) for (k, n, o, f) in corpus if k == "scenario"]
        seen = set(n for n, _ in scen)
        # x_* scenarios are demonstrations of hazards outside C08's operation list (docs/C08.md); they run only from a replay file
        scen += [(n, rounds) for n in all_scen if n not in seen and not n.startswith("x_")]
        ffops = list(FAILFAST_OPS)
    scen = [(n, r) for (n, r) in scen if n in all_scen]

    # ---- static verdict (Coq's own violation list)
    static_bad, static_known = [], []
    stale = []
    if recs is None:
        p = chk.write_replay("eval_failed.txt", "coq/C08_Eval.v could not be evaluated:\n" + evalout)
        chk.violation(p, "the access-summary report could not be computed (C08_Model/Gen_C08 do not compile)", no_input=True)
        recs = {"V": [], "O": [], "E": [], "N": []}
    keys_now = {}
    for v in recs["V"]:
        k = viol_key(recs, v)
        keys_now[k] = v
        if static_only is not None and k not in static_only:
            continue
        if k in known:
            static_known.append((k, v))
        else:
            static_bad.append((k, v))
    waived = set()
    for line in open(os.path.join(vlib.ROOT, "lib", "C08_table.txt")):
        w = line.split("#")[0].split()
        if w and w[0] == "waive":
            waived.add(tuple(w[1:5]))
    now = set(tuple(v[:4]) for v in recs["V"])
    stale = sorted(waived - now)
    if stale:
        chk.notes.append("stale waivers (recorded finding no longer present in the regenerated summaries; remove from lib/C08_table.txt): %s" % stale)
    chk.cov["static"] = {"methods": sum(len(c["methods"]) for c in summary["classes"].values()),
                         "fields": sum(len(c["fields"]) for c in summary["classes"].values()),
                         "effective_accesses": int(recs["N"][0][0]) if recs["N"] else 0,
                         "violations": len(recs["V"]),
                         "observations": ["%s::%s reads %s in a debug assert before the thread check" % (o[0], o[1], o[2]) for o in recs["O"]]}

    # raw-`this` functors posted by any-thread methods of shared_ptr-managed classes: lifetime hazards (observation; the
    # field-level discipline does not cover object lifetime - docs/C08.md, residue 2)
    for c, cd in sorted(summary["classes"].items()):
        if not cd.get("shared"):
            continue
        for m, md in sorted(cd["methods"].items()):
            for rp in md.get("rawposts", []):
                if table_contract(c, m) == "any":
                    chk.cov["static"]["observations"].append(
                        "%s::%s posts %s::%s bound to the raw `this` at %s:%s (lifetime rests on the caller)" % (c, m, rp[0], rp[1], rp[2], rp[3]))
    # every operation the property names has been seen by the extractor, with all its overloads
    named_missing = []
    for (c, m, nb) in NAMED_BODIES:
        md = summary["classes"].get(c, {}).get("methods", {}).get(m)
        if md is None or md.get("bodies", 0) < nb:
            named_missing.append("%s::%s (%s of %d bodies)" % (c, m, "no summary" if md is None else md.get("bodies"), nb))

    # borrow / raw-this violations of the static side: (class, posted callee) -> key
    BV = {}
    BVSITE = {}       # -> class of the registering / posting object (the one whose destruction is the hazard)
    for v in recs["V"]:
        if v[3] in BORROW_KINDS:
            BV.setdefault((v[0], v[2]), viol_key(recs, v))
            BVSITE.setdefault((v[0], v[2]), v[0])

    SV = set(v[2] for v in recs["V"] if v[0] == "static")
    globals_seen = {}

    # ---- TSan suite
    t1 = time.time()
    results = []
    maxr = max([r for _, r in scen] + [0])
    pollers = ["epoll"] if (tier == "quick" and not replay) else ["epoll", "poll"]
    for poller in pollers:
        for r in range(maxr):
            names = [n for (n, rr) in scen if rr > r]
            results += run_scenarios(tsan, names, 1, poller=poller)
    t2 = time.time()
    by_poller = dict((pl, len([1 for x in results if x[1].endswith("/" + pl)])) for pl in pollers)
    distinct = {}     # (member or report key, the two sites) -> instances
    reports = {}      # (class, field) or ('?', text-hash) -> dict
    scen_fail = []
    scen_members = {}  # scenario -> [((class, field), methods)] of the reports of its runs
    ran = set()
    for (name, rnd, rc, so, se, secs) in results:
        chk.cov["evaluations"] += 1
        reps = parse_tsan_all(se)
        if not reps:
            if rc == 0 and ("scenario %s done" % name) in so:
                ran.add(name)
            else:
                scen_fail.append((name, rc, fail_tail(se, so)))
            continue
        ran.add(name)
        if ("scenario %s done" % name) not in so:
            scen_fail.append((name, rc, fail_tail(se, so)))
        def bv_hits(rep_):
            lt_ = lifetime_methods(rep_)
            # (the functor itself, or its ...InLoop continuation posted with the same raw this)
            return sorted(set(bv for bv in BV for cm in (lt_ or ()) if cm[0] == bv[0] and cm[1] in (bv[1], bv[1] + "InLoop")))
        run_hits = sorted(set(h for rep_ in reps for h in bv_hits(rep_)))
        for rep in reps:
            gm = re.search(r"Location is global '([^']+)'", rep["text"])
            if gm and norm_static_name(gm.group(1)) in SV:
                # a race on a static-storage variable the static side already reports: its witness
                globals_seen.setdefault(norm_static_name(gm.group(1)), {"scenario": name, "rep": rep})
                continue
            sig = (rep["kind"], tuple(sorted("%s:%d" % (os.path.basename(fr[0][1]), fr[0][2]) if fr else "?"
                                             for (_w, fr) in [(w_, [x for x in f_ if x[1].startswith(vlib.REPO)] or f_) for (w_, f_) in rep["stacks"][:2]])))
            distinct[sig] = distinct.get(sig, 0) + 1
            hits = bv_hits(rep)
            if not hits and run_hits and rep["kind"] != "data race":
                # the same run already has a functor running on a destroyed object: locking its dead mutex, touching
                # other freed members ... are consequences of that use-after-free, not separate findings
                hits = run_hits
            if not hits and run_hits:
                # ... and so are further races between the loop thread and the DESTRUCTOR of the very object (or of the
                # class whose functor) the recorded finding is about: the same foreign-thread destruction
                lt_ = lifetime_methods(rep)
                if lt_ and any((h[0], "~" + h[0]) in lt_ or (c_, "~" + c_) in lt_ for h in run_hits for c_ in [BVSITE.get(h, h[0])]):
                    hits = run_hits
            if hits:
                # the functor of a borrow / raw-this violation touching memory that is gone
                for cm in hits:
                    d = reports.setdefault(("~", cm[0], cm[1]), {"scenario": name, "rep": rep, "methods": set(), "count": 0, "all": []})
                    d["count"] += 1
                    d["all"].append((name, rep, set([cm[1]])))
                    scen_members.setdefault(name, []).append((("~", cm[0], cm[1]), set([cm[1]])))
                continue
            common, per = map_report(rep, idx)
            methods = set(m for hit in per for (c, f, m, k) in hit)
            if rep["kind"] != "data race" or not common:
                key = ("?", rep["kind"] + ":" + ";".join("%s:%d" % (fl, ln) for (_, fr) in rep["stacks"][:2] for (fn, fl, ln) in fr[:1]))
                reports.setdefault(key, {"scenario": name, "rep": rep, "methods": methods, "count": 0})["count"] += 1
                continue
            for cf in sorted(common):
                d = reports.setdefault(cf, {"scenario": name, "rep": rep, "methods": set(), "count": 0, "all": []})
                ms = set(m for hit in per for (c, f, m, k) in hit if (c, f) == cf)
                # + the method names of every frame of both stacks (setState's caller is the operation: forceClose ...)
                fnames = set(m.group(2) for (_w, fr) in rep["stacks"][:2] for (fn, fl, ln) in fr for m in [FRAME_METHOD.search(fn)] if m)
                scen_members.setdefault(name, []).append((cf, ms | fnames))
                d["methods"] |= ms
                d.setdefault("fns", set()).update(fn for (_w, fr) in rep["stacks"][:2] for (fn, fl, ln) in fr)
                d["all"].append((name, rep, ms))
                d["count"] += 1
    chk.cov["tsan"] = {"scenarios": len(set(n for n, _ in scen)), "runs": len(results), "wall_s": round(t2 - t1, 1),
                       "runs_by_poller": by_poller, "rounds_per_scenario_and_poller": maxr,
                       "report_instances": sum(distinct.values()),
                       "distinct_reports": len(distinct),
                       "distinct_report_sites": sorted("%s %s x%d" % (k[0], "|".join(k[1]), n) for k, n in distinct.items())[:80],
                       "reports": sorted("%s::%s" % (k[-2], k[-1]) if k[0] != "?" else k[1] for k in reports)}

    # Forced scenarios: the schedule is forced, so the way they end IS the deterministic witness of the recorded key whose
    # statement they park on - independent of which TSan reports made it to stderr before the process died.
    FORCED_KEYS = {
        "f_lost_update_forceClose": "TcpConnection::state_@forceClose/setState:W|",
        "f_lost_update_forceCloseWithDelay": "TcpConnection::state_@forceCloseWithDelay/setState:W|",
        "f_lost_update_shutdown": "TcpConnection::state_@shutdown/setState:W|",
        "f_send_rawthis": "TcpConnection::sendInLoop@send:rawthis",
        "f_shutdown_rawthis": "TcpConnection::shutdownInLoop@shutdown:rawthis",
        "f_startRead_rawthis": "TcpConnection::startReadInLoop@startRead:rawthis",
        "f_stopRead_rawthis": "TcpConnection::stopReadInLoop@stopRead:rawthis",
        "f_client_ctor_callback_rawthis": "TcpClient::newConnection@TcpClient:rawthis-callback",
        "f_client_closecb_rawthis": "TcpClient::removeConnection@newConnection:rawthis-callback",
        "f_server_closecb_rawthis": "TcpServer::removeConnection@newConnection:rawthis-callback",
    }
    LOST_UPDATE_ASSERT = r"Assertion `(n == 1|state_ == kConnected \|\| state_ == kDisconnecting|state_ == kDisconnected)' failed"

    def explain_forced(name, rc, tail):
        pre = FORCED_KEYS.get(name)
        if not pre or rc == 124:                    # a hang is never the expected end
            return None
        keys = [k for k in known if k.startswith(pre)]
        if not keys:
            return None
        if name.startswith("f_lost_update_"):
            # the lost update ends in exactly these assertions (second close / dead connection left in kDisconnecting)
            return keys[0] if re.search(LOST_UPDATE_ASSERT, tail) else None
        # a functor / callback running on a destroyed object: any crash (SEGV, assertion) is the use continuing
        return keys[0] if re.search(r"Assertion|SEGV|DEADLYSIGNAL|ABORTING|AddressSanitizer|terminate called", tail) or rc in (-6, -11, 134, 139, 66) else None

    def explain_abort(name, tail):
        """A scenario that died in the double-close assertions is the functional consequence of the recorded race on
        TcpConnection::state_: the foreign thread's check-then-store `if (state_ == kConnected) setState(kDisconnecting)`
        in forceClose/forceCloseWithDelay/shutdown overwrites the loop thread's kDisconnected (peer closed meanwhile), so
        the queued ...InLoop functor runs handleClose a second time.  Explained only if this very run also showed the
        race (TSan report on state_ with the operation's store) and that store is a recorded finding."""
        # a run in which a functor already ran on a destroyed object (heap-use-after-free explained by a recorded
        # raw-this / borrowed-capture key) may go on to crash: same finding
        for (cf, ms) in scen_members.get(name, []):
            if cf[0] == "~" and BV.get((cf[1], cf[2])) in known:
                return BV[(cf[1], cf[2])]
        if not re.search(r"Assertion `(n == 1|state_ == kConnected \|\| state_ == kDisconnecting|state_ == kDisconnected)' failed", tail):
            return None
        for (cf, ms) in scen_members.get(name, []):
            if cf != ("TcpConnection", "state_"):
                continue
            for op in ("forceClose", "forceCloseWithDelay", "shutdown"):
                if op in ms:
                    for key in known:
                        if key.startswith("TcpConnection::state_@%s/setState:W|" % op):
                            return key
        return None

    unexplained = []
    for (name, rc, tail) in scen_fail:
        k = explain_forced(name, rc, tail) or explain_abort(name, tail)
        if not k and any(cf[0] == "~" for (cf, ms) in scen_members.get(name, [])):
            continue            # crash after a use-after-free of an unrecorded raw-this / borrow violation: reported below with it
        if k:
            chk.notes.append("scenario %s aborted in the double-close assertion (%s): lost update of the recorded race %s"
                             % (name, tail.strip().split("\n")[-1][-160:], k))
        else:
            unexplained.append((name, rc, tail))
    scen_fail = unexplained

    tsan_bad, tsan_known = [], []
    for cf, d in sorted(reports.items(), key=lambda kv: str(kv[0])):
        if cf[0] == "?":
            tsan_bad.append((cf, d, None))
            continue
        if cf[0] == "~":
            k = BV.get((cf[1], cf[2]))
            if k in known:
                tsan_known.append((cf, d, k))
            # else: an unrecorded static violation, reported below with this report as its witness
            continue
        k = known_for_member(cf[0], cf[1], d["methods"], d.get("fns", ()))
        if k:
            tsan_known.append((cf, d, k))
        else:
            tsan_bad.append((cf, d, None))

    # ---- fail-fast suite
    ff_bad = []
    with ThreadPoolExecutor(max_workers=8) as ex:
        ffwork = [(op, pl) for pl in pollers for op in ["control_owner_ok"] + ffops]
        ffres = list(ex.map(lambda w: (w[0],) + run_one(ff, [w[0]], dict({"ASAN_OPTIONS": "detect_leaks=0:handle_abort=0"}, **POLLER_ENV[w[1]]),
                                                        timeout=20), ffwork))
    for (op, rc, so, se, secs) in ffres:
        chk.cov["evaluations"] += 1
        txt = so + se
        if op == "control_owner_ok":
            if rc != 0 or "REACHED-AFTER" not in so:
                ff_bad.append((op, "control: a thread-safe call from a foreign thread did not return normally (rc=%s)" % rc, txt[-1500:]))
            continue
        aborted = (rc == -signal.SIGABRT or rc == 134)
        if not aborted or "abortNotInLoopThread" not in txt or "REACHED-AFTER" in so:
            ff_bad.append((op, "confined operation %s called from a foreign thread did not abort in abortNotInLoopThread "
                               "(exit status %s%s)" % (op, rc, ", the call returned" if "REACHED-AFTER" in so else ""), txt[-1500:]))
    chk.cov["failfast"] = {"ops": ffops, "pollers": pollers, "runs": len(ffres),
                           "aborted": len(ffres) - len(pollers) - len([b for b in ff_bad if b[0] != "control_owner_ok"])}

    # ---- verdicts
    def replay_text(header, items, body):
        return "\n".join(["# " + h for h in header] + items + ["--- evidence ---", body]) + "\n"

    # static violations: try to attach the TSan witness on the same member
    def witness_for(cls, field, site=None):
        d = reports.get((cls, field)) or reports.get(("~", cls, field))
        if d and site:
            for (name, rep, ms) in d.get("all", []):       # a report whose stacks pass through the site itself
                if any(("::%s(" % site.split("/")[-1]) in fn for (_w, fr) in rep["stacks"][:2] for (fn, fl, ln) in fr):
                    return {"scenario": name, "rep": rep}
            for (name, rep, ms) in d.get("all", []):
                if site.split("/")[-1] in ms or site.split("/")[0] in ms:
                    return {"scenario": name, "rep": rep}
        return d

    for (k, v) in static_known:
        chk.known(k, "key=%s %s%s" % (k, known[k], "" if not witness_for(v[0], v[2]) else " [TSan: %s]" % witness_for(v[0], v[2])["scenario"]))
    if static_bad and not replay:
        # look harder for a run that exhibits the new violations (more rounds of the whole suite)
        need = set((v[0], v[2]) for (k, v) in static_bad if v[3] in ("R", "W", "destroy", "useafter")) - set(reports)
        extra = 0
        while need and extra < (3 if tier == "quick" else 10):
            extra += 1
            for (name, rnd, rc, so, se, secs) in run_scenarios(tsan, [n for n, _ in scen], 1):
                chk.cov["evaluations"] += 1
                for rep in parse_tsan_all(se):
                    common, per = map_report(rep, idx)
                    for cf in common:
                        if cf not in reports:
                            reports[cf] = {"scenario": name, "rep": rep, "methods": set(m for hit in per for (c, f, m, kk) in hit), "count": 1}
            need -= set(reports)
    for (k, v) in static_bad:
        text = viol_text(recs, v, summary)
        w = witness_for(v[0], v[2], v[1]) if v[3] in ("R", "W", "destroy", "useafter") + BORROW_KINDS else None
        if v[0] == "static":
            w = globals_seen.get(v[2])
        if w:
            p = chk.write_replay("static_%s.case" % re.sub(r"\W+", "_", k)[:80],
                                 replay_text([text, "discipline_ok no longer holds / unrecorded violation; witness below",
                                              "propose: known: property=C08 key=%s %s" % (k, text)],
                                             ["static %s" % k, "scenario %s rounds=5" % w["scenario"]], short_report(w["rep"])))
            chk.violation(p, "C08 violated: %s; ThreadSanitizer witness in scenario %s" % (text, w["scenario"]))
        else:
            ffw = [b for b in ff_bad if v[3] in ("nofailfast", "call")]
            sfw, _seen = [], set()
            for s_ in scen_fail:
                if v[3] == "call" and s_[0] not in _seen:
                    _seen.add(s_[0])
                    sfw.append(s_)
            if ffw or sfw:
                items = ["static %s" % k] + ["failfast %s" % b[0] for b in ffw] + ["scenario %s" % s[0] for s in sfw]
                body = "\n".join([b[1] + "\n" + b[2] for b in ffw] + ["scenario %s rc=%s\n%s" % s for s in sfw])
                p = chk.write_replay("static_%s.case" % re.sub(r"\W+", "_", k)[:80], replay_text([text], items, body))
                chk.violation(p, "C08 violated: %s" % text)
            else:
                p = chk.write_replay("static_%s.case" % re.sub(r"\W+", "_", k)[:80],
                                     replay_text([text, "obligation that no longer checks: C08_pinned_summaries_disciplined_partial "
                                                  "(discipline_ok summaries table table_waivers = true) in coq/Properties_C08.v" if
                                                  tuple(v[:4]) not in waived else
                                                  "recorded in lib/C08_table.txt (waiver) but not listed in KNOWN_FINDINGS.txt",
                                                  "propose: known: property=C08 key=%s %s" % (k, text)],
                                                 ["static %s" % k], "no run of the TSan / fail-fast suites exhibited it in this check"))
                chk.violation(p, "C08 violated (access summary): %s" % text, no_input=True)

    for (cf, d, k) in tsan_known:
        if k not in chk.known_hits:
            chk.known(k, "key=%s %s [TSan: %s]" % (k, known[k], d["scenario"]))
    static_members = set((v[0], v[2]) for (k, v) in static_bad)
    for (cf, d, _) in tsan_bad:
        if cf in static_members or (cf[0] == "~" and (cf[1], cf[2]) in static_members):
            continue            # already reported with this witness
        what = ("%s::%s between %s" % (cf[0], cf[1], "/".join(sorted(d["methods"])))) if cf[0] != "?" else cf[1]
        p = chk.write_replay("tsan_%s.case" % re.sub(r"\W+", "_", d["scenario"] + "_" + str(cf[1]))[:80],
                             replay_text(["ThreadSanitizer report not explained by a recorded finding: %s" % what],
                                         ["scenario %s rounds=5" % d["scenario"]], short_report(d["rep"]) + "\n\n" + d["rep"]["text"][:8000]))
        chk.violation(p, "C08 violated: ThreadSanitizer %s on %s in scenario %s (%d run(s))" % (d["rep"]["kind"], what, d["scenario"], d["count"]))
    explained = set()
    for (k, v) in static_bad:
        if v[3] in ("nofailfast", "call"):
            explained.add("ff")
    for (op, msg, txt) in ff_bad:
        if "ff" in explained and op != "control_owner_ok":
            continue
        p = chk.write_replay("failfast_%s.case" % op, replay_text([msg], ["failfast %s" % op], txt))
        chk.violation(p, "C08 violated: " + msg)
    reported_scen = set()
    for (name, rc, tail) in scen_fail:
        if name in reported_scen or "ff" in explained:
            continue
        reported_scen.add(name)
        p = chk.write_replay("scenario_%s.case" % name, replay_text(["scenario %s ended abnormally (rc=%s): a thread-safe operation "
                                                                    "aborted/crashed/hung" % (name, rc)], ["scenario %s" % name], tail))
        chk.violation(p, "C08 violated: scenario %s ended abnormally (rc=%s): %s" % (name, rc, tail.strip().split("\n")[-1][:200]))

    # proofs broken for another reason than a listed violation
    if not pr["ok"] and not chk.violations:
        p = chk.write_replay("broken_obligation.txt", "proof obligation(s) of Properties_C08.v no longer check: %s %s\n--- coq log tail ---\n%s"
                             % (pr["broken"], pr["problems"], pr["log"][-3000:]))
        chk.violation(p, "proof obligation(s) no longer check: %s %s" % (pr["broken"], pr["problems"]), no_input=True)

    # ---- evidence
    chk.add_obligation("static: every violation of the table in the regenerated summaries is a recorded finding (Coq list = %d, unrecorded = %d)"
                       % (len(recs["V"]), len(static_bad)), not static_bad)
    chk.add_obligation("extractor coverage: every operation the property names has a summary over all its overloads (%d methods%s)"
                       % (len(NAMED_BODIES), "" if not named_missing else "; missing: " + ", ".join(named_missing)), not named_missing)
    inv_failed = summary.get("static_tus_failed") or []
    if inv_failed:
        p_ = chk.write_replay("static_inventory_incomplete.txt", "translation units that could not be compiled for the static-storage "
                              "inventory (their static variables are NOT inventoried): %s\n" % ", ".join(inv_failed))
        chk.violation(p_, "C08 static-storage inventory incomplete: %s did not compile - obligation C08_static_storage_checked is "
                          "not discharged for them" % ", ".join(inv_failed), no_input=True)
    chk.add_obligation("static-storage inventory complete: all %d translation units of base, net, poller, http, protobuf, protorpc "
                       "compiled (%d variables)%s" % (len(summary.get("static_tus") or []), len(summary.get("statics") or {}),
                                                      "" if not inv_failed else "; FAILED: " + ", ".join(inv_failed)), not inv_failed)
    chk.add_obligation("TSan suite: every report is explained by a recorded finding (%d scenarios, %d reports on %d members)"
                       % (len(ran), sum(d["count"] for d in reports.values()), len(reports)), not tsan_bad and not scen_fail)
    chk.add_obligation("fail-fast suite: %d confined operations abort off-thread, control call returns" % len(ffops), not ff_bad)
    chk.cov["distinct_nontrivial"] = len(ran) + (len(ffops) - len(ff_bad))
    chk.cov["rule"] = ("one evaluation = one process run of a TSan scenario or of a fail-fast operation; non-trivial = the scenario ran to "
                       "completion or produced a TSan report (each scenario performs real cross-thread calls against a busy loop thread / "
                       "worker threads), resp. the confined operation was reached from a foreign thread; distinct by scenario / operation "
                       "name.  TSan runs find failing inputs, they are not proof-level coverage.")
    for (cf, d, k) in (tsan_known + [(a, b, None) for (a, b, _) in tsan_bad])[:4]:
        chk.sample({"scenario": d["scenario"], "member": "%s::%s" % (cf[-2], cf[-1]) if cf[0] != "?" else cf[1], "known_key": k,
                    "report": short_report(d["rep"], 4).split("\n")[:12]})
    chk.sample({"failfast": [(op, rc) for (op, rc, so, se, secs) in ffres]})
    chk.trusted("translator lib/gen_C08.py + clang 14 JSON AST (access summaries; each entry echoes file:line), lib/C08_table.txt "
                "(hand-written protection table and contracts)",
                "ThreadSanitizer (clang 14) as failing-input finder; harness/C08_tsan_*.cc, harness/C08_failfast.cc",
                "the abstract trace semantics of C08_Model (sequentially consistent interleavings; no C++ memory model; "
                "locations live for the whole trace: no aliasing / lifetime)")
    return chk.finish(level="proof", assumptions=[
        "real executions are interleavings of the event blocks the access summaries stand for (extractor faithfulness; sampled by TSan)",
        "object lifetime and aliasing are outside the field-level discipline (F-4, F-7, F-13 are handled by C05/C07/C12)",
        "pthread mutexes / condition variables / eventfd / thread start+join provide the synchronises-with edges assumed by hb",
        "Mutex.h/Condition.h/Atomic.h are primitives (class Sync/Atomic), exercised by TSan but not summarised"])
