"""C17: log text equals printf output, stays in bounds and carries true metadata.
proof (Properties_C17.v over C17_Model.v, tables/constants/guards/gates/ladders regenerated from the
sources) + correspondence of the extracted model with the real LogStream / Logger / formatSI /
formatIEC (ASan/UBSan, asserts on) + an independent oracle (the property text, in Python) evaluated
on the implementation's own output, including true time / thread id (inequalities, never equality)."""
import os, re, sys, glob, struct, time, zlib, calendar
import vlib

CAP_DEFAULT, KMAX_DEFAULT = 4000, 48
TYPES = {"s": (-2 ** 15, 2 ** 15 - 1), "us": (0, 2 ** 16 - 1), "i": (-2 ** 31, 2 ** 31 - 1), "u": (0, 2 ** 32 - 1),
         "l": (-2 ** 63, 2 ** 63 - 1), "ul": (0, 2 ** 64 - 1), "ll": (-2 ** 63, 2 ** 63 - 1), "ull": (0, 2 ** 64 - 1)}
LEVELS = [b"TRACE ", b"DEBUG ", b"INFO  ", b"WARN  ", b"ERROR ", b"FATAL "]
MACRO_LEVEL = [0, 1, 2, 3, 4, 5, 4, 5]
F9 = (99949999999999992, 99949999999999999)     # F-9, fixed in the source by af480e4: exercised on every run, no key any more
KEY_TZ = "Logger:stale-second-cache-after-setTimeZone"


def crc(b):
    return "%08x" % (zlib.crc32(b) & 0xffffffff)


def spec_bytes(s):
    if s == "-":
        return b""
    if s.startswith("@"):
        ln, seed = s[1:].split(":")
        x = (int(seed) & 0xffffffff) | 1
        out = bytearray()
        for _ in range(int(ln)):
            x ^= (x << 13) & 0xffffffff
            x ^= x >> 17
            x ^= (x << 5) & 0xffffffff
            out.append(x & 255)
        return bytes(out)
    return bytes.fromhex(s)


def fmt_g12(d):
    if d != d:
        return None          # "nan" or "-nan": both accepted
    return ("%.12g" % d).encode()


def item_text(t):
    """What printf would print for the item (None = any of nan/-nan; 'REJ' = not a value of the type)."""
    k = t[0]
    if k == "B":
        return b"1" if t[1] == "1" else b"0"
    if k == "C":
        return bytes([int(t[1]) & 255])
    if k == "S":
        return spec_bytes(t[1]).split(b"\0")[0]
    if k == "SN":
        return b"(null)"
    if k in ("STR", "SP"):
        return spec_bytes(t[1])
    if k == "I":
        v = int(t[2])
        lo, hi = TYPES[t[1]]
        return ("%d" % v).encode() if lo <= v <= hi else "REJ"
    if k == "P":
        v = int(t[1])
        return ("0x%X" % v).encode() if 0 <= v < 2 ** 64 else "REJ"
    if k == "D":
        v = int(t[1])
        if not 0 <= v < 2 ** 64:
            return "REJ"
        return fmt_g12(struct.unpack("<d", struct.pack("<Q", v))[0])
    if k == "F":
        v = int(t[1])
        if not 0 <= v < 2 ** 32:
            return "REJ"
        return fmt_g12(struct.unpack("<f", struct.pack("<I", v))[0])
    if k == "FMI":        # Fmt("%07d", int): a value iff the text passes the constructor's assert (length < 32)
        v = int(t[1])
        if not -2 ** 31 <= v < 2 ** 31:
            return "REJ"
        txt = ("%07d" % v).encode()
        return txt if len(txt) < 32 else "REJ"
    if k == "FMD":        # Fmt("%10.4f", double)
        v = int(t[1])
        if not 0 <= v < 2 ** 64:
            return "REJ"
        d = struct.unpack("<d", struct.pack("<Q", v))[0]
        if d != d:
            txt = (b"      -nan" if v >> 63 else b"       nan")
        else:
            txt = ("%10.4f" % d).encode()
        return txt if len(txt) < 32 else "REJ"
    raise ValueError("item " + " ".join(t))


def is_numeric(t):
    return t[0] in ("I", "P", "D", "F")


STREAM = re.compile(r"^(ok|ok-no-nul) len=(-?\d+) avail=(-?\d+) h=(\w+) t=(\S+)$")


class Fail(Exception):
    def __init__(self, idx, msg, key=None):
        Exception.__init__(self, msg)
        self.idx, self.msg, self.key = idx, msg, key


def check_pieces(line, pieces, cap, kmax, idx, what):
    """`line` must be the concatenation of the pieces that fitted, in order; a piece may be missing
    only when the remaining space is short (less than its length + the numeric headroom)."""
    pos = 0
    for (txt, name) in pieces:
        alts = [txt] if txt is not None else [b"nan", b"-nan"]
        hit = next((a for a in alts if line[pos:pos + len(a)] == a and pos + len(a) <= cap), None)
        if hit is not None and (len(hit) > 0 or True):
            # present (an empty piece is trivially present)
            room = cap - pos
            if len(hit) > room:
                raise Fail(idx, "%s: %s does not fit (%d bytes at offset %d of %d)" % (what, name, len(hit), pos, cap))
            pos += len(hit)
        else:
            room = cap - pos
            if room >= max(len(a) for a in alts) + kmax:
                raise Fail(idx, "%s: %s missing or altered at offset %d although %d bytes were free (expected %r, found %r)"
                           % (what, name, pos, room, alts[0][:40], line[pos:pos + 40]))
    if pos != len(line):
        raise Fail(idx, "%s: %d unexpected trailing bytes %r" % (what, len(line) - pos, line[pos:pos + 40]))


def expected_date(sec, east):
    tm = time.gmtime(sec + (east or 0))
    return ("%4d%02d%02d %02d:%02d:%02d" % tm[:6]).encode()


def parse_line_time(line):
    """(microseconds since epoch, has Z) from the head of a UTC line."""
    m = re.match(rb"^(\d{4})(\d\d)(\d\d) (\d\d):(\d\d):(\d\d)\.(\d{6})(Z?) ", line)
    if not m:
        return None
    y, mo, d, h, mi, s, us = [int(x) for x in m.groups()[:7]]
    return calendar.timegm((y, mo, d, h, mi, s)) * 1000000 + us, m.group(8) == b"Z"


def oracle(case, lines, cap, kmax):
    """The property text evaluated on the implementation's output.  Raises Fail."""
    content = b""
    level, east, prev_east = 2, None, None
    if not lines or not lines[0].startswith("case "):
        raise Fail(0, "bad case line")
    for i, op in enumerate(case.ops):
        if i + 1 >= len(lines) or lines[i + 1] == "end":
            raise Fail(i, "missing output for %r" % op)
        out = lines[i + 1]
        det, _, nd = out.partition(" |nd ")
        t = op.split()
        k = t[0]
        if "OUT-OF-BOUNDS" in out:
            raise Fail(i, "after %r the cursor is outside the buffer: %s" % (op, out))
        if k in ("B", "C", "S", "SN", "STR", "SP", "I", "P", "D", "F", "FMI", "FMD", "DS", "RST"):
            if k == "RST":
                content = b""
            exp = None if k in ("DS", "RST") else item_text(t)
            if exp == "REJ":
                if det != "rejected":
                    raise Fail(i, "%r is not a value of the type but was not rejected by the driver" % op)
                continue
            m = STREAM.match(det)
            if not m:
                raise Fail(i, "unparsable output %r" % out)
            ln, av, h = int(m.group(2)), int(m.group(3)), m.group(4)
            if not (0 <= ln <= cap and av == cap - ln):
                raise Fail(i, "after %r length=%d avail=%d capacity=%d" % (op, ln, av, cap))
            if k == "DS":
                if m.group(1) != "ok" or ln != len(content) or h != crc(content):
                    raise Fail(i, "debugString changed the contents or stored no NUL at the cursor (%s)" % out)
                continue
            if k == "RST":
                if ln != 0:
                    raise Fail(i, "resetBuffer left %d bytes" % ln)
                continue
            alts = [exp] if exp is not None else [b"nan", b"-nan"]
            ok = False
            for a in alts:
                if ln == len(content) + len(a) and h == crc(content + a):
                    content += a
                    ok = True
                    break
            if not ok:
                if ln == len(content) and h == crc(content):
                    room = cap - len(content)
                    if room >= max(len(a) for a in alts) + kmax:
                        raise Fail(i, "%r left out although %d bytes were free" % (op, room))
                else:
                    raise Fail(i, "after %r the contents are neither the old contents nor the old contents + printf's text %r (%s)"
                               % (op, alts[0][:60], out))
        elif k in ("IR", "PRX"):
            m = re.match(r"^ok n=(\d+) h=(\w+) bad=(\S+)$", det)
            if not m:
                raise Fail(i, "unparsable output %r" % out)
            if m.group(3) != "-":
                raise Fail(i, "%s: value %s is not printed as snprintf prints it" % (op, m.group(3)))
            o = 1 if k == "PRX" else 2
            lo, hi, step = int(t[o]), int(t[o + 1]), int(t[o + 2])
            n = (hi - lo) // step + 1
            if n <= 300000:
                fmt = "0x%X" if k == "PRX" else "%d"
                h = crc("".join((fmt % v) + "\n" for v in range(lo, hi + 1, step)).encode())
                if int(m.group(1)) != n or m.group(2) != h:
                    raise Fail(i, "%s: the texts differ from printf's (crc %s, expected %s over %d values)" % (op, m.group(2), h, n))
        elif k == "FM":
            m = re.match(r"^fmt=(\w*) snprintf=(\w*)$", nd)
            if not m or m.group(1) != m.group(2):
                raise Fail(i, "Fmt differs from snprintf: %s" % out)
        elif k == "SE":
            m = re.match(r"^where=(buf|static) len=(\d+) size=(\d+) text=(\w*)$", nd)
            if not m or det != "ok":
                raise Fail(i, "unparsable output %r" % out)
            txt = bytes.fromhex(m.group(4))
            # the errno text of a line: a C string; inside strerror_tl's buffer it is shorter than the buffer; it is what strerror says
            if int(m.group(2)) != len(txt) or (m.group(1) == "buf" and len(txt) >= int(m.group(3))):
                raise Fail(i, "strerror_tl(%s): text of %s bytes in a buffer of %s" % (t[1], m.group(2), m.group(3)))
            if txt != os.strerror(int(t[1])).encode():
                raise Fail(i, "strerror_tl(%s) = %r, strerror says %r" % (t[1], txt, os.strerror(int(t[1]))))
        elif k in ("SI", "IEC"):
            n = int(t[1])
            if n < 0 or n >= 2 ** 63:
                if det != "rejected":
                    raise Fail(i, "%r outside [0,2^63) not rejected" % op)
                continue
            txt = bytes.fromhex(det.split()[1]).decode("latin1")
            width = 5 if k == "SI" else 6
            m = re.match(r"^(\d+)(?:\.(\d+))?(?:([kMGTPE])|([KMGTPE])i)?$", txt)
            if not m or (k == "SI" and m.group(4)) or (k == "IEC" and m.group(3)):
                raise Fail(i, "%s -> %r: not a number with a unit" % (op, txt))
            base = 1000 if k == "SI" else 1024
            u = (m.group(3) or m.group(4) or "").upper()
            unit = base ** (" KMGTPE".index(u) if u else 0)
            p = len(m.group(2) or "")
            scaled = int(m.group(1) + (m.group(2) or ""))          # value * 10^p
            # "within rounding error of n": |scaled/10^p * unit - n| <= half a unit of the last printed digit
            # + 3 * 2^-53 * n (the two binary64 roundings before printf's), in exact integers -- the bound of
            # C17_units_accurate; without a unit the text must be n itself
            err = abs(scaled * unit - n * 10 ** p)
            if (not u and (p or scaled != n)) or err * 2 ** 53 > unit * 2 ** 52 + 3 * n * 10 ** p:
                raise Fail(i, "%s -> %r is not within rounding error of n" % (op, txt))
            if m.group(1) != "0" and m.group(1).startswith("0"):
                raise Fail(i, "%s -> %r: leading zero" % (op, txt))
            if len(txt) > width:
                raise Fail(i, "%s(%d) = %r: %d characters, at most %d promised" % ("formatSI" if k == "SI" else "formatIEC", n, txt, len(txt), width))
        elif k == "LV":
            level = int(t[1])
        elif k == "TZ":
            prev_east = east
            east = None if t[1] == "none" else int(t[1])
        elif k == "LOG":
            kv = dict(x.split("=", 1) for x in t[2:t.index("|")] if "=" in x)
            items = [x.split() for x in " ".join(t[t.index("|") + 1:]).split(";") if x.strip()]
            texts = [item_text(x) for x in items]
            if any(x == "REJ" for x in texts):
                if det != "rejected":
                    raise Fail(i, "item outside its type not rejected")
                continue
            m = re.match(r"^ok n=(\d+) h=(\w+) line=(\w+)$", det)
            if not m:
                raise Fail(i, "unparsable output %r" % out)
            us = int(kv["t"])
            sec, micro = us // 1000000, us % 1000000
            err = int(kv["errno"])
            lvl = 4 if err else int(t[1])
            pieces = [(expected_date(sec, east), "date and time of the current second in %s" % ("UTC" if east is None else "the configured zone")),
                      ((".%06d" % micro).encode() + (b"Z " if east is None else b" "), "microseconds"),
                      (("%5d " % int(kv["tid"])).encode(), "thread id"), (LEVELS[lvl], "level name")]
            if err:
                pieces += [(os.strerror(err).encode(), "errno text"), (b" (errno=", "errno text"), (b"%d" % err, "errno"), (b") ", "errno text")]
            elif kv["func"] != "-":
                pieces += [(spec_bytes(kv["func"]).split(b"\0")[0], "function name"), (b" ", "blank")]
            pieces += [(x, "message item %r" % " ".join(it)) for x, it in zip(texts, items)]
            path = spec_bytes(kv["path"]).split(b"\0")[0]
            pieces += [(b" - ", "separator"), (path.rsplit(b"/", 1)[-1], "base name of the source file"), (b":", "colon"),
                       (kv["line"].encode(), "line number"), (b"\n", "newline")]
            if m.group(3) == "long":
                import itertools
                nn = sum(1 for p, _ in pieces if p is None)
                variants = [b"".join((next(it) if p is None else p) for p, _ in pieces)
                            for combo in itertools.product([b"nan", b"-nan"], repeat=min(nn, 6)) for it in [iter(combo + (b"nan",) * nn)]]
                if all(len(v) + kmax <= cap for v in variants) and not any(int(m.group(1)) == len(v) and m.group(2) == crc(v) for v in variants):
                    # the one recorded way to get a stale date (same signature as for short lines): the zone was changed within
                    # the cached second and the line is exactly the expected one with the PREVIOUS zone's date text of that second
                    key = None
                    if getattr(case, "tz_same_second", False):
                        stale = expected_date(sec, prev_east)
                        if any(int(m.group(1)) == len(v) and m.group(2) == crc(stale + v[len(stale):]) for v in variants):
                            key = KEY_TZ
                    raise Fail(i, "long line (%s bytes) differs from the expected %d bytes%s"
                               % (m.group(1), len(variants[0]), " (it is the expected line with the previous zone's date text)" if key else ""), key)
                if int(m.group(1)) > cap:
                    raise Fail(i, "line of %s bytes exceeds the buffer" % m.group(1))
            else:
                line = bytes.fromhex(m.group(3))
                try:
                    check_pieces(line, pieces, cap, kmax, i, "log line")
                except Fail as f:
                    # the one recorded way to get a stale date: zone changed within the cached second
                    if "date and time" in f.msg and getattr(case, "tz_same_second", False):
                        f.key = KEY_TZ
                    raise f
        elif k == "M":
            mac = int(t[1])
            m = re.match(r"^ok emitted=(\d) line=(\S+)( NOT-ABORTED)?$", det)
            if not m:
                raise Fail(i, "unparsable output %r" % out)
            want = 1 if (MACRO_LEVEL[mac] >= 3 or level <= MACRO_LEVEL[mac]) else 0
            if int(m.group(1)) != want:
                raise Fail(i, "macro #%d with configured level %d: emitted=%s, the property requires %d" % (mac, level, m.group(1), want))
            if m.group(3):
                raise Fail(i, "FATAL line did not abort the process")
            if want:
                line = bytes.fromhex(m.group(2))
                pieces = [(expected_date(1700000000, east), "date and time"), (b".123456" + (b"Z " if east is None else b" "), "microseconds"),
                          (b" 4711 ", "thread id"), (LEVELS[MACRO_LEVEL[mac]], "level name")]
                if mac >= 6:
                    pieces += [(os.strerror(2).encode() + b" (errno=2) ", "errno text")]
                if mac <= 1:
                    pieces += [(b"macroSite ", "function name")]
                pieces += [(b"m42", "message"), (b" - C17_site.cc:%d\n" % (4244 + mac), "base name and line")]
                check_pieces(line, pieces, cap, kmax, i, "macro line")
        elif k == "NOW":
            mflags = re.match(r"^ok main=(\d) main2=(\d) thread=(\d) child=(\d) childthread=(\d)$", det)
            if not mflags:
                raise Fail(i, "unparsable output %r" % out)
            if mflags.groups() != ("1",) * 5:
                who = [w for w, f in zip(("main", "main2", "thread", "child", "childthread"), mflags.groups()) if f != "1"]
                raise Fail(i, "true thread id: the line logged by %s does not carry the kernel thread id of the thread that logged it" % ", ".join(who))
            samples = {}
            for tok in nd.split():
                if ":" in tok and "t0=" in tok:
                    who, rest = tok.split(":", 1)
                    samples[who] = dict(x.split("=") for x in rest.split(","))
            if set(samples) != {"main", "main2", "thread", "child", "childthread"}:
                raise Fail(i, "true-metadata samples missing: %s" % sorted(samples))
            for who, s in samples.items():
                line = bytes.fromhex(s["line"])
                pt = parse_line_time(line)
                if pt is None or not pt[1]:
                    raise Fail(i, "%s: line does not start with a UTC time stamp: %r" % (who, line[:40]))
                if not int(s["t0"]) <= pt[0] <= int(s["t1"]):
                    raise Fail(i, "%s: time stamp %d outside the call window [%s, %s]" % (who, pt[0], s["t0"], s["t1"]))
                mm = re.match(rb"^.{17}\.\d{6}Z +(\d+) WARN  (\S+) - C17_driver.cc:\d+\n$", line)
                if not mm:
                    raise Fail(i, "%s: line shape: %r" % (who, line))
                if int(mm.group(1)) != int(s["tid"]):
                    raise Fail(i, "%s: line carries thread id %s, gettid() of the emitting thread is %s" % (who, mm.group(1).decode(), s["tid"]))
            tids = [samples[w]["tid"] for w in ("main", "thread", "child", "childthread")]
            if len(set(tids)) != 4 or samples["main"]["tid"] != samples["main2"]["tid"]:
                raise Fail(i, "thread ids not distinct per thread/process: %s" % tids)
        else:
            raise Fail(i, "unknown op %r" % op)
    return None


# ---------------------------------------------------------------- generators

def hexs(b):
    return b.hex() if b else "-"


def boundary_ints():
    vals = set()
    for k in range(0, 65):
        for d in (-2, -1, 0, 1, 2):
            vals.add(2 ** k + d)
            vals.add(-(2 ** k) + d)
    for k in range(0, 21):
        for d in (-2, -1, 0, 1, 2):
            vals.add(10 ** k + d)
            vals.add(-(10 ** k) + d)
    return sorted(vals)


def int_item(rng, ty=None, v=None):
    ty = ty or rng.choice(list(TYPES))
    lo, hi = TYPES[ty]
    if v is None:
        v = rng.choice([lo, hi, 0, -1 if lo < 0 else 1, rng.randint(lo, hi), rng.randint(-99, 99) if lo < 0 else rng.randint(0, 99),
                        rng.choice([10 ** rng.randint(0, 19) + rng.randint(-2, 2), 2 ** rng.randint(0, 63) + rng.randint(-2, 2)])])
        v = min(max(v, lo), hi)
    return "I %s %d" % (ty, v)


def double_bits(rng):
    special = [0, 1 << 63, 0x7FF0000000000000, 0xFFF0000000000000, 0x7FF8000000000000, 0xFFF8000000000000, 1, 0x000FFFFFFFFFFFFF,
               0x0010000000000000, 0x7FEFFFFFFFFFFFFF, 0x3FF0000000000000, 0x3CB0000000000000]
    c = rng.random()
    if c < 0.15:
        return rng.choice(special)
    if c < 0.55:
        # decimal boundaries: 10^k, 999.5-type values, the %g switch points 1e-5, 1e-4, 1e12, +- a few ulps
        base = rng.choice([10.0 ** rng.randint(-8, 24), 9.995 * 10.0 ** rng.randint(-3, 14), 999999999999.5, 99999999999.95,
                           0.0001, 0.00001, 123456789012.5, 1234567890125.0, 0.5, 2.5e-5, 1e12 - 0.5, 1e-4 - 1e-17])
        b = struct.unpack("<Q", struct.pack("<d", base))[0] + rng.randint(-3, 3)
        return (b | (rng.choice([0, 1]) << 63)) & (2 ** 64 - 1)
    if c < 0.75:
        return struct.unpack("<Q", struct.pack("<d", float(rng.randint(-10 ** 15, 10 ** 15)) / 10 ** rng.randint(0, 15)))[0]
    return rng.getrandbits(64)


def rand_item(rng, maxlen=40):
    c = rng.random()
    if c < 0.30:
        return int_item(rng)
    if c < 0.40:
        return "P %d" % rng.choice([0, 1, 2 ** 64 - 1, 2 ** 63, rng.getrandbits(64), rng.getrandbits(rng.randint(1, 48)), 16 ** rng.randint(1, 15) - 1])
    if c < 0.52:
        return "D %d" % double_bits(rng)
    if c < 0.56:
        return "F %d" % rng.choice([0, 0x7F800000, 0x7FC00000, 0x3F800000, 0x40490FDB, rng.getrandbits(32)])
    if c < 0.57:
        if rng.random() < 0.5:
            return "FMI %d" % rng.choice([0, -1, 2 ** 31 - 1, -2 ** 31, rng.randint(-10 ** 7, 10 ** 7), 2 ** 31])
        return "FMD %d" % rng.choice([double_bits(rng), struct.unpack("<Q", struct.pack("<d", rng.uniform(-10 ** 6, 10 ** 6)))[0],
                                      struct.unpack("<Q", struct.pack("<d", 10.0 ** rng.randint(18, 30)))[0]])
    if c < 0.62:
        return "B %d" % rng.randint(0, 1)
    if c < 0.70:
        return "C %d" % rng.choice([65, 32, 10, 0, 255, rng.randint(1, 254)])
    if c < 0.74:
        return "SN"
    ln = rng.choice([0, 1, 2, 7, rng.randint(0, maxlen)])
    b = bytes(rng.choice(b"abcdefghijklmnopqrstuvwxyz /-_.%") for _ in range(ln))
    if c < 0.84:
        return "S " + hexs(b)
    if c < 0.87:
        return "S " + hexs(b + b"\0" + b"tail")          # strlen stops at the NUL
    if c < 0.94:
        return "STR " + hexs(b if rng.random() < 0.7 else b + b"\0x")
    return "SP " + hexs(b)


def gen_sweeps(tier, rng):
    cases = []
    ranges16 = {"s": (-32768, 32767), "us": (0, 65535), "i": (-32768, 65535), "u": (0, 65535), "l": (-32768, 65535),
                "ul": (0, 65535), "ll": (-32768, 65535), "ull": (0, 65535)}
    for ty, (lo, hi) in ranges16.items():
        n = hi - lo + 1
        parts = 4
        for p in range(parts):
            a, b = lo + p * n // parts, lo + (p + 1) * n // parts - 1
            cases.append(vlib.Case("x16_%s_%d" % (ty, p), "", ["IR %s %d %d 1" % (ty, a, b)], "exhaustive-16bit"))
    # 32-bit: stratified (one value per stratum, random offset), every type that has 32-bit values
    strata = 1 << (12 if tier == "quick" else 20)
    for ty in ("i", "u", "l", "ul", "ll", "ull"):
        lo, hi = (-2 ** 31, 2 ** 31 - 1) if ty in ("i", "l", "ll") else (0, 2 ** 32 - 1)
        step = 2 ** 32 // strata
        parts = 2 if tier == "quick" else 16
        for p in range(parts):
            a = lo + p * (2 ** 32 // parts) + rng.randrange(step)
            b = min(hi, lo + (p + 1) * (2 ** 32 // parts) - 1)
            cases.append(vlib.Case("x32_%s_%d" % (ty, p), "", ["IR %s %d %d %d" % (ty, a, b, step)], "stratified-32bit"))
    cases.append(vlib.Case("xptr", "", ["PRX 0 70000 1", "PRX %d %d %d" % (rng.randrange(2 ** 40), 2 ** 64 - 1, 2 ** 64 // 5003)], "pointers"))
    return cases


def gen_full32():
    """thorough only, implementation side only: all 2^32 values of int and unsigned against snprintf."""
    cases = []
    for ty, lo in (("i", -2 ** 31), ("u", 0)):
        for p in range(32):
            a = lo + p * 2 ** 27
            cases.append(vlib.Case("f32_%s_%d" % (ty, p), "", ["IR %s %d %d 1" % (ty, a, a + 2 ** 27 - 1)], "full-32bit-impl-only"))
    return cases


def gen_boundary(rng):
    cases = []
    ops = []
    bi = boundary_ints()
    for ty, (lo, hi) in TYPES.items():
        vs = sorted(set([v for v in bi if lo <= v <= hi] + [lo, lo + 1, hi, hi - 1]))
        for v in vs:
            ops.append("I %s %d" % (ty, v))
        ops += ["I %s %d" % (ty, hi + 1), "I %s %d" % (ty, lo - 1)]          # not values of the type
    for k in range(0, 65, 4):
        for d in (-1, 0, 1):
            v = 2 ** k + d
            if 0 <= v < 2 ** 64:
                ops.append("P %d" % v)
    ops += ["P %d" % (16 ** k - 1) for k in range(1, 17)] + ["P %d" % 2 ** 64]
    for _ in range(600):
        ops.append("D %d" % double_bits(rng))
    for b in (0, 0x80000000, 0x7F800000, 0xFF800000, 0x7FC00000, 1, 0x3F800000, 0x7F7FFFFF, 0x00800000, 2 ** 32):
        ops.append("F %d" % b)
    ops += ["B 0", "B 1", "SN", "S -", "S 00", "STR 00", "C 0", "C 255"]
    # Fmt: texts of 7..11 characters, and doubles whose %10.4f text reaches / passes the 31 characters the buffer can hold
    ops += ["FMI 0", "FMI -1", "FMI 2147483647", "FMI -2147483648", "FMI 2147483648", "FMI -2147483649"]
    for e in (0, 5, 20, 24, 25, 26, 27, 300):
        for sgn in (1.0, -1.0):
            ops.append("FMD %d" % struct.unpack("<Q", struct.pack("<d", sgn * 1.5 * 10.0 ** e))[0])
    ops += ["FMD %d" % b for b in (0, 1 << 63, 0x7FF0000000000000, 0xFFF0000000000000, 0x7FF8000000000000, 0xFFF8000000000000, 2 ** 64)]
    chunk = 60
    for i in range(0, len(ops), chunk):
        body = []
        for j, o in enumerate(ops[i:i + chunk]):
            body.append(o)
            if j % 25 == 24:
                body.append("DS")
                body.append("RST")
        cases.append(vlib.Case("b%d" % (i // chunk), "", body, "boundary-values"))
    cases.append(vlib.Case("strerror", "", ["SE %d" % e for e in (0, 1, 2, 11, 13, 32, 104, 110, 133, 134, 9999, 65536, 2 ** 31 - 1, -1, -2 ** 31)], "strerror_tl"))
    for i in range(8):
        cases.append(vlib.Case("fm%d" % i, "", ["FM 0 %d" % rng.choice([0, -1, 2 ** 31 - 1, -2 ** 31]), "FM 1 %d" % rng.randint(0, 999999),
                                                "FM 2 %d" % rng.choice([-1, 0, 2 ** 63 - 1, rng.getrandbits(62)]), "FM 3 %d" % struct.unpack("<Q", struct.pack("<d", rng.randint(-10 ** 12, 10 ** 12) / 1000.0))[0]], "Fmt"))
    return cases


def gen_capacity(rng, cap, kmax, count):
    """insertion sequences that fill the buffer to capacity-50 .. capacity+50, then probe with every kind of item."""
    cases = []
    probes = ["C 65", "B 1", "I i 7", "I ll -9223372036854775808", "I ull 18446744073709551615", "P 18446744073709551615",
              "D 13830554455654793216", "D 18442240474082181119", "SN", "S 6162", "STR 616263", "DS"]
    n = 0
    for d in range(-50, 51):
        pre = cap - 100
        ops = ["STR @%d:%d" % (pre, rng.randrange(1, 1 << 30)), "STR @%d:%d" % (100 + d, rng.randrange(1, 1 << 30))]
        ops += ["DS"] + [rng.choice(probes) for _ in range(6)] + ["DS"]
        cases.append(vlib.Case("cap_s%d" % d, "", ops, "capacity-edge-append"))
        n += 1
    # numeric headroom: avail = kmax + d right before a maximal number of every numeric kind
    for d in range(-6, 7):
        for j, big in enumerate(["I ull 18446744073709551615", "I ll -9223372036854775808", "P 18446744073709551615",
                                 "D 18442240474082181119", "I i -2147483648"]):
            fill = cap - kmax - d
            if fill < 0:
                continue
            ops = ["STR @%d:%d" % (fill, rng.randrange(1, 1 << 30)), "DS", big, "DS", "C 66", big, "DS", "S 7a7a", "B 0", "DS"]
            cases.append(vlib.Case("cap_n%d_%d" % (d, j), "", ops, "capacity-edge-numeric"))
    # small remaining space against the longest texts (where a too small kMaxNumericSize would overflow)
    for av in range(1, 30):
        ops = ["STR @%d:7" % (cap - av), "I ull 18446744073709551615", "DS", "D 18442240474082181119", "DS", "P 18446744073709551615", "DS",
               "I ll -9223372036854775808", "DS", "C 67", "DS"]
        cases.append(vlib.Case("cap_a%d" % av, "", ops, "capacity-edge-small-avail"))
    for i in range(count):
        ops = []
        tot = 0
        target = cap + rng.randint(-50, 50)
        while tot < target - 300:
            ln = rng.choice([rng.randint(100, 900), rng.randint(1, 60)])
            ops.append("STR @%d:%d" % (ln, rng.randrange(1, 1 << 30)))
            tot += ln
        for _ in range(rng.randint(15, 40)):
            ops.append(rand_item(rng, 40) if rng.random() < 0.9 else "DS")
        cases.append(vlib.Case("cap_r%d" % i, "", ops, "capacity-random"))
    return cases


PATHS = [b"file.cc", b"dir/file.cc", b"/abs/dir/sub/file.cc", b"a/b/c/d/e/f/g.cc", b"trailing/", b"/", b"", b"//x", b"./x.cc",
         b"../up/../x.cc", b"no_slash_at_all_but_long_" + b"n" * 60 + b".cc", b"d.ir/with.dots/f", b"a//b"]


def gen_logger(rng, cap, kmax, count):
    cases = []
    for ci in range(count):
        ops = []
        t = rng.choice([1, 86399, 951782400, 1700000000, 2 ** 31 - 1, 4102444800, rng.randint(1, 4 * 10 ** 9)]) * 10 ** 6 + rng.randint(0, 999999)
        for _ in range(rng.randint(2, 8)):
            c = rng.random()
            if c < 0.15:
                ops.append("TZ %s" % rng.choice(["none", "28800", "-18000", "3600", "20700", "0"]))
                t += 10 ** 6 * rng.randint(1, 5)          # a zone change is followed by a new second (unless a later line steps the clock back into the cached one: the recorded finding)
                continue
            if c < 0.25:
                ops.append("LV %d" % rng.randint(0, 5))
                continue
            # mostly forward; sometimes the clock is stepped back (gettimeofday is not monotonic): the cache must be refreshed then too
            t += rng.choice([0, 0, 1, 999, 10 ** 6, 10 ** 6 - t % 10 ** 6, rng.randint(0, 3 * 10 ** 6), -10 ** 6, -rng.randint(1, 3 * 10 ** 6)])
            t = max(t, 10 ** 6)
            err = rng.choice([0, 0, 0, 2, 11, 13, 32, 104, 110, 9999])
            func = "-" if err or rng.random() < 0.5 else hexs(rng.choice([b"main", b"operator()", b"f", b"handleRead"]))
            level = rng.randint(0, 4)
            path = rng.choice(PATHS) if rng.random() < 0.8 else b"/".join(bytes(rng.choice(b"abcxyz._-") for _ in range(rng.randint(0, 6))) for _ in range(rng.randint(1, 7)))
            line = rng.choice([0, 1, 12, 99999, 2 ** 31 - 1, rng.randint(1, 5000)])
            tid = rng.choice([1, 7, 99, 4711, 99999, 100000, 4194303, rng.randint(1, 2 ** 22)])
            items = []
            if rng.random() < 0.25:
                # message that brings the line to capacity-50 .. +50
                items.append("STR @%d:%d" % (cap - 150 + rng.randint(-60, 60), rng.randrange(1, 1 << 30)))
            for _ in range(rng.randint(0, 6)):
                items.append(rand_item(rng, 30))
            errtxt = hexs(os.strerror(err).encode()) if err else "-"
            ops.append("LOG %d t=%d tid=%d errno=%d errtxt=%s func=%s path=%s line=%d | %s"
                       % (level, t, tid, err, errtxt, func, hexs(path), line, " ; ".join(items)))
        cases.append(vlib.Case("log%d" % ci, "", ops, "logger-lines"))
    # every macro x every configured level, with and without a zone
    for zone in ("none", "28800"):
        ops = ["TZ " + zone]
        for lv in range(6):
            ops.append("LV %d" % lv)
            ops += ["M %d" % m for m in range(8)]
        cases.append(vlib.Case("gate_%s" % zone, "", ops, "level-gate"))
    return cases


def ladder_bounds():
    """the rung bounds of the regenerated ladders (coq/Gen_C17.v)"""
    txt = open(os.path.join(vlib.COQ, "Gen_C17.v")).read()
    res = {}
    for name in ("si_ladder", "iec_ladder"):
        m = re.search(r"Definition %s .*?:= \[(.*?)\n\]\." % name, txt, re.S)
        res[name] = [-(-int(a) // int(b)) for a, b in re.findall(r"\((?:OnInt|OnDouble) \((\d+)\) \((\d+)\),", m.group(1))] if m else []
        if not res[name]:
            # never continue with an empty table: the generators below aim at these bounds
            raise RuntimeError("ladder_bounds: no rung bound of %s found in coq/Gen_C17.v (format of lib/gen_C17.py's output changed?)" % name)
    return res


def gen_units(rng, count):
    lb = ladder_bounds()
    vals = set([0, 1, 999, 1000, 1023, 1024, 2 ** 53 - 1, 2 ** 53, 2 ** 53 + 1, 2 ** 63 - 1, 2 ** 63 - 2, 2 ** 62, 2 ** 63, -1])
    for b in lb["si_ladder"] + lb["iec_ladder"]:
        for d in range(-3, 4):
            vals.add(b + d)
        # where double(n) crosses the bound although n does not (spacing of doubles near b)
        sp = max(1, 2 ** (max(b.bit_length() - 53, 0)))
        for d in (-2, -1, 1, 2):
            vals.add(b + d * sp)
            vals.add(b + d * sp // 2)
            vals.add(b + d * sp // 2 + (1 if d > 0 else -1))
    for k in range(0, 19):
        for m in (1, 9995, 99950, 999500, 9994, 9996, 99949, 99951, 999499, 999501, 1023, 1024, 10235, 102349):
            for d in (-1, 0, 1):
                vals.add(m * 10 ** k // 1000 + d)
    for k in range(10, 63):
        for d in (-1, 0, 1):
            vals.add(2 ** k + d)
            vals.add(int(2 ** k * 9.995) + d)
            vals.add(int(2 ** k * 99.95) + d)
            vals.add(int(2 ** k * 1023.5) + d)
    vals.update(range(F9[0] - 9, F9[1] + 3))          # F-9's eight integers and their neighbours
    # decimal ties of the last printed digit +-1,2 (where the binary64 roundings decide the digit:
    # C17_half_unit_alone_refuted), for every unit and precision
    vals.add(9145000000000001)
    for base in (1000, 1024):
        for ue in range(1, 7):
            for p in (0, 1, 2):
                step2 = base ** ue                     # 2 * half a unit of the last digit, times 10^p
                for j in (100, 101, 314, 914, 961, 998, 999, 1023):
                    tie = (2 * j + 1) * step2 // (2 * 10 ** p)
                    for d in (-2, -1, 0, 1, 2):
                        vals.add(tie + d)
    vals = sorted(v for v in vals if -1 <= v <= 2 ** 63)
    rnd = []
    for _ in range(count):
        c = rng.random()
        if c < 0.6:
            v = rng.getrandbits(rng.randint(1, 63))
        elif c < 0.8:
            b = rng.choice(lb["si_ladder"] + lb["iec_ladder"])
            v = b + rng.randint(-max(4, b // 10 ** 6), max(4, b // 10 ** 6))
        else:
            v = rng.randrange(2 ** 63)
        if 0 <= v < 2 ** 63:
            rnd.append(v)
    allv = vals + rnd
    cases = []
    for i in range(0, len(allv), 200):
        ops = []
        for v in allv[i:i + 200]:
            ops += ["SI %d" % v, "IEC %d" % v]
        cases.append(vlib.Case("u%d" % (i // 200), "", ops, "formatSI-IEC"))
    return cases


def load_cases(path, prefix):
    cases, cid, ops, flags = [], None, [], {}
    for line in open(path):
        line = line.rstrip("\n")
        if line.startswith("# flag "):
            flags[line.split()[2]] = True
        if not line or line.startswith("#"):
            continue
        if line.startswith("---"):
            break
        if line.startswith("case "):
            cid, ops = prefix + line.split()[1], []
        elif line == "end":
            c = vlib.Case(cid, "", ops, "corpus")
            cases.append(c)
        else:
            ops.append(line)
    return cases, flags


class TzCase(vlib.Case):
    __slots__ = ("tz_same_second",)


def mark_tz(case):
    """does the case change the zone and then log within the second the cache is labelled with"""
    last_sec, pending = None, False
    for op in case.ops:
        t = op.split()
        if t[0] == "TZ":
            pending = True
        elif t[0] == "LOG":
            sec = int([x for x in t if x.startswith("t=")][0][2:]) // 10 ** 6
            if pending and sec == last_sec:
                return True
            last_sec, pending = sec, False
    return False


def nontrivial(case, lines):
    ev = set()
    for op, ln in zip(case.ops, lines[1:]):
        k = op.split()[0]
        m = STREAM.match(ln.partition(" |nd ")[0])
        if m and m.group(5) == "-" and k not in ("DS", "RST", "S", "STR", "SP", "FMI", "FMD"):
            ev.add("dropped-" + ("numeric" if k in ("I", "P", "D", "F") else "append"))
        if m and int(m.group(3)) < 64:
            ev.add("near-full")
        if k == "LOG" and "line=long" in ln:
            ev.add("long-line")
        if k == "LOG" and "errno=0" not in op:
            ev.add("errno")
        if k in ("IR", "PRX", "M", "NOW", "SI", "IEC", "FM", "SE"):
            ev.add(k)
        if ln == "rejected":
            ev.add("rejected")
        if k == "D":
            ev.add("double")
        if k == "I" and len(op.split()[2]) >= 19:
            ev.add("max-width-int")
    return ev


def run(chk, replay=None):
    tier, rng = chk.tier, chk.rng
    pr = chk.prove()
    model = vlib.build_model("C17")
    try:
        impl = vlib.build_driver("C17_driver", ["C17_driver.cc"], variant="asan", components=("base",), wrap=["gettimeofday", "syscall"])
    except RuntimeError as e:
        # e.g. LogStream::staticCheck's static_assert on kMaxNumericSize: nothing can be run
        p = chk.write_replay("build_failure.txt", "# the sources under %s do not build with the harness; proof status: ok=%s broken=%s problems=%s\n%s\n"
                             % (vlib.REPO, pr["ok"], pr["broken"], pr["problems"], str(e)[:6000]))
        chk.add_obligation("harness build", False)
        chk.violation(p, "the implementation does not build (%s); broken proof obligations: %s"
                      % (str(e).split("\n")[2][:200] if len(str(e).split("\n")) > 2 else str(e)[:200], pr["broken"]), no_input=True)
        return chk.finish(level="proof", assumptions=["run stopped: implementation did not build"])
    consts = open(os.path.join(vlib.COQ, "Gen_Consts.v")).read()

    def cget(n, d):
        m = re.search(r"Definition %s : Z := \((-?\d+)\)" % n, consts)
        return int(m.group(1)) if m else d
    cap, kmax = cget("LogStream_kSmallBuffer", CAP_DEFAULT), cget("LogStream_kMaxNumericSize", KMAX_DEFAULT)
    # the property's own reading of "runs short": the documented headroom of the pinned tree
    kmax_oracle = max(kmax, KMAX_DEFAULT)

    impl_only = []
    if replay:
        cases, _ = load_cases(replay, "")
    else:
        cases = []
        for f in sorted(glob.glob(os.path.join(vlib.ROOT, "corpus", "C17", "*.case"))):
            cs, _ = load_cases(f, "corpus_" + os.path.basename(f)[:-5] + "_")
            cases += cs
        q = tier == "quick"
        cases += gen_sweeps(tier, rng)
        cases += gen_boundary(rng)
        cases += gen_capacity(rng, cap, kmax, 60 if q else 1500)
        cases += gen_logger(rng, cap, kmax, 400 if q else 8000)
        cases += gen_units(rng, 12000 if q else 400000)
        cases.append(vlib.Case("now", "", ["NOW"] * (3 if q else 20), "true-time-tid"))
        if not q:
            impl_only = gen_full32()
    for c in cases:
        c.tag = c.tag or "replay"
    tzflag = {c.cid: mark_tz(c) for c in cases}

    t1 = time.time()
    impl_out, crashes = vlib.run_batch_parallel(impl, cases + impl_only, timeout=3000)
    t2 = time.time()
    model_out, mcrashes = vlib.run_batch_parallel(model, cases, timeout=3000, pre=["bash", "-c", 'ulimit -s unlimited 2>/dev/null; exec "$0"'])
    t3 = time.time()
    chk.cov["phase_s"] = {"impl": round(t2 - t1, 1), "model": round(t3 - t2, 1)}

    corr_bad, oracle_bad, known = [], [], []
    sigs = set()
    hist = {}
    known_keys = {k["key"] for k in vlib.known_findings() if k["property"] == "C17"}

    class C:   # case wrapper carrying the tz flag for the oracle
        pass

    for c in cases + impl_only:
        chk.cov["evaluations"] += sum(max(1, (int(o.split()[-2]) - int(o.split()[-3])) // int(o.split()[-1]) + 1) if o.split()[0] in ("IR", "PRX") else 1 for o in c.ops)
        hist[c.tag] = hist.get(c.tag, 0) + 1
        if c.cid in crashes:
            rc, se, partial = crashes[c.cid]
            at = min(max(0, len(partial) - 1), len(c.ops) - 1)
            oracle_bad.append((c, at, "implementation crashed (rc=%s) at op %d %r: %s" % (rc, at, c.ops[at] if c.ops else "", se[-600:]), None))
            continue
        li = impl_out.get(c.cid)
        if li is None:
            oracle_bad.append((c, 0, "no implementation output", None))
            continue
        w = C()
        w.ops, w.tz_same_second = c.ops, tzflag.get(c.cid, False)
        try:
            oracle(w, li, cap, kmax_oracle)
        except Fail as f:
            if f.key and f.key in known_keys:
                known.append((c, f))
            else:
                oracle_bad.append((c, f.idx, f.msg, f.key))
        if c in impl_only:
            continue
        lm = model_out.get(c.cid)
        det = [l.partition(" |nd ")[0] for l in li]
        if lm is None or det != lm:
            idx = next((i for i in range(min(len(det), len(lm or []))) if det[i] != lm[i]), 0)
            corr_bad.append((c, idx, "op %r: impl %r vs model %r" % (c.ops[idx - 1] if 0 < idx <= len(c.ops) else "case", det[idx] if idx < len(det) else None,
                                                                    lm[idx] if lm and idx < len(lm) else None)))
        ev = nontrivial(c, li)
        if ev:
            sigs.add((c.tag, tuple(sorted(ev)), tuple(o.split()[0] for o in c.ops)[:12], li[-2][:60] if len(li) > 1 else ""))
        if ev and c.tag in ("capacity-edge-numeric", "logger-lines", "formatSI-IEC") and len(c.ops) <= 10:
            if not any(s.get("tag") == c.tag for s in chk.cov["samples"]):
                chk.sample({"tag": c.tag, "case": c.text().split("\n")[:6], "impl": li[1:4], "events": sorted(ev)})

    chk.cov["distinct_nontrivial"] = len(sigs)
    chk.cov["generator_histogram"] = hist
    chk.cov["exhaustive"] = True
    chk.cov["exhaustive_what"] = "all 65536 16-bit values (both signed and unsigned readings) through each of the 8 integer operators, against the model and snprintf"
    if tier != "quick" and not replay:
        chk.cov["exhaustive_what"] += ("; thorough: all 2^32 values of int and of unsigned through the real operator<< against snprintf (implementation side, "
                                       "64 slices of 2^27), 2^20 strata per 32-bit-capable type against the model, 400000 random n + all boundary families "
                                       "for formatSI/formatIEC, 8000 Logger cases, 1500 random capacity sequences")
    chk.cov["rule"] = ("evaluations = values streamed / lines logged / numbers formatted; cases: corpus, exhaustive 16-bit sweeps and stratified 32-bit sweeps "
                       "(thorough: all 2^32 for int/unsigned on the implementation against snprintf), boundary values (2^k, 10^k +-2, type limits, doubles at "
                       "decimal and %g switch boundaries), insertion sequences filling the buffer to capacity-50..+50 and to avail = kMaxNumericSize-6..+6, "
                       "Logger lines over levels x errno x func x paths with 0..n slashes x tids x seconds x zones, all 8 macros x 6 configured levels, "
                       "formatSI/IEC on every rung bound +-3, double-spacing neighbours, F-9's range, decimal ties +-2 and dense random n, true time/tid samples incl. a forked child; non-trivial = an item was left "
                       "out, the buffer got within 64 bytes of full, a maximal-width number, a double, an errno line, a long line, a rejected value, or a "
                       "sweep/gate/true-metadata/unit op; distinct by (generator, events, first 12 op kinds, last observer line)")
    chk.cov["traces_validated_against_impl"] = len(cases) - len(corr_bad)
    if corr_bad:
        chk.cov["correspondence_mismatches"] = ["%s: %s" % (c.cid, msg[:300]) for (c, idx, msg) in corr_bad[:5]]
    chk.add_obligation("correspondence: extracted C17_Model == LogStream/Logger/formatSI/formatIEC on every case (every op's observers)", not corr_bad)
    chk.add_obligation("oracle: printf text, bounds, whole items, line grammar, level gate, base name, true time/tid, unit widths on the implementation's outputs "
                       "(known findings excepted)", not oracle_bad)
    chk.add_obligation("translator: no FALLBACK/MISSING piece (tables, fit tests, gates, ladders, constants regenerated from the sources)",
                       not [p for p in pr["problems"] if "gen_C17" in p or "MISSING" in p])
    chk.trusted("extraction: ExtrOcamlBasic only; extract/util.ml + extract/C17_driver.ml (OCaml 4.13.1; the %.12g text is the MODEL's extracted fmt_g12, no library oracle; Unix.gmtime is the stand-in for C20's conversion; "
                "OCaml's Printf renders the Fmt item texts %07d / %10.4f, which are oracle inputs of the model like the errno text)",
                "harness/C17_driver.cc: #define private public for buffer_/data_/SourceFile; -Wl,--wrap=gettimeofday,syscall for scripted time/tid in LOG/M ops (real clock and tid in NOW ops)",
                "translator lib/gen_consts.py + lib/gen_C17.py (clang 14 JSON AST): constants, digit tables, LogLevelName, fit tests, level gates, formatSI/IEC ladders",
                "glibc snprintf/strerror_r/gmtime, Python's %d/%X/%.12g formatting and time.gmtime in the oracle",
                "formatSI/formatIEC: width and accuracy are proved for ALL n about the model's exact arithmetic (C17_Model.rne: a rational rounded to nearest, "
                "ties to even; to_double, div_double, fixed_scaled built on it). C17_binary64_semantics / C17_ieee754_bit_level prove that to_double, div_double "
                "and the test on the double are Flocq's IEEE-754 binary64 operations (binary_normalize mode_NE, Bdiv mode_NE, Bltb on binary_float 53 1024, results "
                "finite); C17_printf_fixed_spec proves that fixed_scaled is the specification of %.<p>f (the exact binary value rounded to the nearest multiple of "
                "10^-p, ties to even: round radix10 (FIX_exp (-p)) ZnearestE). Assumed and only tested by the correspondence run (every rung bound +-3, the "
                "neighbours at the spacing of doubles, F-9's range, decimal ties +-2, dense random n against the real functions): that CPU and compiler implement "
                "IEEE-754 binary64 for static_cast<double>(int64_t), operator/ and operator< (x86-64 SSE2, round-to-nearest mode, no -ffast-math), and that "
                "glibc's printf implements that %.<p>f specification",
                "axioms of Coq's real numbers, used ONLY by C17_binary64_semantics, C17_ieee754_bit_level, C17_printf_fixed_spec, C17_g12_spec and C17_thresholds_are_binary64 (via Flocq 4 and Coq.Reals; "
                "every other theorem of C17 is closed under the global context): ClassicalDedekindReals.sig_not_dec, ClassicalDedekindReals.sig_forall_dec, "
                "FunctionalExtensionality.functional_extensionality_dep, Classical_Prop.classic",
                "Flocq 4.1 (installed under user-contrib/Flocq): Core (round, FLT_exp, FIX_exp, ZnearestE) as the definition of rounding to nearest even, "
                "IEEE754.BinarySingleNaN (binary_float, binary_normalize, Bdiv, Bltb and their correctness theorems) as the definition of binary64",
                "CurrentThread tid cache (cacheTid, tid, afterFork statement list, pthread_atfork registration, sizes, initial values), LogStream.h operators "
                "(bool / NULL literals, append shapes), Fmt (buffer size, length assert, static_assert) and strerror_tl's shape are regenerated by lib/gen_C17.py; "
                "C17_tid_cache_generated / C17_stream_ops_generated are their side conditions",
                "Flocq IEEE754.Binary + Bits (b64_of_bits) as the definition of the 64-bit encoding of a double (C17_g12_spec)",
                "Logger::Impl::formatTime: formats, lengths, refresh test and buffer sizes are regenerated from Logging.cc by lib/gen_C17.py and interpreted by the "
                "model (mini_printf: %d, %<w>d, %0<w>d only); C17_logger_time_generated is the side condition tying them to the line shape")

    for c, f in known:
        chk.known(f.key, "key=%s %s" % (f.key, f.msg))

    def run_one(exe, cc, is_model):
        o, cr = vlib.run_batch(exe, [cc], timeout=300, pre=(["bash", "-c", 'ulimit -s unlimited 2>/dev/null; exec "$0"'] if is_model else ()))
        return o.get(cc.cid), cr.get(cc.cid)

    def shrink(c, pred):
        if len(c.ops) <= 1:
            return c

        def fails(ops):
            cc = vlib.Case("s", "", ops)
            io, cr = run_one(impl, cc, False)
            if cr is not None:
                return pred(cc, None, None)
            mo, _ = run_one(model, cc, True)
            return pred(cc, io, mo)
        ops = vlib.ddmin(c.ops, fails, max_tests=80)
        return vlib.Case(c.cid, "", ops)

    if oracle_bad:
        seen = set()
        for (c, idx, msg, key) in oracle_bad:
            sig = key or re.sub(r"\d+", "N", msg)[:60]
            if sig in seen or len(seen) >= 4:
                continue
            seen.add(sig)

            def pred(cc, li, lm, c=c):
                if li is None:
                    return True
                w = C()
                w.ops, w.tz_same_second = cc.ops, mark_tz(cc)
                try:
                    oracle(w, li, cap, kmax_oracle)
                    return False
                except Fail:
                    return True
            small = shrink(c, pred)
            mb = re.search(r"^(IR|PRX) (\S+).*: value (-?\d+) is not printed", msg)
            if mb:
                one = vlib.Case(c.cid, "", ["I %s %s" % (mb.group(2), mb.group(3))] if mb.group(1) == "IR" else ["P " + mb.group(3)])
                io, cr = run_one(impl, one, False)
                if cr is not None or pred(one, io, None):
                    small = one
            p = chk.write_replay("oracle_%s.case" % c.cid, "# %s\n" % msg.replace("\n", "\n# ") + (("# proposed key: %s\n" % key) if key else "") + small.text())
            chk.violation(p, "C17 fails on the implementation: %s (%d failing cases in total)%s" % (
                msg, len(oracle_bad), "" if pr["ok"] else "; proof obligation(s) no longer check: %s %s" % (pr["broken"], pr["problems"])))
    elif corr_bad or not pr["ok"]:
        what = []
        if not pr["ok"]:
            what.append("proof obligation(s) no longer check: %s %s" % (pr["broken"], pr["problems"]))
        body = ""
        if corr_bad:
            c, idx, msg = corr_bad[0]
            small = shrink(c, lambda cc, li, lm: li is None or [l.partition(" |nd ")[0] for l in li] != lm)
            what.append("correspondence C17_Model vs implementation broken (%s); the oracle holds on all %d cases (%d cases differ)"
                        % (msg, len(cases), len(corr_bad)))
            body = small.text()
        p = chk.write_replay("broken_obligation.txt", "\n".join("# " + w for w in what) + "\n" + body +
                             ("\n--- coq log tail ---\n" + pr["log"][-3000:] if not pr["ok"] else ""))
        chk.violation(p, "; ".join(what), no_input=True)
    return chk.finish(level="proof", assumptions=[
        "operator<<(double): the 24-character bound is no longer assumed: C17_g12_length proves <= 19 characters for every 64-bit pattern of the model's "
        "fmt_g12, C17_g12_spec that its digits are the correctly rounded 12-significant-digit decimal (Flocq); that glibc's snprintf(\"%.12g\") prints "
        "exactly that text is tested by the differential run (extracted fmt_g12 vs the real operator<<(double)), not proved",
        "thread ids: C17_tid_text_matches_tid holds for the model's tid cache with the atfork child handler interpreted from the regenerated statements of "
        "afterFork; that pthread_atfork runs the handler in the forked child and that TLS is copied by fork / fresh in a new thread is the platform's "
        "(tested by the NOW samples: real fork, real threads, gettid of the emitter)",
        "the broken-down time handed to the line model is TimeZone::toUtcTime/toLocalTime of the second (C20); the harness uses glibc gmtime as its stand-in",
        "that time stamp and thread id are the true ones is established by the harness only (call-window inequalities, gettid of the emitting thread, forked child)",
        "formatSI/formatIEC: C17_si_width / C17_iec_width / C17_units_accurate / C17_significant_digits hold for every 0 <= n < 2^63 of the model; its conversion, "
        "quotient and comparison are proved to be Flocq's IEEE-754 binary64 operations and its %.<p>f the correctly rounded decimal (C17_ieee754_bit_level, "
        "C17_printf_fixed_spec); that the hardware/compiler compute exactly those and that glibc's printf meets that specification is assumed (tested, not proved)",
        "C17_time_cache_partial: the zone is not changed between the lines of a thread and no line is stamped with second 0 of the epoch; the errno text is a C "
        "string inside t_errnobuf (C17_line_fits); microseconds = time % 1000000 of a time stamp at or after the epoch (req_ok)",
        "the model is tied to the code by regenerated tables/guards and differential execution (testing), not by a verified C++ semantics"])
