"""C02: each connection gets exactly one UP, then messages, then exactly one DOWN; affinity; clean destruction.
 proof: Properties_C02.v over Conn_Model (life-cycle invariants for every op list);
 correspondence: Conn_Model vs the real TcpConnection (single-connection driver, all close causes incl. owner destruction);
 oracle + exploration: free-running scenarios over the real TcpServer with 0..3 io threads and raw clients."""
import os, re, glob
import vlib, connlib

CONN_LINE = re.compile(r"^conn (#\d+) seq=(\S*) threads=(\d+) onloop=(\d) destroyed=(\d)$")
SEQ_OK = re.compile(r"^Up(,Msg:\d+)*,Down$")


def gen_scenario(rng, cid):
    nthreads = rng.choice([0, 0, 1, 2, 3])
    nconn = rng.randint(1, 5)
    ops = []
    live = []
    cmds = ["send:1", "send:100", "send:70000", "send:400000", "shutdown", "force", "forcedelay", "stopread", "startread"]
    for i in range(1, nconn + 1):
        ops.append("C %d" % i)
        live.append(i)
    closed = set()
    for _ in range(rng.randint(2, 14)):
        i = rng.choice(live)
        r = rng.random()
        if i in closed and r < 0.8:
            continue
        if r < 0.2:
            ops.append("W %d %d" % (i, rng.choice([1, 10, 1000, 70000])))
        elif r < 0.4:
            ops.append("CS %d %s" % (i, rng.choice(cmds)))
        elif r < 0.65:
            ops.append("FA %d %s" % (i, rng.choice(cmds)))
        elif r < 0.75:
            ops.append(rng.choice(["CL %d", "RST %d", "HC %d"]) % i)
            closed.add(i)
        elif r < 0.85:
            ops.append("RD %d" % i)
        elif r < 0.9:
            ops.append("SETTLE")
        else:
            # two racing close causes back to back
            a, b = rng.sample(["FA %d force", "FA %d shutdown", "CS %d force", "CL %d", "RST %d", "FA %d forcedelay", "CS %d shutdown"], 2)
            ops += [a % i, b % i]
            if "CL" in a or "RST" in a or "CL" in b or "RST" in b:
                closed.add(i)
    # the server object itself is destroyed in mid-traffic only when everything runs on its own loop thread
    # (0 io threads); with io threads that is the documented lifetime race of TcpServer's raw `this`
    # (residue R, "FIXME: unsafe" in TcpServer.cc) - its deterministic form is in the lock-step suite
    if nthreads == 0 and rng.random() < 0.6:
        ops.append("DESTROY")
    if rng.random() < 0.5:
        ops.append("SETTLE")
    return vlib.Case(cid, "%d" % nthreads, ops, "scenario")


def gen_stress(cid, nconn, nthreads):
    """REVIEW_E-1: a busy server - many established connections, io threads, nothing in flight - is deleted from its base loop.
    ~TcpServer's own first wakeup() lets an io thread swap between the hand-offs: the later hand-offs are dropped (F-25)"""
    return vlib.Case(cid, "%d" % nthreads, ["C %d" % i for i in range(1, nconn + 1)] + ["SETTLE", "DESTROY", "SETTLE"], "stress")


def stress_is_f25(case, msg):
    """the only thing a stress case does is `delete server` with io threads and established, idle connections: a connection
    destroyed while kConnected (the assert), or UP without DOWN / not destroyed / descriptor census off (asserts compiled out),
    is the DOWN deficit of F-25 and nothing else"""
    if case.tag != "stress" or int(case.header.split()[0]) < 1 or "DESTROY" not in case.ops:
        return False
    if any(op.split()[0] not in ("C", "SETTLE", "DESTROY") for op in case.ops):
        return False
    return ("state_ == kDisconnected" in msg or "DOWN x0" in msg or "not destroyed after DOWN" in msg or "object not destroyed" in msg
            or "descriptor census" in msg or "closed while registered" in msg)


def scenario_oracle(case, lines):
    res = []
    want = sum(1 for op in case.ops if op.startswith("C "))
    seen = 0
    for l in lines[1:]:
        m = CONN_LINE.match(l)
        if m:
            seen += 1
            name, seq, threads, onloop, destroyed = m.group(1), m.group(2), int(m.group(3)), int(m.group(4)), int(m.group(5))
            if not SEQ_OK.match(seq):
                ups, downs = seq.split(",").count("Up"), seq.split(",").count("Down")
                res.append("connection %s: callbacks %s (UP x%d, DOWN x%d) instead of UP, messages, DOWN" % (name, seq[:120], ups, downs))
            if threads != 1 or onloop != 1:
                res.append("connection %s: callbacks ran on %d thread(s), on-loop=%d" % (name, threads, onloop))
            if destroyed != 1:
                res.append("connection %s: object not destroyed after DOWN although every user reference was released" % name)
        elif l.startswith("fds="):
            fds, badfd = [int(x.split("=")[1]) for x in l.split()]
            if fds != 0:
                res.append("descriptor census off by %d after the scenario" % fds)
            if badfd != 0:
                res.append("a descriptor was closed while registered with a poller (%d poller error line(s))" % badfd)
    if seen != want:
        res.append("%d connection(s) made, %d reported" % (want, seen))
    return res



# ------------------------------------------------------------------------------------------------
# Owners suite: the extracted C02_Model vs the real TcpServer/TcpClient/TcpConnection driven in
# lock-step over 1-4 loops (harness/C02_sys.cc).  Cases are generated by talking to the model
# (it tells which ops are enabled); the verdicts come from comparing the two outputs line by line
# and from the property oracle below evaluated on the IMPLEMENTATION's lines only.
# ------------------------------------------------------------------------------------------------
import subprocess

SYS_WRAP = ["write", "readv", "gettimeofday", "pthread_mutex_lock", "close", "shutdown",
            "pthread_mutex_unlock", "epoll_wait", "poll", "pthread_join"]
Q_TOK = re.compile(r"^(\d+)/(\d+)/(\d+)(d?)(q?)$")
CONN_TOK = re.compile(r"^L(\d+)S(\d)w(\d)r(\d)f(\d)a(\d)e(\S+?)h(\d+)d(\d+)n(\d)$")
APIS = ["shutdown", "force", "forcedelay", "send", "startread", "stopread"]


class ModelProc:
    def __init__(self, exe):
        self.p = subprocess.Popen([exe], stdin=subprocess.PIPE, stdout=subprocess.PIPE, universal_newlines=True, bufsize=1)

    def ask(self, line):
        self.p.stdin.write(line + "\n")
        self.p.stdin.flush()
        return self.p.stdout.readline().rstrip("\n")

    def close(self):
        try:
            self.p.stdin.close()
            self.p.wait(timeout=5)
        except Exception:
            self.p.kill()


def parse_sys_line(l):
    """status, events, conns (list of dict or None for dead), queues [(p,b,s)], srv, cli"""
    if " | " not in l:
        return None
    a, b, c = l.split(" | ")
    status, ev = a.split(" ev=")
    evs = [] if ev == "-" else ev.split(",")
    conns = []
    if b != "-":
        for t in b.split():
            m = CONN_TOK.match(t)
            if t == "dead" or not m:
                conns.append(None)
            else:
                conns.append(dict(loop=int(m.group(1)), st=int(m.group(2)), wr=int(m.group(3)), rd=int(m.group(4)), rf=int(m.group(5)),
                                  added=int(m.group(6)), ep=m.group(7), hold=int(m.group(8)), delayed=int(m.group(9)), fin=int(m.group(10))))
    q, srv, cli = c.split()
    queues = []
    for t in q[2:].split(";"):
        m = Q_TOK.match(t)
        # pending / batch / spent, d = inside a drain, q = quit_ stored, gone = the io loop has left loop()
        queues.append(dict(p=0, b=0, s=0, d=False, q=False, gone=True) if not m else
                      dict(p=int(m.group(1)), b=int(m.group(2)), s=int(m.group(3)), d=bool(m.group(4)), q=bool(m.group(5)), gone=False))
    return dict(status=status, ev=evs, conns=conns, queues=queues, srv=srv[4:], cli=cli[4:])


def gen_sys_guided(mp, rng, cid, maxops=60):
    """one strict case, built op by op against the model's answers"""
    nio = rng.choice([0, 0, 1, 2, 2, 3])
    wc = rng.choice([0, 1])
    header = "%d 1 1 %d" % (nio, wc)
    mp.ask("case %s %s" % (cid, header))
    ops = []
    st = dict(conns=[], queues=[dict(p=0, b=0, s=0, d=False, q=False, gone=False) for _ in range(nio + 1)], srv="1:0", cli="1:-")
    urefs = {}
    calls = {}      # u -> (c, api, stored)
    target = rng.randint(10, maxops)
    tries = 0
    while len(ops) < target and tries < 4 * maxops:
        tries += 1
        cand = []
        conns = st["conns"]
        live = [i for i, k in enumerate(conns) if k]
        upc = [i for i in live if conns[i]["st"] != 1]
        # srv=1:n alive, D:n ~TcpServer is between two hand-offs of its loop over connections_, 0:0 gone
        dying = st["srv"][0] == "D"
        srv_alive, cli_alive = st["srv"][0] in "1D", st["cli"][0] == "1"
        qs = st["queues"]
        # ~TcpServer with io threads blocks the base thread in join() until the last io loop has left loop(): the model lets
        # the base loop run meanwhile (more schedules), the real base thread cannot
        blocked = dying or ((not srv_alive) and nio > 0 and any(not q["gone"] for q in qs[1:]))
        io_quiet = all(q["gone"] or (q["b"] == 0 and q["s"] == 0 and not q["d"]) for q in qs[1:])
        usable = lambda l: not qs[l]["gone"] and not (l == 0 and blocked)
        if len(conns) < 7 and not blocked:
            if srv_alive:
                cand += [("ACC", 3.0 if len(conns) < 3 else 0.8)]
            if cli_alive and st["cli"].endswith("-"):
                cand += [("CCONN", 1.2)]
        for l, q in enumerate(qs):
            if not usable(l):
                continue
            if q["b"] > 0:
                cand.append(("RUN %d %d" % (l, rng.choice([0, 1, 1])), 6.0))
            elif q["d"]:
                cand.append(("END %d" % l, 6.0))
            elif dying and l > 0:
                # F-25: an io loop that swaps between two hand-offs of ~TcpServer loses the later ones when it sees quit_.  The
                # hypotheses (H7) refuse only the exit, so a generated case that went there would abort in its tear-down: the
                # generator stays away (the schedule is corpus/C02/sys/f25e, its control f25f)
                pass
            else:       # a drain of an empty batch is a state of its own (callingPendingFunctors_)
                cand.append(("SWAP %d" % l, 5.0 if q["p"] > 0 else (2.5 if q["q"] else 0.3)))
        for i in live:
            k = conns[i]
            if not usable(k["loop"]):
                continue
            q = qs[k["loop"]]
            idle = q["b"] == 0 and q["s"] == 0 and not q["d"]
            if k["added"] and k["ep"] != "-" and idle:
                if k["rd"]:
                    cand += [("EV %d DATA" % i, 1.5), ("EV %d EOF" % i, 1.2), ("EV %d RERR" % i, 0.3)]
                cand += [("EV %d HUP" % i, 0.7), ("EV %d ERR" % i, 0.3)]
                if k["wr"]:
                    cand += [("EV %d OUT 1" % i, 1.5), ("EV %d OUT 0" % i, 0.4)]
            if k["delayed"] and idle:
                cand.append(("DFIRE %d" % i, 1.0))
        for i in upc:
            k = conns[i]
            cand += [("UGRAB %d" % i, 0.6)]
            if usable(k["loop"]):
                cand += [("LSHUT %d" % i, 0.5), ("LFC %d" % i, 0.5), ("LFCD %d" % i, 0.4), ("LSEND %d %d" % (i, rng.choice([0, 1])), 1.0)]
                if k["added"]:
                    cand += [("LSR %d" % i, 0.4), ("LSP %d" % i, 0.5)]
            for u in (1, 2):
                if u not in calls:
                    cand.append(("XB %d %d %s" % (u, i, rng.choice(APIS)), 0.6))
        for i, n in urefs.items():
            if n > 0:
                cand.append(("UDROP %d" % i, 0.8))
        for u, (c, api, stored) in calls.items():
            if not stored:
                cand.append(("XS %d" % u, 3.0))
            else:
                cand.append(("XE %d %d" % (u, rng.choice([1, 1, 0])), 3.0))
        if dying:
            # the destructor cannot be stopped: a case that ends here is finished by the tear-down.  Anything that queues a
            # removeConnection hop / a forced close for one of its connections now is residue R-1 (H2 refuses the next step of
            # the destructor, the real code runs on): the generator keeps to ops that do not close anything
            closing = ("EV", "LFC", "LFCD", "DFIRE", "LSHUT")
            cand = [(o, w) for (o, w) in cand if not (o.split()[0] in closing and not o.endswith("DATA"))
                    and not (o.startswith("XB") and o.split()[3] in ("force", "forcedelay", "shutdown"))]
            cand.append(("SDESTROY", 4.0))
        elif srv_alive and len(conns) >= 1 and (nio == 0 or io_quiet) and not calls:
            # (with io threads only while every io loop is in poll(): a hand-off behind a running batch is F-25 again)
            cand.append(("SDESTROY", 0.35))
        if cli_alive and not blocked:
            cand.append(("CDESTROY", 0.3))
        # now and then an op that is probably NOT enabled: preconditions are compared too
        if (rng.random() < 0.08 and not blocked) or not cand:
            c = rng.randrange(len(conns) + 1)
            l = rng.randrange(nio + 2)
            cand = [(rng.choice(["EV %d DATA" % c, "EV %d HUP" % c, "EV %d OUT 1" % c, "RUN %d 1" % l, "END %d" % l, "SWAP %d" % l, "DFIRE %d" % c,
                                 "UDROP %d" % c, "XS 1", "XE 2 1", "LSP %d" % c, "UGRAB %d" % c, "ACC", "CCONN", "XB 1 %d force" % c]), 1.0)]
        op = rng.choices([c[0] for c in cand], [c[1] for c in cand])[0]
        ans = mp.ask(op)
        if ans.startswith("rejected-strict") or ans == "FAULT" or ans == "skipped":
            if ans == "FAULT":      # cannot happen under the theorem; keep the case so that it is reported
                ops.append(op)
                break
            continue
        ops.append(op)
        r = parse_sys_line(ans)
        if r["status"] == "ok":
            t = op.split()
            if t[0] == "UGRAB":
                urefs[int(t[1])] = urefs.get(int(t[1]), 0) + 1
            elif t[0] == "UDROP":
                urefs[int(t[1])] -= 1
            elif t[0] == "XB":
                calls[int(t[1])] = (int(t[2]), t[3], t[3] in ("send", "startread", "stopread"))
            elif t[0] == "XS":
                c, api, _ = calls[int(t[1])]
                calls[int(t[1])] = (c, api, True)
            elif t[0] == "XE":
                del calls[int(t[1])]
        st = r
    mp.ask("end")
    return vlib.Case(cid, header, ops, "sys")


def load_sys_cases(pattern):
    """corpus/C02/sys/*.sys : '# expect: ...' line, then one case"""
    res = []
    for f in sorted(glob.glob(pattern)):
        expect, cid, header, ops = "", None, "", []
        for line in open(f):
            line = line.rstrip("\n")
            if line.startswith("# expect:"):
                expect = line[len("# expect:"):].strip()
            elif not line or line.startswith("#"):
                continue
            elif line.startswith("case "):
                t = line.split()
                cid, header, ops = os.path.basename(f).replace(".sys", ""), " ".join(t[2:]), []
            elif line == "end":
                res.append((vlib.Case(cid, header, ops, "syscorpus"), expect))
            else:
                ops.append(line)
    return res


def sys_oracle(case, lines):
    """The property text on the implementation's lines: per connection UP once first, messages, DOWN at most once and last,
    every callback on the connection's own loop thread, destroyed at most once and only after DOWN, nothing after the
    destruction, never closed while registered; at the end (after the orderly tear-down) nothing leaked."""
    res = []
    seq, thr, loop_of, dtor = {}, {}, {}, {}
    for l in lines[1:]:
        if l.startswith("census"):
            vals = dict(x.split("=") for x in l.split()[1:])
            if vals.get("fds") != "0":
                res.append("descriptor census off by %s after the scenario" % vals.get("fds"))
            if vals.get("leaked") != "0":
                res.append("%s connection object(s) never destroyed although every reference was released" % vals.get("leaked"))
            if vals.get("closedRegistered") != "0":
                res.append("%s descriptor(s) closed while still in an epoll set" % vals.get("closedRegistered"))
            continue
        r = parse_sys_line(l)
        if not r:
            continue
        for i, k in enumerate(r["conns"]):
            if k:
                loop_of[i] = k["loop"]
        for e in r["ev"]:
            kind, rest = e.split("@")
            t, c = rest.split("#")
            bad = c.endswith("!REGISTERED")
            c = int(c.replace("!REGISTERED", ""))
            if kind == "Dtor":
                dtor[c] = dtor.get(c, 0) + 1
                if bad:
                    res.append("connection %d: descriptor closed while still registered with a poller" % c)
                if dtor[c] > 1:
                    res.append("connection %d destroyed / its descriptor closed %d times" % (c, dtor[c]))
                if "Up" in seq.get(c, []) and "Down" not in seq.get(c, []):
                    res.append("connection %d destroyed without a DOWN callback" % c)
            else:
                if dtor.get(c):
                    res.append("connection %d: %s callback after its destruction" % (c, kind))
                seq.setdefault(c, []).append(kind)
                thr.setdefault(c, set()).add(int(t))
    for c, s in seq.items():
        if not re.match(r"^Up(,Msg)*(,Down)?$", ",".join(s)):
            res.append("connection %d: callbacks %s (UP x%d, DOWN x%d) instead of UP, messages, DOWN" % (c, ",".join(s)[:80], s.count("Up"), s.count("Down")))
        if c in loop_of and thr[c] != {loop_of[c]}:
            res.append("connection %d of loop %d: callbacks ran on thread(s) %s" % (c, loop_of[c], sorted(thr[c])))
    return res


def conn_lifecycle_oracle(tr):
    """UP once first, DOWN once last, nothing after DOWN, destruction unregisters - on the single-connection driver's trace"""
    res = []
    if tr.bad:
        return [(tr.bad[0], None, tr.bad[1])]
    evs = connlib.events(tr)
    kinds = [e.split(":")[0] for (_, e) in evs]
    if kinds.count("Up") > 1:
        res.append((0, None, "UP ran %d times" % kinds.count("Up")))
    if kinds.count("Down") > 1:
        res.append((0, None, "DOWN ran %d times" % kinds.count("Down")))
    if "Down" in kinds:
        after = [k for k in kinds[kinds.index("Down") + 1:] if k in ("Msg", "Up")]
        if after:
            res.append((0, None, "callbacks %s after DOWN" % after))
    if kinds and kinds[0] != "Up" and any(k in ("Msg", "Down") for k in kinds):
        res.append((0, None, "first callback is %s, not UP" % kinds[0]))
    # a connection that was UP and whose owner destroyed it / whose close was processed has had its DOWN
    for i, o in enumerate(tr.obs):
        if o.reg == 0 and "Up" in kinds and i > 0 and tr.obs[i - 1].reg == 1:
            upto = [e.split(":")[0] for (j, e) in evs if j <= i]
            if "Down" not in upto:
                res.append((i, None, "channel unregistered (connection destroyed) without a DOWN callback"))
            if o.wr or o.rd:
                res.append((i, None, "channel unregistered with interest still set"))
    return res


def gen_facts():
    """booleans of coq/Gen_C02.v (regenerated from the current sources by chk.prove())"""
    facts = {}
    try:
        for m in re.finditer(r"Definition (\w+) : bool := (true|false)\.", open(os.path.join(vlib.COQ, "Gen_C02.v")).read()):
            facts[m.group(1)] = m.group(2) == "true"
    except OSError:
        pass
    return facts


def _f19(case, lines, msg):
    """a foreign shutdown/forceClose/forceCloseWithDelay whose store (XS u) comes after a DOWN of its connection that
    happened after its state test (XB u c api)"""
    if "DOWN x2" not in msg and "kDisconnected" not in msg:
        return False
    body = lines[1:]

    def downs(j, c):
        if j >= len(body) or " ev=" not in body[j]:
            return False
        ev = body[j].split(" | ")[0].split(" ev=")[1]
        return any(t.startswith("Down@") and t.endswith("#" + c) for t in ev.split(","))

    for i, op in enumerate(case.ops):
        t = op.split()
        if t[0] == "XB" and t[3] in ("shutdown", "force", "forcedelay"):
            u, c = t[1], t[2]
            down = False
            for j in range(i + 1, len(case.ops)):
                down = down or downs(j, c)
                if case.ops[j] == "XS " + u:
                    if down:
                        return True
                    break
    return False


def _f20(case, lines, msg):
    """~TcpClient (CDESTROY) while its connection has a holder besides the client: the connection dies without DOWN"""
    return "CDESTROY" in case.ops and "CCONN" in case.ops and ("state_ == kDisconnected" in msg or "without a DOWN" in msg)


def _f25(case, lines, msg):
    """~TcpServer (SDESTROY steps, io threads) during which an io loop was inside a drain - 'd' in one of the implementation's
    lines from the one in front of the first SDESTROY to the one of the last SDESTROY -, then a connection destroyed while
    kConnected / without DOWN / closed while registered"""
    if not ("state_ == kDisconnected" in msg or "without a DOWN" in msg or "still registered" in msg or "still in an epoll set" in msg):
        return False
    if int(case.header.split()[0]) < 1:
        return False
    body = lines[1:]
    sd = [i for i, op in enumerate(case.ops) if op == "SDESTROY"]
    if not sd:
        return False
    for i in range(max(sd[0] - 1, 0), min(sd[-1] + 1, len(body))):
        r = parse_sys_line(body[i])
        if r and any(q["d"] for q in r["queues"][1:]):
            return True
    return False


# signature -> recogniser.  The recorded defects exist only OUTSIDE the theorems' environment hypotheses, so a signature is
# considered only for a non-strict case (header field 3 = 0: the corpus witnesses); any failure of a generated (strict) case
# is a violation whatever it looks like.
FINDING_KEYS = {
    "foreign-close-request-races-close": _f19,
    "client-destroyed-with-transient-reference": _f20,
    "server-destroyed-while-io-loop-draining": _f25,
}


def finding_key(case, lines, msg):
    if case.header.split()[2] != "0":
        return None
    return next((k for k, f in FINDING_KEYS.items() if f(case, lines or [], msg)), None)


def run(chk, replay=None):
    pr = chk.prove()
    facts = gen_facts()
    readd = 1 if facts.get("epoll_registers_empty_interest", True) else 0
    model, impl = connlib.build()
    sdrv = vlib.build_driver("C02_driver", ["C02_driver.cc"], variant="asan")
    smodel = vlib.build_model("C02")
    simpl = vlib.build_driver("C02_sys", ["C02_sys.cc"], variant="asan", wrap=SYS_WRAP)
    known = {k["key"]: k for k in vlib.known_findings() if k["property"] == "C02"}
    orc_bad, corr_bad, residues = [], [], []
    sigs = set()
    quick = chk.tier == "quick"
    ccases, scen, sysc = [], [], []
    if replay:
        txt = open(replay).read()
        suite = "sys" if "# suite: sys" in txt else "scen" if ("# suite: scen" in txt or "scenario" in txt) else "conn"
        if suite == "conn":
            ccases = connlib.load_cases(replay)
        elif suite == "scen":
            scen = [vlib.Case(c.cid, c.header, c.ops, "scenario") for c in connlib.load_cases(replay)]
        else:
            sysc = [(vlib.Case(c.cid, c.header, c.ops, "sys"), "") for c in connlib.load_cases(replay)]
    else:
        ccases = connlib.load_cases(os.path.join(vlib.ROOT, "corpus", "C02", "*.case"))
        for i in range(400 if quick else 20000):
            ccases.append(connlib.gen_case(chk.rng, "l%d" % i, "close", maxops=22))
        scen = [vlib.Case(c.cid, c.header, c.ops, "scenario") for c in connlib.load_cases(os.path.join(vlib.ROOT, "corpus", "C02", "scen", "*.scen"))]
        scen += [gen_scenario(chk.rng, "s%d" % i) for i in range(100 if quick else 1500)]
        # the free-running stress of F-25 (timing decides whether it strikes: both outcomes are acceptable, nothing else is)
        scen += [gen_stress("st%d" % i, 200, 1 + i % 2) for i in range(2 if quick else 10)]
        sysc = load_sys_cases(os.path.join(vlib.ROOT, "corpus", "C02", "sys", "*.sys"))
        mp = ModelProc(smodel)
        try:
            for i in range(700 if quick else 10000):
                sysc.append((gen_sys_guided(mp, chk.rng, "y%d" % i, maxops=60 if quick else 120), ""))
        finally:
            mp.close()
    # the poller fact of the CURRENT sources selects the model variant
    for c, _ in sysc:
        t = c.header.split()
        t[1] = str(readd)
        c.header = " ".join(t)

    # ---- 1. single connection, all close causes incl. owner destruction, differential + life-cycle oracle
    io, icr, mo, mcr = connlib.run_both(model, impl, ccases)
    for c in ccases:
        chk.cov["evaluations"] += 1
        if c.cid in icr:
            orc_bad.append((c, "conn", "implementation crashed: " + icr[c.cid][1].strip().split("\n")[0][:300]))
            continue
        li, lm = io.get(c.cid), mo.get(c.cid)
        if li is None:
            orc_bad.append((c, "conn", "no output"))
            continue
        if li != lm:
            idx = next((i for i in range(min(len(li), len(lm or []))) if li[i] != lm[i]), 0)
            corr_bad.append((c, "conn", "line %d: impl %r vs model %r" % (idx, li[idx], (lm or [None] * (idx + 1))[idx])))
        tr = connlib.Trace(c, li)
        for (i, key, msg) in conn_lifecycle_oracle(tr):
            orc_bad.append((c, "conn", msg))
        kinds = tuple(op.split()[0] for op in c.ops)
        if any(k in ("EOF", "HUP", "FC", "FCD", "DFIRE", "ODESTROY", "SHUT", "XSHUT") for k in kinds):
            sigs.add(("conn", kinds))

    # ---- 2. owners: lock-step differential + property oracle on the implementation's lines
    cases_only = [c for c, _ in sysc]
    so, scr = vlib.run_batch_parallel(simpl, cases_only, timeout=1800, jobs=12)
    smo, _ = vlib.run_batch_parallel(smodel, cases_only, timeout=1800)
    sys_hist = {}
    for c, expect in sysc:
        chk.cov["evaluations"] += 1
        lm = smo.get(c.cid) or []
        mfault = next((i for i, l in enumerate(lm) if l == "FAULT"), None)
        if c.cid in scr:
            rc, se, partial = scr[c.cid]
            li = [l for l in (partial or []) if l and not l.startswith("census") and l != "opsdone"]
            crashed_at = len(li)            # index of the line that never came
            first = next((l for l in se.split("\n") if "Assertion" in l or "ERROR: AddressSanitizer" in l), se.strip().split("\n")[-1] if se.strip() else "")
            agree = mfault is not None and mfault == crashed_at and li == lm[:crashed_at]
            if expect.startswith("residue"):
                if agree:
                    residues.append((c.cid, expect, first[:160]))
                else:   # an expected use-after-free that no longer happens where the model says: the correspondence is off
                    corr_bad.append((c, "sys", "residue witness: implementation fails at op %d, the model %s" %
                                     (crashed_at, ("at op %d" % mfault) if mfault is not None else "does not fail")))
                continue
            msg = "implementation crashed at op %d (%s): %s" % (crashed_at, c.ops[crashed_at - 1] if 0 < crashed_at <= len(c.ops) else "?", first[:300])
            if "opsdone" in (partial or []):
                msg = "implementation crashed in the tear-down after the last op: " + first[:300]
            key = finding_key(c, ["case"] + li[1:], msg)
            if key and key in known:
                chk.known(key, "%s [case %s: %s]" % (known[key]["text"], c.cid, msg[:160]))
            else:
                orc_bad.append((c, "sys", msg + (" [signature %s]" % key if key else "")))
            if not agree and mfault is None and not key:
                corr_bad.append((c, "sys", "implementation crashed where the model goes on"))
            continue
        li_all = so.get(c.cid)
        if li_all is None:
            orc_bad.append((c, "sys", "no output"))
            continue
        li = [l for l in li_all if not l.startswith("census") and l != "opsdone"]
        if li != lm:
            idx = next((i for i in range(min(len(li), len(lm))) if li[i] != lm[i]), min(len(li), len(lm)))
            corr_bad.append((c, "sys", "op %d (%s): impl %r vs model %r" % (idx, c.ops[idx - 1] if 0 < idx <= len(c.ops) else "?",
                                                                           li[idx] if idx < len(li) else None, lm[idx] if idx < len(lm) else None)))
        for msg in sys_oracle(c, li_all):
            key = finding_key(c, li, msg)
            if key and key in known:
                chk.known(key, "%s [case %s: %s]" % (known[key]["text"], c.cid, msg[:160]))
            else:
                orc_bad.append((c, "sys", msg + (" [signature %s]" % key if key else "")))
        accepted = tuple(op for op, l in zip(c.ops, lm[1:]) if l.startswith("ok"))
        for op in accepted:
            sys_hist[op.split()[0]] = sys_hist.get(op.split()[0], 0) + 1
        if any("Down@" in l for l in li) and any("Dtor@" in l for l in li):
            sigs.add(("sys", c.header, accepted))
        if len(chk.cov["samples"]) < 2 and c.tag == "sys" and len(c.ops) <= 30:
            chk.sample({"lock_step_case": c.text().split("\n")[:-1], "last_line": li[-2] if len(li) > 1 else ""})

    # ---- 2b. the same lock-step cases on PollPoller (MUDUO_USE_POLL): the owners must behave the same on either poller.  The
    # model variant is readd=0 (a channel with empty interest is not polled: PollPoller negates its fd).  Only cases the
    # epoll pass ran to the end are repeated (the residue witnesses crash by design).
    poll_cases = []
    for c, expect in sysc:
        if c.cid in scr or expect.startswith("residue") or expect.startswith("finding") or "f15" in c.cid:
            continue
        t = c.header.split()
        t[1] = "0"
        poll_cases.append(vlib.Case("p" + c.cid, " ".join(t), c.ops, c.tag))
    if quick and not replay:
        poll_cases = poll_cases[:260]
    poll_ok = 0
    if poll_cases:
        po, pcr = vlib.run_batch_parallel(simpl, poll_cases, timeout=1800, jobs=12, env={"MUDUO_USE_POLL": "1"})
        pmo, _ = vlib.run_batch_parallel(smodel, poll_cases, timeout=1800)
        for c in poll_cases:
            chk.cov["evaluations"] += 1
            lm = pmo.get(c.cid) or []
            if c.cid in pcr:
                first = next((l for l in pcr[c.cid][1].split("\n") if "Assertion" in l or "ERROR: AddressSanitizer" in l), pcr[c.cid][1][-300:])
                orc_bad.append((c, "syspoll", "implementation on PollPoller crashed at op %d: %s" % (len(pcr[c.cid][2] or []), first[:300])))
                continue
            li_all = po.get(c.cid)
            if li_all is None:
                orc_bad.append((c, "syspoll", "no output"))
                continue
            li = [l for l in li_all if not l.startswith("census") and l != "opsdone"]
            if li != lm:
                idx = next((i for i in range(min(len(li), len(lm))) if li[i] != lm[i]), min(len(li), len(lm)))
                corr_bad.append((c, "syspoll", "PollPoller, op %d (%s): impl %r vs model %r" % (idx, c.ops[idx - 1] if 0 < idx <= len(c.ops) else "?",
                                                                                              li[idx] if idx < len(li) else None, lm[idx] if idx < len(lm) else None)))
            bad = sys_oracle(c, li_all)
            for msg in bad:
                orc_bad.append((c, "syspoll", "PollPoller: " + msg))
            if li == lm and not bad:
                poll_ok += 1
    chk.cov["pollpoller_lock_step_cases"] = {"run": len(poll_cases), "agree": poll_ok}

    # ---- 3. free-running server scenarios
    fo, fcr = vlib.run_batch_parallel(sdrv, scen, timeout=1800, jobs=12)
    stress_hits = []
    for c in scen:
        chk.cov["evaluations"] += 1
        if c.cid in fcr:
            msg = "server scenario crashed (rc=%s): %s" % (fcr[c.cid][0], next((l for l in fcr[c.cid][1].split("\n") if "Assertion" in l or "ERROR: AddressSanitizer" in l), fcr[c.cid][1][-300:])[:400])
            if stress_is_f25(c, msg) and "server-destroyed-while-io-loop-draining" in known:
                stress_hits.append(c.cid)
                chk.known("server-destroyed-while-io-loop-draining", "%s [stress case %s: %d established connections, %s io thread(s), delete server: %s]" %
                          (known["server-destroyed-while-io-loop-draining"]["text"], c.cid, sum(1 for o in c.ops if o.startswith("C ")), c.header, msg[:200]))
            else:
                orc_bad.append((c, "scen", msg))
            continue
        lines = fo.get(c.cid)
        if lines is None:
            orc_bad.append((c, "scen", "no output"))
            continue
        bad = scenario_oracle(c, lines)
        if bad and all(stress_is_f25(c, m) for m in bad) and "server-destroyed-while-io-loop-draining" in known:
            ups = sum(1 for l in lines if l.startswith("conn ") and "seq=Up" in l)
            downs = sum(1 for l in lines if l.startswith("conn ") and "Down" in l)
            stress_hits.append(c.cid)
            chk.known("server-destroyed-while-io-loop-draining", "%s [stress case %s: ups=%d downs=%d]" %
                      (known["server-destroyed-while-io-loop-draining"]["text"], c.cid, ups, downs))
        else:
            for msg in bad:
                orc_bad.append((c, "scen", msg))
        sigs.add(("scen", c.header, tuple(c.ops)))
        if len(chk.cov["samples"]) < 4:
            chk.sample({"scenario": c.text().split("\n")[:-1], "report": lines[1:-1]})
    # ---- 3b. a part of the free-running scenarios again on PollPoller
    pscen = [vlib.Case("p" + c.cid, c.header, c.ops, c.tag) for c in (scen if replay else scen[:30] if quick else scen[:600]) if c.tag != "stress"]
    if pscen:
        fo2, fcr2 = vlib.run_batch_parallel(sdrv, pscen, timeout=1800, jobs=12, env={"MUDUO_USE_POLL": "1"})
        for c in pscen:
            chk.cov["evaluations"] += 1
            if c.cid in fcr2:
                orc_bad.append((c, "scenpoll", "server scenario on PollPoller crashed (rc=%s): %s" % (fcr2[c.cid][0], next((l for l in fcr2[c.cid][1].split("\n") if "Assertion" in l or "ERROR: AddressSanitizer" in l), fcr2[c.cid][1][-300:])[:400])))
                continue
            lines = fo2.get(c.cid)
            if lines is None:
                orc_bad.append((c, "scenpoll", "no output"))
                continue
            for msg in scenario_oracle(c, lines):
                orc_bad.append((c, "scenpoll", "PollPoller: " + msg))
    chk.cov["pollpoller_scenarios"] = len(pscen)
    chk.cov["stress_delete_server_with_io_threads"] = {"run": sum(1 for c in scen if c.tag == "stress"), "F-25 struck": stress_hits}
    chk.cov["distinct_nontrivial"] = len(sigs)
    chk.cov["lock_step_ops_accepted"] = sys_hist
    chk.cov["residue_witnesses_confirmed"] = residues
    chk.cov["generated_facts"] = facts
    chk.cov["rule"] = ("(a) single real TcpConnection driven op by op vs Conn_Model: random sequences over every close cause (peer FIN, HUP, shutdown, forceClose, delayed force close, owner "
                       "destruction) interleaved with sends/reads; (b) real TcpServer/TcpClient/TcpConnection/EPollPoller over 1-4 EventLoops driven in lock-step - the io loops are the real threads of the server's "
                       "EventLoopThreadPool running the real EventLoop::loop(), parked in poll / after the swap of doPendingFunctors / after each functor - (accept, client connect, "
                       "doPendingFunctors functor by functor on each loop incl. drains of empty batches, kernel events, loop-thread and foreign API calls cut at their state test / setState / enqueue, "
                       "user references, client destruction, server destruction with the real ~EventLoopThreadPool: quit(), join(), the io loops leaving loop()) vs the extracted C02_Model, every observer after every op incl. shared_ptr use_count and the kernel's epoll registration; "
                       "(c) free-running real TcpServer with 0-3 io threads, 1-5 raw clients, close causes racing; non-trivial = contains a close cause (a: by op kind; b: a DOWN and a destruction "
                       "happened; c: every scenario closes all its connections); distinct by accepted op sequence; (b) and (c) are repeated in part with MUDUO_USE_POLL=1 (PollPoller)")
    chk.add_obligation("correspondence: Conn_Model == real TcpConnection on life-cycle sequences", not [x for x in corr_bad if x[1] == "conn"])
    chk.add_obligation("correspondence: C02_Model == real TcpServer/TcpClient/TcpConnection/EPollPoller in lock-step (callbacks with threads, destructions, states, interest, "
                       "epoll registration, use_count, queues after every op)", not [x for x in corr_bad if x[1] == "sys"])
    chk.add_obligation("correspondence: C02_Model (readd=0) == the same owners on PollPoller (MUDUO_USE_POLL=1) in lock-step (%d cases)" % len(poll_cases),
                       not [x for x in corr_bad if x[1] == "syspoll"])
    chk.add_obligation("oracle: UP once first / DOWN once last / affinity / destroyed once after DOWN, never closed while registered, nothing leaked "
                       "(single connection, lock-step owners, free-running server)", not orc_bad)
    chk.add_obligation("residue witnesses: where the model says Fault outside the theorems' hypotheses the real code fails at the same op (%d confirmed)" % len(residues),
                       all(any(r[0] == c.cid for r in residues) for c, e in sysc if e.startswith("residue")))
    chk.trusted("harness/C02_sys.cc (lock-step: '#define private public', TcpConnection.cc compiled into the driver with a schedule point in front of foreign setState, "
                "--wrap of write/readv/gettimeofday/pthread_mutex_lock/close/shutdown and, for the real pool threads, pthread_mutex_unlock/epoll_wait/poll/pthread_join; queued functors of "
                "io loops wrapped into { f(); park(); }; events injected through Channel::handleEvent on the connection's own (real) loop thread, /proc/self/fdinfo for the epoll set)",
                "harness/C02_driver.cc (free-running; timing-based settling, oracle only uses order/affinity/census facts that do not depend on timing)",
                "harness/Conn_driver.cc, extraction (ExtrOcamlBasic only), lib/gen_C02.py + lib/cxxast.py (clang JSON AST)")
    if orc_bad:
        c, suite, msg = orc_bad[0]
        if suite == "sys" and not replay and len(c.ops) > 3 and c.tag != "syscorpus":     # (a corpus witness is kept whole)
            # shrink: keep the implementation failing (crash, oracle failure or a mismatch with the model) on the real code
            def fails(ops):
                cc = vlib.Case("m", c.header, ops, "sys")
                o1, cr1 = vlib.run_batch(simpl, [cc], timeout=120)
                if "m" in cr1:
                    return True
                l1 = o1.get("m")
                return bool(l1) and bool(sys_oracle(cc, l1))
            try:
                c = vlib.Case(c.cid, c.header, vlib.ddmin(c.ops, fails, max_tests=80), c.tag)
            except Exception:
                pass
        p = chk.write_replay("oracle_%s.case" % c.cid, "# %s\n# suite: %s\n%s" % (msg.replace("\n", " "), suite, c.text()))
        chk.violation(p, "C02 fails on the implementation: %s (%d failing case(s))" % (msg, len(set(x[0].cid for x in orc_bad))))
    elif corr_bad or not pr["ok"]:
        what = []
        body = ""
        if not pr["ok"]:
            what.append("proof obligation(s) no longer check: %s %s" % (pr["broken"], pr["problems"]))
        if corr_bad:
            c, suite, msg = corr_bad[0]
            what.append("correspondence of the %s model with the implementation broken (%s); the C02 oracle holds on all cases" % (suite, msg))
            body = "# suite: %s\n%s" % (suite, c.text())
        p = chk.write_replay("broken_obligation.txt", "\n".join("# " + w for w in what) + "\n" + body +
                             ("\n--- coq log tail ---\n" + pr["log"][-3000:] if not pr["ok"] else ""))
        chk.violation(p, "; ".join(what), no_input=True)
    return chk.finish(level="proof", assumptions=[
        "loop-thread code is atomic w.r.t. other loop-thread code; foreign calls interleave only at their state test, their setState and their enqueue (DESIGN 3.2)",
        "the theorems' environment hypotheses (strict mode of C02_Model.step): a foreign caller keeps its reference until its raw-this functor has run; the TcpServer object is not destroyed "
        "while a removeConnection hop or a forced close of one of its connections is in flight, nor does a peer close reach a connection of a destroyed server before its queued connectDestroyed; "
        "a foreign shutdown()/forceClose() whose state test passed does not overwrite kDisconnected at its setState (implied by Conn_Race.set_ok); a TcpClient is destroyed on its loop thread and "
        "only when its connection has no transient holder; H7: an io loop of a destroyed server does not leave loop() with a connectDestroyed/connectEstablished hand-off still queued (the negation of finding F-25; not establishable by a user for an io loop with two or more live connections); H8: no user "
        "reference / foreign call on a connection of an io loop is outstanding when that loop leaves loop()",
        "the base thread being blocked in join() during the pool's tear-down is not modelled (the model admits more schedules); the lock-step generator does not use them",
        "the free-running scenarios use real threads and the loopback; their oracle uses only schedule-independent facts"])
