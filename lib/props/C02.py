"""C02: each connection gets exactly one UP, then messages, then exactly one DOWN; affinity; clean destruction.
 proof: Properties_C02.v over Conn_Model (life-cycle invariants for every op list);
 correspondence: Conn_Model vs the real TcpConnection (single-connection driver, all close causes incl. owner destruction);
 oracle + exploration: free-running scenarios over the real TcpServer with 0..3 io threads and raw clients."""
import os, re
import vlib, connlib

CONN_LINE = re.compile(r"^conn (#\d+) seq=(\S*) threads=(\d+) onloop=(\d) destroyed=(\d)$")
SEQ_OK = re.compile(r"^Up(,Msg:\d+)*,Down$")


def gen_scenario(rng, cid):
    nthreads = rng.choice([0, 0, 1, 2, 3])
    nconn = rng.randint(1, 5)
    ops = []
    live = []
    cmds = ["send:1", "send:100", "send:70000", "send:400000", "shutdown", "force", "forcedelay", "stopread", "startread"]
    for i in range(1, nconn + 1):
        ops.append("C %d" % i)
        live.append(i)
    closed = set()
    for _ in range(rng.randint(2, 14)):
        i = rng.choice(live)
        r = rng.random()
        if i in closed and r < 0.8:
            continue
        if r < 0.2:
            ops.append("W %d %d" % (i, rng.choice([1, 10, 1000, 70000])))
        elif r < 0.4:
            ops.append("CS %d %s" % (i, rng.choice(cmds)))
        elif r < 0.65:
            ops.append("FA %d %s" % (i, rng.choice(cmds)))
        elif r < 0.75:
            ops.append(rng.choice(["CL %d", "RST %d", "HC %d"]) % i)
            closed.add(i)
        elif r < 0.85:
            ops.append("RD %d" % i)
        elif r < 0.9:
            ops.append("SETTLE")
        else:
            # two racing close causes back to back
            a, b = rng.sample(["FA %d force", "FA %d shutdown", "CS %d force", "CL %d", "RST %d", "FA %d forcedelay", "CS %d shutdown"], 2)
            ops += [a % i, b % i]
            if "CL" in a or "RST" in a or "CL" in b or "RST" in b:
                closed.add(i)
    if rng.random() < 0.4:
        ops.append("DESTROY")
    if rng.random() < 0.5:
        ops.append("SETTLE")
    return vlib.Case(cid, "%d" % nthreads, ops, "scenario")


def scenario_oracle(case, lines):
    res = []
    want = sum(1 for op in case.ops if op.startswith("C "))
    seen = 0
    for l in lines[1:]:
        m = CONN_LINE.match(l)
        if m:
            seen += 1
            name, seq, threads, onloop, destroyed = m.group(1), m.group(2), int(m.group(3)), int(m.group(4)), int(m.group(5))
            if not SEQ_OK.match(seq):
                ups, downs = seq.split(",").count("Up"), seq.split(",").count("Down")
                res.append("connection %s: callbacks %s (UP x%d, DOWN x%d) instead of UP, messages, DOWN" % (name, seq[:120], ups, downs))
            if threads != 1 or onloop != 1:
                res.append("connection %s: callbacks ran on %d thread(s), on-loop=%d" % (name, threads, onloop))
            if destroyed != 1:
                res.append("connection %s: object not destroyed after DOWN although every user reference was released" % name)
        elif l.startswith("fds="):
            fds, badfd = [int(x.split("=")[1]) for x in l.split()]
            if fds != 0:
                res.append("descriptor census off by %d after the scenario" % fds)
            if badfd != 0:
                res.append("a descriptor was closed while registered with a poller (%d poller error line(s))" % badfd)
    if seen != want:
        res.append("%d connection(s) made, %d reported" % (want, seen))
    return res


def conn_lifecycle_oracle(tr):
    """UP once first, DOWN once last, nothing after DOWN, destruction unregisters - on the single-connection driver's trace"""
    res = []
    if tr.bad:
        return [(tr.bad[0], None, tr.bad[1])]
    evs = connlib.events(tr)
    kinds = [e.split(":")[0] for (_, e) in evs]
    if kinds.count("Up") > 1:
        res.append((0, None, "UP ran %d times" % kinds.count("Up")))
    if kinds.count("Down") > 1:
        res.append((0, None, "DOWN ran %d times" % kinds.count("Down")))
    if "Down" in kinds:
        after = [k for k in kinds[kinds.index("Down") + 1:] if k in ("Msg", "Up")]
        if after:
            res.append((0, None, "callbacks %s after DOWN" % after))
    if kinds and kinds[0] != "Up" and any(k in ("Msg", "Down") for k in kinds):
        res.append((0, None, "first callback is %s, not UP" % kinds[0]))
    # a connection that was UP and whose owner destroyed it / whose close was processed has had its DOWN
    for i, o in enumerate(tr.obs):
        if o.reg == 0 and "Up" in kinds and i > 0 and tr.obs[i - 1].reg == 1:
            upto = [e.split(":")[0] for (j, e) in evs if j <= i]
            if "Down" not in upto:
                res.append((i, None, "channel unregistered (connection destroyed) without a DOWN callback"))
            if o.wr or o.rd:
                res.append((i, None, "channel unregistered with interest still set"))
    return res


def run(chk, replay=None):
    pr = chk.prove()
    model, impl = connlib.build()
    sdrv = vlib.build_driver("C02_driver", ["C02_driver.cc"], variant="asan")
    orc_bad, corr_bad = [], []
    sigs = set()
    # ---- single connection, all close causes incl. owner destruction, differential + life-cycle oracle
    if replay:
        txt = open(replay).read()
        ccases = connlib.load_cases(replay) if "scenario" not in txt else []
        scen = [] if ccases else [vlib.Case(c.cid, c.header, c.ops, "scenario") for c in connlib.load_cases(replay)]
    else:
        ccases = connlib.load_cases(os.path.join(vlib.ROOT, "corpus", "C02", "*.case"))
        for i in range(900 if chk.tier == "quick" else 40000):
            ccases.append(connlib.gen_case(chk.rng, "l%d" % i, "close", maxops=22))
        scen = [gen_scenario(chk.rng, "s%d" % i) for i in range(120 if chk.tier == "quick" else 3000)]
    io, icr, mo, mcr = connlib.run_both(model, impl, ccases)
    for c in ccases:
        chk.cov["evaluations"] += 1
        if c.cid in icr:
            orc_bad.append((c, "implementation crashed: " + icr[c.cid][1].strip().split("\n")[0][:300]))
            continue
        li, lm = io.get(c.cid), mo.get(c.cid)
        if li is None:
            orc_bad.append((c, "no output"))
            continue
        if li != lm:
            idx = next((i for i in range(min(len(li), len(lm or []))) if li[i] != lm[i]), 0)
            corr_bad.append((c, "line %d: impl %r vs model %r" % (idx, li[idx], (lm or [None] * (idx + 1))[idx])))
        tr = connlib.Trace(c, li)
        for (i, key, msg) in conn_lifecycle_oracle(tr):
            orc_bad.append((c, msg))
        kinds = tuple(op.split()[0] for op in c.ops)
        if any(k in ("EOF", "HUP", "FC", "FCD", "DFIRE", "ODESTROY", "SHUT", "XSHUT") for k in kinds):
            sigs.add(("conn", kinds))
    # ---- free-running server scenarios
    so, scr = vlib.run_batch_parallel(sdrv, scen, timeout=1800, jobs=12)
    for c in scen:
        chk.cov["evaluations"] += 1
        if c.cid in scr:
            orc_bad.append((c, "server scenario crashed (rc=%s): %s" % (scr[c.cid][0], scr[c.cid][1][-600:])))
            continue
        lines = so.get(c.cid)
        if lines is None:
            orc_bad.append((c, "no output"))
            continue
        for msg in scenario_oracle(c, lines):
            orc_bad.append((c, msg))
        sigs.add(("scen", c.header, tuple(c.ops)))
        if len(chk.cov["samples"]) < 3:
            chk.sample({"scenario": c.text().split("\n")[:-1], "report": lines[1:-1]})
    chk.cov["distinct_nontrivial"] = len(sigs)
    chk.cov["rule"] = ("(a) single real TcpConnection driven op by op vs Conn_Model: random sequences over every close cause (peer FIN, HUP, shutdown, forceClose, delayed force close, owner "
                       "destruction) interleaved with sends/reads; (b) free-running real TcpServer with 0-3 io threads, 1-5 raw clients, close causes racing (client close/RST/half-close, "
                       "in-loop and foreign shutdown/forceClose/forceCloseWithDelay, server destruction); non-trivial = contains a close cause; distinct by op sequence")
    chk.add_obligation("correspondence: Conn_Model == real TcpConnection on life-cycle sequences", not corr_bad)
    chk.add_obligation("oracle: UP once first / DOWN once last / affinity / destroyed once, unregistered, descriptor census (single connection and free-running server)", not orc_bad)
    chk.trusted("harness/C02_driver.cc (free-running; timing-based settling, oracle only uses order/affinity/census facts that do not depend on timing)",
                "harness/Conn_driver.cc, extraction (ExtrOcamlBasic only)")
    if orc_bad:
        c, msg = orc_bad[0]
        p = chk.write_replay("oracle_%s.case" % c.cid, "# %s\n# %s\n%s" % (msg.replace("\n", " "), c.tag, c.text()))
        chk.violation(p, "C02 fails on the implementation: %s (%d failing case(s))" % (msg, len(set(x[0].cid for x in orc_bad))))
    elif corr_bad or not pr["ok"]:
        what = []
        body = ""
        if not pr["ok"]:
            what.append("proof obligation(s) no longer check: %s %s" % (pr["broken"], pr["problems"]))
        if corr_bad:
            c, msg = corr_bad[0]
            what.append("correspondence Conn_Model vs TcpConnection broken (%s); the C02 oracle holds on all cases" % msg)
            body = c.text()
        p = chk.write_replay("broken_obligation.txt", "\n".join("# " + w for w in what) + "\n" + body +
                             ("\n--- coq log tail ---\n" + pr["log"][-3000:] if not pr["ok"] else ""))
        chk.violation(p, "; ".join(what), no_input=True)
    return chk.finish(level="proof", assumptions=[
        "the free-running scenarios use real threads and the loopback; their oracle uses only schedule-independent facts",
        "destruction of the TcpServer object itself concurrently with callbacks bound to its raw this is a lifetime race outside this property (C08)"])
