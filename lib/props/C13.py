"""C13: write-complete and high-water-mark callbacks track the unsent backlog exactly."""
import connlib


def nontrivial(c, tr):
    evs = [e for (_, e) in connlib.events(tr)]
    n_wc = evs.count("WC")
    n_hw = sum(1 for e in evs if e.startswith("HWM"))
    if n_wc + n_hw == 0:
        return None
    return (tuple(op.split()[0] for op in c.ops), n_wc, n_hw, c.header)


def run(chk, replay=None):
    return connlib.run_property(
        chk, "C13", connlib.oracle_c13, ["marks", "marks", "stream", "mixed"], 1000, 24000, replay=replay,
        nontrivial=nontrivial,
        rule="corpus + random send/writability sequences with sizes aimed at the high-water mark (mark-1, mark, mark+1 relative to the backlog) and "
             "acceptance patterns whole/partial/none; non-trivial = at least one write-complete or high-water callback ran; distinct by (op kinds, #WC, #HWM, configuration)")
