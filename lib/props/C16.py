"""C16: every log record handed to the back-end is written exactly once, whole, in order.
proof (Properties_C16.v over C16_Model.v) + correspondence of the extracted models with the REAL
muduo::AsyncLogging / LogFile / FileUtil::AppendFile (harness/C16_driver.cc: real 4 MB buffers, real
files in a scratch directory under _work, virtual clock, forced schedules by link-time interposition)
+ an independent oracle: every produced file is read back, the files are concatenated in creation
order and compared with what each thread appended (exactly once, whole, in order, drops only when
announced and then exactly the announced buffers, nothing appended before stop() missing)."""
import os, re, sys, glob, time, shutil, calendar
from concurrent.futures import ThreadPoolExecutor
import vlib

PROP = "C16"
WRAP = ["time", "gettimeofday", "fwrite_unlocked", "ferror", "fflush", "fputs", "pthread_mutex_lock",
        "pthread_cond_timedwait"]
SCRATCH = os.path.join(vlib.WORK, "C16", "scratch")
F8_KEY = "stop-loses-tail"

PAT = b"0123456789ABCDEFGHIJKLMNOPQRSTUVWXYZabcdefghijklmnopqrstuvwxyz+/"
PP = PAT * 200


def make_record(t, seq, ln):
    off = (seq * 7 + t * 13) % 64
    b = bytearray(PP[off:off + ln])
    b[0] = 97 + t
    if ln >= 10:
        b[1:9] = b"%08x" % seq
    if ln >= 2:
        b[ln - 1] = 10
    return bytes(b)


def len_at(spec, i):
    if spec.startswith("@"):
        lo, hi, seed = [int(x) for x in spec[1:].split(":")]
        if lo == hi:
            return lo
        x = ((seed + i * 0x9E3779B1) & 0xffffffff) | 1
        x ^= (x << 13) & 0xffffffff
        x ^= x >> 17
        x ^= (x << 5) & 0xffffffff
        return lo + x % (hi - lo + 1)
    return int(spec)


def bytes_of_spec(s):
    if s == "-":
        return b""
    if s.startswith("@"):
        ln, seed = s[1:].split(":")
        x = (int(seed) & 0xffffffff) | 1
        out = bytearray()
        for _ in range(int(ln)):
            x ^= (x << 13) & 0xffffffff
            x ^= x >> 17
            x ^= (x << 5) & 0xffffffff
            out.append(x & 255)
        return bytes(out)
    return bytes.fromhex(s)


def hdr_get(header, key, default=None):
    for t in header.split():
        if t.startswith(key + "="):
            return t[len(key) + 1:]
    return default


NAME = re.compile(r"^(?:c16log|c16s\d+)\.(\d{4})(\d\d)(\d\d)-(\d\d)(\d\d)(\d\d)\.(.+)\.(\d+)\.log$")


def name_epoch(name, host=None, pid=None):
    m = NAME.match(name)
    if not m:
        return None
    if host is not None and (m.group(7) != host or m.group(8) != pid):
        return None
    y, mo, d, h, mi, s = [int(m.group(i)) for i in range(1, 7)]
    if not (1 <= mo <= 12 and 1 <= d <= 31 and h <= 23 and mi <= 59 and s <= 60):
        return None              # not a date: the name does not carry %Y%m%d-%H%M%S of anything
    try:
        return calendar.timegm((y, mo, d, h, mi, s, 0, 0, 0))
    except (ValueError, OverflowError):
        return None


def canon_impl(lines):
    """Implementation output -> the model's vocabulary: file names -> creation second, the length of the
    announcement write -> 'ann', no time-call counter; oracle-only lines (h, e) removed."""
    res = []
    prev_announce = False
    for l in lines:
        if l.startswith("h ") or l.startswith("e "):
            continue
        if l.startswith("f "):
            t = l.split()
            ep = name_epoch(t[1])
            m = NAME.match(t[1])
            stamp = ".%s%s%s-%s%s%s." % m.groups()[:6] if m else "?"
            res.append("f %s %s %s %s" % (ep if ep is not None else t[1], t[2], t[3], stamp))
            continue
        if l.startswith("N ") or l.startswith("L "):      # section trace of a thread-safe LogFile run: second pass
            continue
        l = re.sub(r" disk(total)?=-?\d+$", "", l)
        l = re.sub(r" tc=\d+$", "", l)
        if prev_announce and l.startswith("B gate=write arg="):
            l = re.sub(r"arg=\d+", "arg=ann", l, count=1)
        if l.startswith("B "):          # the back-end's previous gate (appends / clock ops may come in between)
            prev_announce = l.startswith("B gate=announce")
        res.append(l)
    return res


def is_async(case):
    return case.header.split()[0] in ("async", "free", "lfree", "multi")


def canon_for_compare(case, lines, impl):
    ls = canon_impl(lines) if impl else list(lines)
    if is_async(case):
        ls = [l for l in ls if not l.startswith("f ")]
    return ls


# ------------------------------------------------------------------------------------ oracle: sequential
def oracle_seq(case, lines, casedir):
    """Property text on the implementation's files: the files concatenated in creation order are the
    appended records in order (a record whose append met a stream error contributes the bytes the
    stream had accepted), no record is split across two files, at most one file per second."""
    host = pid = None
    fl = []
    for l in lines:
        if l.startswith("h "):
            _, host, pid = l.split()
        elif l.startswith("f "):
            fl.append(l.split()[1])
    chunks = []
    nows = {int(hdr_get(case.header, "now", "1000"))}
    erridx = []
    opi = 0
    rolls = 0
    cur_bytes = 0          # bytes the stream of the current file has accepted

    def st(line, key):
        m = re.search(r" %s=(-?\d+)" % key, line)
        return int(m.group(1)) if m else None

    for op in case.ops:
        t = op.split()
        before = lines[opi] if opi < len(lines) else ""
        after = lines[opi + 1] if opi + 1 < len(lines) else ""
        lr0, lr1, wb0, wb1 = st(before, "lr"), st(after, "lr"), st(before, "wb"), st(after, "wb")
        if None in (lr0, lr1, wb0, wb1):
            return "op %d (%s): unparsable driver output %r" % (opi, op[:40], after[:80])
        started = None       # a new file was started by this op (observed, not modelled)
        if t[0] == "R":
            started = after.startswith("R 1")
        if t[0] == "C":
            # ~LogFile: everything that was appended is in the files now (fclose flushed the rest)
            tot = st(after, "disktotal")
            if tot != sum(len(x) for x in chunks):
                return "op %d (C): after the destructor the files hold %s bytes, %d were appended" % (opi, tot, sum(len(x) for x in chunks))
            break
        if t[0] == "A":
            data = bytes_of_spec(t[1])
            nows.update((int(t[2]), int(t[3])))
            remain, pos, err = len(data), 0, False
            if t[4] != "-" and remain > 0:
                for item in t[4].split(","):
                    k, e = [int(x) for x in item.split(":")]
                    if k >= remain:
                        pos, remain = len(data), 0
                        break
                    pos += k
                    if e:
                        err = True
                        break
                    remain -= k
                if not err:
                    pos = len(data)
            else:
                pos = len(data)
            counted = pos if not err else pos - k     # `written`: the erroring result is not added
            chunks.append(data[:pos])
            out = lines[opi + 1] if opi + 1 < len(lines) else ""
            m = re.search(r" err=(\d)", out)
            if not m or (m.group(1) == "1") != err:
                return "op %d (%s): stream error %s by the script but the driver saw err=%s" % (opi, op[:40], "reported" if err else "not reported", m.group(1) if m else "?")
            # writtenBytes_ of the current file restarted from 0 although this file had / got bytes
            started = (wb1 == 0 and wb0 + counted > 0) or lr1 != lr0
        elif t[0] == "R":
            nows.add(int(t[1]))
        if t[0] == "A":
            cur_bytes += pos
        disk = st(after, "disk")
        if started:
            cur_bytes = 0
        if disk is not None:
            if disk > cur_bytes:
                return "op %d (%s): the kernel has %d bytes of the current file, only %d were appended to it" % (opi, op[:40], disk, cur_bytes)
            if (t[0] == "F" or started) and disk != cur_bytes:
                return ("op %d (%s): after a flush / in a fresh file the kernel has %d bytes of the current file, %d were appended "
                        "(flush did not hand everything to the OS)" % (opi, op[:40], disk, cur_bytes))
        if started:
            rolls += 1
            if not lr1 > lr0:
                return ("op %d (%s): a new file was started although the clock (%d) is not past the previous creation second (%d): "
                        "more than one file per second" % (opi, op[:40], lr1, lr0))
        opi += 1
    names = sorted(fl)
    eps = []
    for n in names:
        ep = name_epoch(n, host, pid)
        if ep is None:
            return "file name %r is not basename.YYYYmmdd-HHMMSS.%s.%s.log" % (n, host, pid)
        if ep not in nows:
            return "file %r: creation second %d was never returned by time()" % (n, ep)
        eps.append(ep)
    if any(eps[i] >= eps[i + 1] for i in range(len(eps) - 1)):
        return "file creation seconds not strictly increasing: %s" % eps
    if len(names) != rolls + 1:
        return "%d files on disk but %d were started (the constructor's + %d rolls): two files share a creation second" % (len(names), rolls + 1, rolls)
    contents = []
    for n in names:
        try:
            contents.append(open(os.path.join(casedir, n), "rb").read())
        except OSError as e:
            return "cannot read %s: %s" % (n, e)
    stream = b"".join(contents)
    expect = b"".join(chunks)
    if stream != expect:
        i = next((i for i in range(min(len(stream), len(expect))) if stream[i] != expect[i]), min(len(stream), len(expect)))
        return "files concatenated in creation order (%d bytes) differ from the appended records (%d bytes) at offset %d" % (len(stream), len(expect), i)
    bounds, acc = {0}, 0
    for c in chunks:
        acc += len(c)
        bounds.add(acc)
    acc = 0
    for c in contents:
        acc += len(c)
        if acc not in bounds:
            return "a record is split across two files (file boundary at stream offset %d)" % acc
    return None


# ------------------------------------------------------------------------------------ oracle: async
def read_stream(lines, casedir):
    host = pid = None
    names, ann = [], []
    for l in lines:
        if l.startswith("h "):
            _, host, pid = l.split()
        elif l.startswith("f "):
            names.append(l.split()[1])
        elif l.startswith("e "):
            ann.append(l[2:])
    names = sorted(names)
    eps = []
    for n in names:
        ep = name_epoch(n, host, pid)
        if ep is None:
            return None, None, "file name %r is not basename.YYYYmmdd-HHMMSS.%s.%s.log" % (n, host, pid)
        eps.append(ep)
    if any(eps[i] >= eps[i + 1] for i in range(len(eps) - 1)):
        return None, None, "file creation seconds not strictly increasing: %s" % eps
    try:
        disk = sorted(os.listdir(casedir))
    except OSError:
        disk = []
    if disk != names:
        return None, None, "files on disk %s differ from the driver's list %s" % (disk[:4], names[:4])
    parts = [open(os.path.join(casedir, n), "rb").read() for n in names]
    return parts, ann, None


def parse_stream(stream, lens, T):
    """Greedy parse of the concatenated files into records / announcement lines.
    lens[t] = list of record lengths thread t appended.  Returns (items, missing, error)."""
    nxt = [0] * T
    items, missing = [], []
    p, n = 0, len(stream)
    while p < n:
        if stream.startswith(b"Dropped log messages at ", p):
            e = stream.find(b"\n", p)
            if e < 0:
                return items, missing, "unterminated announcement line at offset %d" % p
            items.append(("ann", stream[p:e].decode("latin-1")))
            p = e + 1
            continue
        t = stream[p] - 97
        if not (0 <= t < T):
            return items, missing, "byte 0x%02x at offset %d starts no record of any thread (a record was split, interleaved or corrupted)" % (stream[p], p)
        k = nxt[t]
        if k < len(lens[t]) and stream.startswith(make_record(t, k, lens[t][k]), p):
            items.append((t, k))
            nxt[t] = k + 1
            p += lens[t][k]
            continue
        k2 = None
        try:
            k2 = int(stream[p + 1:p + 9], 16)
        except ValueError:
            pass
        if k2 is not None and k < k2 < len(lens[t]) and lens[t][k2] >= 10 and stream.startswith(make_record(t, k2, lens[t][k2]), p):
            missing += [(t, j) for j in range(k, k2)]
            items.append((t, k2))
            nxt[t] = k2 + 1
            p += lens[t][k2]
            continue
        if k2 is not None and k2 < k:
            return items, missing, "record %d of thread %d appears again or out of order at offset %d (next expected %d)" % (k2, t, p, k)
        return items, missing, "bytes at offset %d are not the next whole record of thread %d (expected #%d): a record was split, interleaved or corrupted" % (p, t, k)
    for t in range(T):
        missing += [(t, j) for j in range(nxt[t], len(lens[t]))]
    return items, missing, None


def oracle_multi(case, lines, casedir):
    """Several sinks alive in one process and written alternately: the files of sink k (basename c16s<k>), in name
    order, concatenated, are exactly the records given to sink k, in order - nothing of another sink, nothing missing."""
    kinds = hdr_get(case.header, "sinks", "LL")
    K = len(kinds)
    seqs = [0] * K
    alive = [True] * K
    want = [bytearray() for _ in range(K)]
    bounds = [{0} for _ in range(K)]
    for op in case.ops:
        t = op.split()
        if t[0] == "W" and int(t[1]) < K and alive[int(t[1])]:
            k = int(t[1])
            for _ in range(int(t[2])):
                want[k] += make_record(k, seqs[k], min(len_at(t[3], seqs[k]), 8000))
                bounds[k].add(len(want[k]))
                seqs[k] += 1
        elif t[0] == "X" and int(t[1]) < K:
            alive[int(t[1])] = False
        elif t[0] == "O" and int(t[1]) < K:
            alive[int(t[1])] = True
    host = pid = None
    names = []
    for l in lines:
        if l.startswith("h "):
            _, host, pid = l.split()
        elif l.startswith("f "):
            names.append(l.split()[1])
    if any(l.startswith("e ") for l in lines):
        return "an overload drop was announced in a case that fills no buffer"
    for k in range(K):
        mine = sorted(n for n in names if n.startswith("c16s%d." % k))
        if not mine:
            return "sink %d (%s) produced no file" % (k, kinds[k])
        if any(name_epoch(n, host, pid) is None for n in mine):
            return "sink %d: a file name is not basename.YYYYmmdd-HHMMSS.%s.%s.log: %s" % (k, host, pid, mine[:2])
        parts = [open(os.path.join(casedir, n), "rb").read() for n in mine]
        whole = b"".join(parts)
        if whole != bytes(want[k]) and len(whole) < len(want[k]) and bytes(want[k]).endswith(whole) and any(op.split()[0] == "O" for op in case.ops):
            return ("sink %d (%s): the first %d of the %d bytes given to it are missing from its files although the rest is there: "
                    "what a destroyed sink had written was lost when a new sink opened the same file name again"
                    % (k, kinds[k], len(want[k]) - len(whole), len(want[k])))
        got, acc = b"", 0
        for n, part in zip(mine, parts):
            got += part
            acc += len(part)
            if acc not in bounds[k] and acc <= len(want[k]):
                return "sink %d: a record is split across two files (file boundary at offset %d)" % (k, acc)
        if got != bytes(want[k]):
            i = next((i for i in range(min(len(got), len(want[k]))) if got[i] != want[k][i]), min(len(got), len(want[k])))
            other = chr(got[i]) if i < len(got) else "?"
            return ("sink %d (%s): its files (%d bytes) are not exactly the records given to it (%d bytes): first difference at offset %d "
                    "(found byte %r there; records of sink j start with chr(97+j)) - the sinks of one process are not independent"
                    % (k, kinds[k], len(got), len(want[k]), i, other))
    left = [n for n in names if not re.match(r"c16s\d+\.", n)]
    if left:
        return "unexpected files %s" % left[:3]
    return None


def multi_cases(rng):
    """Two and three sinks alive at once, written alternately without flushing in between, destroyed one after the other."""
    cs = []
    def body(kinds, rounds, lens, now):
        ops = []
        K = len(kinds)
        for r in range(rounds):
            for k in range(K):
                ops.append("W %d %d %s" % (k, rng.randint(1, 6), lens))
            if r % 3 == 2:
                ops.append("P 12")
            if r % 2 == 1:
                ops.append("T %d" % (now + r + rng.choice([0, 1, 5])))      # lets size / day rolls happen
        return ops
    for i, (kinds, lens) in enumerate([("LL", "@20:300:%d" % rng.randint(1, 9999)), ("LA", "@20:300:%d" % rng.randint(1, 9999)),
                                       ("AL", "@100:2000:%d" % rng.randint(1, 9999)), ("AA", "@100:3000:%d" % rng.randint(1, 9999)),
                                       ("LLL", "@1:120:%d" % rng.randint(1, 9999)), ("LAL", "@20:500:%d" % rng.randint(1, 9999)),
                                       ("AAL", "@50:800:%d" % rng.randint(1, 9999))]):
        now = rng.choice([1000, 86395])
        ops = body(kinds, rng.randint(4, 9), lens, now)
        # destroy in a random order while the others still hold buffered data
        order = list(range(len(kinds)))
        rng.shuffle(order)
        for j, k in enumerate(order[:-1]):
            ops.append("X %d" % k)
            ops.append("W %d 2 %s" % (order[-1], lens))
        if kinds[order[-1]] == "L" and rng.random() < 0.5:
            ops.append("F %d" % order[-1])
        cs.append(vlib.Case("multi_%s_%d" % (kinds, i), "multi sinks=%s roll=%d flush=3 every=%d now=%d"
                            % (kinds, rng.choice([1000000000, 5000, 20000]), rng.choice([1, 7, 1024]), now), ops, "multi-sink"))
    # a logger stopped and started again with the same basename (O after X): within the same second it gets the same
    # file name and must CONTINUE that file; a second later it gets a new one.  Nothing written before may disappear.
    for i, kinds in enumerate(["L", "A", "LA", "AL"]):
        lens = "@20:300:%d" % rng.randint(1, 9999)
        now = rng.choice([1000, 86398])
        ops = []
        for k in range(len(kinds)):
            ops += ["W %d %d %s" % (k, rng.randint(3, 9), lens)]
        ops += ["X 0", "O 0", "W 0 %d %s" % (rng.randint(2, 6), lens), "P 12", "X 0", "O 0", "W 0 2 %s" % lens,
                "T %d" % (now + 2), "X 0", "O 0", "W 0 %d %s" % (rng.randint(2, 6), lens)]
        if len(kinds) > 1:
            ops += ["W 1 3 %s" % lens, "X 1", "O 1", "W 1 2 %s" % lens]
        cs.append(vlib.Case("multi_reopen_%s_%d" % (kinds, i), "multi sinks=%s roll=1000000000 flush=3 every=%d now=%d"
                            % (kinds, rng.choice([1, 1024]), now), ops, "multi-sink"))
    return cs


def oracle_async(case, lines, casedir):
    """Returns None | (key or None, message).  key = F8_KEY when the only failure is: records appended
    before stop() was called, in buffers the back-end had not swapped out at its last test of
    running_, are not on disk after stop() returned."""
    kind = case.header.split()[0]
    T = int(hdr_get(case.header, "threads", "1"))
    parts, ann, err = read_stream(lines, casedir)
    if err:
        return (None, err)
    stream = b"".join(parts)
    bounds_files, acc = [], 0
    for c in parts:
        acc += len(c)
        bounds_files.append(acc)

    if kind in ("free", "lfree"):
        n = int(hdr_get(case.header, "n", "1000"))
        spec = hdr_get(case.header, "lens", "100")
        lens = []
        for t in range(T):
            if spec.startswith("@"):
                lo, hi, seed = spec[1:].split(":")
                sp = "@%s:%s:%d" % (lo, hi, (int(seed) + t * 977) & 0xffffffff)
            else:
                sp = spec
            lens.append([min(len_at(sp, i), 8000) for i in range(n)])
        items, missing, perr = parse_stream(stream, lens, T)
        if perr:
            return (None, perr)
        fann = [x[1] for x in items if x[0] == "ann"]
        if fann != ann:
            return (None, "announcements in the file %s differ from those on stderr %s" % (fann, ann))
        if missing and not ann:
            quiesce = hdr_get(case.header, "quiesce", "1") == "1"
            tails = all(all((t, j) in set(missing) for j in range(min(k for (tt, k) in missing if tt == t), len(lens[t])))
                        for t in set(tt for (tt, _) in missing))
            if tails and not quiesce:
                return (F8_KEY, "%d records appended before stop() are not in the files after stop() returned (per-thread tails), no drop was announced" % len(missing))
            return (None, "%d records are missing from the files although no drop was announced (first: thread %d #%d)" % (len(missing), missing[0][0], missing[0][1]))
        return check_split(items, lens, bounds_files)

    # forced schedules: reconstruct, from the observed gates and hand-overs, what every batch contained
    seqs = [0] * T
    lens = [[] for _ in range(T)]
    queued, curbuf = [], []
    iterations = []       # {"batch": [[rec...]...], "ann": bool}
    prev_gate = None
    m = re.search(r"gate=(\w+)", lines[0])
    prev_gate = m.group(1) if m else None
    stopped_at = None     # number of records appended before stop() was called
    order = []            # global append order
    free_after = None
    li = 1
    for op in case.ops:
        if li >= len(lines):
            return (None, "missing output for op %r" % op)
        out = lines[li]
        li += 1
        t = op.split()
        if t[0] == "A":
            th, n, spec = int(t[1]), int(t[2]), t[3]
            mm = re.match(r"A t=(\d+) from=(\d+) n=(\d+) ho=(\S+) ", out)
            if not mm:
                return (None, "unparsable output %r" % out)
            ho = set() if mm.group(4) == "-" else set(int(x) for x in mm.group(4).split(","))
            for _ in range(n):
                k = seqs[th]
                ln = min(len_at(spec, k), 8000)
                lens[th].append(ln)
                if k in ho:
                    queued.append(curbuf)
                    curbuf = []
                curbuf.append((th, k))
                order.append((th, k))
                seqs[th] = k + 1
        elif t[0] == "B":
            mm = re.match(r"B gate=(\w+) ", out)
            if not mm:
                return (None, "unparsable output %r" % out)
            g = mm.group(1)
            if prev_gate in ("lock", "wait") and g != "wait" and free_after is None:
                iterations.append({"batch": queued + [curbuf], "ann": False})
                queued, curbuf = [], []
            if g == "announce" and iterations:
                iterations[-1]["ann"] = True
            prev_gate = g
        elif t[0] == "S":
            if stopped_at is None:
                stopped_at = len(order)
        elif t[0] == "J":
            if stopped_at is None:
                stopped_at = len(order)
            if free_after is None and prev_gate != "exit":
                free_after = len(iterations)
            prev_gate = "exit"
    if stopped_at is None:
        stopped_at = len(order)          # the destructor stops
    expect = bytearray()
    ai = 0
    for it in iterations:
        if it["ann"]:
            if ai >= len(ann):
                return (None, "an announce gate was passed but stderr carries no announcement")
            mm = re.match(r"Dropped log messages at (\d{8} \d\d:\d\d:\d\d\.\d{6}), (\d+) larger buffers$", ann[ai])
            if not mm:
                return (None, "unexpected announcement text %r" % ann[ai])
            if int(mm.group(2)) != len(it["batch"]) - 2:
                return (None, "announcement says %s buffers dropped, the batch had %d buffers (so %d beyond the two kept)" % (mm.group(2), len(it["batch"]), len(it["batch"]) - 2))
            expect += ann[ai].encode() + b"\n"
            ai += 1
            kept = it["batch"][:2]
        else:
            kept = it["batch"]
        for b in kept:
            for (th, k) in b:
                expect += make_record(th, k, lens[th][k])
    tail = [r for b in queued + [curbuf] for r in b]
    if ai != len(ann) and free_after is None:
        return (None, "%d announcements on stderr but only %d announce gates were passed" % (len(ann), ai))
    expect = bytes(expect)
    taken = sum(len(b) for it in iterations for b in it["batch"])
    if stream[:len(expect)] != expect:
        # diagnose with the parser
        items, missing, perr = parse_stream(stream, lens, T)
        if perr:
            return (None, perr)
        i = next((i for i in range(min(len(stream), len(expect))) if stream[i] != expect[i]), min(len(stream), len(expect)))
        present = set(x for x in items if x[0] != "ann")
        exp_present = []
        ai2 = 0
        for it in iterations:
            kept = it["batch"][:2] if it["ann"] else it["batch"]
            exp_present += [r for b in kept for r in b]
        lost = [r for r in exp_present if r not in present]
        extra = [r for it in iterations if it["ann"] for b in it["batch"][2:] for r in b if r in present]
        return (None, "files differ at offset %d from what the observed batches require: %d records that must be on disk are missing (first %s), %d records of announced-dropped buffers are present; %d announcements"
                % (i, len(lost), lost[:1], len(extra), len(ann)))
    rest = stream[len(expect):]
    # what follows must be a prefix (whole records, in order) of the records not yet swapped out when
    # the gates were opened / the back-end left
    pos, k = 0, 0
    while k < len(tail) and pos < len(rest):
        th, sq = tail[k]
        r = make_record(th, sq, lens[th][sq])
        if not rest.startswith(r, pos):
            break
        pos += len(r)
        k += 1
    if pos != len(rest):
        tb = queued + [curbuf]
        if free_after is not None and len(ann) == ai + 1 and len(tb) > 25:
            # after J nothing is appended any more: what was still in the front-end went out as ONE batch;
            # it was over the threshold and an announcement was printed for it: announced drop, decidable
            mm = re.match(r"Dropped log messages at (\d{8} \d\d:\d\d:\d\d\.\d{6}), (\d+) larger buffers$", ann[ai])
            if not mm or int(mm.group(2)) != len(tb) - 2:
                return (None, "announcement %r for the last batch, which had %d buffers (so %d beyond the two kept)" % (ann[ai], len(tb), len(tb) - 2))
            alt = ann[ai].encode() + b"\n" + b"".join(make_record(th, sq, lens[th][sq]) for b in tb[:2] for (th, sq) in b)
            if rest != alt:
                return (None, "an overload drop was announced for the last batch (%d buffers) but the files do not continue with the announcement followed by "
                              "exactly the records of its first two buffers" % len(tb))
            return check_split_stream(parts, expect, iterations + [{"batch": tb, "ann": True}], [], lens, ann)
        return (None, "after the observed batches the files contain %d bytes that are not the next whole records in append order" % (len(rest) - pos))
    written = taken + k
    res = check_split_stream(parts, expect, iterations, tail[:k], lens, ann)
    if res:
        return res
    if written < stopped_at:
        lost = order[written:stopped_at]
        return (F8_KEY, "stop() returned but %d record(s) appended before stop() was called are in no file (first: thread %d #%d, last: thread %d #%d); "
                        "they were appended after the back-end's last swap and before its last test of running_; no drop was announced for them"
                % (len(lost), lost[0][0], lost[0][1], lost[-1][0], lost[-1][1]))
    return None


def check_split(items, lens, bounds_files):
    acc, bounds = 0, {0}
    for it in items:
        acc += (len(it[1]) + 1) if it[0] == "ann" else lens[it[0]][it[1]]
        bounds.add(acc)
    for b in bounds_files:
        if b not in bounds:
            return (None, "a record is split across two files (file boundary at stream offset %d)" % b)
    return None


def check_split_stream(parts, expect, iterations, tailk, lens, ann):
    bounds, acc = {0}, 0
    ai = 0
    for it in iterations:
        if it["ann"]:
            acc += len(ann[ai]) + 1
            ai += 1
            bounds.add(acc)
        for b in (it["batch"][:2] if it["ann"] else it["batch"]):
            for (th, k) in b:
                acc += lens[th][k]
                bounds.add(acc)
    for (th, k) in tailk:
        acc += lens[th][k]
        bounds.add(acc)
    acc = 0
    for c in parts:
        acc += len(c)
        if acc not in bounds:
            return (None, "a record is split across two files (file boundary at stream offset %d)" % acc)
    return None


# ------------------------------------------------------------------------------------ generators
def gen_seq(rng, cid, big=False):
    roll = rng.choice([0, 1, 50, 100, 100, 200, 500, 1000]) if not big else rng.choice([70000, 150000])
    flush = rng.choice([0, 1, 3, 3, 10])
    every = rng.choice([1, 1, 2, 3, 5, 1024])
    now = rng.choice([1, 1000, 86399, 86400, 1700000000, 1700006399 - (1700006399 % 86400) + 86399])
    hdr = "seq roll=%d flush=%d every=%d now=%d" % (roll, flush, every, now)
    ops = []
    t = now
    for _ in range(rng.randint(1, 25)):
        k = rng.random()
        if k < 0.8:
            t += rng.choice([0, 0, 0, 1, 1, 2, 4, 11, -1, 86400, rng.randint(0, 90000)]) if rng.random() < 0.6 else 0
            t = max(t, 1)
            t2 = t + rng.choice([0, 0, 0, 1, -1, 5])
            n = rng.choice([0, 1, 2, 10, 49, 50, 51, 99, 100, 101, rng.randint(1, 300)]) if not big else rng.choice([1, 4000, 65535, 65536, 65537, 70001])
            script = "-"
            if rng.random() < 0.4 and n > 0:
                items = []
                for _ in range(rng.randint(1, 4)):
                    items.append("%d:%d" % (rng.choice([0, 1, n // 2, max(n - 1, 0), n, n + 5, rng.randint(0, n)]), 1 if rng.random() < 0.25 else 0))
                # a script that ends with 0-byte non-error results would loop forever only if the list were infinite: it is finite
                script = ",".join(items)
            ops.append("A @%d:%d %d %d %s" % (n, rng.randint(1, 1 << 30), t, t2, script))
        elif k < 0.9:
            ops.append("F")
        else:
            t += rng.choice([0, 1, 1, -3])
            t = max(t, 1)
            ops.append("R %d" % t)
    if rng.random() < 0.3:
        ops.append("C")          # ~LogFile explicitly (otherwise at the end of the case, unobserved)
    return vlib.Case(cid, hdr, ops, "seq-random")


FULL = 999       # 4000-byte records per 4 MB buffer (avail() > len is strict)


def f8_family():
    """stop() placed at every phase of the back-end, with a record appended just before it."""
    cases = []
    pre = ["B", "B"]     # start -> lock -> wait
    phases = {
        "start": [],                                   # before the first test of running_
        "lock": ["B"],                                 # running_ tested, not yet in the section
        "wait": ["B", "B"],                            # inside the timed wait
        "write": ["B", "B", "A 0 1 100", "B"],         # writing the previous batch
        "flush": ["B", "B", "A 0 1 100", "B", "B"],    # about to flush, then re-test running_
        "lock2": ["B", "B", "A 0 1 100", "B", "B", "B"],
        "wait2": ["B", "B", "A 0 1 100", "B", "B", "B", "B"],
    }
    for name, ops in phases.items():
        cases.append(vlib.Case("stop_at_%s" % name, "async threads=2 roll=1000000000 flush=3 now=1000",
                               ops + ["A 1 2 @1:300:5", "S", "B", "B", "B", "B", "B", "B", "J"], "stop-phase"))
        cases.append(vlib.Case("stop_at_%s_idle" % name, "async threads=2 roll=1000000000 flush=3 now=1000",
                               ops + ["S", "B", "B", "B", "B", "B", "J"], "stop-phase"))
    # ~AsyncLogging while running (no stop(), no join: the case just ends and the object is destroyed):
    # the destructor's stop() has to write what was appended, at every phase of the back-end
    for name, ops in phases.items():
        cases.append(vlib.Case("dtor_at_%s" % name, "async threads=2 roll=1000000000 flush=3 now=1000",
                               ops + ["A 1 2 @1:300:5"], "destructor"))
    return cases


def gen_async(rng, cid, heavy=False):
    T = rng.choice([1, 2, 3, 4])
    roll = rng.choice([1000000000, 3000000, 5000000, 9000000, 100000])
    hdr = "async threads=%d roll=%d flush=3 now=%d" % (T, roll, rng.choice([1000, 86390]))
    ops = []
    now = 1000
    budget = rng.choice([2, 5, 12]) if not heavy else 40      # 4 MB buffers this case may fill
    for _ in range(rng.randint(3, 30)):
        k = rng.random()
        if k < 0.45:
            t = rng.randrange(T)
            mode = rng.random()
            if mode < 0.5:
                ops.append("A %d %d @%d:%d:%d" % (t, rng.randint(1, 40), 1, rng.choice([20, 300, 4000]), rng.randint(1, 1 << 20)))
            elif mode < 0.8 and budget > 0:
                nb = rng.choice([1, 1, 2, 3]) if not heavy else rng.choice([3, 9, 14, 27])
                nb = min(nb, budget)
                budget -= nb
                ops.append("A %d %d 4000" % (t, FULL * nb + rng.choice([-2, -1, 0, 1, 5])))
            else:
                ops.append("A %d %d %d" % (t, rng.randint(1, 5), rng.choice([1, 2, 9, 10, 11, 3999, 4000])))
        elif k < 0.9:
            ops.append("B")
        else:
            now += rng.choice([0, 1, 1, 2, 86400])
            ops.append("T %d" % now)
    where = rng.random()
    if where < 0.7:
        ops.append("S")
        ops += ["B"] * rng.randint(0, 8)
        if rng.random() < 0.3:
            ops.append("A %d 2 50" % rng.randrange(T))       # appended after stop() was called: no guarantee asked
            ops += ["B"] * rng.randint(0, 4)
        ops += ["B"] * 40 if not heavy else ["B"] * 80
    ops.append("J")
    return vlib.Case(cid, hdr, ops, "async-random" if not heavy else "async-overload")


def drop_cases():
    cs = []
    # the fit test at its boundary: after 999 x 4000 + 3999 bytes exactly 1 byte is left; a 1-byte record
    # (len == avail) must force a hand-over and be written; likewise a 4000-byte record into 4000 left
    cs.append(vlib.Case("fit_exact_1", "async threads=2 roll=1000000000 flush=3 now=1000",
                        ["B", "B", "A 0 999 4000", "A 1 1 3999", "A 0 1 1", "A 1 3 2", "S"] + ["B"] * 8 + ["J"], "fit-boundary"))
    cs.append(vlib.Case("fit_exact_4000", "async threads=1 roll=1000000000 flush=3 now=1000",
                        ["B", "B", "A 0 1000 4000", "A 0 2 17", "B", "B", "B", "B", "A 0 1 9", "S"] + ["B"] * 8 + ["J"], "fit-boundary"))
    # exactly at the valve: 25 queued + current = 26 > 25 ; and 24 + current = 25 (no drop)
    for name, n in (("drop26", FULL * 25 + 1), ("nodrop25", FULL * 24 + 1), ("drop30", FULL * 29 + 7)):
        cs.append(vlib.Case(name, "async threads=2 roll=9000000 flush=3 now=1000",
                            ["B", "B", "A 0 %d 4000" % (n // 2), "A 1 %d 4000" % (n - n // 2 + 12), "T 1005"] + ["B"] * 6 +
                            ["T 1010"] + ["B"] * 30 + ["A 0 3 @1:4000:7", "S"] + ["B"] * 12 + ["J"], "overload"))
    return cs


def free_cases(rng, tier):
    cs = []
    n = 3000 if tier == "quick" else 20000
    for i, (T, lens, burst) in enumerate([(4, "@1:4000:%d" % rng.randint(1, 9999), 64), (2, "@1:200:%d" % rng.randint(1, 9999), 0),
                                          (8, "@10:4000:%d" % rng.randint(1, 9999), 16)][: 2 if tier == "quick" else 3]):
        cs.append(vlib.Case("free%d" % i, "free threads=%d n=%d lens=%s roll=%d burst=%d quiesce=1" % (T, n, lens, rng.choice([2000000, 7000000]), burst), [], "free-running"))
    # stop() right after the last append, no waiting for the back-end: the drain after the loop has to write the tail
    cs.append(vlib.Case("free_nq", "free threads=3 n=%d lens=@1:3000:%d roll=5000000 burst=32 quiesce=0" % (n, rng.randint(1, 9999)), [], "free-running"))
    if tier != "quick":
        # long runs through many real 4 MB buffers (several hundred MB), one of them stopped without quiescing
        cs.append(vlib.Case("free_big0", "free threads=6 n=40000 lens=@2000:4000:%d roll=50000000 burst=0 quiesce=1" % rng.randint(1, 9999), [], "free-running"))
        # a slowed-down back-end (30 ms per write): the front-ends overrun it, the valve must announce what it drops
        cs.append(vlib.Case("free_overload", "free threads=8 n=15000 lens=4000 roll=100000000 burst=0 quiesce=1 slow=30000", [], "free-running"))
        cs.append(vlib.Case("free_big1", "free threads=4 n=60000 lens=@500:4000:%d roll=20000000 burst=128 quiesce=0" % rng.randint(1, 9999), [], "free-running"))
    # several threads appending to ONE thread-safe LogFile (LogFile::append under its own mutex), rolling often
    # (roll sizes are small: more files, and the model's file content is a list it appends to; the number of
    # sections per case is bounded because the monitor model's history is a list it appends to)
    for i, (T, lens, roll, every) in enumerate([(4, "@1:300:%d" % rng.randint(1, 9999), 8000, 7), (3, "@10:600:%d" % rng.randint(1, 9999), 12000, 1024),
                                                (8, "@1:64:%d" % rng.randint(1, 9999), 3000, 1)][: 2 if tier == "quick" else 3]):
        cs.append(vlib.Case("lfree%d" % i, "lfree threads=%d n=%d lens=%s roll=%d flush=3 every=%d burst=%d now=86395 quiesce=1"
                            % (T, min(n // 2, 3000), lens, roll, every, rng.choice([0, 8, 64])), [], "free-running"))
    return cs


# ------------------------------------------------------------------------------------ running
def crash_summary(se):
    """The informative line(s) of a crashed driver's stderr: sanitizer error + summary, failed assertion,
    the runaway guard; else the tail."""
    keep = [l.strip() for l in se.splitlines()
            if re.search(r"ERROR: \w+Sanitizer|SUMMARY: |Assertion .* failed|RUNAWAY|runtime error:", l)]
    return " | ".join(keep[:4])[:900] if keep else se[-600:]


def run_cases(exe, cases, timeout, args=(), pre=(), jobs=8, max_crashes=2):
    """Like vlib.run_batch_parallel but gives up on a chunk after max_crashes crashes/timeouts (a hanging
    mutant must not cost timeout x cases)."""
    outs, crashes = {}, {}

    def one(chunk):
        o, c = {}, {}
        todo = list(chunk)
        e = {"ASAN_OPTIONS": "detect_leaks=0:abort_on_error=0:allocator_may_return_null=1",
             "UBSAN_OPTIONS": "print_stacktrace=1", "MALLOC_ARENA_MAX": "2"}
        while todo and len(c) < max_crashes:
            text = "".join(x.text() for x in todo).encode()
            # the time limit is per process: allow for the number of cases in the chunk (a loaded machine must
            # not turn a long chunk into a "hang")
            rc, so, se = vlib.sh2(list(pre) + [exe] + list(args), stdin=text, timeout=timeout + 0.25 * len(todo), env=e)
            got, partial = vlib.split_outputs(so)
            o.update(got)
            if rc == 0 and len(got) == len(todo):
                break
            idx = next((i for i, x in enumerate(todo) if x.cid not in got), None)
            if idx is None:
                break
            x = todo[idx]
            if rc == 124:
                # the chunk ran out of time: the case is blamed only if it does not finish when run alone
                rc1, so1, se1 = vlib.sh2(list(pre) + [exe] + list(args), stdin=x.text().encode(), timeout=timeout, env=e)
                got1, _ = vlib.split_outputs(so1)
                if rc1 == 0 and x.cid in got1:
                    o.update(got1)
                    todo = todo[idx + 1:]
                    continue
                rc, se = rc1, se1
            c[x.cid] = (rc, crash_summary(se), partial[1] if partial and partial[0] == x.cid else [])
            todo = todo[idx + 1:]
        return o, c

    chunks = [cases[i::jobs] for i in range(jobs)] if len(cases) >= 2 * jobs else [cases[i:i + 1] for i in range(len(cases))]
    chunks = [c for c in chunks if c]
    with ThreadPoolExecutor(max_workers=jobs) as ex:
        for o, c in ex.map(one, chunks):
            outs.update(o)
            crashes.update(c)
    return outs, crashes


def load_cases(path, tag):
    cases, cid, header, ops = [], None, "", []
    for line in open(path):
        line = line.rstrip("\n")
        if not line or line.startswith("#"):
            continue
        if line.startswith("---"):
            break
        if line.startswith("case "):
            t = line.split()
            cid, header, ops = t[1], " ".join(t[2:]), []
        elif line == "end":
            cases.append(vlib.Case(cid, header, ops, tag))
        else:
            ops.append(line)
    return cases


def gen_fact(name, default=None):
    try:
        txt = open(os.path.join(vlib.COQ, "Gen_C16.v")).read()
    except OSError:
        return default
    m = re.search(r"Definition %s : \w+ := \(?(-?\w+)\)?\." % name, txt)
    return m.group(1) if m else default


def run(chk, replay=None):
    tier, rng = chk.tier, chk.rng
    t00 = time.time()
    pr = chk.prove()
    model = vlib.build_model(PROP)
    impl = vlib.build_driver("C16_driver", ["C16_driver.cc"], variant="asan", components=("base",), wrap=WRAP)
    scratch = os.path.join(SCRATCH, "%d_%d" % (os.getpid(), chk.seed))
    shutil.rmtree(scratch, ignore_errors=True)
    os.makedirs(scratch, exist_ok=True)
    drain = gen_fact("AsyncLogging_drain_after_loop", "false") == "true"

    cases = []
    if replay:
        cases = load_cases(replay, "replay")
    else:
        for f in sorted(glob.glob(os.path.join(vlib.ROOT, "corpus", PROP, "*.case"))):
            for c in load_cases(f, "corpus"):
                c.cid = "corpus_" + c.cid
                cases.append(c)
        cases += f8_family()
        cases += drop_cases()
        nseq, nasync, nheavy = (400, 60, 3) if tier == "quick" else (20000, 2000, 40)
        cases += [gen_seq(rng, "s%d" % i, big=(i % 25 == 24)) for i in range(nseq)]
        cases += [gen_async(rng, "a%d" % i) for i in range(nasync)]
        cases += [gen_async(rng, "h%d" % i, heavy=True) for i in range(nheavy)]
        cases += multi_cases(rng)
        cases += free_cases(rng, tier)
    heavy = [c for c in cases if c.tag in ("overload", "async-overload", "free-running")]
    light = [c for c in cases if c not in heavy]
    t1 = time.time()
    impl_out, crashes = run_cases(impl, light, timeout=120, args=[scratch], jobs=12)
    o2, c2 = run_cases(impl, heavy, timeout=300, args=[scratch], jobs=4)
    impl_out.update(o2)
    crashes.update(c2)
    t2 = time.time()
    model_out, mcr = run_cases(model, cases, timeout=600, pre=["bash", "-c", 'ulimit -s unlimited 2>/dev/null; exec "$0" "$@"'], jobs=12)
    # second pass, trace validation: the sections the real threads executed on the thread-safe LogFile, in the
    # order in which they held its mutex and with the clock values they read, must be accepted step by step by
    # the extracted monitor model (C16_MonModel over Conc_Model), which must end with the same files
    lt_cases = []
    for c in cases:
        if c.header.split()[0] == "lfree" and c.cid in impl_out:
            li0 = impl_out[c.cid]
            n0 = [l.split()[1] for l in li0 if l.startswith("N ")]
            hdr = re.sub(r"^lfree", "lftrace", c.header)
            hdr = re.sub(r"now=\d+", "now=%s" % (n0[0] if n0 else "0"), hdr)
            lt_cases.append(vlib.Case("lt_" + c.cid, hdr, [l for l in li0 if l.startswith("L ")], "lftrace"))
    lt_out, _ = run_cases(model, lt_cases, timeout=600, pre=["bash", "-c", 'ulimit -s unlimited 2>/dev/null; exec "$0" "$@"'], jobs=4) if lt_cases else ({}, {})
    t3 = time.time()

    corr_bad, oracle_bad, known_bad = [], [], []
    trace_sections = 0
    for lc in lt_cases:
        c0 = next(x for x in cases if "lt_" + x.cid == lc.cid)
        want = int(hdr_get(c0.header, "threads", "1")) * int(hdr_get(c0.header, "n", "0"))
        got = lt_out.get(lc.cid)
        exp_f = [x for x in canon_impl(impl_out[c0.cid]) if x.startswith("f ")]
        if not got or len(got) < 2:
            corr_bad.append((c0, 0, "no output of the monitor model for the section trace"))
        elif got[1] != "ACCEPT sections=%d left=0" % want:
            corr_bad.append((c0, 1, "section trace of the real threads (%d sections, %d expected) not accepted by the monitor model: %r" % (len(lc.ops), want, got[1])))
        elif [x for x in got if x.startswith("f ")] != exp_f:
            a, b = [x for x in got if x.startswith("f ")], exp_f
            i = next((i for i in range(min(len(a), len(b))) if a[i] != b[i]), min(len(a), len(b)))
            corr_bad.append((c0, i, "files after replaying the section trace on the monitor model differ from the real files: model %r vs impl %r"
                             % (a[i] if i < len(a) else None, b[i] if i < len(b) else None)))
        else:
            trace_sections += want
    free_stats = {"cases": 0, "records": 0, "bytes_in_files": 0, "files": 0, "announcements": 0, "asynclogging_4MB_buffers_filled_at_least": 0}
    sigs = set()
    hist = {}
    for c in cases:
        chk.cov["evaluations"] += 1
        hist[c.tag] = hist.get(c.tag, 0) + 1
        casedir = os.path.join(scratch, c.cid)
        if c.cid in crashes:
            rc, se, partial = crashes[c.cid]
            oracle_bad.append((c, "implementation crashed, hung or was killed (rc=%s) after %d output lines: %s" % (rc, len(partial), se[-600:])))
            shutil.rmtree(casedir, ignore_errors=True)
            continue
        li = impl_out.get(c.cid)
        lm = model_out.get(c.cid)
        if li is None:
            if any(x for x in crashes):     # chunk abandoned after crashes
                continue
            oracle_bad.append((c, "no implementation output"))
            continue
        try:
            if c.header.split()[0] == "multi":
                o = oracle_multi(c, li, casedir)
                o = (None, o) if o is not None else None
            else:
                o = oracle_async(c, li, casedir) if is_async(c) else oracle_seq(c, li, casedir)
                if o is not None and not is_async(c):
                    o = (None, o)
        except Exception as e:   # noqa
            o = (None, "oracle could not evaluate the output: %r" % (e,))
        shutil.rmtree(casedir, ignore_errors=True)
        if o is not None:
            (known_bad if o[0] else oracle_bad).append((c, o[1]) if not o[0] else (c, o[0], o[1]))
        a, b = canon_for_compare(c, li, True), canon_for_compare(c, lm or [], False)
        if lm is None or a != b:
            idx = next((i for i in range(min(len(a), len(b))) if a[i] != b[i]), min(len(a), len(b)))
            corr_bad.append((c, idx, "impl %r vs model %r" % (a[idx] if idx < len(a) else None, b[idx] if idx < len(b) else None)))
        if lm and any(l == "FAULT" for l in lm):
            corr_bad.append((c, 0, "model reports FAULT (a recycling assert of threadFunc would fail)"))
        # non-trivial: a roll, a short write, an error, a buffer hand-over, a drop, a stop with data in flight
        ev = set()
        for l in li:
            if l.startswith("A t=") and " ho=-" not in l:
                ev.add("handover")
            if "gate=announce" in l:
                ev.add("drop")
            if l.startswith("S |") and (" cur=0 " not in l or "bufs=-" not in l):
                ev.add("stop-with-data")
            if l.startswith("A ") and " err=1" in l:
                ev.add("stream-error")
        nfiles = sum(1 for l in li if l.startswith("f "))
        if nfiles > 1:
            ev.add("roll")
        if any(op.startswith("A ") and not op.endswith(" -") and not is_async(c) for op in c.ops):
            ev.add("short-write")
        if c.tag == "multi-sink":
            ev.add("multi")
        if c.tag == "free-running":
            ev.add("free")
            fb = sum(int(l.split()[2]) for l in li if l.startswith("f "))
            fr = free_stats
            fr["cases"] += 1
            fr["bytes_in_files"] += fb
            fr["files"] += sum(1 for l in li if l.startswith("f "))
            fr["announcements"] += sum(1 for l in li if l.startswith("e "))
            fr["records"] += int(hdr_get(c.header, "threads", "1")) * int(hdr_get(c.header, "n", "0"))
            if c.header.split()[0] == "free":
                fr["asynclogging_4MB_buffers_filled_at_least"] += fb // 4000000
        if ev:
            sigs.add((tuple(op.split()[0] for op in c.ops), tuple(sorted(ev)), nfiles, tuple(li[-3:-2])))
        if len(chk.cov["samples"]) < 5 and ev and len(c.ops) <= 14 and c.tag.endswith("random"):
            chk.sample({"case": c.text().split("\n")[:-1], "events": sorted(ev), "impl_tail": li[-4:]})
    shutil.rmtree(scratch, ignore_errors=True)
    chk.cov["distinct_nontrivial"] = len(sigs)
    chk.cov["generator_histogram"] = hist
    chk.cov["free_running"] = free_stats
    chk.cov["threadsafe_logfile_sections_validated"] = trace_sections
    chk.cov["phase_s"] = {"proof": round(pr["wall_s"], 1), "impl": round(t2 - t1, 1), "model": round(t3 - t2, 1)}
    chk.cov["rule"] = ("corpus + stop() at every back-end phase + overload cases at the valve boundary + the fit test at its boundary (len == avail) + "
                       "several threads on one thread-safe LogFile (free-running, file oracle) + free-running AsyncLogging runs incl. one stopped without "
                       "quiescing (thorough: runs of several hundred MB through real 4 MB buffers and one with a slowed back-end that overloads) + random sequential LogFile cases "
                       "(roll sizes, flush intervals, checkEveryN, virtual seconds incl. same-second/backwards/day boundary, short-write and "
                       "stream-error scripts) + random forced async schedules (real 4 MB buffers) + free-running multi-thread runs; "
                       "non-trivial = reaches a roll, a short write, a stream error, a buffer hand-over, an overload drop, a stop with data "
                       "in flight or a free run; distinct by (op-kind sequence, events, number of files, last state line)")
    chk.cov["traces_validated_against_impl"] = len(cases) - len(corr_bad)
    if corr_bad:
        chk.cov["correspondence_failures"] = ["%s line %d: %s" % (c.cid, i, m) for (c, i, m) in corr_bad[:5]]
    if oracle_bad:
        chk.cov["oracle_failures"] = ["%s: %s" % (c.cid, m[:300]) for (c, m) in oracle_bad[:5]]

    # generated fact vs behaviour: the F-8 witness loses its record iff there is no drain after the loop
    f8_seen = any(k == F8_KEY for (_, k, _) in known_bad)
    chk.add_obligation("generated fact AsyncLogging_drain_after_loop=%s agrees with the real code on the F-8 witness family" % drain,
                       replay is not None or (f8_seen != drain))
    gen_problems = [x for x in pr.get("problems", []) if x.startswith("gen_C16.py")]
    chk.add_obligation("generated facts of lib/gen_C16.py (drain after the loop, fit test of AsyncLogging::append and copy test of FixedBuffer::append, roll guard, "
                       "25/2/2, constructor defaults, shape of AppendFile::append's retry loop) translated from the current sources without fallback",
                       not gen_problems)
    chk.add_obligation("correspondence: extracted C16_Model (LogFile/AppendFile ops; AsyncLogging gate-to-gate steps) == real classes on every case", not corr_bad)
    chk.add_obligation("trace validation: the critical sections of the thread-safe LogFile runs (order of mutex ownership + clock values read) are accepted "
                       "by the extracted monitor model and end in the same files (name stamp, size, checksum)",
                       all(x[0].header.split()[0] != "lfree" for x in corr_bad) and (replay is not None or trace_sections > 0 or not lt_cases))
    chk.add_obligation("oracle: files read back == appended records (exactly once, whole, in order, announced drops only, stop flushes)", not oracle_bad and not known_bad)
    chk.trusted("extraction: ExtrOcamlBasic only; extract/util.ml + extract/C16_driver.ml (OCaml 4.13.1; maps model park points to gates, steps over unobservable parks)",
                "harness/C16_driver.cc: real AsyncLogging/LogFile/AppendFile, #define private public for observation, link-time interposition "
                "(--wrap=time,gettimeofday,fwrite_unlocked,ferror,fflush,fputs,pthread_mutex_lock,pthread_cond_timedwait): virtual clock, scripted short "
                "writes, gates that park the back-end thread; a timed wait parked at a gate returns ETIMEDOUT when released",
                "translator lib/gen_consts.py / lib/gen_C16.py (clang 14 JSON AST): kRollPerSeconds_, kLargeBuffer, kSmallBuffer, the literals 25/2/2 of threadFunc, "
                "the shape facts 'push of currentBuffer_, swap of buffers_, output.append follow the while loop in this order', the comparison operators of "
                "AsyncLogging::append / FixedBuffer::append / LogFile::rollFile, the default constructor arguments, the shape of AppendFile::append's loop",
                "C16_NamesModel.stamp = fixed-width decimal fields of C20's break_utc stands for strftime('.%Y%m%d-%H%M%S.') over gmtime_r: compared with the real file "
                "name of every produced file (differential) and, independently, name <-> second by Python's calendar (oracle)",
                "coq/Conc_Model.v, Conc_Proofs.v (generic monitor semantics) and coq/C20_Model.v, C20_Proofs.v, Gen_C20.v (calendar) are imported read-only",
                "stdio/filesystem: fwrite_unlocked/fflush/fclose hand the bytes to the OS in order; 'on disk' = handed to the OS (no fsync); O_APPEND",
                "sequential consistency of the std::atomic<bool> running_ and of pthread mutexes; std::vector/unique_ptr")

    def first_replay(c, msg, name):
        return chk.write_replay(name, "# %s\n" % msg.replace("\n", "\n# ") + c.text())

    reported = False
    if oracle_bad:
        c, msg = oracle_bad[0]
        small = c
        if not is_async(c) and c.cid not in crashes and len(c.ops) > 1:
            def fails(ops):
                cc = vlib.Case("shrink", c.header, ops)
                sd = os.path.join(SCRATCH, "shrink_%d" % os.getpid())
                io, cr = run_cases(impl, [cc], timeout=60, args=[sd], jobs=1)
                if "shrink" in cr or "shrink" not in io:
                    shutil.rmtree(sd, ignore_errors=True)
                    return True
                r = oracle_seq(cc, io["shrink"], os.path.join(sd, "shrink"))
                shutil.rmtree(sd, ignore_errors=True)
                return r is not None
            small = vlib.Case(c.cid, c.header, vlib.ddmin(c.ops, fails, max_tests=60))
        p = first_replay(small, msg, "oracle_%s.case" % c.cid)
        also = "" if pr["ok"] else "; proof obligation(s) no longer checking on this tree: %s" % (pr["broken"],)
        chk.violation(p, "C16 fails on the implementation: %s (%d failing cases)%s" % (msg, len(oracle_bad), also))
        reported = True
    if known_bad:
        kf = [k for k in vlib.known_findings() if k["property"] == PROP]
        for (c, key, msg) in known_bad:
            hit = next((k for k in kf if k["key"] == key), None)
            if hit:
                chk.known(key, "key=%s %s" % (key, hit["text"]))
            elif not reported:
                # smallest witness first: the corpus case if it is among them
                cands = sorted([x for x in known_bad if x[1] == key], key=lambda x: (not x[0].cid.startswith("corpus_"), len(x[0].ops), x[0].cid))
                c0, _, msg0 = cands[0]
                p = first_replay(c0, msg0, "oracle_%s.case" % c0.cid)
                chk.violation(p, "C16 fails on the implementation (finding F-8, not recorded in KNOWN_FINDINGS.txt; generated fact drain_after_loop=%s): %s (%d failing cases, signature %s)"
                              % (drain, msg0, len(cands), key))
                reported = True
    if not reported and (corr_bad or not pr["ok"] or gen_problems):
        what = []
        body = ""
        if gen_problems:
            what.append("the shape facts the theorems rest on could not be read off the current sources: %s" % "; ".join(gen_problems))
        if not pr["ok"]:
            what.append("proof obligation(s) no longer check: %s %s" % (pr["broken"], pr["problems"]))
        if corr_bad:
            c, idx, msg = corr_bad[0]
            what.append("correspondence C16_Model vs real classes broken at output line %d of the case below (%s); the oracle holds on all %d cases (%d cases differ)"
                        % (idx, msg, len(cases), len(corr_bad)))
            body = c.text()
        p = chk.write_replay("broken_obligation.txt", "\n".join("# " + w for w in what) + "\n" + body +
                             ("\n--- coq log tail ---\n" + pr["log"][-3000:] if not pr["ok"] else ""))
        chk.violation(p, "; ".join(what), no_input=True)
    return chk.finish(level="proof", assumptions=[
        "fwrite_unlocked returns k <= n having put exactly the first k bytes on the stream; ferror reports a stream error (3.4)",
        "time(NULL) results are environment inputs (any values); file names are a function of the creation second",
        "pthread mutex = mutual exclusion; a timed wait may return at any time; running_ accesses are sequentially consistent",
        "the model is tied to the code by differential execution under forced schedules (testing), not by a verified C++ semantics"])
