#!/usr/bin/env python3
"""Translator output for C16 (DESIGN 4.1): coq/Gen_C16.v, regenerated from /repo's current sources on
every check (clang JSON AST of AsyncLogging::threadFunc / append, AppendFile::append, LogFile::rollFile).

  AsyncLogging_drain_after_loop : bool   are there, AFTER the `while (running_)` loop of threadFunc, in this
        source order: `buffers_.push_back(..currentBuffer_..)`, a swap of `buffers_` into the local
        vector, and a call `output.append(..)`?  (tree before 440cd2b: false -> finding F-8; now: true)
  AsyncLogging_drop_threshold   : Z      literal of `if (buffersToWrite.size() > L)` guarding the erase
  AsyncLogging_drop_threshold_is_gt : bool   that comparison is `>`
  AsyncLogging_drop_keep        : Z      k of `buffersToWrite.erase(buffersToWrite.begin()+k, ...end())`
  AsyncLogging_recycle_keep     : Z      k of `buffersToWrite.resize(k)`
  AsyncLogging_append_fit_is_gt : bool   `currentBuffer_->avail() > len` (strict) in append
  LogFile_roll_guard_is_gt      : bool   `if (now > lastRoll_)` in rollFile
  FixedBuffer_append_copy_is_gt : bool   `if (avail() > len) memcpy` (strict) in FixedBuffer::append (LogStream.h)
  LogFile_default_flushInterval / LogFile_default_checkEveryN / AsyncLogging_default_flushInterval : Z
        default constructor arguments
  Sinks_share_no_state          : bool   the classes AppendFile, LogFile, AsyncLogging, FixedBuffer have no static data member
        (static const / constexpr constants excepted) and their member functions refer to no variable declared outside the
        function other than members of *this (libc's stderr/stdout/errno excepted): two sinks share no state, a system
        of N sinks is the product of N copies of the model
  AppendFile_opens_in_append_mode : bool  AppendFile's constructor opens with fopen(name, "a.."): an existing file is continued
  AppendFile_append_loop_ok     : bool   AppendFile::append is the retry loop the model `af_loop` transcribes:
        `while (written != len)`, the only other exit is the break under a non-zero ferror() after a short
        write, `written += n` is the last statement of the body
What cannot be matched falls back to the committed value and prints a FALLBACK line (the check then
reports a broken generated-fact obligation)."""
import os, sys, re
sys.path.insert(0, os.path.dirname(os.path.abspath(__file__)))
import cxxast

AL = "muduo/base/AsyncLogging.cc"
LF = "muduo/base/LogFile.cc"


def clean(s):
    return " ".join(s.split()).replace("*)", "* )").replace("(*", "( *")


def names_in(node):
    res = set()
    for n in cxxast.walk(node):
        if n.get("kind") == "MemberExpr":
            res.add(n.get("name"))
        if n.get("kind") == "DeclRefExpr":
            res.add(n.get("referencedDecl", {}).get("name"))
    return res


def drain_fact():
    fn = cxxast.function_decl(AL, "AsyncLogging::threadFunc")
    stmts = [c for c in cxxast.body(fn).get("inner", []) if isinstance(c, dict)]
    idx = [i for i, c in enumerate(stmts) if c.get("kind") == "WhileStmt"]
    if not idx:
        raise cxxast.Untranslatable("no while loop in threadFunc")
    after = stmts[idx[-1] + 1:]
    # in source order: buffers_.push_back(..currentBuffer_..)  <  ....swap(buffers_) / buffers_.swap(..)  <  output.append(..)
    def off(n):
        return n.get("range", {}).get("begin", {}).get("offset", -1)
    push = swap = write = None
    for st in after:
        for n in cxxast.walk(st):
            if n.get("kind") not in ("CXXMemberCallExpr", "CallExpr"):
                continue
            t = clean(cxxast.src_text(n, AL))
            if re.match(r"buffers_\s*\.\s*push_back\s*\(", t) and "currentBuffer_" in t and push is None:
                push = off(n)
            if (re.match(r"\w+\s*\.\s*swap\s*\(\s*buffers_\s*\)", t) or re.match(r"buffers_\s*\.\s*swap\s*\(", t)) and swap is None:
                swap = off(n)
            if re.match(r"output\s*\.\s*append\s*\(", t) and write is None:
                write = off(n)
    ok = None not in (push, swap, write) and 0 <= push < swap < write
    return ok, "; ".join(clean(cxxast.src_text(s, AL))[:60] for s in after)


def loop_literals():
    fn = cxxast.function_decl(AL, "AsyncLogging::threadFunc")
    wh = [c for c in cxxast.walk(fn) if c.get("kind") == "WhileStmt"][0]
    thr = keep = rec = None
    gt = None
    src = []
    for n in cxxast.walk(wh):
        if n.get("kind") == "IfStmt":
            inner = [c for c in n.get("inner", []) if isinstance(c, dict)]
            cond = cxxast.strip(inner[0])
            if cond.get("kind") == "BinaryOperator" and "buffersToWrite" in names_in(cond):
                has_erase = any(m.get("kind") == "MemberExpr" and m.get("name") == "erase" for m in cxxast.walk(inner[1]))
                if has_erase:
                    thr = cxxast.const_eval(cond["inner"][1])
                    gt = cond.get("opcode") == ">"
                    src.append(clean(cxxast.src_text(cond, AL)))
        if n.get("kind") == "CXXMemberCallExpr":
            t = clean(cxxast.src_text(n, AL))
            m = re.match(r"buffersToWrite\.erase\(buffersToWrite\.begin\(\)\s*\+\s*(\d+)\s*,\s*buffersToWrite\.end\(\)\)", t)
            if m:
                keep = int(m.group(1))
                src.append(t)
            m = re.match(r"buffersToWrite\.resize\((\d+)\)", t)
            if m:
                rec = int(m.group(1))
                src.append(t)
    if thr is None or keep is None or rec is None:
        raise cxxast.Untranslatable("threshold/erase/resize not found (%s %s %s)" % (thr, keep, rec))
    return thr, gt, keep, rec, " | ".join(src)


def fit_fact():
    fn = cxxast.function_decl(AL, "AsyncLogging::append")
    for n in cxxast.walk(fn):
        if n.get("kind") == "IfStmt":
            cond = cxxast.strip(n["inner"][0])
            t = clean(cxxast.src_text(cond, AL))
            if cond.get("kind") == "BinaryOperator" and re.match(r"currentBuffer_->avail\(\)\s*(>|>=)\s*len$", t):
                return cond.get("opcode") == ">", t
    raise cxxast.Untranslatable("no `currentBuffer_->avail() > len` in append")


def roll_guard():
    fn = cxxast.function_decl(LF, "LogFile::rollFile")
    for n in cxxast.walk(fn):
        if n.get("kind") == "IfStmt":
            cond = cxxast.strip(n["inner"][0])
            t = clean(cxxast.src_text(cond, LF))
            if re.match(r"now\s*(>|>=|!=)\s*lastRoll_$", t):
                return cond.get("opcode") == ">", t
    return False, "no `now > lastRoll_` guard in rollFile"


LS = "muduo/base/LogStream.h"
FU = "muduo/base/FileUtil.cc"


def copy_fact():
    """FixedBuffer::append copies iff `avail() > len` (strict)?"""
    fn = cxxast.function_decl(LS, "FixedBuffer::append")
    for n in cxxast.walk(fn):
        if n.get("kind") == "IfStmt":
            cond = cxxast.strip(n["inner"][0])
            t = clean(cxxast.src_text(cond, LS))
            if cond.get("kind") == "BinaryOperator" and cond.get("opcode") in (">", ">=") and "avail()" in t and re.search(r"\blen$", t):
                has_copy = any(cxxast.src_text(m, LS).startswith("memcpy") for m in cxxast.walk(n["inner"][1]) if m.get("kind") == "CallExpr")
                if has_copy:
                    return cond.get("opcode") == ">", t
    raise cxxast.Untranslatable("no `if (avail() > len) memcpy` in FixedBuffer::append")


def ctor_default(relfile, cls, param):
    """Default argument of a constructor parameter (integer literal expression)."""
    for d in cxxast.dump(relfile, "%s::%s" % (cls, cls)):
        for n in cxxast.walk(d):
            if n.get("kind") != "CXXConstructorDecl":
                continue
            for c in n.get("inner", []):
                if isinstance(c, dict) and c.get("kind") == "ParmVarDecl" and c.get("name") == param and c.get("init"):
                    for x in c.get("inner", []):
                        if isinstance(x, dict):
                            try:
                                return cxxast.const_eval(x)
                            except Exception:   # noqa
                                pass
    raise cxxast.Untranslatable("no default argument %s of %s" % (param, cls))


def append_loop_fact():
    """AppendFile::append is `while (written != len) { remain = len - written; n = write(p + written, remain);
    if (n != remain) { err = ferror(fp_); if (err) { ...; break; } } written += n; }`:
    the only exit besides completion is the break under a non-zero ferror, and `written += n` ends the body."""
    fn = cxxast.function_decl(FU, "AppendFile::append")
    whiles = [c for c in cxxast.walk(fn) if c.get("kind") == "WhileStmt"]
    if len(whiles) != 1:
        return False, "%d while loops" % len(whiles)
    wh = whiles[0]
    inner = [c for c in wh.get("inner", []) if isinstance(c, dict)]
    cond, body = cxxast.strip(inner[0]), inner[1]
    tc = clean(cxxast.src_text(cond, FU))
    ok = cond.get("kind") == "BinaryOperator" and cond.get("opcode") == "!=" and re.match(r"written\s*!=\s*len$", tc) is not None
    stmts = [c for c in body.get("inner", []) if isinstance(c, dict)]
    last = stmts[-1] if stmts else {}
    tl = clean(cxxast.src_text(last, FU))
    ok = ok and last.get("kind") == "CompoundAssignOperator" and re.match(r"written\s*\+=\s*n$", tl) is not None
    # every break / return / goto inside the loop sits in `if (err)` inside `if (n != remain)`
    def exits(node, guards):
        k = node.get("kind")
        if k in ("BreakStmt", "ReturnStmt", "GotoStmt", "ContinueStmt"):
            yield guards
        if k == "IfStmt":
            sub = [c for c in node.get("inner", []) if isinstance(c, dict)]
            g = clean(cxxast.src_text(cxxast.strip(sub[0]), FU))
            for c in sub[1:2]:
                yield from exits(c, guards + [g])
            for c in sub[2:]:
                yield from exits(c, guards + ["!(" + g + ")"])
            return
        for c in node.get("inner", []) or []:
            if isinstance(c, dict):
                yield from exits(c, guards)
    ex = list(exits(body, []))
    ok = ok and len(ex) == 1 and len(ex[0]) == 2 and re.match(r"n\s*!=\s*remain$", ex[0][0]) is not None and ex[0][1] == "err"
    # err is ferror(fp_)
    ok = ok and any(clean(cxxast.src_text(v, FU)).replace(" ", "") == "interr=ferror(fp_)" for v in cxxast.walk(body) if v.get("kind") == "VarDecl")
    return ok, "while (%s) ... exits under %s; last statement %s" % (tc, ex, tl)


SINK_CLASSES = [("muduo/base/FileUtil.cc", "AppendFile"), ("muduo/base/LogFile.cc", "LogFile"),
                ("muduo/base/AsyncLogging.cc", "AsyncLogging"), ("muduo/base/LogStream.cc", "FixedBuffer")]
LIBC_GLOBALS = {"stderr", "stdout", "errno"}


def _is_const(v):
    q = (v.get("type", {}) or {}).get("qualType", "")
    return q.startswith("const ") or " const" in q.split("[")[0] or v.get("constexpr", False)


def sinks_state_fact():
    """The sink classes have no static data member (static const / constexpr constants excepted) and their member
    functions reference no variable declared outside themselves other than members of *this (no namespace-scope
    variable, no static local; libc's stderr/stdout/errno excepted).  Returns (ok, [what was found])."""
    found = []
    seen_any = False
    for rel, cls in SINK_CLASSES:
        for d in cxxast.dump(rel, cls):
            # static data members
            if d.get("kind") in ("CXXRecordDecl", "ClassTemplateDecl", "ClassTemplateSpecializationDecl"):
                seen_any = True
                for n in cxxast.walk(d):
                    if n.get("kind") == "VarDecl" and n.get("storageClass") == "static" and not _is_const(n):
                        found.append("static data member %s::%s : %s" % (cls, n.get("name"), n.get("type", {}).get("qualType")))
            # member functions (in-class and out-of-line)
            for fn in cxxast.walk(d):
                if fn.get("kind") not in ("CXXMethodDecl", "CXXConstructorDecl", "CXXDestructorDecl", "FunctionDecl"):
                    continue
                if not any(isinstance(c, dict) and c.get("kind") == "CompoundStmt" for c in fn.get("inner", [])):
                    continue
                local = set()
                for n in cxxast.walk(fn):
                    if n.get("kind") in ("VarDecl", "ParmVarDecl"):
                        local.add(n.get("id"))
                        if n.get("kind") == "VarDecl" and n.get("storageClass") == "static" and not _is_const(n):
                            found.append("static local %s in %s::%s" % (n.get("name"), cls, fn.get("name")))
                for n in cxxast.walk(fn):
                    if n.get("kind") == "DeclRefExpr":
                        r = n.get("referencedDecl", {}) or {}
                        if r.get("kind") == "VarDecl" and r.get("id") not in local and r.get("name") not in LIBC_GLOBALS and not _is_const(r):
                            found.append("%s::%s refers to non-local variable %s : %s" % (cls, fn.get("name"), r.get("name"), r.get("type", {}).get("qualType")))
    if not seen_any:
        raise cxxast.Untranslatable("sink classes not found")
    return (not found), sorted(set(found))


def open_mode_fact():
    """FileUtil::AppendFile's constructor opens its file with ::fopen(name, "a...") - append mode: a file that already
    exists (a logger restarted within the second that names the file) is continued, never truncated.
    Returns (ok, mode literal)."""
    modes = []
    for d in cxxast.dump(FU, "AppendFile"):
        for fn in cxxast.walk(d):
            if fn.get("kind") == "CXXConstructorDecl" and fn.get("name") == "AppendFile":
                for c in cxxast.walk(fn):
                    if c.get("kind") != "CallExpr":
                        continue
                    refs = [n for n in cxxast.walk(c) if n.get("kind") == "DeclRefExpr"]
                    if refs and (refs[0].get("referencedDecl") or {}).get("name") == "fopen":
                        modes.append([n.get("value") for n in cxxast.walk(c) if n.get("kind") == "StringLiteral"])
    if len(modes) != 1 or len(modes[0]) != 1:
        raise cxxast.Untranslatable("AppendFile's constructor: expected exactly one fopen with a literal mode, found %s" % modes)
    mode = modes[0][0].strip('"')
    return (mode.startswith("a") and "+" not in mode and "w" not in mode), mode


def main():
    out = ["(* GENERATED by lib/gen_C16.py from %s -- do not edit *)" % cxxast.REPO,
           "From Coq Require Import ZArith Bool.", "Local Open Scope Z_scope.", ""]
    msgs = []
    try:
        d, src = drain_fact()
        out.append("(* %s, statements after the while loop of threadFunc: %s *)" % (AL, src))
    except Exception as e:  # noqa
        d = False
        msgs.append("FALLBACK AsyncLogging_drain_after_loop (%s)" % clean(str(e)))
    out.append("Definition AsyncLogging_drain_after_loop : bool := %s." % ("true" if d else "false"))
    try:
        thr, gt, keep, rec, src = loop_literals()
        out.append("(* %s: %s *)" % (AL, src))
    except Exception as e:  # noqa
        thr, gt, keep, rec = 25, True, 2, 2
        msgs.append("FALLBACK AsyncLogging_drop literals (%s)" % clean(str(e)))
    out.append("Definition AsyncLogging_drop_threshold : Z := (%d)." % thr)
    out.append("Definition AsyncLogging_drop_threshold_is_gt : bool := %s." % ("true" if gt else "false"))
    out.append("Definition AsyncLogging_drop_keep : Z := (%d)." % keep)
    out.append("Definition AsyncLogging_recycle_keep : Z := (%d)." % rec)
    try:
        fit, src = fit_fact()
        out.append("(* %s: %s *)" % (AL, src))
    except Exception as e:  # noqa
        fit = True
        msgs.append("FALLBACK AsyncLogging_append_fit (%s)" % clean(str(e)))
    out.append("Definition AsyncLogging_append_fit_is_gt : bool := %s." % ("true" if fit else "false"))
    try:
        rg, src = roll_guard()
        out.append("(* %s: %s *)" % (LF, src))
    except Exception as e:  # noqa
        rg = True
        msgs.append("FALLBACK LogFile_roll_guard (%s)" % clean(str(e)))
    out.append("Definition LogFile_roll_guard_is_gt : bool := %s." % ("true" if rg else "false"))
    try:
        cp, src = copy_fact()
        out.append("(* %s: %s *)" % (LS, src))
    except Exception as e:  # noqa
        cp = True
        msgs.append("FALLBACK FixedBuffer_append_copy (%s)" % clean(str(e)))
    out.append("Definition FixedBuffer_append_copy_is_gt : bool := %s." % ("true" if cp else "false"))
    for name, rel, cls, par, dflt in (("LogFile_default_flushInterval", "muduo/base/LogFile.cc", "LogFile", "flushInterval", 3),
                                      ("LogFile_default_checkEveryN", "muduo/base/LogFile.cc", "LogFile", "checkEveryN", 1024),
                                      ("AsyncLogging_default_flushInterval", "muduo/base/AsyncLogging.cc", "AsyncLogging", "flushInterval", 3)):
        try:
            v = ctor_default(rel, cls, par)
            out.append("(* default argument %s of %s::%s *)" % (par, cls, cls))
        except Exception as e:  # noqa
            v = dflt
            msgs.append("FALLBACK %s (%s)" % (name, clean(str(e))))
        out.append("Definition %s : Z := (%d)." % (name, v))
    try:
        lp, src = append_loop_fact()
        out.append("(* %s AppendFile::append: %s *)" % (FU, clean(src)))
    except Exception as e:  # noqa
        lp = False
        msgs.append("FALLBACK AppendFile_append_loop (%s)" % clean(str(e)))
    out.append("Definition AppendFile_append_loop_ok : bool := %s." % ("true" if lp else "false"))
    try:
        ok, what = sinks_state_fact()
        out.append("(* AppendFile, LogFile, AsyncLogging, FixedBuffer: %s *)" % (clean("; ".join(what)) if what else
                   "no static data member (static const constants excepted), no member function refers to a variable outside its object (stderr/stdout/errno excepted)"))
    except Exception as e:  # noqa
        ok = False
        msgs.append("FALLBACK Sinks_share_no_state (%s)" % clean(str(e)))
    out.append("Definition Sinks_share_no_state : bool := %s." % ("true" if ok else "false"))
    try:
        am, mode = open_mode_fact()
        out.append("(* %s AppendFile::AppendFile: fopen(filename, \"%s\") *)" % (FU, clean(mode)))
    except Exception as e:  # noqa
        am = False
        msgs.append("FALLBACK AppendFile_opens_in_append_mode (%s)" % clean(str(e)))
    out.append("Definition AppendFile_opens_in_append_mode : bool := %s." % ("true" if am else "false"))
    txt = "\n".join(out) + "\n"
    path = os.path.join(cxxast.ROOT, "coq/Gen_C16.v")
    old = open(path).read() if os.path.exists(path) else None
    if old != txt:
        open(path, "w").write(txt)
    for m in msgs:
        print(m)
    return 0


if __name__ == "__main__":
    sys.exit(main())
