#!/usr/bin/env python3
"""Translator output for C06/C07 (DESIGN 4.1): coq/Gen_C06.v, regenerated from /repo's current
sources on every check.
  TimerQueue_floor_cmp / TimerQueue_floor_val : the two integer literals of
      `if (microseconds < L1) { microseconds = L2; }` in detail::howMuchTimeFromNow
  TimerQueue_floor_is_lt : the comparison is `<` on the local `microseconds`
  TimerQueue_getExpired_sentry_is_now : the first constructor argument of `sentry` in
      TimerQueue::getExpired is the parameter `now` itself (not an expression computed from it)
  guards (DESIGN 4.1), translated from the if-conditions of the current source and linked to the
  model by coq/C06_GenTie.v (a flipped comparison / dropped conjunct breaks the link lemma):
  TimerQueue_insert_earliest empty when first      : `it == timers_.end() || when < it->first` in insert
  TimerQueue_reset_reinsert repeat in_canceling    : `it.second->repeat() && cancelingTimers_.find(timer) == end` in reset
  Timestamp_valid us, Timestamp_default_us         : Timestamp::valid(), Timestamp()
  TimerQueue_cancelInLoop_found / _else_marks      : `it != activeTimers_.end()`, `else if (callingExpiredTimers_)`
  and structure facts (booleans, canonical text echoed as comments): what the guarded branches do
  (restart+insert / delete; nextExpire = head expiration; re-arm iff valid; addTimerInLoop re-arms iff
  insert reported a new earliest; insert files the timer under (expiration, ptr) and (ptr, sequence);
  cancelInLoop looks the id up by (ptr, sequence), erases both entries and deletes).
What cannot be matched falls back to the committed value and prints a FALLBACK line (the check
then reports a broken generated-fact obligation); guards and structure facts that cannot be read
are OMITTED, so the link lemmas stop compiling (fail closed)."""
import os, sys, re
sys.path.insert(0, os.path.dirname(os.path.abspath(__file__)))
import cxxast

REL = "muduo/net/TimerQueue.cc"


def clean(s):
    return " ".join(s.split()).replace("*)", "* )").replace("(*", "( *")


def floor_facts():
    fn = cxxast.function_decl(REL, "howMuchTimeFromNow")
    for n in cxxast.walk(fn):
        if n.get("kind") != "IfStmt":
            continue
        inner = [c for c in n.get("inner", []) if isinstance(c, dict)]
        if len(inner) < 2:
            continue
        cond = cxxast.strip(inner[0])
        if cond.get("kind") != "BinaryOperator" or cond.get("opcode") not in ("<", "<=", ">", ">="):
            continue
        lhs = cxxast.strip(cond["inner"][0])
        if lhs.get("kind") != "DeclRefExpr" or lhs.get("referencedDecl", {}).get("name") != "microseconds":
            continue
        cmpv = cxxast.const_eval(cond["inner"][1])
        val = None
        for m in cxxast.walk(inner[1]):
            if m.get("kind") == "BinaryOperator" and m.get("opcode") == "=":
                l2 = cxxast.strip(m["inner"][0])
                if l2.get("kind") == "DeclRefExpr" and l2.get("referencedDecl", {}).get("name") == "microseconds":
                    val = cxxast.const_eval(m["inner"][1])
        if val is None:
            continue
        return cmpv, val, cond.get("opcode") == "<", cxxast.src_text(n, REL)
    raise cxxast.Untranslatable("no `if (microseconds < L) microseconds = L;` in howMuchTimeFromNow")


def sentry_fact():
    fn = cxxast.function_decl(REL, "TimerQueue::getExpired")
    for v in cxxast.find(fn, "VarDecl", "sentry"):
        for c in cxxast.walk(v):
            if c.get("kind") == "CXXConstructExpr":
                args = [a for a in c.get("inner", []) if isinstance(a, dict)]
                if not args:
                    continue
                a0 = cxxast.strip(args[0])
                ok = (a0.get("kind") == "DeclRefExpr" and a0.get("referencedDecl", {}).get("kind") == "ParmVarDecl"
                      and a0.get("referencedDecl", {}).get("name") == "now")
                return ok, cxxast.src_text(v, REL)
    raise cxxast.Untranslatable("no `Entry sentry(...)` in getExpired")


# ------------------------------------------------------------------ canonical text of expressions / statements
def kids(n):
    return [c for c in n.get("inner", []) or [] if isinstance(c, dict) and c.get("kind")]


def is_assert(n):
    return any(m.get("kind") == "DeclRefExpr" and (m.get("referencedDecl", {}) or {}).get("name") == "__assert_fail"
               for m in cxxast.walk(n))


def opname(call):
    ks = kids(call)
    c = cxxast.strip(ks[0]) if ks else {}
    nm = (c.get("referencedDecl", {}) or {}).get("name", "")
    return nm[len("operator"):] if nm.startswith("operator") else None


class Canon:
    """Canonical one-line text of an expression: implicit casts, copies, `this->` and the names of local
    variables that are initialised once and never assigned again are removed (such a local is replaced
    by its initialiser), so renaming `it` or introducing a temporary does not change the text."""

    def __init__(self, fn):
        self.env, self.range_vars = {}, set()
        b = cxxast.body(fn)
        assigned = set()
        for n in cxxast.walk(b):
            k = n.get("kind")
            if k in ("BinaryOperator", "CompoundAssignOperator") and n.get("opcode", "").endswith("=") \
               and n.get("opcode") not in ("==", "!=", "<=", ">="):
                l = cxxast.strip(kids(n)[0])
                if l.get("kind") == "DeclRefExpr":
                    assigned.add(l["referencedDecl"]["name"])
            elif k == "UnaryOperator" and n.get("opcode") in ("++", "--"):
                l = cxxast.strip(kids(n)[0])
                if l.get("kind") == "DeclRefExpr":
                    assigned.add(l["referencedDecl"]["name"])
            elif k == "CXXOperatorCallExpr" and opname(n) in ("=", "++", "--", "+=", "-="):
                l = cxxast.strip(kids(n)[1])
                if l.get("kind") == "DeclRefExpr":
                    assigned.add(l["referencedDecl"]["name"])
        for n in cxxast.walk(b):
            if n.get("kind") == "VarDecl" and kids(n) and n.get("name") and n["name"] not in assigned:
                init = kids(n)[-1]
                i0 = cxxast.strip(init)
                if n["name"].startswith("__"):
                    continue
                if i0.get("kind") == "CXXOperatorCallExpr" and opname(i0) == "*" and "__begin" in json_names(i0):
                    self.range_vars.add(n["name"])
                    continue
                self.env.setdefault(n["name"], init)

    def c(self, node, depth=0):
        if depth > 40:
            raise cxxast.Untranslatable("expression too deep")
        # an explicit conversion floating -> integer is NOT transparent: it truncates
        while node.get("kind") in ("ImplicitCastExpr", "ParenExpr", "ExprWithCleanups", "MaterializeTemporaryExpr", "CXXBindTemporaryExpr",
                                   "CStyleCastExpr", "CXXStaticCastExpr", "CXXFunctionalCastExpr") and len(kids(node)) == 1:
            inner = kids(node)[0]
            if node.get("kind") in ("CStyleCastExpr", "CXXStaticCastExpr", "CXXFunctionalCastExpr"):
                to = node.get("type", {}).get("qualType", "")
                frm = cxxast.strip(inner).get("type", {}).get("qualType", "")
                if frm in ("double", "float", "long double") and to not in ("double", "float", "long double", "void"):
                    return "trunc_%s(%s)" % (to.replace(" ", "_"), self.c(inner, depth + 1))
            node = inner
        node = cxxast.strip(node)
        k = node.get("kind")
        d = depth + 1
        if k in ("CXXConstructExpr", "CXXTemporaryObjectExpr"):
            args = [a for a in kids(node) if a.get("kind") != "CXXDefaultArgExpr"]
            if len(args) == 1:
                return self.c(args[0], d)
            ty = node.get("type", {}).get("qualType", "?").split("::")[-1]
            return "%s(%s)" % (ty, ", ".join(self.c(a, d) for a in args))
        if k == "DeclRefExpr":
            rd = node.get("referencedDecl", {}) or {}
            nm = rd.get("name", "?")
            if rd.get("kind") == "VarDecl" and nm in self.range_vars:
                return "elem"
            if rd.get("kind") == "VarDecl" and nm in self.env:
                return self.c(self.env[nm], d)
            return nm
        if k == "CXXThisExpr":
            return "this"
        if k == "MemberExpr":
            ks = kids(node)
            if not ks or cxxast.strip(ks[0]).get("kind") == "CXXThisExpr":
                return node.get("name", "?")
            return self.c(ks[0], d) + ("->" if node.get("isArrow") else ".") + node.get("name", "?")
        if k == "CXXMemberCallExpr":
            ks = kids(node)
            return "%s(%s)" % (self.c(ks[0], d), ", ".join(self.c(a, d) for a in ks[1:] if a.get("kind") != "CXXDefaultArgExpr"))
        if k == "CXXOperatorCallExpr":
            op, args = opname(node), kids(node)[1:]
            if op == "->" and len(args) == 1:
                return self.c(args[0], d)
            if len(args) == 1:
                return "%s%s" % (op, self.c(args[0], d))
            if len(args) == 2:
                return "(%s %s %s)" % (self.c(args[0], d), op, self.c(args[1], d))
            raise cxxast.Untranslatable("operator call with %d arguments" % len(args))
        if k == "CallExpr":
            ks = kids(node)
            return "%s(%s)" % (self.c(ks[0], d), ", ".join(self.c(a, d) for a in ks[1:] if a.get("kind") != "CXXDefaultArgExpr"))
        if k == "BinaryOperator":
            a, b = kids(node)
            return "(%s %s %s)" % (self.c(a, d), node.get("opcode"), self.c(b, d))
        if k == "UnaryOperator":
            return "%s%s" % (node.get("opcode"), self.c(kids(node)[0], d))
        if k == "IntegerLiteral":
            return str(node.get("value"))
        if k == "FloatingLiteral":
            return "%g" % float(node.get("value"))
        if k == "CXXBoolLiteralExpr":
            return "true" if node.get("value") else "false"
        if k == "CXXDeleteExpr":
            return "delete " + self.c(kids(node)[0], d)
        raise cxxast.Untranslatable("expression kind %s" % k)

    def stmts(self, node):
        """canonical list of the statements of a (compound) statement; asserts, (void)x and
        declarations without side effects are skipped"""
        out = []
        seq = kids(node) if node.get("kind") == "CompoundStmt" else [node]
        for st in seq:
            k = st.get("kind")
            if k in ("NullStmt",) or (k not in ("CompoundStmt", "IfStmt", "CXXForRangeStmt", "DeclStmt") and is_assert(st)):
                continue
            if k == "CStyleCastExpr" and st.get("type", {}).get("qualType") == "void":
                continue
            if k == "CompoundStmt":
                out += self.stmts(st)
            elif k == "DeclStmt":
                for v in kids(st):
                    if v.get("kind") == "VarDecl" and kids(v):
                        init = cxxast.strip(kids(v)[-1])
                        if any(m.get("kind") in ("CXXMemberCallExpr", "CallExpr", "CXXDeleteExpr") and
                               callee_short(m) in ("erase", "insert", "restart", "resetTimerfd")
                               for m in cxxast.walk(init)):
                            out.append("decl = " + self.c(init))
            elif k == "IfStmt":
                ks = kids(st)
                cond, then = ks[0], ks[1]
                els = ks[2] if len(ks) > 2 else None
                out.append("if (%s) {%s}%s" % (self.c(cond), "; ".join(self.stmts(then)),
                                               (" else {%s}" % "; ".join(self.stmts(els))) if els is not None else ""))
            elif k == "ReturnStmt":
                out.append("return " + (self.c(kids(st)[0]) if kids(st) else ""))
            elif k == "CXXForRangeStmt":
                out.append("for (elem : %s) {%s}" % (self.range_of(st), "; ".join(self.stmts(kids(st)[-1]))))
            else:
                out.append(self.c(st))
        return out

    def range_of(self, forstmt):
        for v in cxxast.walk(forstmt):
            if v.get("kind") == "VarDecl" and v.get("name", "").startswith("__range") and kids(v):
                return self.c(kids(v)[-1])
        return "?"


def json_names(n):
    return " ".join((m.get("referencedDecl", {}) or {}).get("name", "") for m in cxxast.walk(n) if m.get("kind") == "DeclRefExpr")


def callee_short(call):
    ks = kids(call)
    if not ks:
        return None
    c = cxxast.strip(ks[0])
    return c.get("name") or (c.get("referencedDecl", {}) or {}).get("name")


def timestamp_cmp(op):
    """the integer comparison muduo::operator<op>(Timestamp, Timestamp) performs on microSecondsSinceEpoch()"""
    for d in cxxast.dump("muduo/base/Timestamp.h", "muduo::operator" + op):
        for n in cxxast.walk(d):
            if n.get("kind") == "FunctionDecl" and n.get("name") == "operator" + op and \
               n.get("type", {}).get("qualType", "").replace(" ", "").startswith("bool(muduo::Timestamp,muduo::Timestamp)"):
                ps = [p.get("name") for p in kids(n) if p.get("kind") == "ParmVarDecl"]
                for r in cxxast.find(n, "ReturnStmt"):
                    e = cxxast.strip(kids(r)[0])
                    if e.get("kind") == "BinaryOperator":
                        sides = []
                        for x in kids(e):
                            x = cxxast.strip(x)
                            if x.get("kind") != "CXXMemberCallExpr" or callee_short(x) != "microSecondsSinceEpoch":
                                raise cxxast.Untranslatable("Timestamp operator%s is not a comparison of microSecondsSinceEpoch()" % op)
                            sides.append(json_names(x).strip())
                        if sides == ps:
                            return e["opcode"]
                        if sides == ps[::-1]:
                            return {"<": ">", ">": "<", "<=": ">=", ">=": "<=", "==": "==", "!=": "!="}[e["opcode"]]
    raise cxxast.Untranslatable("muduo::operator%s(Timestamp, Timestamp) not found" % op)


ZCMP = {"<": "Z.ltb", "<=": "Z.leb", ">": "Z.gtb", ">=": "Z.geb", "==": "Z.eqb"}


class Guard:
    """Gallina text of a boolean condition over named atoms.
    zatoms: canonical text -> Z variable; batoms: canonical text -> bool variable;
    iters: canonical text of an iterator expression -> (bool variable, value when compared == end())"""

    def __init__(self, canon, zatoms, batoms, iters):
        self.cn, self.z, self.b, self.it = canon, zatoms, batoms, iters
        self.used = {}

    def var(self, name, ty):
        self.used[name] = ty
        return name

    def zt(self, node):
        s = self.cn.c(node)
        if s in self.z:
            return self.var(self.z[s], "Z")
        n = cxxast.strip(node)
        if n.get("kind") == "IntegerLiteral":
            return "(%d)" % int(n["value"])
        raise cxxast.Untranslatable("integer operand `%s`" % s)

    def bt(self, node):
        n = cxxast.strip(node)
        s = self.cn.c(n)
        if s in self.b:
            return self.var(self.b[s], "bool")
        k = n.get("kind")
        if k == "DeclRefExpr" and (n.get("referencedDecl", {}) or {}).get("kind") == "VarDecl" \
           and n["referencedDecl"].get("name") in self.cn.env:
            return self.bt(self.cn.env[n["referencedDecl"]["name"]])      # a local initialised once: its initialiser
        if k in ("CXXConstructExpr",) and len(kids(n)) == 1:
            return self.bt(kids(n)[0])
        if k == "BinaryOperator" and n.get("opcode") in ("&&", "||"):
            a, b = kids(n)
            return "(%s %s %s)%%bool" % (self.bt(a), n["opcode"], self.bt(b))
        if k == "UnaryOperator" and n.get("opcode") == "!":
            return "(negb %s)" % self.bt(kids(n)[0])
        if k == "CXXOperatorCallExpr" and opname(n) in ("==", "!=", "<", "<=", ">", ">="):
            op = opname(n)
            a, b = kids(n)[1:]
            sa, sb = self.cn.c(a), self.cn.c(b)
            for (x, y) in ((sa, sb), (sb, sa)):
                m = re.match(r"^(\w+)\.end\(\)$", y)
                if m and x in self.it and op in ("==", "!=") and x.startswith(m.group(1) + "."):
                    v, at_end = self.it[x]
                    t = self.var(v, "bool")
                    pos = at_end if op == "==" else (not at_end)
                    return t if pos else "(negb %s)" % t
            if "muduo::Timestamp" in cxxast.strip(kids(n)[0]).get("type", {}).get("qualType", ""):
                iop = timestamp_cmp(op)
                if iop == "!=":
                    return "(negb (Z.eqb %s %s))" % (self.zt(a), self.zt(b))
                return "(%s %s %s)" % (ZCMP[iop], self.zt(a), self.zt(b))
            raise cxxast.Untranslatable("comparison `%s`" % s)
        if k == "BinaryOperator" and n.get("opcode") in ZCMP:
            a, b = kids(n)
            return "(%s %s %s)" % (ZCMP[n["opcode"]], self.zt(a), self.zt(b))
        raise cxxast.Untranslatable("condition `%s`" % s)


def definition(name, g, body, order):
    if sorted(g.used) != sorted(order):
        raise cxxast.Untranslatable("%s: variables %s, expected %s" % (name, sorted(g.used), sorted(order)))
    return "Definition %s %s : bool :=\n  %s." % (name, " ".join("(%s : %s)" % (v, g.used[v]) for v in order), body)


def first_if(node, pred):
    for n in cxxast.walk(node):
        if n.get("kind") == "IfStmt" and pred(n):
            return n
    raise cxxast.Untranslatable("if-statement not found")


KEY_RESET = "ActiveTimer(elem.second, elem.second->sequence())"
KEY_CANCEL = "ActiveTimer(timerId.timer_, timerId.sequence_)"


def guard_facts():
    """-> (list of output lines, list of messages)"""
    out, msgs = [], []

    def attempt(label, f):
        try:
            out.extend(f())
        except Exception as e:  # noqa
            msgs.append("FALLBACK %s (%s)" % (label, clean(str(e))))
            out.append("(* FALLBACK %s: %s -- definitions omitted *)" % (label, clean(str(e))))

    def boolfact(name, ok, echo):
        return ["(* %s *)" % clean(echo), "Definition %s : bool := %s." % (name, "true" if ok else "false")]

    # ---- TimerQueue::insert
    def f_insert():
        fn = cxxast.function_decl(REL, "TimerQueue::insert")
        cn = Canon(fn)
        iff = first_if(fn, lambda n: any(m.get("kind") == "BinaryOperator" and m.get("opcode") == "=" and
                                         cxxast.strip(kids(m)[0]).get("kind") == "DeclRefExpr" and
                                         cxxast.strip(kids(m)[1]).get("kind") == "CXXBoolLiteralExpr"
                                         for m in cxxast.walk(kids(n)[1])))
        g = Guard(cn, {"timer->expiration()": "when", "timers_.begin()->first": "first"}, {},
                  {"timers_.begin()": ("empty", True)})
        body = g.bt(kids(iff)[0])
        res = ["(* %s: if (%s) *)" % (REL, clean(cxxast.src_text(kids(iff)[0], REL))),
               definition("TimerQueue_insert_earliest", g, body, ["empty", "when", "first"])]
        st = cn.stmts(cxxast.body(fn))
        flagvar = cxxast.strip(kids([m for m in cxxast.walk(kids(iff)[1]) if m.get("kind") == "BinaryOperator" and m.get("opcode") == "="][0])[0])["referencedDecl"]["name"]
        inits = [v for v in cxxast.find(cxxast.body(fn), "VarDecl", flagvar)]
        init_false = bool(inits) and kids(inits[0]) and cn.c(kids(inits[0])[-1]) == "false"
        nassign = sum(1 for m in cxxast.walk(cxxast.body(fn)) if m.get("kind") == "BinaryOperator" and m.get("opcode") == "=" and
                      cxxast.strip(kids(m)[0]).get("kind") == "DeclRefExpr" and cxxast.strip(kids(m)[0])["referencedDecl"]["name"] == flagvar)
        ok = init_false and nassign == 1 and st[-1] == "return " + flagvar and \
            cn.stmts(kids(iff)[1]) == ["(%s = true)" % flagvar] and len(kids(iff)) == 2
        res += boolfact("TimerQueue_insert_returns_guard", ok, "insert: flag initialised false, set only under the guard, returned: " + " ;; ".join(st))
        both = "decl = timers_.insert(Entry(timer->expiration(), timer))" in st and \
               "decl = activeTimers_.insert(ActiveTimer(timer, timer->sequence()))" in st
        res += boolfact("TimerQueue_insert_files_both", both, "insert files (expiration, ptr) and (ptr, sequence)")
        return res
    attempt("TimerQueue_insert", f_insert)

    # ---- TimerQueue::addTimerInLoop
    def f_add():
        fn = cxxast.function_decl(REL, "TimerQueue::addTimerInLoop")
        cn = Canon(fn)
        st = [x for x in cn.stmts(cxxast.body(fn)) if "assertInLoopThread" not in x]
        ok = st == ["decl = insert(timer)", "if (insert(timer)) {resetTimerfd(timerfd_, timer->expiration())}"]
        return boolfact("TimerQueue_addTimerInLoop_rearms_iff_earliest", ok, "addTimerInLoop: " + " ;; ".join(st))
    attempt("TimerQueue_addTimerInLoop", f_add)

    # ---- TimerQueue::reset
    def f_reset():
        fn = cxxast.function_decl(REL, "TimerQueue::reset")
        cn = Canon(fn)
        iff = first_if(fn, lambda n: any(m.get("kind") == "CXXDeleteExpr" for m in cxxast.walk(n)))
        g = Guard(cn, {}, {"elem.second->repeat()": "repeat"}, {"cancelingTimers_.find(%s)" % KEY_RESET: ("in_canceling", False)})
        body = g.bt(kids(iff)[0])
        res = ["(* %s: if (%s) *)" % (REL, clean(cxxast.src_text(kids(iff)[0], REL))),
               definition("TimerQueue_reset_reinsert", g, body, ["repeat", "in_canceling"])]
        then = cn.stmts(kids(iff)[1])
        els = cn.stmts(kids(iff)[2]) if len(kids(iff)) > 2 else []
        res += boolfact("TimerQueue_reset_then_restart_insert", then == ["elem.second->restart(now)", "insert(elem.second)"], "reset, guard true: " + " ;; ".join(then))
        res += boolfact("TimerQueue_reset_else_delete", els == ["delete elem.second"], "reset, guard false: " + " ;; ".join(els))
        st = cn.stmts(cxxast.body(fn))
        loop_ok = bool(st) and st[0].startswith("for (elem : expired) {if (")
        tail = st[1:]
        nv = [v for v in cxxast.find(cxxast.body(fn), "VarDecl", "nextExpire")]
        default_ctor = bool(nv) and cxxast.strip(kids(nv[0])[-1]).get("kind") == "CXXConstructExpr" and not kids(cxxast.strip(kids(nv[0])[-1]))
        ok_tail = tail == ["if (!timers_.empty()) {(nextExpire = timers_.begin()->second->expiration())}",
                           "if (nextExpire.valid()) {resetTimerfd(timerfd_, nextExpire)}"]
        res += boolfact("TimerQueue_reset_rearms_head_iff_valid", loop_ok and default_ctor and ok_tail,
                        "reset, after the loop (nextExpire default-constructed: %s): %s" % (default_ctor, " ;; ".join(tail)))
        return res
    attempt("TimerQueue_reset", f_reset)

    # ---- Timestamp::valid, Timestamp()
    def f_valid():
        res = []
        fn = None
        for d in cxxast.dump("muduo/base/Timestamp.h", "muduo::Timestamp::valid"):
            for n in cxxast.walk(d):
                if n.get("kind") == "CXXMethodDecl" and n.get("name") == "valid" and any(c.get("kind") == "CompoundStmt" for c in kids(n)):
                    fn = n
        if fn is None:
            raise cxxast.Untranslatable("Timestamp::valid not found")
        cn = Canon(fn)
        rets = list(cxxast.find(fn, "ReturnStmt"))
        g = Guard(cn, {"microSecondsSinceEpoch_": "us"}, {}, {})
        body = g.bt(kids(rets[0])[0])
        res += ["(* muduo/base/Timestamp.h: %s *)" % clean(cxxast.src_text(rets[0], "muduo/base/Timestamp.h")),
                definition("Timestamp_valid", g, body, ["us"])]
        val = None
        for d in cxxast.dump("muduo/base/Timestamp.h", "muduo::Timestamp::Timestamp"):
            for n in cxxast.walk(d):
                if n.get("kind") == "CXXConstructorDecl" and not [p for p in kids(n) if p.get("kind") == "ParmVarDecl"] \
                   and any(c.get("kind") == "CompoundStmt" for c in kids(n)):
                    for ci in kids(n):
                        if ci.get("kind") == "CXXCtorInitializer" and kids(ci) and cxxast.strip(kids(ci)[0]).get("kind") == "IntegerLiteral":
                            val = int(cxxast.strip(kids(ci)[0])["value"])
        if val is None:
            raise cxxast.Untranslatable("Timestamp() initialiser not found")
        res.append("Definition Timestamp_default_us : Z := (%d)." % val)
        return res
    attempt("Timestamp_valid", f_valid)

    # ---- TimerQueue::cancelInLoop (C07)
    def f_cancel():
        fn = cxxast.function_decl(REL, "TimerQueue::cancelInLoop")
        cn = Canon(fn)
        iff = first_if(fn, lambda n: any(m.get("kind") == "CXXDeleteExpr" for m in cxxast.walk(n)))
        it = "activeTimers_.find(%s)" % KEY_CANCEL
        g = Guard(cn, {}, {}, {it: ("found", False)})
        body = g.bt(kids(iff)[0])
        res = ["(* %s: if (%s) *)" % (REL, clean(cxxast.src_text(kids(iff)[0], REL))),
               definition("TimerQueue_cancelInLoop_found", g, body, ["found"])]
        then = cn.stmts(kids(iff)[1])
        want = ["decl = timers_.erase(Entry(%s->first->expiration(), %s->first))" % (it, it), "delete %s->first" % it,
                "activeTimers_.erase(%s)" % it]
        res += boolfact("TimerQueue_cancelInLoop_found_erases_both_deletes", then == want, "cancelInLoop, id found: " + " ;; ".join(then))
        els = kids(iff)[2] if len(kids(iff)) > 2 else None
        if els is None or cxxast.strip(els).get("kind") != "IfStmt":
            raise cxxast.Untranslatable("cancelInLoop: no `else if`")
        e = cxxast.strip(els)
        g2 = Guard(cn, {}, {"callingExpiredTimers_": "calling"}, {})
        body2 = g2.bt(kids(e)[0])
        res += ["(* %s: else if (%s) *)" % (REL, clean(cxxast.src_text(kids(e)[0], REL))),
                definition("TimerQueue_cancelInLoop_else_marks", g2, body2, ["calling"])]
        marks = cn.stmts(kids(e)[1])
        res += boolfact("TimerQueue_cancelInLoop_marks_canceling", marks == ["cancelingTimers_.insert(%s)" % KEY_CANCEL] and len(kids(e)) == 2,
                        "cancelInLoop, not found while calling: " + " ;; ".join(marks))
        return res
    attempt("TimerQueue_cancelInLoop", f_cancel)

    # ---- Timer::restart / addTime arithmetic, the destructor sweep, the EventLoop wrappers
    def canon_of(rel, qual):
        fn = cxxast.function_decl(rel, qual)
        return Canon(fn).stmts(cxxast.body(fn))

    def f_arith():
        res = []
        st = canon_of("muduo/base/Timestamp.h", "muduo::addTime")
        res += boolfact("Timestamp_addTime_truncates_product",
                        st == ["return (timestamp.microSecondsSinceEpoch() + trunc_int64_t((seconds * kMicroSecondsPerSecond)))"],
                        "addTime: " + " ;; ".join(st))
        st = canon_of("muduo/net/Timer.cc", "Timer::restart")
        res += boolfact("Timer_restart_adds_interval_to_now",
                        st == ["if (repeat_) {(expiration_ = addTime(now, interval_))} else {(expiration_ = invalid())}"],
                        "Timer::restart: " + " ;; ".join(st))
        # Timer::Timer: repeat_(interval > 0.0), interval_(interval), expiration_(when), sequence_(s_numCreated_.incrementAndGet())
        inits = {}
        for d in cxxast.dump("muduo/net/Timer.h", "muduo::net::Timer::Timer"):
            for n in cxxast.walk(d):
                if n.get("kind") == "CXXConstructorDecl" and len([p for p in kids(n) if p.get("kind") == "ParmVarDecl"]) == 3:
                    cn = Canon(n)
                    for ci in kids(n):
                        if ci.get("kind") == "CXXCtorInitializer" and kids(ci):
                            nm = (ci.get("anyInit", {}) or {}).get("name", "?")
                            try:
                                inits[nm] = cn.c(kids(ci)[0])
                            except Exception as e:  # noqa
                                inits[nm] = "?" + clean(str(e))
        ok = inits.get("repeat_") == "(interval > 0)" and inits.get("interval_") == "interval" and inits.get("expiration_") == "when" \
            and inits.get("sequence_") == "s_numCreated_.incrementAndGet()"
        res += boolfact("Timer_ctor_repeat_iff_interval_positive", ok, "Timer::Timer initialisers: " + " ;; ".join("%s(%s)" % kv for kv in sorted(inits.items())))
        return res
    attempt("Timer_arithmetic", f_arith)

    def f_dtor():
        st = canon_of(REL, "TimerQueue::~TimerQueue")
        dels = [x for x in st if "delete" in x]
        return boolfact("TimerQueue_dtor_deletes_exactly_timers", dels == ["for (elem : timers_) {delete elem.second}"],
                        "~TimerQueue: " + " ;; ".join(st))
    attempt("TimerQueue_dtor", f_dtor)

    def f_wrappers():
        EL = "muduo/net/EventLoop.cc"
        res = []
        want = {
            "EventLoop::runAt": ("EventLoop_runAt_is_addTimer_interval_zero", ["return timerQueue_->addTimer(move(cb), time, 0)"]),
            "EventLoop::runAfter": ("EventLoop_runAfter_is_runAt_addTime_now", ["return runAt(addTime(now(), delay), move(cb))"]),
            "EventLoop::runEvery": ("EventLoop_runEvery_first_deadline_is_now_plus_interval",
                                    ["return timerQueue_->addTimer(move(cb), addTime(now(), interval), interval)"]),
            "EventLoop::cancel": ("EventLoop_cancel_forwards", ["return timerQueue_->cancel(timerId)"]),
        }
        for q in sorted(want):
            name, exp = want[q]
            st = canon_of(EL, q)
            res += boolfact(name, st == exp, q + ": " + " ;; ".join(st))
        st = canon_of(REL, "TimerQueue::cancel")
        res += boolfact("TimerQueue_cancel_hands_off_cancelInLoop", st == ["loop_->runInLoop(bind(&cancelInLoop, this, timerId))"], "TimerQueue::cancel: " + " ;; ".join(st))
        return res
    attempt("EventLoop_wrappers", f_wrappers)
    return out, msgs


def main():
    out = ["(* GENERATED by lib/gen_C06.py from %s -- do not edit *)" % cxxast.REPO,
           "From Coq Require Import ZArith Bool.", "Local Open Scope Z_scope.", ""]
    msgs = []
    try:
        c, v, lt, src = floor_facts()
        out.append("(* %s: %s *)" % (REL, clean(src)))
    except Exception as e:  # noqa
        c, v, lt = 100, 100, True
        msgs.append("FALLBACK TimerQueue_floor (%s)" % clean(str(e)))
        out.append("(* FALLBACK: floor not found in howMuchTimeFromNow; committed twin used *)")
    out.append("Definition TimerQueue_floor_cmp : Z := (%d)." % c)
    out.append("Definition TimerQueue_floor_val : Z := (%d)." % v)
    out.append("Definition TimerQueue_floor_is_lt : bool := %s." % ("true" if lt else "false"))
    try:
        ok, src = sentry_fact()
        out.append("(* %s: %s *)" % (REL, clean(src)))
    except Exception as e:  # noqa
        ok = True
        msgs.append("FALLBACK TimerQueue_getExpired_sentry (%s)" % clean(str(e)))
        out.append("(* FALLBACK: sentry not found in getExpired *)")
    out.append("Definition TimerQueue_getExpired_sentry_is_now : bool := %s." % ("true" if ok else "false"))
    out.append("")
    out.append("(* ---- guards and structure facts (linked to C06_Model by coq/C06_GenTie.v) *)")
    try:
        glines, gmsgs = guard_facts()
    except Exception as e:  # noqa
        glines, gmsgs = ["(* FALLBACK guards: %s *)" % clean(str(e))], ["FALLBACK TimerQueue_guards (%s)" % clean(str(e))]
    out += glines
    msgs += gmsgs
    txt = "\n".join(out) + "\n"
    path = os.path.join(cxxast.ROOT, "coq/Gen_C06.v")
    old = open(path).read() if os.path.exists(path) else None
    if old != txt:
        open(path, "w").write(txt)
    for m in msgs:
        print(m)
    return 0


if __name__ == "__main__":
    sys.exit(main())
