#!/usr/bin/env python3
"""C18 translator output -> coq/Gen_C18.v: the length test of ProtobufCodecLite::onMessage
(condition of the first `if` inside the while loop), translated from the clang JSON AST into a
boolean function of (len, kMaxMessageLen, kMinMessageLen).  coq/C18_GenLink.v proves it equal
to C18_Model.length_bad, so editing the test in the source breaks a proof obligation."""
import os, sys, re
sys.path.insert(0, os.path.dirname(os.path.abspath(__file__)))
import cxxast

REL = "muduo/net/protobuf/ProtobufCodecLite.cc"
NAMES = ("len", "kMaxMessageLen", "kMinMessageLen")
CMP = {">": ">?", "<": "<?", ">=": ">=?", "<=": "<=?", "==": "=?"}


def tr_int(n):
    n = cxxast.strip(n)
    k = n.get("kind")
    if k == "DeclRefExpr":
        nm = n.get("referencedDecl", {}).get("name")
        if nm in NAMES:
            return nm
    if k == "MemberExpr" and n.get("name") in NAMES:
        return n["name"]
    if k == "IntegerLiteral":
        return "(%d)" % int(n["value"])
    if k == "BinaryOperator" and n.get("opcode") in ("+", "-"):
        return "(%s %s %s)" % (tr_int(n["inner"][0]), n["opcode"], tr_int(n["inner"][1]))
    raise cxxast.Untranslatable("integer expression %s" % k)


def tr_bool(n):
    n = cxxast.strip(n)
    k = n.get("kind")
    if k == "BinaryOperator":
        op = n.get("opcode")
        if op == "||":
            return "(%s || %s)" % (tr_bool(n["inner"][0]), tr_bool(n["inner"][1]))
        if op == "&&":
            return "(%s && %s)" % (tr_bool(n["inner"][0]), tr_bool(n["inner"][1]))
        if op in CMP:
            return "(%s %s %s)" % (tr_int(n["inner"][0]), CMP[op], tr_int(n["inner"][1]))
        if op == "!=":
            return "(negb (%s =? %s))" % (tr_int(n["inner"][0]), tr_int(n["inner"][1]))
    if k == "UnaryOperator" and n.get("opcode") == "!":
        return "(negb %s)" % tr_bool(n["inner"][0])
    raise cxxast.Untranslatable("boolean expression %s" % k)


# ---------------------------------------------------------------------------------------------
# Every comparison of the decoders, in source order: <function>_cmp<k>; the while condition of
# onMessage; the integer / pointer arguments of the calls that move data (retrieve, parse,
# validateChecksum, asInt32, checksum, memcmp, ensureWritableBytes, hasWritten, retrieveUntil,
# setPath ...): <function>_call<k>_<callee>[_arg<j>]; asserts: <function>_assert<k>.
# Pointers are their addresses (Z); *(p) is `deref p` with `deref : Z -> Z` a parameter; a
# character literal is its code.  coq/C18_GenLink.v proves each equal to the model's test.
from gen_C10 import G as G10, is_assert, assert_text, text_of

CMPOPS = ("==", "!=", "<", "<=", ">", ">=")
OLD_REL = "examples/protobuf/codec/codec.cc"
OLD_HDR = "examples/protobuf/codec/codec.h"
FUNCS = [
    ("muduo/net/protobuf/ProtobufCodecLite.cc", "ProtobufCodecLite::onMessage", "onMessage"),
    ("muduo/net/protobuf/ProtobufCodecLite.cc", "ProtobufCodecLite::parse", "parse"),
    ("muduo/net/protobuf/ProtobufCodecLite.cc", "ProtobufCodecLite::validateChecksum", "validateChecksum"),
    ("muduo/net/protobuf/ProtobufCodecLite.cc", "ProtobufCodecLite::fillEmptyBuffer", "fillEmptyBuffer"),
    ("muduo/net/protobuf/ProtobufCodecLite.cc", "ProtobufCodecLite::serializeToBuffer", "serializeToBuffer"),
    ("muduo/net/http/HttpContext.cc", "HttpContext::processRequestLine", "processRequestLine"),
    ("muduo/net/http/HttpContext.cc", "HttpContext::parseRequest", "parseRequest"),
    ("muduo/net/http/HttpServer.cc", "HttpServer::onMessage", "HttpServer_onMessage"),
    ("muduo/net/http/HttpServer.cc", "HttpServer::onRequest", "HttpServer_onRequest"),
    ("muduo/net/http/HttpResponse.cc", "HttpResponse::appendToBuffer", "appendToBuffer"),
    # the OLD codec of the examples directory (wire layout len, nameLen, typeName, protobufData, checkSum)
    (OLD_REL, "ProtobufCodec::onMessage", "old_onMessage"),
    (OLD_REL, "ProtobufCodec::parse", "old_parse"),
    (OLD_REL, "ProtobufCodec::fillEmptyBuffer", "old_fillEmptyBuffer"),
]
REQUIRED = """
onMessage_while0 onMessage_cmp0 onMessage_cmp1 onMessage_cmp2 onMessage_cmp3
onMessage_call1_parse_arg0 onMessage_call1_parse_arg1 onMessage_call2_retrieve
parse_call0_validateChecksum_arg0 parse_call0_validateChecksum_arg1 parse_cmp0 parse_call1_memcmp_arg0 parse_let_data parse_let_dataLen
validateChecksum_call0_asInt32 validateChecksum_call1_checksum_arg0 validateChecksum_call1_checksum_arg1 validateChecksum_cmp0
fillEmptyBuffer_assert0 fillEmptyBuffer_assert1
serializeToBuffer_call0_ensureWritableBytes serializeToBuffer_cmp0 serializeToBuffer_call1_hasWritten
processRequestLine_cmp0 processRequestLine_cmp1 processRequestLine_cmp2 processRequestLine_cmp3 processRequestLine_cmp4 processRequestLine_cmp5
parseRequest_cmp0 parseRequest_cmp1 parseRequest_cmp2 parseRequest_cmp3
parseRequest_call0_retrieveUntil parseRequest_call1_retrieveUntil
HttpServer_onMessage_if0 HttpServer_onMessage_if1 HttpServer_onRequest_cmp0 appendToBuffer_if0
old_onMessage_while0 old_onMessage_if0 old_onMessage_cmp0 old_onMessage_cmp1 old_onMessage_if1 old_onMessage_cmp2
old_onMessage_call0_parse_arg0 old_onMessage_call0_parse_arg1 old_onMessage_if2 old_onMessage_cmp3 old_onMessage_call1_retrieve
old_onMessage_let_len
old_parse_call0_asInt32 old_parse_call1_adler32_arg0 old_parse_call1_adler32_arg1
old_parse_if0 old_parse_cmp0 old_parse_call2_asInt32 old_parse_if1 old_parse_cmp1 old_parse_cmp2
old_parse_typeName_arg0 old_parse_typeName_arg1 old_parse_if2 old_parse_let_data old_parse_let_dataLen
old_fillEmptyBuffer_assert0 old_fillEmptyBuffer_assert1
""".split()


class G18(G10):
    def var(self, name, ty):
        # the positional free-variable convention of cxxast.GExpr (gen_C10.G may restrict names to the
        # vocabulary of its own record `obs`; C18's facts are functions of their free names)
        return cxxast.GExpr.var(self, name, ty)

    def tr(self, node, want):
        n = cxxast.strip(node)
        k = n.get("kind")
        if k == "CharacterLiteral":
            return "(%d)" % int(n["value"])
        if k == "CXXReinterpretCastExpr" and want == "Z":
            # reinterpret_cast<const Bytef*>(p): a pointer is its address
            return self.tr([c for c in n.get("inner", []) if isinstance(c, dict)][0], want)
        if k == "UnaryOperator" and n.get("opcode") == "*":
            inner = [c for c in n.get("inner", []) if isinstance(c, dict)][0]
            names = [x.get("referencedDecl", {}).get("name") for x in cxxast.walk(inner) if x.get("kind") == "DeclRefExpr"]
            if "__errno_location" not in names:
                self.var("deref", "(Z -> Z)")
                return "(deref %s)" % self.tr(inner, "Z")
        if k in ("CXXMemberCallExpr", "CallExpr"):
            callee0 = cxxast.strip(n["inner"][0])
            nm0 = callee0.get("name") or callee0.get("referencedDecl", {}).get("name")
            # the outcome of these calls is a free variable named after the callee (arguments: see the _call facts)
            if nm0 in ("memcmp", "parseRequest", "setMethod", "parseFromBuffer", "processRequestLine", "gotAll"):
                return self.var(nm0, want)
        if k in ("CXXMemberCallExpr",):
            callee = cxxast.strip(n["inner"][0])
            args = [c for c in n["inner"][1:] if isinstance(c, dict) and c.get("kind") != "CXXDefaultArgExpr"]
            if callee.get("kind") == "MemberExpr" and not args:
                # x.size() / buf->peek(): name by object and member
                obj = cxxast.strip(callee["inner"][0]) if callee.get("inner") else {}
                on = ""
                if obj.get("kind") == "MemberExpr":
                    on = obj.get("name", "").rstrip("_")
                elif obj.get("kind") == "DeclRefExpr":
                    on = obj.get("referencedDecl", {}).get("name", "")
                m = re.sub(r"\W+", "_", callee.get("name", "?")).strip("_")
                if on in ("buf", "this", "", "context", "output"):
                    return self.var(m, want)
                return self.var(on + "_" + m, want)
        return super().tr(node, want)


def emit18(defs, order, name, node, want, src):
    g = G18()
    try:
        body = g.tr(node, want)
    except cxxast.Untranslatable as e:
        defs[name] = "(* untranslated %s: %s *)" % (name, str(e).replace("*)", ""))
        order.append(name)
        return
    vs = sorted(g.vars.items())
    args = "".join(" (%s : %s)" % (v, t) for v, t in vs)
    src = " ".join(src.split()).replace("*)", "* )").replace("(*", "( *")
    defs[name] = "(* %s *)\nDefinition %s%s : %s :=\n  %s." % (src, name, args, want, body)
    order.append(name)


def is_num(n):
    qt = n.get("type", {}).get("qualType", "")
    return bool(re.match(r"^(const )?(size_t|ssize_t|int|unsigned long|long|unsigned int|int\d+_t|uint\d+_t|unsigned char|char|"
                         r"(const )?(char|void|uint8_t|unsigned char) \*(const)?|uInt|Bytef \*|const Bytef \*)$", qt))


def facts18(fname, fn, rel, defs, order):
    cnt = {"cmp": 0, "assert": 0, "call": 0, "while": 0, "if": 0}

    def visit(n):
        k = n.get("kind")
        kids = [c for c in n.get("inner", []) or [] if isinstance(c, dict)]
        if is_assert(n):
            emit18(defs, order, "%s_assert%d" % (fname, cnt["assert"]), kids[0], "bool", assert_text(n))
            cnt["assert"] += 1
            return
        if k == "WhileStmt":
            emit18(defs, order, "%s_while%d" % (fname, cnt["while"]), kids[0], "bool", "while (" + text_of(kids[0], rel) + ")")
            cnt["while"] += 1
            for c in kids[1:]:
                visit(c)
            return
        if k == "IfStmt" and kids and any(x.get("referencedDecl", {}).get("name") == "logLevel" or x.get("name") == "logLevel"
                                        for x in cxxast.walk(kids[0])):
            return            # a LOG_TRACE / LOG_DEBUG / LOG_INFO line (if (Logger::logLevel() <= ...) Logger(..).stream() << ..): no fact
        if k == "IfStmt":
            emit18(defs, order, "%s_if%d" % (fname, cnt["if"]), kids[0], "bool", "if (" + text_of(kids[0], rel) + ")")
            cnt["if"] += 1
        if k == "BinaryOperator" and n.get("opcode") in CMPOPS:
            emit18(defs, order, "%s_cmp%d" % (fname, cnt["cmp"]), n, "bool", text_of(n, rel))
            cnt["cmp"] += 1
            # comparisons nested inside the operands (memcmp(...) == 0) still get their call facts
        if k == "VarDecl" and kids and is_num(n) and n.get("name") in ("data", "dataLen", "len", "byte_size", "close"):
            emit18(defs, order, "%s_let_%s" % (fname, n.get("name")), kids[-1], "Z", text_of(n, rel))
        if k == "VarDecl" and n.get("name") == "typeName":
            # std::string typeName(first, last): the two pointers
            for x in cxxast.walk(n):
                if x.get("kind") == "CXXConstructExpr":
                    ptrs = [a for a in x.get("inner", []) if isinstance(a, dict) and is_num(a)]
                    if len(ptrs) == 2:
                        for j, a in enumerate(ptrs):
                            emit18(defs, order, "%s_typeName_arg%d" % (fname, j), a, "Z", text_of(n, rel))
                        break
        if k in ("CXXMemberCallExpr", "CallExpr"):
            callee = cxxast.strip(kids[0])
            nm = callee.get("name") or callee.get("referencedDecl", {}).get("name")
            args = [c for c in kids[1:] if c.get("kind") != "CXXDefaultArgExpr"]
            iargs = [a for a in args if is_num(a)]
            if nm in ("retrieve", "parse", "validateChecksum", "asInt32", "checksum", "memcmp", "ensureWritableBytes",
                      "hasWritten", "retrieveUntil", "appendInt32", "prepend", "adler32") and iargs:
                base = "%s_call%d_%s" % (fname, cnt["call"], nm)
                cnt["call"] += 1
                for j, a in enumerate(iargs):
                    emit18(defs, order, base if len(iargs) == 1 else "%s_arg%d" % (base, j), a, "Z", text_of(n, rel))
        for c in kids:
            visit(c)

    visit(cxxast.body(fn))


def method_decl(rel, qual):
    """like cxxast.function_decl, but one clang run per (file, class) instead of one per method"""
    cls, name = qual.split("::")[-2], qual.split("::")[-1]
    best = None
    for d in cxxast.dump(rel, cls):
        for n in cxxast.walk(d):
            if n.get("kind") in ("FunctionDecl", "CXXMethodDecl") and n.get("name") == name \
               and any(isinstance(c, dict) and c.get("kind") == "CompoundStmt" for c in n.get("inner", [])):
                best = n
    if best is None:
        raise cxxast.Untranslatable("no body for %s in %s" % (qual, rel))
    return best


def main():
    out = ["(* GENERATED by lib/gen_C18.py from %s -- do not edit *)" % cxxast.REPO,
           "From Coq Require Import ZArith Bool List.", "Local Open Scope Z_scope.", "Local Open Scope bool_scope.", ""]
    msgs = []
    try:
        fn = method_decl(REL, "ProtobufCodecLite::onMessage")
        wh = [n for n in cxxast.walk(fn) if n.get("kind") == "WhileStmt"]
        if not wh:
            raise cxxast.Untranslatable("no while loop in onMessage")
        ifs = [n for n in cxxast.walk(wh[0]) if n.get("kind") == "IfStmt"]
        if not ifs:
            raise cxxast.Untranslatable("no if in the loop")
        cond = [c for c in ifs[0]["inner"] if isinstance(c, dict)][0]
        body = tr_bool(cond)
        src = " ".join(cxxast.src_text(cond, REL).split()).replace("*)", "* )").replace("(*", "( *")
        out.append("(* %s, ProtobufCodecLite::onMessage, first if of the while loop: %s *)" % (REL, src))
        out.append("Definition onMessage_length_bad (len kMaxMessageLen kMinMessageLen : Z) : bool :=")
        out.append("  %s." % body)
        out.append("")
    except Exception as e:  # noqa
        out.append("(* MISSING onMessage_length_bad: %s *)" % str(e).replace("*)", ""))
        msgs.append("MISSING onMessage_length_bad")
    defs, order = {}, []
    for rel, qual, fname in FUNCS:
        try:
            facts18(fname, method_decl(rel, qual), rel, defs, order)
        except Exception as e:  # noqa
            out.append("(* MISSING %s: %s *)" % (fname, str(e).replace("*)", "")))
            msgs.append("MISSING %s" % fname)
    for nm in order:
        out.append(defs[nm])
        out.append("")
    # the tag of RpcCodec: const char rpctag [] = "RPC0"
    try:
        rel = "muduo/net/protorpc/RpcCodec.cc"
        val = None
        for d in cxxast.dump(rel, "rpctag"):
            for v in cxxast.find(d, "VarDecl", "rpctag"):
                for x in cxxast.walk(v):
                    if x.get("kind") == "StringLiteral":
                        val = x.get("value", "")
        if val is None or not (val.startswith('"') and val.endswith('"')) or "\\" in val:
            raise cxxast.Untranslatable("no plain string initialiser for rpctag")
        codes = [ord(c) for c in val[1:-1]]
        out.append("(* %s: const char rpctag [] = %s *)" % (rel, val))
        out.append("Definition RpcCodec_rpctag : list Z := %s%%list." % ("(" + " :: ".join(str(c) for c in codes) + " :: nil)"))
        out.append("")
    except Exception as e:  # noqa
        out.append("(* MISSING RpcCodec_rpctag: %s *)" % str(e).replace("*)", ""))
        msgs.append("MISSING RpcCodec_rpctag")
    # the three private constants of the OLD codec (examples/protobuf/codec/codec.h)
    try:
        h, _ = cxxast.var_const(OLD_HDR, "kHeaderLen")
        mn, _ = cxxast.var_const(OLD_HDR, "kMinMessageLen", env={"kHeaderLen": h})
        mx, _ = cxxast.var_const(OLD_HDR, "kMaxMessageLen", env={"kHeaderLen": h})
        out.append("(* %s: ProtobufCodec::kHeaderLen, kMinMessageLen, kMaxMessageLen *)" % OLD_HDR)
        out.append("Definition ProtobufCodec_kHeaderLen : Z := (%d)." % h)
        out.append("Definition ProtobufCodec_kMinMessageLen : Z := (%d)." % mn)
        out.append("Definition ProtobufCodec_kMaxMessageLen : Z := (%d)." % mx)
        out.append("")
    except Exception as e:  # noqa
        out.append("(* MISSING ProtobufCodec constants: %s *)" % str(e).replace("*)", ""))
        msgs.append("MISSING ProtobufCodec_constants")
    for r in REQUIRED:
        if r not in defs or defs[r].startswith("(* untranslated"):
            out.append("(* MISSING %s *)" % r)
            msgs.append("MISSING %s" % r)
    txt = "\n".join(out) + "\n"
    path = os.path.join(cxxast.ROOT, "coq/Gen_C18.v")
    old = open(path).read() if os.path.exists(path) else None
    if old != txt:
        open(path, "w").write(txt)
    for m in msgs:
        print(m)
    return 0


if __name__ == "__main__":
    sys.exit(main())
