"""schedlib: Python side of the controlled-schedule harness (harness/sched.{h,cc}, docs/sched.md).

A driver built with  vlib.build_driver(name, [<driver>.cc] + schedlib.SOURCES, wrap=schedlib.WRAP)
reads cases whose header carries the scheduler tokens  sched=<source> spur=<k> tmo=<0|1> pre=<mask>
post=<mask> steps=<n>  and prints, per case, the scheduler's lines:
    t <step> T<i> <kind> <obj> <res> [observers]     trace
    c <n> <pick> <preemptible> <labels>              choice point (n >= 2 options, option 0 = default)
    e T<i> <text>                                    event log (driver)
    DEADLOCK step=<n> / STEPLIMIT step=<n>, then  d T<i> <pending action>  per thread
    schedule <c1,c2,...>                             the realised choice list (replays the run)
This module: parsing, preemption accounting, random schedule sources, systematic enumeration
under a preemption bound (iterative context bounding), schedule shrinking, replay files."""
import os, re
import vlib

WRAP = ["pthread_mutex_lock", "pthread_mutex_unlock", "pthread_mutex_init", "pthread_mutex_destroy",
        "pthread_cond_init", "pthread_cond_destroy", "pthread_cond_wait", "pthread_cond_timedwait",
        "pthread_cond_signal", "pthread_cond_broadcast", "pthread_create", "pthread_join"]
# add these and compile with -DSCHED_WRAP_IO (extra_flags=schedlib.IO_FLAGS) for EventLoop users
WRAP_IO = ["read", "write", "poll", "epoll_wait"]
IO_FLAGS = ["-DSCHED_WRAP_IO"]
SOURCES = ["sched.cc"]

KINDS = ["begin", "exit", "create", "join", "lock", "unlock", "wait", "wake", "sig", "bcast", "point", "spur",
         "tmo", "after", "write", "read", "poll"]


def mask(*kinds):
    """pre=/post= mask for the named kinds, e.g. mask('unlock', 'sig')."""
    m = 0
    for k in kinds:
        m |= 1 << KINDS.index(k)
    return m


class Run:
    """Parsed scheduler output of one case."""
    __slots__ = ("lines", "trace", "choices", "events", "deadlock", "steplimit", "pending", "schedule",
                 "crash", "final", "complete")

    def __init__(self, lines):
        self.lines = lines
        self.trace, self.choices, self.events, self.pending, self.final = [], [], [], {}, []
        self.deadlock = self.steplimit = self.complete = False
        self.crash = None
        self.schedule = None
        for ln in lines:
            if not ln:
                continue
            c = ln[0]
            if c == "t" and ln.startswith("t "):
                self.trace.append(ln.split())
            elif c == "c" and ln.startswith("c "):
                w = ln.split()
                self.choices.append((int(w[1]), int(w[2]), w[3] == "1", w[4].split(",")))
            elif c == "e" and ln.startswith("e "):
                self.events.append(ln.split())
            elif c == "d" and ln.startswith("d T"):
                w = ln.split()
                self.pending[int(w[1][1:])] = w[2:]
            elif ln.startswith("DEADLOCK"):
                self.deadlock = True
            elif ln.startswith("STEPLIMIT"):
                self.steplimit = True
            elif ln.startswith("schedule"):
                s = ln.split()[1] if len(ln.split()) > 1 else "-"
                self.schedule = [] if s == "-" else [int(x) for x in s.split(",")]
            elif ln.startswith("CRASH"):
                self.crash = ln
            elif ln.startswith("final"):
                self.final.append(ln)
            elif ln == "end":
                self.complete = True

    def preemptions(self):
        return sum(1 for c in self.choices if is_preemption(c, c[1]))

    def spurious(self):
        return sum(1 for t in self.trace if t[3] == "spur")


def is_preemption(choice, pick):
    """Switching away from a thread that could have continued (injected events are free)."""
    n, _, preemptible, labels = choice
    return preemptible and pick != 0 and labels[pick][0] == "r"


def strip_zeros(sched):
    s = list(sched)
    while s and s[-1] == 0:
        s.pop()
    return s


def list_source(sched):
    return "list:" + ",".join(str(x) for x in sched) if sched else "list:"


def random_source(rng, pswitch=None, pspur=None):
    """A seeded PRNG source; the run prints the realised choice list, so a replay never depends
    on the PRNG."""
    if pswitch is None:
        pswitch = rng.choice([10, 25, 50, 50, 75])
    if pspur is None:
        pspur = rng.choice([0, 5, 15, 30])
    return "rand:%d:%d:%d" % (rng.randrange(1 << 31), pswitch, pspur)


def set_source(header, source):
    """Replace / add the sched=<source> token of a case header."""
    toks = [t for t in header.split() if not t.startswith("sched=")]
    return " ".join(toks + ["sched=" + source])


class Enumerator:
    """Systematic exploration by iterative context bounding, as a state machine so that several
    configurations can share one parallel batch:   while e.active(): ps = e.next_batch(k);
    e.feed(ps, runs).

    Every schedule is a prefix of explicit choices followed by the default policy (continue the
    running thread, else the lowest-numbered enabled thread, FIFO notify, no injected event).
    From each executed run, for every choice point at or after the end of its prefix and every
    alternative option, `realised[:i] + [alt]` is a new schedule whose cost is the number of
    preemptions in it.  All schedules of cost 0 are run first, then cost 1, ... up to
    max_preemptions, so the tree of schedules with at most that many preemptions is covered
    exactly once (each schedule has a unique shortest prefix).  Stops after `budget` runs."""

    def __init__(self, max_preemptions, budget):
        self.maxp, self.budget = max_preemptions, budget
        self.levels = [[] for _ in range(max_preemptions + 1)]
        self.levels[0].append(([], 0))
        self.nruns = 0
        self.issued = 0

    def active(self):
        return self.issued < self.budget and any(self.levels)

    def exhaustive(self):
        return not any(self.levels)

    def next_batch(self, k):
        lvl = next((i for i, l in enumerate(self.levels) if l), None)
        if lvl is None:
            return []
        take = self.levels[lvl][:max(0, min(k, self.budget - self.issued))]
        del self.levels[lvl][:len(take)]
        self.issued += len(take)
        return take

    def feed(self, batch, runs):
        for (prefix, cost), r in zip(batch, runs):
            self.nruns += 1
            if r is None or r.crash:
                continue
            real = [c[1] for c in r.choices]
            # the realised part beyond the prefix costs nothing (the default never preempts)
            for i in range(len(prefix), len(r.choices)):
                ch = r.choices[i]
                for alt in range(ch[0]):
                    if alt == ch[1]:
                        continue
                    c2 = cost + (1 if is_preemption(ch, alt) else 0)
                    if c2 <= self.maxp:
                        self.levels[c2].append((real[:i] + [alt], c2))


def enumerate_schedules(run_many, max_preemptions, budget, batch=256):
    """Single-configuration convenience wrapper around Enumerator.
    run_many(list of choice lists) -> list of Run.  Returns (number of runs, exhaustive)."""
    e = Enumerator(max_preemptions, budget)
    while e.active():
        b = e.next_batch(batch)
        e.feed(b, run_many([p for (p, _) in b]))
    return e.nruns, e.exhaustive()


def shrink_schedule(sched, fails, max_tests=200):
    """Smaller choice list on which fails(list) is still True: ddmin over the list (removing a
    choice shifts the later ones, which is fine: any list is a valid schedule, choices are taken
    modulo the number of options), then zeroing single choices, then dropping trailing zeros."""
    cur = strip_zeros(sched)
    if not cur:
        return cur
    tests = [0]

    def f(s):
        tests[0] += 1
        return fails(strip_zeros(s))
    if len(cur) >= 2:
        cur = strip_zeros(vlib.ddmin(cur, f, max_tests=max_tests // 2))
    i = 0
    while i < len(cur) and tests[0] < max_tests:
        if cur[i] != 0:
            cand = cur[:i] + [0] + cur[i + 1:]
            if f(cand):
                cur = strip_zeros(cand)
        i += 1
    return cur


def split_case_output(lines):
    """Lines of one case as returned by vlib.run_batch (first 'case <id>', last 'end')."""
    return Run(lines[1:])


def write_replay(chk, name, comment, case_text):
    return chk.write_replay(name, "".join("# %s\n" % l for l in comment.split("\n")) + case_text)


def load_cases(path):
    """Replay / corpus files: '#' comments and vlib case blocks."""
    cases, cid, header, ops = [], None, "", []
    for line in open(path):
        line = line.rstrip("\n")
        if not line or line.startswith("#"):
            continue
        if line.startswith("case "):
            t = line.split()
            cid, header, ops = t[1], " ".join(t[2:]), []
        elif line == "end":
            if cid is not None:
                cases.append(vlib.Case(cid, header, ops, "replay"))
            cid = None
        elif line.startswith("---"):
            break
        elif cid is not None:
            ops.append(line)
    return cases
