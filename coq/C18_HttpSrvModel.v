(* C18_HttpSrvModel: the HTTP server side around the request parser of C18_Model:
     HttpContext::reset (HttpContext.h), HttpRequest::getHeader (HttpRequest.h:151-160),
     HttpServer::onMessage / onRequest (HttpServer.cc:66-99) -- ONE parseRequest per delivery,
     which is the "pipelining" behaviour: a second request already in the buffer waits for the
     next delivery --, HttpResponse::appendToBuffer (HttpResponse.cc:18-47),
   and a reference grammar for responses ([ref_parse_response]) written from RFC 7230's
   status-line / header-field / message-body shape, not from appendToBuffer.
   The connection is the small record of what TcpConnection contributes: send() transmits only
   while connected, shutdown() ends that, handleRead keeps delivering.  No proofs here. *)
From Coq Require Import List ZArith Lia Bool Arith NArith.
From Coq.Strings Require Import Byte.
From Muduo Require Import Base_Bytes Gen_Consts C18_Model.
Import ListNotations.

(* ---- decimal numbers as snprintf("%d") / ("%zd") prints them (non-negative) ------------- *)
Fixpoint bytes_of_uint (u : Decimal.uint) : list byte :=
  match u with
  | Decimal.Nil => []
  | Decimal.D0 u => x30 :: bytes_of_uint u | Decimal.D1 u => x31 :: bytes_of_uint u
  | Decimal.D2 u => x32 :: bytes_of_uint u | Decimal.D3 u => x33 :: bytes_of_uint u
  | Decimal.D4 u => x34 :: bytes_of_uint u | Decimal.D5 u => x35 :: bytes_of_uint u
  | Decimal.D6 u => x36 :: bytes_of_uint u | Decimal.D7 u => x37 :: bytes_of_uint u
  | Decimal.D8 u => x38 :: bytes_of_uint u | Decimal.D9 u => x39 :: bytes_of_uint u
  end.
Definition dec (n : nat) : list byte := bytes_of_uint (Nat.to_uint n).

Definition is_digit (b : byte) : bool := let z := Z_of_byte b in (48 <=? z)%Z && (z <=? 57)%Z.
(* value of a digit string (most significant first) *)
Definition undec (l : list byte) : nat :=
  fold_left (fun acc b => 10 * acc + Z.to_nat (Z_of_byte b - 48)) l 0.

(* ---- strings of the protocol --------------------------------------------------------------- *)
Definition CRLF : list byte := [CR; LF].
Definition s_HTTP11_SP : list byte := [x48; x54; x54; x50; x2f; x31; x2e; x31; x20].   (* "HTTP/1.1 " *)
Definition s_conn_close : list byte :=                                               (* "Connection: close" *)
  [x43; x6f; x6e; x6e; x65; x63; x74; x69; x6f; x6e; x3a; x20; x63; x6c; x6f; x73; x65].
Definition s_conn_keep : list byte :=                                       (* "Connection: Keep-Alive" *)
  [x43; x6f; x6e; x6e; x65; x63; x74; x69; x6f; x6e; x3a; x20; x4b; x65; x65; x70; x2d; x41; x6c; x69; x76; x65].
Definition s_content_length : list byte :=                                             (* "Content-Length: " *)
  [x43; x6f; x6e; x74; x65; x6e; x74; x2d; x4c; x65; x6e; x67; x74; x68; x3a; x20].
Definition s_Connection : list byte := [x43; x6f; x6e; x6e; x65; x63; x74; x69; x6f; x6e].
Definition s_close : list byte := [x63; x6c; x6f; x73; x65].
Definition s_KeepAlive : list byte := [x4b; x65; x65; x70; x2d; x41; x6c; x69; x76; x65].
Definition s_ContentLength : list byte := firstn 14 s_content_length.
Definition s_400 : list byte :=                                     (* "HTTP/1.1 400 Bad Request\r\n\r\n" *)
  s_HTTP11_SP ++ [x34; x30; x30; x20; x42; x61; x64; x20; x52; x65; x71; x75; x65; x73; x74] ++ CRLF ++ CRLF.

(* ---- HttpResponse -------------------------------------------------------------------------- *)
Record response : Type := mkResp {
  rs_code : nat;                               (* statusCode_ (an enumerator, printed with %d) *)
  rs_msg : list byte;                          (* statusMessage_ *)
  rs_close : bool;                             (* closeConnection_ *)
  rs_headers : list (list byte * list byte);   (* headers_ in std::map iteration order *)
  rs_body : list byte
}.

(* snprintf(buf, sizeof buf, ...) with char buf[32]: at most 31 characters survive *)
Definition snprintf32 (s : list byte) : list byte := firstn 31 s.

Definition header_line (kv : list byte * list byte) : list byte := fst kv ++ [COLON; SP] ++ snd kv ++ CRLF.

(* HttpResponse::appendToBuffer: the bytes appended, in order *)
Definition response_bytes (r : response) : list byte :=
  snprintf32 (s_HTTP11_SP ++ dec (rs_code r) ++ [SP]) ++ rs_msg r ++ CRLF
  ++ (if rs_close r then s_conn_close ++ CRLF
      else snprintf32 (s_content_length ++ dec (length (rs_body r)) ++ CRLF) ++ s_conn_keep ++ CRLF)
  ++ flat_map header_line (rs_headers r)
  ++ CRLF ++ rs_body r.

(* ---- reference grammar of a response (RFC 7230 3.1.2, 3.2, 3.3), independent of the above ---- *)
Record parsed_response : Type := mkPR {
  pr_code : nat; pr_reason : list byte;
  pr_headers : list (list byte * list byte);
  pr_body : list byte
}.

(* status-line = "HTTP/1.1" SP 1*DIGIT SP reason-phrase *)
Definition ref_status_line (line : list byte) : option (nat * list byte) :=
  if bytes_eqb (firstn 9 line) s_HTTP11_SP then
    let rest := skipn 9 line in
    match find_byte SP rest with
    | Some i =>
        let ds := firstn i rest in
        if negb (Nat.eqb i 0) && forallb is_digit ds then Some (undec ds, skipn (i + 1) rest) else None
    | None => None
    end
  else None.

(* header-field = field-name ":" SP field-value   (field-name without ":") *)
Definition ref_header_line (line : list byte) : option (list byte * list byte) :=
  match find_byte COLON line with
  | Some i => match skipn (i + 1) line with
              | s :: v => if Byte.eqb s SP then Some (firstn i line, v) else None
              | [] => None
              end
  | None => None
  end.

Fixpoint ref_headers (fuel : nat) (s : list byte) (acc : list (list byte * list byte))
  : option (list (list byte * list byte) * list byte) :=
  match fuel with
  | O => None
  | S f =>
      match find_crlf s with
      | None => None
      | Some i =>
          if Nat.eqb i 0 then Some (rev acc, skipn 2 s)             (* empty line: end of the header section *)
          else match ref_header_line (firstn i s) with
               | Some kv => ref_headers f (skipn (i + 2) s) (kv :: acc)
               | None => None
               end
      end
  end.

Fixpoint lookup (k : list byte) (h : list (list byte * list byte)) : option (list byte) :=
  match h with
  | [] => None
  | (k', v) :: t => if bytes_eqb k k' then Some v else lookup k t
  end.

(* the whole message: the body is everything after the header section; when a Content-Length
   field is present its value must be the decimal length of the body *)
Definition ref_parse_response (s : list byte) : option parsed_response :=
  match find_crlf s with
  | None => None
  | Some i =>
      match ref_status_line (firstn i s) with
      | None => None
      | Some (code, reason) =>
          match ref_headers (S (length s)) (skipn (i + 2) s) [] with
          | None => None
          | Some (hs, body) =>
              match lookup s_ContentLength hs with
              | Some v => if forallb is_digit v && negb (Nat.eqb (length v) 0) && Nat.eqb (undec v) (length body)
                          then Some (mkPR code reason hs body) else None
              | None => Some (mkPR code reason hs body)
              end
          end
      end
  end.

(* ---- HttpServer ------------------------------------------------------------------------------ *)
(* HttpRequest::getHeader: "" when absent *)
Definition get_header (r : request) (k : list byte) : list byte :=
  match lookup k (q_headers r) with Some v => v | None => [] end.

Definition is_http10 (v : version) : bool := match v with kHttp10 => true | _ => false end.

(* onRequest: close = connection == "close" || (version == kHttp10 && connection != "Keep-Alive") *)
Definition wants_close (r : request) : bool :=
  let c := get_header r s_Connection in
  bytes_eqb c s_close || (is_http10 (q_version r) && negb (bytes_eqb c s_KeepAlive)).

Record sconn : Type := mkS {
  s_ctx : hctx;              (* boost::any context of the connection *)
  s_buf : list byte;         (* inputBuffer_ (its readable bytes) *)
  s_connected : bool;        (* state_ == kConnected: send() transmits *)
  s_shutdowns : nat;         (* shutdown() calls that took effect *)
  s_dirty : bool;            (* request_.method_ != kInvalid left behind by a processRequestLine that failed AFTER
                                setMethod succeeded (HttpServer does not reset() the context after a 400) *)
  s_aborted : bool           (* assert(method_ == kInvalid) in HttpRequest::setMethod failed: the process is gone *)
}.

Inductive sevent : Type :=
| SSend (d : list byte)      (* bytes that reached the socket *)
| SDropped (d : list byte)   (* send() on a connection that is no longer kConnected: nothing is written *)
| SRequest (r : request)     (* httpCallback_ was called with r *)
| SAssert                    (* HttpRequest.h:55 assert(method_ == kInvalid) failed (builds with assertions: abort) *)
| SOof.

(* does processRequestLine reach request_.setMethod on the first complete line of [b]?
   (space != end && request_.setMethod(start, space)) *)
Definition reaches_setMethod (b : list byte) : bool :=
  match find_crlf b with
  | Some i => match find_byte SP (firstn i b) with Some _ => true | None => false end
  | None => false
  end.

(* ... and does that setMethod succeed (so that a later failure leaves method_ set)? *)
Definition sets_method (b : list byte) : bool :=
  match find_crlf b with
  | Some i => match find_byte SP (firstn i b) with
              | Some j => negb (is_invalid (set_method (firstn j (firstn i b))))
              | None => false
              end
  | None => false
  end.

Section Server.
  (* httpCallback_: fills the response that onRequest created with HttpResponse(close) *)
  Variable callback : request -> bool -> response.

  Definition do_send (c : sconn) (d : list byte) : sevent := if s_connected c then SSend d else SDropped d.
  Definition do_shutdown (c : sconn) : sconn :=
    if s_connected c then mkS (s_ctx c) (s_buf c) false (S (s_shutdowns c)) (s_dirty c) (s_aborted c) else c.

  Definition is_reqline_state (c : hctx) : bool :=
    match h_state c with kExpectRequestLine => true | _ => false end.

  (* HttpServer::onMessage after TcpConnection appended the chunk *)
  Definition srv_onMessage (c : sconn) : list sevent * sconn :=
    if s_aborted c then ([], c)
    else if s_dirty c && is_reqline_state (s_ctx c) && reaches_setMethod (s_buf c) then
      ([SAssert], mkS (s_ctx c) (s_buf c) (s_connected c) (s_shutdowns c) (s_dirty c) true)
    else
    match parseRequest (S (length (s_buf c))) (s_ctx c) (s_buf c) with
    | PRFuel => ([SOof], c)
    | PRDone ok ctx' b' =>
        (* a failing processRequestLine leaves request_.method_ assigned when setMethod had succeeded *)
        let dirty' := if ok then s_dirty c else s_dirty c || sets_method (s_buf c) in
        let c1 := mkS ctx' b' (s_connected c) (s_shutdowns c) dirty' false in
        (* if (!context->parseRequest(buf, receiveTime)) { send 400; shutdown } *)
        let ev1 := if ok then [] else [do_send c1 s_400] in
        let c2 := if ok then c1 else do_shutdown c1 in
        (* if (context->gotAll()) { onRequest(conn, context->request()); context->reset(); } *)
        if gotAll ctx' then
          let req := h_req ctx' in
          let resp := callback req (wants_close req) in
          let ev2 := [SRequest req; do_send c2 (response_bytes resp)] in
          let c3 := if rs_close resp then do_shutdown c2 else c2 in
          (ev1 ++ ev2, mkS ctx0 (s_buf c3) (s_connected c3) (s_shutdowns c3) false false)
        else (ev1, c2)
    end.

  Definition srv_deliver (c : sconn) (chunk : list byte) : list sevent * sconn :=
    srv_onMessage (mkS (s_ctx c) (s_buf c ++ chunk) (s_connected c) (s_shutdowns c) (s_dirty c) (s_aborted c)).

  Fixpoint srv_deliver_all (c : sconn) (chunks : list (list byte)) : list (list sevent) * sconn :=
    match chunks with
    | [] => ([], c)
    | ch :: rest => let (e1, c1) := srv_deliver c ch in
                    let (es, c2) := srv_deliver_all c1 rest in (e1 :: es, c2)
    end.

  Definition sconn0 : sconn := mkS ctx0 [] true 0 false false.

  (* the requests handed to the callback, in order *)
  Definition requests_of (es : list sevent) : list request :=
    flat_map (fun e => match e with SRequest r => [r] | _ => [] end) es.
End Server.

(* the callback installed by the correspondence harness (harness/C18_driver.cc: demoCallback):
   "/nf..." => what defaultHttpCallback does (404 Not Found, close); otherwise 200 OK with the path
   as body, the method in X-Method, the query (when present) in A-Query; "/close" asks for close. *)
Definition s_nf : list byte := [x2f; x6e; x66].
Definition s_slash_close : list byte := [x2f; x63; x6c; x6f; x73; x65].
Definition s_NotFound : list byte := [x4e; x6f; x74; x20; x46; x6f; x75; x6e; x64].
Definition s_OK : list byte := [x4f; x4b].
Definition s_XMethod : list byte := [x58; x2d; x4d; x65; x74; x68; x6f; x64].
Definition s_AQuery : list byte := [x41; x2d; x51; x75; x65; x72; x79].
Definition method_bytes (m : method) : list byte :=
  match m with
  | kGet => s_GET | kPost => s_POST | kHead => s_HEAD | kPut => s_PUT | kDelete => s_DELETE
  | kInvalid => [x55; x4e; x4b; x4e; x4f; x57; x4e]
  end.
Definition demo_callback (r : request) (close : bool) : response :=
  if bytes_eqb (firstn 3 (q_path r)) s_nf then mkResp 404 s_NotFound true [] []
  else mkResp 200 s_OK (close || bytes_eqb (q_path r) s_slash_close)
              ((match q_query r with [] => [] | q => [(s_AQuery, q)] end) ++ [(s_XMethod, method_bytes (q_method r))])
              (q_path r).
