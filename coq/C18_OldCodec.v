(* C18_OldCodec: the OLD protobuf codec of the examples directory,
     examples/protobuf/codec/codec.{h,cc}: class ProtobufCodec (not ProtobufCodecLite).
   Wire layout (codec.h:17-24):
     struct ProtobufTransportFormat { int32_t len; int32_t nameLen; char typeName[nameLen];
                                      char protobufData[len-nameLen-8];
                                      int32_t checkSum; // adler32 of nameLen, typeName and protobufData }
   [ostep] is one iteration of the while loop of ProtobufCodec::onMessage (codec.cc:135-167) with
   ProtobufCodec::parse (codec.cc:186-235) inlined as [oparse_frame], every read through the
   bounds-checked [read_at] / [retrieve] of C18_Model (a failed check is the event CFault).
   The message type is looked up BY NAME: createMessage(typeName) (descriptor pool + message
   factory: environment, [create]), then message->ParseFromArray (environment, [parse]).
   typeName = std::string(buf + kHeaderLen, buf + kHeaderLen + nameLen - 1): the nameLen-1 bytes
   after the nameLen field; the last byte of the name field (the NUL the encoder writes) is NOT
   looked at.  The three constants are regenerated (Gen_C18.ProtobufCodec_k...).  The generic chunk-fed
   loop (run / feed / feed_all) and the events are those of C18_Model.  No proofs in this file. *)
From Coq Require Import List ZArith Lia Bool Arith NArith.
From Coq.Strings Require Import Byte.
From Muduo Require Import Base_Bytes Gen_Consts Gen_C18 C18_Model.
Import ListNotations.
Local Open Scope Z_scope.

Definition okHeaderLen : Z := Gen_C18.ProtobufCodec_kHeaderLen.
Definition okMinMessageLen : Z := Gen_C18.ProtobufCodec_kMinMessageLen.
Definition okMaxMessageLen : Z := Gen_C18.ProtobufCodec_kMaxMessageLen.

Section OldCodec.
  Variable msg : Type.
  Variable create : list byte -> bool.                       (* createMessage(typeName) != NULL *)
  Variable parse : list byte -> list byte -> option msg.     (* typeName, data: message->ParseFromArray(data, dataLen) *)

  (* codec.cc:142  if (len > kMaxMessageLen || len < kMinMessageLen) *)
  Definition olength_bad (len : Z) : bool := (len >? okMaxMessageLen) || (len <? okMinMessageLen).

  Inductive opres : Type := OOk (m : msg) | OErr (e : err) | OFault.

  (* ProtobufCodec::parse(buf, len, &error), buf = peek() + off *)
  Definition oparse_frame (b : list byte) (off len : Z) : opres :=
    (* expectedCheckSum = asInt32(buf + len - kHeaderLen); checkSum = adler32(1, buf, len - kHeaderLen) *)
    match read_at b (off + len - okHeaderLen) 4, read_at b off (len - okHeaderLen) with
    | Some tr, Some body =>
        if checksum32 body =? be_decode_signed tr then
          match read_at b off 4 with                                    (* nameLen = asInt32(buf) *)
          | None => OFault
          | Some n4 =>
              let nameLen := be_decode_signed n4 in
              if (nameLen >=? 2) && (nameLen <=? len - 2 * okHeaderLen) then
                (* std::string typeName(buf + kHeaderLen, buf + kHeaderLen + nameLen - 1) *)
                match read_at b (off + okHeaderLen) (nameLen - 1) with
                | None => OFault
                | Some tn =>
                    if create tn then
                      (* data = buf + kHeaderLen + nameLen; dataLen = len - nameLen - 2*kHeaderLen *)
                      match read_at b (off + okHeaderLen + nameLen) (len - nameLen - 2 * okHeaderLen) with
                      | None => OFault
                      | Some data => match parse tn data with Some m => OOk m | None => OErr kParseError end
                      end
                    else OErr kUnknownMessageType
                end
              else OErr kInvalidNameLen
          end
        else OErr kCheckSumError
    | _, _ => OFault
    end.

  (* one iteration of the while loop of ProtobufCodec::onMessage *)
  Definition ostep (_ : unit) (b : list byte) : sres unit (cevent msg) :=
    if Z.of_nat (length b) >=? okMinMessageLen + okHeaderLen then
      match read_at b 0 4 with                                          (* buf->peekInt32() *)
      | None => SStop [CFault]
      | Some l4 =>
          let len := be_decode_signed l4 in
          if olength_bad len then SStop [CErr kInvalidLength]
          else if Z.of_nat (length b) >=? len + okHeaderLen then
            match oparse_frame b okHeaderLen len with
            | OFault => SStop [CFault]
            | OErr e => SStop [CErr e]
            | OOk m =>
                match retrieve b (okHeaderLen + len) with               (* buf->retrieve(kHeaderLen+len) *)
                | Some r => SEmit [CMsg m] tt r
                | None => SStop [CFault]
                end
            end
          else SWait
      end
    else SWait.

  Definition ocodec_init : dstate unit := init tt.
  Definition ocodec_feed := feed ostep.
  Definition ocodec_feed_all := feed_all ostep.

  (* ProtobufCodec::fillEmptyBuffer: nameLen = typeName.size()+1; appendInt32(nameLen);
     append(typeName.c_str(), nameLen) (the NUL included); the serialised message; appendInt32 of
     the Adler-32 of all of that; the length prepended *)
  Definition oencode (typeName data : list byte) : list byte :=
    let covered := be_encode 4 (Z.of_nat (length typeName) + 1) ++ typeName ++ [x00] ++ data in
    be_encode 4 (Z.of_nat (length covered) + 4) ++ covered ++ be_encode 4 (adler32 covered).

  (* ---- the independent reference: greedy split of the whole stream, written from the struct
     comment of codec.h (list surgery, unsigned checksum comparison, literal 64 MiB) ------------- *)
  Definition oref_split (s : list byte) : ref_frame msg :=
    if (length s <? 4 + 10)%nat then RIncomplete msg       (* len + the smallest body: nameLen, 2 name bytes, checkSum *)
    else
      let size := be_decode_signed (firstn 4 s) in
      if (size <? 10) || (64 * 1024 * 1024 <? size) then RBad msg kInvalidLength
      else
        let n := Z.to_nat size in
        if (length s <? 4 + n)%nat then RIncomplete msg
        else
          let body := firstn n (skipn 4 s) in
          let rest := skipn (4 + n) s in
          let covered := firstn (n - 4) body in             (* nameLen, typeName, protobufData *)
          let ck := skipn (n - 4) body in                   (* checkSum *)
          if negb (be_decode ck =? adler32 covered) then RBad msg kCheckSumError
          else
            let nameLen := be_decode_signed (firstn 4 covered) in
            if (nameLen <? 2) || (size - 8 <? nameLen) then RBad msg kInvalidNameLen
            else
              let k := Z.to_nat nameLen in
              let name := firstn (k - 1) (skipn 4 covered) in   (* typeName without its terminator *)
              let data := skipn (4 + k) covered in
              if negb (create name) then RBad msg kUnknownMessageType
              else match parse name data with
                   | None => RBad msg kParseError
                   | Some m => RFrame msg m rest
                   end.

  Fixpoint oref_decode (fuel : nat) (s : list byte) : list msg * option err * list byte :=
    match fuel with
    | O => ([], None, s)
    | S f =>
        match oref_split s with
        | RIncomplete _ => ([], None, s)
        | RBad _ e => ([], Some e, s)
        | RFrame _ m rest => let '(ms, e, r) := oref_decode f rest in (m :: ms, e, r)
        end
    end.
End OldCodec.
Arguments OOk {msg} m.
Arguments OErr {msg} e.
Arguments OFault {msg}.
