(* C13_Settings: the two setters of a connection's notification settings as explicit operations
   (REVIEW_C item 8).  Conn_Model.op has no setter, so Properties_C13.C13_settings_constant holds by
   the choice of the op alphabet: it is the USER CONTRACT "mark and callbacks are configured before
   connectEstablished and left alone afterwards".  TcpConnection.h:95-99 allows more:
     void setWriteCompleteCallback(cb)             { writeCompleteCallback_ = cb; }
     void setHighWaterMarkCallback(cb, mark)       { highWaterMarkCallback_ = cb; highWaterMark_ = mark; }
   plain assignments, callable at any time ON THE LOOP THREAD (they are not synchronised: C08 lists
   them under contract `setup`; that a functor / callback runs on the loop thread is C04's
   C04_on_loop_thread).  This file adds them as operations of an extended machine, on top of the
   shared model and without touching it, and says exactly what survives a change of settings. *)
From Coq Require Import List ZArith Lia Bool Arith NArith.
From Coq.Strings Require Import Byte.
From Muduo Require Import Conn_Model Conn_Proofs.
Import ListNotations.

Definition set_hwm (c : conn) (installed : bool) (mark : N) : conn :=
  mkConn (st c) (outb c) (inb c) (writing c) (rd_chan c) (rd_flag c) (registered c) mark (has_wc c)
         installed (wire c) (fin c) (pending c) (chk c) (delayed c) (accepted c) (consumed c)
         (delivered c) (enq c) (ran c) (ups c) (downs c).
Definition set_wc (c : conn) (installed : bool) : conn :=
  mkConn (st c) (outb c) (inb c) (writing c) (rd_chan c) (rd_flag c) (registered c) (hwm c) installed
         (has_hwm c) (wire c) (fin c) (pending c) (chk c) (delayed c) (accepted c) (consumed c)
         (delivered c) (enq c) (ran c) (ups c) (downs c).

Inductive sop :=
| SBase (o : op)                              (* an operation of Conn_Model *)
| SetHWM (installed : bool) (mark : N)        (* setHighWaterMarkCallback(cb, mark), between two steps, on the loop thread *)
| SetWC (installed : bool).                   (* setWriteCompleteCallback(cb) *)

Definition sstep (c : conn) (so : sop) : res (conn * list event) :=
  match so with
  | SBase o => step c o
  | SetHWM b m => Ok (set_hwm c b m, [])
  | SetWC b => Ok (set_wc c b, [])
  end.

Fixpoint srun (c : conn) (sops : list sop) : res (conn * list event) :=
  match sops with
  | [] => Ok (c, [])
  | so :: rest =>
      match sstep c so with
      | Ok (c1, e1) =>
          match srun c1 rest with
          | Ok (c2, e2) => Ok (c2, e1 ++ e2)
          | Rejected => Rejected
          | Fault => Fault
          end
      | Rejected => Rejected
      | Fault => Fault
      end
  end.

Definition is_base (so : sop) : bool := match so with SBase _ => true | _ => false end.

(* a history without setters is a history of the base machine *)
Lemma srun_base ops : forall c, srun c (map SBase ops) = run c ops.
Proof.
  induction ops as [|o ops IH]; intros c; cbn [map srun run sstep]; [reflexivity|].
  destruct (step c o) as [[c1 e1]| |]; [|reflexivity|reflexivity]. rewrite IH. reflexivity.
Qed.

(* settings change at setter operations only *)
Lemma srun_settings sops : forall c c' e, srun c sops = Ok (c', e) -> forallb is_base sops = true ->
  hwm c' = hwm c /\ has_wc c' = has_wc c /\ has_hwm c' = has_hwm c.
Proof.
  induction sops as [|so sops IH]; intros c c' e H Hb.
  - cbn in H. injection H as <- _. auto.
  - cbn [srun] in H. cbn [forallb] in Hb. apply andb_prop in Hb as [Hb1 Hb2].
    destruct so as [o| |]; try discriminate Hb1. cbn [sstep] in H.
    destruct (step c o) as [[c1 e1]| |] eqn:Es; try discriminate.
    destruct (srun c1 sops) as [[c2 e2]| |] eqn:Er; try discriminate.
    injection H as <- _. destruct (step_const c o c1 e1 Es) as (H1 & H2 & H3).
    destruct (IH c1 c2 e2 Er Hb2) as (I1 & I2 & I3). repeat split; congruence.
Qed.

(* a setter touches the settings and nothing else: backlog, wire, queue (pending notifications
   included), state, interest are what they were; no event *)
Lemma setters_touch_settings_only c :
  (forall b m, sstep c (SetHWM b m) = Ok (set_hwm c b m, []) /\
     hwm (set_hwm c b m) = m /\ has_hwm (set_hwm c b m) = b /\ has_wc (set_hwm c b m) = has_wc c /\
     outb (set_hwm c b m) = outb c /\ wire (set_hwm c b m) = wire c /\ pending (set_hwm c b m) = pending c /\
     st (set_hwm c b m) = st c /\ writing (set_hwm c b m) = writing c) /\
  (forall b, sstep c (SetWC b) = Ok (set_wc c b, []) /\
     has_wc (set_wc c b) = b /\ hwm (set_wc c b) = hwm c /\ has_hwm (set_wc c b) = has_hwm c /\
     outb (set_wc c b) = outb c /\ wire (set_wc c b) = wire c /\ pending (set_wc c b) = pending c /\
     st (set_wc c b) = st c /\ writing (set_wc c b) = writing c).
Proof. split; intros; repeat split; reflexivity. Qed.

(* "not again until the backlog has fallen below the mark" is about ONE mark.  With a setter in
   between it fails, and must: mark 2, a send of 3 bytes the kernel refuses (high-water fires with 3),
   the user raises the mark to 5, a send of 2 more bytes (backlog 5: high-water fires again with 5)
   although the backlog was never below 2 - it did cross the NEW mark from below. *)
Definition ex_remark : list sop :=
  [ SBase Establish; SBase (Send [x61; x62; x63] (Accept 0)); SetHWM true 5%N; SBase (Send [x64; x65] (Accept 0)) ].

Lemma no_repeat_with_setter_refuted :
  exists c e, srun (init 2%N true true) ex_remark = Ok (c, e) /\
    pending c = [FHighWater 3; FHighWater 5] /\ length (outb c) = 5 /\
    (* the backlog after every step of the history: never below the first mark after the first crossing *)
    (forall n c1 e1, (2 <= n <= 4)%nat -> srun (init 2%N true true) (firstn n ex_remark) = Ok (c1, e1) ->
       (2 <= N.of_nat (length (outb c1)))%N).
Proof.
  eexists _, _. split; [vm_compute; reflexivity|]. split; [reflexivity|]. split; [reflexivity|].
  intros n c1 e1 Hn H.
  assert (Hc : (n = 2 \/ n = 3 \/ n = 4)%nat) by lia.
  destruct Hc as [->|[->| ->]]; vm_compute in H; injection H as <- _; vm_compute; discriminate.
Qed.

Lemma sstep_unfold : forall c so,
  sstep c so = match so with
               | SBase o => step c o
               | SetHWM b m => Ok (set_hwm c b m, [])
               | SetWC b => Ok (set_wc c b, [])
               end.
Proof. reflexivity. Qed.
