(* C12_Trace: the event trace of EVERY history of the connector/client model is accepted by a small
   specification automaton (connection wanted?, cycle open?, expected back-off delay).  From the acceptance
   follow: back-off schedule, at most one connection per cycle, attempts only in an open cycle,
   nothing handed over / reported after stop().  No hypothesis on the history (a Fault ends it). *)
From Coq Require Import List ZArith Lia Bool Arith.
From Muduo Require Import Gen_Consts Gen_C12 C12_Model C12_Hyg.
Import ListNotations.
Local Open Scope Z_scope.

Record spec := mkSpec { sp_want : bool; sp_open : bool; sp_exp : Z }.

Definition spec_step (a : spec) (e : event) : option spec :=
  match e with
  | EvWant => Some (mkSpec true (sp_open a) (sp_exp a))
  | EvStopReq => Some (mkSpec false (sp_open a) (sp_exp a))
  | EvCycle d => Some (mkSpec (sp_want a) true d)
  | EvAttempt _ _ => if sp_open a then Some a else None
  | EvArm d => if sp_want a && sp_open a && (d =? sp_exp a)
               then Some (mkSpec (sp_want a) (sp_open a) (Z.min (2 * sp_exp a) 30000)) else None
  | EvHandOver _ => if sp_want a && sp_open a then Some a else None
  | EvUp _ => if sp_want a && sp_open a then Some (mkSpec (sp_want a) false (sp_exp a)) else None
  | _ => Some a
  end.
Fixpoint spec_run (a : spec) (ev : list event) : option spec :=
  match ev with
  | [] => Some a
  | e :: r => match spec_step a e with Some a' => spec_run a' r | None => None end
  end.

Lemma spec_run_app a e1 e2 a1 : spec_run a e1 = Some a1 -> spec_run a (e1 ++ e2) = spec_run a1 e2.
Proof.
  revert a. induction e1 as [|e r IH]; intros a; cbn.
  - intros [= <-]. reflexivity.
  - destruct (spec_step a e); [apply IH|discriminate].
Qed.

(* the automaton state that belongs to a model state *)
Definition R (a : spec) (s : st) : Prop :=
  sp_want a = k_connect s /\ sp_exp a = k_delay s /\ (k_state s = KConnected \/ sp_open a = true).
Definition R1 (a : spec) (s : st) : Prop :=      (* inside an open cycle *)
  sp_want a = k_connect s /\ sp_exp a = k_delay s /\ sp_open a = true.
Lemma R1_R a s : R1 a s -> R a s.
Proof. intros (A & B & C). repeat split; auto. Qed.

Definition wps (P : spec -> st -> Prop) (m : M) (a : spec) : Prop :=
  match m with None => True | Some (s', ev) => exists a', spec_run a ev = Some a' /\ P a' s' end.

Lemma wps_bind P Q m f a :
  wps Q m a -> (forall a1 s1, Q a1 s1 -> wps P (f s1) a1) -> wps P (bind m f) a.
Proof.
  unfold wps, bind. destruct m as [[s1 e1]|]; auto. intros (a1 & E1 & Q1) F.
  specialize (F _ _ Q1). destruct (f s1) as [[s2 e2]|]; auto.
  destruct F as (a2 & E2 & P2). exists a2. split; auto. rewrite (spec_run_app _ _ _ _ E1). auto.
Qed.
Lemma wps_mono (P Q : spec -> st -> Prop) m a : (forall a s, P a s -> Q a s) -> wps P m a -> wps Q m a.
Proof. unfold wps. destruct m as [[s e]|]; auto. intros F (a' & E & H). eauto. Qed.
Lemma wps_some (P : spec -> st -> Prop) s ev a a' : spec_run a ev = Some a' -> P a' s -> wps P (Some (s, ev)) a.
Proof. intros. exists a'. auto. Qed.
Lemma wps_ret (P : spec -> st -> Prop) s a : P a s -> wps P (ret s) a.
Proof. intros. exists a. auto. Qed.

Ltac rr := unfold R, R1 in *; cbn in *.

Lemma do_close_R (P : spec -> st -> Prop) s i a :
  P a (set_socks s (upd (socks s) i close_state)) -> wps P (do_close s i) a.
Proof. intros H. unfold do_close. eapply wps_some; [reflexivity|auto]. Qed.

Lemma retry_R s i a : R1 a s -> wps R1 (retry s i) a.
Proof.
  intros (A & B & C). unfold retry. eapply wps_bind; [apply (do_close_R (fun a' s' => a' = a /\ k_connect s' = k_connect s /\ k_delay s' = k_delay s)); cbn; auto|].
  intros a1 s1 (-> & E1 & E2). cbn -[Connector_retry_arms_before_update Connector_retry_next]. destruct (k_connect s1) eqn:K.
  - rewrite G_arms_before_update. eapply wps_some.
    + cbn. rewrite A, <- E1, C, E2, <- B, Z.eqb_refl. cbn. reflexivity.
    + rr. rewrite G_retry_next, E2, <- B. auto.
  - apply wps_ret. rr. rewrite K, E2. repeat split; auto. congruence.
Qed.

Lemma connecting_R s i a : R1 a s -> wps R1 (connecting s i) a.
Proof.
  intros H. unfold connecting. cbn. destruct (k_chan s); [exact I|]. apply wps_ret. rr. auto.
Qed.

Lemma connect_R s a : R1 a s -> wps R1 (connect_ s) a.
Proof.
  intros (A & B & C). unfold connect_. cbn [kq set_socks].
  assert (X : forall e s0, k_connect s0 = k_connect s -> k_delay s0 = k_delay s ->
     wps R1 (bind (Some (s0, [EvAttempt (length (socks s)) e]))
               (fun s1 => match classify e with
                          | ActConnecting => connecting s1 (length (socks s))
                          | ActRetry => retry s1 (length (socks s))
                          | ActClose => do_close s1 (length (socks s))
                          | ActLeak => ret s1 end)) a).
  { intros e s0 E1 E2. eapply wps_bind.
    - eapply (wps_some (fun a' s' => a' = a /\ s' = s0)); [cbn; rewrite C; reflexivity|auto].
    - intros a1 s1 (-> & ->).
      assert (R1 a s0) by (rr; rewrite E1, E2; auto).
      destruct (classify e); [apply connecting_R|apply retry_R|apply do_close_R|apply wps_ret]; auto. }
  destruct (kq s) as [|e r]; apply X; reflexivity.
Qed.

Lemma startInLoop_R s a : R a s -> wps R (startInLoop s) a.
Proof.
  intros (A & B & C). unfold startInLoop. destruct (kstate_eqb (k_state s) KDisconnected) eqn:K; cbn [negb]; [|exact I].
  assert (R1 a s). { rr. destruct C as [C|C]; auto. rewrite C in K. discriminate. }
  destruct (k_connect s); [eapply wps_mono; [apply R1_R|apply connect_R; auto]|apply wps_ret; apply R1_R; auto].
Qed.

Lemma restart_R s a : wps R (restart s) a.
Proof.
  unfold restart. eapply wps_bind.
  - eapply (wps_some R1); [cbn; reflexivity|]. rr. auto.
  - intros a1 s1 H. apply startInLoop_R. apply R1_R. auto.
Qed.

Definition kabs (s : st) := (k_connect s, k_delay s, k_state s).
Lemma R_frame a s s' : kabs s' = kabs s -> R a s -> R a s'.
Proof. unfold kabs, R. intros [= -> -> ->]. auto. Qed.

Lemma newConnection_R s i a : k_state s = KConnected -> k_connect s = true -> R1 a s -> wps R (newConnection s i) a.
Proof.
  intros K W (A & B & C). unfold newConnection. destruct (negb (alive s)); [exact I|].
  eapply wps_some.
  - cbn. rewrite A, W, C. cbn. rewrite A, W, C. cbn. reflexivity.
  - rr. auto.
Qed.

Lemma removeConnection_R s c a : R a s -> wps R (removeConnection s c) a.
Proof.
  intros H. unfold removeConnection. destruct (negb (alive s)); [exact I|].
  destruct (connection s); [|exact I]. destruct (negb _); [exact I|].
  destruct (_ && _); [apply restart_R|apply wps_ret]. eapply R_frame; [|eauto]. reflexivity.
Qed.

Lemma handleClose_R s c a : R a s -> wps R (handleClose s c) a.
Proof.
  intros H. unfold handleClose. destruct (nth_error (conns s) c) as [o|]; [|exact I].
  eapply wps_bind.
  - eapply (wps_some R); [cbn; reflexivity|]. eapply R_frame; [|eauto]. reflexivity.
  - intros a1 s1 H1. destruct (ccb o); [apply removeConnection_R; auto|apply wps_ret]. eapply R_frame; [|eauto]. reflexivity.
Qed.

Lemma rarc_k s s1 i : removeAndResetChannel s = Some (s1, i) -> kabs s1 = kabs s.
Proof. unfold removeAndResetChannel. destruct (k_chan s) as [[j [|]]|]; try discriminate. intros [= <- _]. reflexivity. Qed.

Lemma handleWrite_R s err selfc a : R a s -> wps R (handleWrite s err selfc) a.
Proof.
  intros H. unfold handleWrite. destruct (kstate_eqb (k_state s) KConnecting) eqn:K.
  - destruct (removeAndResetChannel s) as [[s1 i]|] eqn:E; [|exact I].
    apply rarc_k in E. unfold kabs in E. injection E as E1 E2 E3.
    assert (H1 : R1 a s1).
    { destruct H as (A & B & C). rr. rewrite E1, E2. repeat split; auto. destruct C as [C|C]; auto. rewrite C in K. discriminate. }
    destruct (negb (err =? 0)); [eapply wps_mono; [apply R1_R|apply retry_R; auto]|].
    destruct selfc; [eapply wps_mono; [apply R1_R|apply retry_R; auto]|].
    cbn [k_connect set_k_state]. destruct (k_connect s1) eqn:W.
    + apply newConnection_R; auto.
    + apply do_close_R. destruct H1 as (A & B & C). rr. auto.
  - destruct (kstate_eqb (k_state s) KDisconnected); [apply wps_ret; auto|exact I].
Qed.

Lemma handleError_R s a : R a s -> wps R (handleError s) a.
Proof.
  intros H. unfold handleError. destruct (kstate_eqb (k_state s) KConnecting) eqn:K; [|apply wps_ret; auto].
  destruct (removeAndResetChannel s) as [[s1 i]|] eqn:E; [|exact I].
  apply rarc_k in E. unfold kabs in E. injection E as E1 E2 E3.
  eapply wps_mono; [apply R1_R|apply retry_R]. destruct H as (A & B & C). rr. rewrite E1, E2. repeat split; auto.
  destruct C as [C|C]; auto. rewrite C in K. discriminate.
Qed.

Lemma stopInLoop_R s a : R a s -> wps R (stopInLoop s) a.
Proof.
  intros H. unfold stopInLoop. destruct (kstate_eqb (k_state s) KConnecting) eqn:K; [|apply wps_ret; auto].
  destruct (removeAndResetChannel (set_k_state s KDisconnected)) as [[s1 i]|] eqn:E; [|exact I].
  apply rarc_k in E. unfold kabs in E. cbn in E. injection E as E1 E2 E3.
  eapply wps_mono; [apply R1_R|apply retry_R]. destruct H as (A & B & C). rr. rewrite E1, E2. repeat split; auto.
  destruct C as [C|C]; auto. rewrite C in K. discriminate.
Qed.

Lemma conn_shutdown_R s c b a : R a s -> wps R (conn_shutdown s c b) a.
Proof.
  intros H. unfold conn_shutdown. destruct (nth_error (conns s) c) as [o|]; [|exact I].
  destruct (cst o); try (apply wps_ret; auto). destruct b.
  - eapply wps_some; [cbn; reflexivity|]. eapply R_frame; [|eauto]. reflexivity.
  - apply wps_ret. eapply R_frame; [|eauto]. reflexivity.
Qed.

Lemma conn_forceClose_k s c : kabs (conn_forceClose s c) = kabs s.
Proof. unfold conn_forceClose. destruct (nth_error (conns s) c) as [o|]; auto. destruct (c_live (cst o)); auto. Qed.

Lemma gc_from_R n : forall c s a, R a s -> wps R (gc_from n c s) a.
Proof.
  induction n as [|n IH]; intros c s a H; cbn [gc_from]; [apply wps_ret; auto|].
  destruct (nth_error (conns s) c) as [o|]; [|apply wps_ret; auto].
  destruct (_ && _); [|apply IH; auto].
  destruct (cst o); try exact I. destruct (creg o); [exact I|].
  eapply wps_bind.
  - eapply (wps_some R); [cbn; reflexivity|]. eapply R_frame; [|eauto]. reflexivity.
  - intros a1 s1 H1. apply IH; auto.
Qed.

Lemma finish_R m a : wps R m a -> wps R (finish m) a.
Proof.
  intros H. unfold finish. eapply wps_bind; [eapply wps_bind; [exact H|]|].
  - intros a1 s1 H1. apply gc_from_R; auto.
  - intros a1 s1 H1. unfold settle. destruct (_ && _ && _ && _); [|apply wps_ret; auto].
    destruct (k_chan s1); [exact I|]. apply wps_ret. eapply R_frame; [|eauto]. reflexivity.
Qed.

Lemma run_functor_R s f a : R a s -> wps R (run_functor s f) a.
Proof.
  intros H. destruct f; cbn [run_functor].
  - destruct (k_dead s); [exact I|]. eapply wps_bind.
    + eapply (wps_some R); [cbn; reflexivity|]. destruct H as (A & B & C). rr. auto.
    + intros a1 s1 H1. apply startInLoop_R; auto.
  - destruct (k_dead s); [exact I|]. apply stopInLoop_R; auto.
  - destruct (k_dead s); [exact I|]. apply wps_ret. eapply R_frame; [|eauto]. reflexivity.
  - destruct (nth_error (conns s) c) as [o|]; [|exact I].
    destruct (c_live (cst o)); [eapply wps_some; [cbn; reflexivity|]|apply wps_ret]; (eapply R_frame; [|eauto]; reflexivity).
  - destruct (nth_error (conns s) c) as [o|]; [|exact I].
    destruct (c_live (cst o)); [apply handleClose_R|apply wps_ret]; auto.
  - apply wps_ret. eapply R_frame; [|eauto]. reflexivity.
  - destruct (nth_error (conns s) c) as [o|]; [|exact I]. destruct (calive o); [|exact I].
    eapply wps_some; [cbn; reflexivity|]. eapply R_frame; [|eauto]. reflexivity.
  - eapply wps_some; [cbn; reflexivity|]. eapply R_frame; [|eauto]. reflexivity.
Qed.

Lemma run_one_R s a : R a s -> wps R (run_one s) a.
Proof.
  intros H. unfold run_one. destruct (pending s) as [|f r]; [apply wps_ret; auto|].
  apply finish_R. apply run_functor_R. eapply R_frame; [|eauto]. reflexivity.
Qed.

Lemma run_n_R n : forall s a, R a s -> wps R (run_n n s) a.
Proof.
  induction n as [|n IH]; intros s a H; cbn [run_n]; [apply wps_ret; auto|].
  eapply wps_bind; [apply run_one_R; auto|]. intros a1 s1 H1. apply IH; auto.
Qed.

Lemma fire_all_R l : forall s a, R a s -> wps R (fire_all l s) a.
Proof.
  induction l as [|t r IH]; intros s a H; cbn [fire_all]; [apply wps_ret; auto|].
  eapply wps_bind; [|intros a1 s1 H1; apply IH; exact H1].
  unfold fire. destruct (snd t); [apply startInLoop_R|apply wps_ret]; auto.
Qed.

Lemma destroy_rest_R s snap b a : R a s -> wps R (destroy_rest s snap b) a.
Proof.
  intros H. unfold destroy_rest. destruct snap as [[c|] unique].
  - assert (X : forall s0, kabs s0 = kabs s -> R a (set_dsnap (set_alive (set_connection (if unique then conn_forceClose s0 c else s0) None) false) None)).
    { intros s0 E. eapply R_frame; [|eauto]. destruct unique; cbn; [rewrite <- E; apply conn_forceClose_k|]; auto. }
    destruct b; (eapply wps_some; [cbn; reflexivity|]); apply X; reflexivity.
  - destruct H as (A & B & C). destruct b; (eapply wps_some; [cbn; reflexivity|]); rr; auto.
Qed.

Lemma step_core_R s o a : R a s -> match step_core s o with Some m => wps R m a | None => True end.
Proof.
  intros H. destruct o; cbn [step_core].
  - destruct (negb (user_api_ok s)); [exact I|]. eapply wps_bind.
    + eapply (wps_some R); [cbn; reflexivity|]. destruct H as (A & B & C). rr. auto.
    + intros a1 s1 H1. apply startInLoop_R; auto.
  - destruct (negb (user_api_ok s)); [exact I|].
    destruct (connection (set_c_connect s false)); [apply conn_shutdown_R|apply wps_ret]; (eapply R_frame; [|eauto]; reflexivity).
  - destruct (negb (user_api_ok s)); [exact I|]. eapply wps_some; [cbn; reflexivity|]. destruct H as (A & B & C). rr. auto.
  - destruct (negb (user_api_ok s)); [exact I|]. apply wps_ret. eapply R_frame; [|eauto]; reflexivity.
  - destruct (_ || _ || _ || _); [exact I|]. apply destroy_rest_R; auto.
  - destruct (_ || _); [exact I|]. eapply wps_some; [cbn; reflexivity|]. destruct H as (A & B & C). rr. auto.
  - destruct (_ || _); [exact I|]. apply wps_ret. eapply R_frame; [|eauto]; reflexivity.
  - destruct (_ || _); [exact I|]. eapply wps_some; [cbn; reflexivity|]. destruct H as (A & B & C). rr. auto.
  - destruct (_ || _); [exact I|]. apply wps_ret. eapply R_frame; [|eauto]; reflexivity.
  - destruct (_ || _); [exact I|]. apply wps_ret. eapply R_frame; [|eauto]; reflexivity.
  - destruct (_ || _); [exact I|].
    destruct (connection (set_xd s false)); [apply conn_shutdown_R|apply wps_ret]; (eapply R_frame; [|eauto]; reflexivity).
  - destruct (_ || _ || _ || _); [exact I|]. destruct H as (A & B & C).
    destruct (connection s); (eapply wps_some; [cbn; reflexivity|]); rr; auto.
  - destruct (dsnap s); [|exact I]. apply destroy_rest_R. eapply R_frame; [|eauto]; reflexivity.
  - destruct (_ || _ || _ || _); [exact I|]. destruct (k_chan s) as [[i [|]]|]; try exact I. destruct (_ || _ || _); exact I.
  - apply wps_ret. eapply R_frame; [|eauto]; reflexivity.
  - destruct (k_chan s) as [[i [|]]|]; try exact I. destruct (k_dead s); [exact I|]. apply handleWrite_R; auto.
  - destruct (k_chan s) as [[i [|]]|]; try exact I. destruct (k_dead s); [exact I|]. apply handleError_R; auto.
  - destruct (min_due (timers s)); [|exact I].
    apply fire_all_R. eapply R_frame; [|eauto]; reflexivity.
  - eapply wps_bind; [apply run_n_R; eauto|]. intros a1 s1 H1. apply wps_ret. eapply R_frame; [|eauto]; reflexivity.
  - destruct (pending s); [exact I|]. apply run_one_R; auto.
  - destruct (find_down _ _ _); [|exact I]. apply handleClose_R; auto.
  - destruct (negb (user_api_ok s)); [exact I|]. destruct (connection s); [|exact I].
    destruct (find_user _ _); [exact I|]. apply wps_ret. eapply R_frame; [|eauto]; reflexivity.
  - destruct (find_user _ _) as [c|]; [|exact I]. destruct (nth_error _ _); [|exact I].
    apply wps_ret. eapply R_frame; [|eauto]; reflexivity.
  - (* LoopEnd *)
    destruct (_ || _ || _); [exact I|]. unfold loop_end. cbn [k_chan set_timers set_pending].
    destruct (k_chan s); [exact I|]. apply wps_ret. eapply R_frame; [|eauto]; reflexivity.
Qed.

Lemma step_R s o s' ev a : R a s -> step s o = Ok s' ev -> exists a', spec_run a ev = Some a' /\ R a' s'.
Proof.
  intros H. unfold step. pose proof (step_core_R s o a H) as W.
  destruct (step_core s o) as [m|]; [|discriminate].
  apply finish_R in W. destruct (finish m) as [[s1 e1]|]; [|discriminate].
  intros [= <- <-]. destruct W as (a' & E & H'). exists a'. split; auto.
Qed.

Lemma run_R l : forall s s' ev a, R a s -> run s l = Some (s', ev) -> exists a', spec_run a ev = Some a' /\ R a' s'.
Proof.
  induction l as [|o r IH]; intros s s' ev a H; cbn.
  - intros [= <- <-]. exists a. auto.
  - destruct (step s o) as [s1 e1| |] eqn:E; [|eauto|discriminate].
    destruct (run s1 r) as [[s2 e2]|] eqn:Rr; [|discriminate]. intros [= <- <-].
    destruct (step_R _ _ _ _ _ H E) as (a1 & E1 & H1).
    destruct (IH _ _ _ _ H1 Rr) as (a2 & E2 & H2). exists a2. split; auto.
    rewrite (spec_run_app _ _ _ _ E1). auto.
Qed.

Definition spec0 : spec := mkSpec false true 500.
Lemma R_init : R spec0 init.
Proof. unfold R, spec0. cbn. rewrite G_init_delay. auto. Qed.

(* the trace of every history is accepted *)
Theorem trace_accepted : forall l s ev, run init l = Some (s, ev) ->
  exists a, spec_run spec0 ev = Some a /\ sp_want a = k_connect s /\ sp_exp a = k_delay s.
Proof.
  intros l s ev H. destruct (run_R l _ _ _ _ R_init H) as (a & E & A & B & _). eauto.
Qed.

(* ------------------------------------------------------------------ what acceptance means, property by property *)
(* back-off: within a cycle that started with delay d0 the timers are armed with d0, min(2 d0, 30000), ... *)
Fixpoint arms_ok (exp : Z) (ev : list event) : Prop :=
  match ev with
  | [] => True
  | EvCycle d :: r => arms_ok d r
  | EvArm d :: r => d = exp /\ arms_ok (Z.min (2 * exp) 30000) r
  | _ :: r => arms_ok exp r
  end.
(* the same with the closed form of the property text; k = failed attempts so far in the cycle *)
Fixpoint backoff_ok (k : nat) (ev : list event) : Prop :=
  match ev with
  | [] => True
  | EvCycle d :: r => d = 500 /\ backoff_ok 0 r
  | EvArm d :: r => d = Z.min (500 * 2 ^ Z.of_nat k) 30000 /\ backoff_ok (S k) r
  | _ :: r => backoff_ok k r
  end.
(* at most one connection per cycle; attempts only while the cycle is open (not after its connection came up) *)
Fixpoint cycle_ok (open : bool) (ev : list event) : Prop :=
  match ev with
  | [] => True
  | EvCycle _ :: r => cycle_ok true r
  | EvUp _ :: r => open = true /\ cycle_ok false r
  | EvAttempt _ _ :: r => open = true /\ cycle_ok open r
  | _ :: r => cycle_ok open r
  end.
(* after stop() (until the next start()/restart()) nothing is handed over, reported or re-armed *)
Fixpoint silent_ok (want : bool) (ev : list event) : Prop :=
  match ev with
  | [] => True
  | EvWant :: r => silent_ok true r
  | EvStopReq :: r => silent_ok false r
  | EvHandOver _ :: r | EvUp _ :: r | EvArm _ :: r => want = true /\ silent_ok want r
  | _ :: r => silent_ok want r
  end.

Lemma accepted_arms ev : forall a a', spec_run a ev = Some a' -> arms_ok (sp_exp a) ev.
Proof.
  induction ev as [|e r IH]; intros a a'; cbn; auto.
  destruct (spec_step a e) as [a1|] eqn:E; [|discriminate]. intros Hr. specialize (IH _ _ Hr).
  destruct e; cbn in E; try (injection E as <-; exact IH).
  - destruct (sp_open a); [|discriminate]. injection E as <-. exact IH.
  - destruct (sp_want a && sp_open a && (d =? sp_exp a)) eqn:C; [|discriminate]. injection E as <-. cbn in IH.
    apply andb_prop in C. destruct C as [_ C]. apply Z.eqb_eq in C. auto.
  - destruct (sp_want a && sp_open a); [|discriminate]. injection E as <-. exact IH.
  - destruct (sp_want a && sp_open a); [|discriminate]. injection E as <-. exact IH.
Qed.

Lemma accepted_cycle ev : forall a a', spec_run a ev = Some a' -> cycle_ok (sp_open a) ev.
Proof.
  induction ev as [|e r IH]; intros a a'; cbn; auto.
  destruct (spec_step a e) as [a1|] eqn:E; [|discriminate]. intros Hr. specialize (IH _ _ Hr).
  destruct e; cbn in E; try (injection E as <-; exact IH).
  - destruct (sp_open a) eqn:O; [|discriminate]. injection E as <-. rewrite O in IH. auto.
  - destruct (sp_want a && sp_open a && (d =? sp_exp a)); [|discriminate]. injection E as <-. exact IH.
  - destruct (sp_want a && sp_open a); [|discriminate]. injection E as <-. exact IH.
  - destruct (sp_want a && sp_open a) eqn:C; [|discriminate]. injection E as <-. apply andb_prop in C. destruct C. auto.
Qed.

Lemma accepted_silent ev : forall a a', spec_run a ev = Some a' -> silent_ok (sp_want a) ev.
Proof.
  induction ev as [|e r IH]; intros a a'; cbn; auto.
  destruct (spec_step a e) as [a1|] eqn:E; [|discriminate]. intros Hr. specialize (IH _ _ Hr).
  destruct e; cbn in E; try (injection E as <-; exact IH).
  - destruct (sp_open a); [|discriminate]. injection E as <-. exact IH.
  - destruct (sp_want a && sp_open a && (d =? sp_exp a)) eqn:C; [|discriminate]. injection E as <-.
    apply andb_prop in C. destruct C as [C _]. apply andb_prop in C. destruct C. auto.
  - destruct (sp_want a && sp_open a) eqn:C; [|discriminate]. injection E as <-. apply andb_prop in C. destruct C. auto.
  - destruct (sp_want a && sp_open a) eqn:C; [|discriminate]. injection E as <-. apply andb_prop in C. destruct C. auto.
Qed.

Lemma pow2_step k : Z.min (2 * Z.min (500 * 2 ^ Z.of_nat k) 30000) 30000 = Z.min (500 * 2 ^ Z.of_nat (S k)) 30000.
Proof.
  rewrite Nat2Z.inj_succ, Z.pow_succ_r by lia.
  assert (0 < 2 ^ Z.of_nat k) by (apply Z.pow_pos_nonneg; lia). lia.
Qed.

(* when every cycle starts with the initial delay, the schedule is min(500 * 2^k, 30000), k = 0, 1, 2, ... *)
Lemma arms_closed_form ev : forall k,
  (forall d, In (EvCycle d) ev -> d = 500) ->
  arms_ok (Z.min (500 * 2 ^ Z.of_nat k) 30000) ev -> backoff_ok k ev.
Proof.
  induction ev as [|e r IH]; intros k Hc; cbn; auto.
  assert (Hc' : forall d, In (EvCycle d) r -> d = 500) by (intros d Hd; apply Hc; right; auto).
  destruct e; try (apply IH; auto).
  - intros [-> Hr]. split; auto. apply IH; auto. rewrite <- pow2_step. auto.
  - intros Hr. assert (d = 500) as -> by (apply Hc; left; auto). split; auto.
Qed.

Theorem trace_backoff_shape : forall l s ev, run init l = Some (s, ev) -> arms_ok 500 ev.
Proof. intros l s ev H. destruct (trace_accepted _ _ _ H) as (a & E & _). apply (accepted_arms _ _ _ E). Qed.
Theorem trace_cycle : forall l s ev, run init l = Some (s, ev) -> cycle_ok true ev.
Proof. intros l s ev H. destruct (trace_accepted _ _ _ H) as (a & E & _). apply (accepted_cycle _ _ _ E). Qed.
Theorem trace_silent : forall l s ev, run init l = Some (s, ev) -> silent_ok false ev.
Proof. intros l s ev H. destruct (trace_accepted _ _ _ H) as (a & E & _). apply (accepted_silent _ _ _ E). Qed.
