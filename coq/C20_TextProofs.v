(* C20_TextProofs: integer text, Timestamp text, and the link between the civil-time API and the seconds-level zone lemmas. *)
From Coq Require Import List ZArith Bool Arith Lia.
From Coq.Strings Require Import Byte.
From Muduo Require Import Base_Bytes Gen_C20 C20_Model C20_SweepDefs C20_Sweep C20_Proofs C20_TzProofs.
Import ListNotations.
Local Open Scope Z_scope.

(* ---- decimal digits --------------------------------------------------------------- *)

Lemma digit_val_digit d : 0 <= d < 10 -> digit_val (digit d) = d.
Proof. intros H. unfold digit_val, digit. rewrite Z_of_byte_of_Z by lia. lia. Qed.

Lemma is_digit_digit d : 0 <= d < 10 -> is_digit (digit d) = true.
Proof.
  intros H. unfold is_digit, digit. rewrite Z_of_byte_of_Z by lia.
  rewrite andb_true_iff, !Z.leb_le. lia.
Qed.

Lemma parse_dec_app l b : parse_dec (l ++ [b]) = parse_dec l * 10 + digit_val b.
Proof. unfold parse_dec. rewrite fold_left_app. reflexivity. Qed.

Lemma parse_pad k n : parse_dec (pad k n) = n mod 10 ^ Z.of_nat k.
Proof.
  revert n. induction k as [|k IH]; intros n.
  - cbn. rewrite Z.mod_1_r. reflexivity.
  - cbn [pad]. rewrite parse_dec_app, IH, digit_val_digit by (apply Z.mod_pos_bound; lia).
    replace (Z.of_nat (S k)) with (1 + Z.of_nat k) by lia.
    rewrite Z.pow_add_r by lia. change (10 ^ 1) with 10.
    assert (Hp : 0 < 10 ^ Z.of_nat k) by (apply Z.pow_pos_nonneg; lia).
    rewrite (Z.rem_mul_r n 10 (10 ^ Z.of_nat k)) by lia. lia.
Qed.

Lemma pad_digits k n : Forall (fun b => is_digit b = true) (pad k n).
Proof.
  revert n. induction k as [|k IH]; intros n; [constructor|].
  cbn [pad]. apply Forall_app. split; [apply IH|].
  constructor; [|constructor]. apply is_digit_digit. apply Z.mod_pos_bound. lia.
Qed.

Lemma pad_length k n : length (pad k n) = k.
Proof. revert n. induction k as [|k IH]; intros n; [reflexivity|]. cbn [pad]. rewrite app_length, IH. cbn. lia. Qed.

Lemma ndigits_enough fuel n : 0 <= n < 10 ^ Z.of_nat (S fuel) -> n < 10 ^ Z.of_nat (ndigits fuel n).
Proof.
  revert n. induction fuel as [|f IH]; intros n Hn.
  - cbn [ndigits]. exact (proj2 Hn).
  - cbn [ndigits]. destruct (Z.ltb_spec n 10) as [Hlt|Hge]; [change (10 ^ Z.of_nat 1) with 10; lia|].
    replace (Z.of_nat (S (ndigits f (n / 10)))) with (1 + Z.of_nat (ndigits f (n / 10))) by lia.
    rewrite Z.pow_add_r by lia. change (10 ^ 1) with 10.
    assert (Hq : 0 <= n / 10 < 10 ^ Z.of_nat (S f)).
    { replace (Z.of_nat (S (S f))) with (1 + Z.of_nat (S f)) in Hn by lia.
      rewrite Z.pow_add_r in Hn by lia. change (10 ^ 1) with 10 in Hn.
      split; [apply Z.div_pos; lia|apply Z.div_lt_upper_bound; lia]. }
    specialize (IH _ Hq). Z.div_mod_to_equations. lia.
Qed.

Lemma ndigits_le fuel n k : 0 <= n < 10 ^ Z.of_nat k -> (1 <= k)%nat -> (ndigits fuel n <= k)%nat.
Proof.
  revert n k. induction fuel as [|f IH]; intros n k Hn Hk; [cbn; lia|].
  cbn [ndigits]. destruct (Z.ltb_spec n 10) as [Hlt|Hge]; [lia|].
  destruct k as [|k]; [lia|]. destruct k as [|k]; [change (10 ^ Z.of_nat 1) with 10 in Hn; lia|].
  apply le_n_S. apply IH; [|lia].
  replace (Z.of_nat (S (S k))) with (1 + Z.of_nat (S k)) in Hn by lia.
  rewrite Z.pow_add_r in Hn by lia. change (10 ^ 1) with 10 in Hn.
  split; [apply Z.div_pos; lia|apply Z.div_lt_upper_bound; lia].
Qed.

Lemma parse_dec_dec n : 0 <= n < 10 ^ 21 -> parse_dec (dec n) = n.
Proof.
  intros Hn. unfold dec. rewrite parse_pad. apply Z.mod_small.
  split; [lia|]. apply ndigits_enough. exact Hn.
Qed.

Lemma fmt0_small w n : (1 <= w)%nat -> 0 <= n < 10 ^ Z.of_nat w -> fmt0 w n = pad w n.
Proof.
  intros Hw Hn. unfold fmt0. destruct (Z.ltb_spec n 0); [lia|].
  rewrite Nat.max_l; [reflexivity|]. apply ndigits_le; assumption.
Qed.

(* ---- Timestamp::toString reads back ------------------------------------------------- *)

Lemma digit_not b c : is_digit b = true -> Z_of_byte c < 48 -> Byte.eqb b c = false.
Proof.
  intros Hd Hc. destruct (Byte.eqb b c) eqn:E; [|reflexivity].
  apply Byte.byte_dec_bl in E. subst c. unfold is_digit in Hd.
  rewrite andb_true_iff, !Z.leb_le in Hd. lia.
Qed.

Lemma split_at_app sep x y : Forall (fun b => Byte.eqb b sep = false) x ->
  split_at sep (x ++ sep :: y) = Some (x, y).
Proof.
  induction 1 as [|b r Hb _ IH]; cbn [app split_at].
  - assert (E : Byte.eqb sep sep = true) by (apply Byte.byte_dec_lb; reflexivity). rewrite E. reflexivity.
  - rewrite Hb, IH. reflexivity.
Qed.

Lemma timestamp_text_roundtrip us : 0 <= us < 10 ^ 26 -> ts_parse (ts_toString us) = Some us.
Proof.
  intros Hus. unfold ts_parse, ts_toString.
  assert (Hk : kMicroSecondsPerSecond = 1000000) by reflexivity. rewrite Hk.
  rewrite Z.quot_div_nonneg, Z.rem_mod_nonneg by lia.
  assert (Hs : 0 <= us / 1000000 < 10 ^ 21).
  { split; [apply Z.div_pos; lia|apply Z.div_lt_upper_bound; lia]. }
  assert (Hr : 0 <= us mod 1000000 < 1000000) by (apply Z.mod_pos_bound; lia).
  unfold sdec. destruct (Z.ltb_spec (us / 1000000) 0); [lia|].
  rewrite fmt0_small by (try lia; change (10 ^ Z.of_nat 6) with 1000000; lia).
  cbn [app]. rewrite split_at_app.
  - rewrite parse_dec_dec by exact Hs. rewrite parse_pad.
    change (10 ^ Z.of_nat 6) with 1000000. rewrite Z.mod_mod by lia.
    f_equal. pose proof (Z.div_mod us 1000000). lia.
  - unfold dec. eapply Forall_impl; [|apply pad_digits]. cbv beta. intros b Hb.
    apply digit_not; [exact Hb|]. vm_compute. reflexivity.
Qed.

(* the fixed-column form: "YYYYMMDD HH:MM:SS.uuuuuu" *)
Lemma ndigits_4 y : 1000 <= y < 10000 -> ndigits 20 y = 4%nat.
Proof.
  intros H.
  assert (A : (ndigits 20 y <= 4)%nat) by (apply ndigits_le; [change (10 ^ Z.of_nat 4) with 10000; lia|lia]).
  assert (B : y < 10 ^ Z.of_nat (ndigits 20 y)).
  { apply ndigits_enough. assert (10000 <= 10 ^ Z.of_nat 21) by (vm_compute; discriminate). lia. }
  destruct (Nat.eq_dec (ndigits 20 y) 4) as [E|E]; [exact E|]. exfalso.
  assert (C : 10 ^ Z.of_nat (ndigits 20 y) <= 10 ^ 3) by (apply Z.pow_le_mono_r; lia).
  change (10 ^ 3) with 1000 in C. lia.
Qed.

Lemma fmt0_2 n : 0 <= n < 100 -> fmt0 2 n = pad 2 n.
Proof. intros H. apply fmt0_small; [lia|]. change (10 ^ Z.of_nat 2) with 100. exact H. Qed.
Lemma fmt0_6 n : 0 <= n < 1000000 -> fmt0 6 n = pad 6 n.
Proof. intros H. apply fmt0_small; [lia|]. change (10 ^ Z.of_nat 6) with 1000000. exact H. Qed.
Lemma fmtsp_4 y : 1000 <= y < 10000 -> fmtsp 4 y = pad 4 y.
Proof.
  intros H. unfold fmtsp, sdec. destruct (Z.ltb_spec y 0); [lia|].
  unfold dec. rewrite (ndigits_4 y H), pad_length. reflexivity.
Qed.

Lemma formatted_shape us : utc_first * 1000000 <= us < utc_end * 1000000 -> 0 <= us ->
  let dt := break_utc (us / 1000000) in
  ts_toFormatted us true =
    pad 4 (year dt) ++ pad 2 (month dt) ++ pad 2 (day dt) ++ [ch_space] ++ pad 2 (hour dt) ++ [ch_colon] ++
    pad 2 (minute dt) ++ [ch_colon] ++ pad 2 (second dt) ++ [ch_dot] ++ pad 6 (us mod 1000000) /\
  valid_datetime dt = true /\ fromUtc dt = us / 1000000.
Proof.
  intros Hr H0. cbv zeta.
  assert (Ht : utc_first <= us / 1000000 < utc_end).
  { split; [apply Z.div_le_lower_bound; lia|apply Z.div_lt_upper_bound; lia]. }
  destruct (utc_roundtrip _ Ht) as [Hv Hback].
  split; [|split; [exact Hv|exact Hback]].
  unfold ts_toFormatted. assert (Hk : kMicroSecondsPerSecond = 1000000) by reflexivity. rewrite Hk.
  rewrite Z.quot_div_nonneg, Z.rem_mod_nonneg by lia.
  generalize dependent (break_utc (us / 1000000)). intros dt Hv _.
  unfold valid_datetime, valid_date, first_year, last_year in Hv.
  rewrite !andb_true_iff, !Z.leb_le in Hv.
  pose proof (days_in_month_le (year dt) (month dt)) as H31.
  assert (Hm : 0 <= us mod 1000000 < 1000000) by (apply Z.mod_pos_bound; lia).
  rewrite (fmt0_2 (month dt)), (fmt0_2 (day dt)), (fmt0_2 (hour dt)), (fmt0_2 (minute dt)), (fmt0_2 (second dt)),
          (fmt0_6 (us mod 1000000)), (fmtsp_4 (year dt)) by lia.
  reflexivity.
Qed.

Lemma firstn_skipn_field (pre f post : list byte) :
  firstn (length f) (skipn (length pre) (pre ++ f ++ post)) = f.
Proof. rewrite skipn_app_exact. apply firstn_app_exact. Qed.

Lemma timestamp_formatted_roundtrip us :
  utc_first * 1000000 <= us < utc_end * 1000000 -> 0 <= us ->
  ts_parseFormatted (ts_toFormatted us true) = us.
Proof.
  intros Hr H0. destruct (formatted_shape us Hr H0) as (Hshape & Hv & Hback). cbv zeta in *.
  rewrite Hshape. clear Hshape. generalize dependent (break_utc (us / 1000000)). intros dt Hv Hback.
  unfold valid_datetime, valid_date, first_year, last_year in Hv.
  rewrite !andb_true_iff, !Z.leb_le in Hv.
  pose proof (days_in_month_le (year dt) (month dt)) as H31.
  assert (Hm : 0 <= us mod 1000000 < 1000000) by (apply Z.mod_pos_bound; lia).
  unfold ts_parseFormatted. cbv zeta.
  set (Y := pad 4 (year dt)). set (Mo := pad 2 (month dt)). set (D := pad 2 (day dt)).
  set (H := pad 2 (hour dt)). set (Mi := pad 2 (minute dt)). set (S := pad 2 (second dt)).
  set (Us := pad 6 (us mod 1000000)).
  assert (LY : length Y = 4%nat) by apply pad_length. assert (LMo : length Mo = 2%nat) by apply pad_length.
  assert (LD : length D = 2%nat) by apply pad_length. assert (LH : length H = 2%nat) by apply pad_length.
  assert (LMi : length Mi = 2%nat) by apply pad_length. assert (LS : length S = 2%nat) by apply pad_length.
  assert (LU : length Us = 6%nat) by apply pad_length.
  set (all := Y ++ Mo ++ D ++ [ch_space] ++ H ++ [ch_colon] ++ Mi ++ [ch_colon] ++ S ++ [ch_dot] ++ Us).
  assert (F0 : firstn 4 (skipn 0 all) = Y).
  { unfold all. rewrite <- LY. cbn [skipn]. apply firstn_app_exact. }
  assert (F4 : firstn 2 (skipn 4 all) = Mo).
  { unfold all. rewrite <- LY, <- LMo. rewrite skipn_app_exact. apply firstn_app_exact. }
  assert (F6 : firstn 2 (skipn 6 all) = D).
  { pose proof (firstn_skipn_field (Y ++ Mo) D ([ch_space] ++ H ++ [ch_colon] ++ Mi ++ [ch_colon] ++ S ++ [ch_dot] ++ Us)) as E.
    rewrite app_length, LY, LMo, LD in E. rewrite <- app_assoc in E. exact E. }
  assert (F9 : firstn 2 (skipn 9 all) = H).
  { pose proof (firstn_skipn_field (Y ++ Mo ++ D ++ [ch_space]) H ([ch_colon] ++ Mi ++ [ch_colon] ++ S ++ [ch_dot] ++ Us)) as E.
    rewrite !app_length, LY, LMo, LD, LH in E. cbn [length Nat.add] in E. rewrite <- !app_assoc in E. exact E. }
  assert (F12 : firstn 2 (skipn 12 all) = Mi).
  { pose proof (firstn_skipn_field (Y ++ Mo ++ D ++ [ch_space] ++ H ++ [ch_colon]) Mi ([ch_colon] ++ S ++ [ch_dot] ++ Us)) as E.
    rewrite !app_length, LY, LMo, LD, LH, LMi in E. cbn [length Nat.add] in E. rewrite <- !app_assoc in E. exact E. }
  assert (F15 : firstn 2 (skipn 15 all) = S).
  { pose proof (firstn_skipn_field (Y ++ Mo ++ D ++ [ch_space] ++ H ++ [ch_colon] ++ Mi ++ [ch_colon]) S ([ch_dot] ++ Us)) as E.
    rewrite !app_length, LY, LMo, LD, LH, LMi, LS in E. cbn [length Nat.add] in E. rewrite <- !app_assoc in E. exact E. }
  assert (F18 : firstn 6 (skipn 18 all) = Us).
  { pose proof (firstn_skipn_field (Y ++ Mo ++ D ++ [ch_space] ++ H ++ [ch_colon] ++ Mi ++ [ch_colon] ++ S ++ [ch_dot]) Us []) as E.
    rewrite !app_length, LY, LMo, LD, LH, LMi, LS, LU in E. cbn [length Nat.add] in E. rewrite <- !app_assoc in E.
    rewrite app_nil_r in E. exact E. }
  rewrite F0, F4, F6, F9, F12, F15, F18. unfold Y, Mo, D, H, Mi, S, Us. rewrite !parse_pad.
  rewrite (Z.mod_small (year dt)), (Z.mod_small (month dt)), (Z.mod_small (day dt)), (Z.mod_small (hour dt)),
          (Z.mod_small (minute dt)), (Z.mod_small (second dt)), (Z.mod_small (us mod 1000000))
    by (first [change (10 ^ Z.of_nat 4) with 10000 | change (10 ^ Z.of_nat 2) with 100 | change (10 ^ Z.of_nat 6) with 1000000]; lia).
  replace (mkDT (year dt) (month dt) (day dt) (hour dt) (minute dt) (second dt)) with dt by (destruct dt; reflexivity).
  rewrite Hback. assert (Hk : kMicroSecondsPerSecond = 1000000) by reflexivity. rewrite Hk.
  pose proof (Z.div_mod us 1000000). lia.
Qed.

(* ---- civil-time API = seconds-level lemmas ----------------------------------------------- *)

Lemma toLocalTime_spec tb t : sorted_utc (trans tb) = true ->
  toLocalTime tb t = (break_utc (t + offset_at tb t), offset_at tb t).
Proof. intros H. unfold toLocalTime, offset_at. rewrite lookup_is_last_le by exact H. reflexivity. Qed.

Lemma fromLocalTime_of_toLocalTime tb t post : sorted_utc (trans tb) = true ->
  utc_first <= t + offset_at tb t < utc_end ->
  fromLocalTime tb (fst (toLocalTime tb t)) post = fromLocalSeconds tb (t + offset_at tb t) post.
Proof.
  intros Hs Hr. rewrite toLocalTime_spec by exact Hs. cbn [fst]. unfold fromLocalTime.
  destruct (utc_roundtrip _ Hr) as [_ E]. rewrite E. reflexivity.
Qed.

Lemma timestamp_formatted_len_roundtrip us :
  utc_first * 1000000 <= us < utc_end * 1000000 -> 0 <= us ->
  length (ts_toFormatted us true) = 24%nat /\ ts_parseFormatted (ts_toFormatted us true) = us.
Proof.
  intros Hr H0. split; [|apply timestamp_formatted_roundtrip; assumption].
  destruct (formatted_shape us Hr H0) as (Hshape & _). cbv zeta in Hshape. rewrite Hshape.
  rewrite !app_length, !pad_length. reflexivity.
Qed.

(* break-down against the POSIX formula directly *)
Lemma breaktime_matches_posix t : utc_first <= t < utc_end ->
  let dt := break_utc t in
  valid_datetime dt = true /\
  posix_seconds (year dt) (month dt) (day dt) (hour dt) (minute dt) (second dt) = t.
Proof.
  intros Ht. cbv zeta. destruct (utc_roundtrip t Ht) as [Hv Hb]. split; [exact Hv|].
  rewrite <- (matches_posix _ Hv). exact Hb.
Qed.
