(* Link_Properties_L3: cross-model link L3 (C18's stream decoder as the message callback of C01's connection).  Only statements, closed by [exact], each followed by
   Print Assumptions, and non-vacuity examples.  The component models are tied to the C++ by their own
   checks; the link proves that the composition the prose relied on is sound (docs/Link.md).
   Quoted (appended section "Cross-model links") by the Properties_Cxx.v files named in docs/Link.md,
   so that the checks of those properties rebuild and re-check it on every run. *)
From Coq Require Import List ZArith Lia Bool Arith NArith.
From Coq.Strings Require Import Byte.
From Muduo Require C18_Model.
From Muduo Require C10_Model C18_HttpRef C18_LiveProofs.
From Muduo Require Import Conn_Model Conn_Proofs Link_ConnBuf_Model Link_ConnBuf Link_CodecConn Link_CodecHttp Link_CodecBuf Link_CodecLive.
Import ListNotations.

(* ========================================================================================== *)
(* L3. A stream decoder (C18) as the message callback of a connection (C01)                     *)
(* ========================================================================================== *)
(* D = C18_Model.  Machine (Link_CodecConn): state = connection + the decoder's control state; the
   decoder's buffer IS the connection's input buffer.  KRead chunk = POLLIN with the kernel's read
   returning chunk: Conn_Model's EvReadData chunk, then the message callback = the decode loop on
   the whole buffered input, then Retrieve of exactly what the loop consumed.  KOp o = any other
   Conn_Model op (never a second retrieve by the user).                                          *)

(* generic: for any decoder whose loop leaves a suffix of its buffer (it consumes by
   Buffer::retrieve), every history gives the events and state of C18's chunk-fed decoder on the
   chunks the kernel delivered, the input buffer is the decoder's unconsumed rest, and the chunks
   concatenated are the delivered stream *)
Theorem L3_decoder_on_connection :
  forall (St Ev : Type) (dstep : St -> list byte -> D.sres St Ev),
  (forall s b evs s' r, dstep s b = D.SEmit evs s' r -> exists n, r = skipn n b) ->
  forall s0 mark wc hw ops k e v, forallb kop_wf ops = true ->
  k_run St Ev dstep (mkK (init mark wc hw) s0 false false) ops = Ok (k, e, v) ->
  (v, D.mkD (k_dst k) (inb (k_conn k)) (k_ab k) (k_oof k)) = D.feed_all dstep (D.init s0) (chunks_of ops) /\
  delivered (k_conn k) = concat (chunks_of ops).
Proof. exact decoder_on_connection. Qed.
Print Assumptions L3_decoder_on_connection.

(* the connection part of such a history is a Conn_Model history: C01 / C02 / C03 / C13 apply *)
Theorem L3_history_is_connection_history :
  forall (St Ev : Type) (dstep : St -> list byte -> D.sres St Ev) ops k k' e v,
  k_run St Ev dstep k ops = Ok (k', e, v) ->
  run (k_conn k) (conn_ops St Ev dstep k ops) = Ok (k_conn k', e).
Proof. exact k_run_is_conn_run. Qed.
Print Assumptions L3_history_is_connection_history.

(* THE DECODER OF THE PROPERTY TEXT on a TcpConnection: C18's codec loop [D.cstep] with C18's
   [abandoned] flag ([on_message] skips the loop once an error was reported - "the first error,
   after which the stream is abandoned").  The REAL ProtobufCodecLite keeps no such flag; what its
   callbacks are given on every history, histories after an error included, is
   L3_codec_live_on_connection below (machine [kl_step]: loop on every delivery + the error
   callback's shutdown()).  The two agree on the messages, on the first error and on the input
   buffer; they differ in that the real codec re-reports the error on every later delivery.
   Statement: whatever way the kernel splits the peer's byte stream into reads, whatever else
   happens on the connection in between (sends, writable events, shutdown, pausing and resuming
   reads, functors): the messages - and the first error, if any - this decoder reports are C18's
   reference decoding of the byte stream received so far ([delivered], = the concatenation of the
   reads); the input buffer holds exactly the reference's unconsumed rest; retrieved ++ buffered =
   received; the decode loop never runs out of fuel.  = C01_inbound_stream_trace composed with
   C18_equals_reference (hence with C18_seg_invariant). *)
Theorem L3_codec_on_connection :
  forall (msg : Type) (parse : list byte -> option msg) (tag : list byte) mark wc hw ops k e v,
  forallb kop_wf ops = true ->
  k_run unit (D.cevent msg) (D.cstep msg parse tag) (mkK (init mark wc hw) tt false false) ops = Ok (k, e, v) ->
  let s := delivered (k_conn k) in
  s = concat (chunks_of ops) /\
  consumed (k_conn k) ++ inb (k_conn k) = s /\
  (let '(ms, er, rest) := D.ref_decode msg parse tag (S (length s)) s in
   v = map (@D.CMsg msg) ms ++ (match er with Some x => [@D.CErr msg x] | None => [] end) /\
   inb (k_conn k) = rest /\
   k_ab k = (match er with Some _ => true | None => false end) /\ k_oof k = false).
Proof. exact codec_on_connection. Qed.
Print Assumptions L3_codec_on_connection.

Theorem L3_k_step_def : forall (St Ev : Type) (dstep : St -> list byte -> D.sres St Ev) k chunk,
  k_step St Ev dstep k (KRead chunk) =
  match step (k_conn k) (EvReadData chunk) with
  | Ok (c1, e1) =>
      let (cevs, d') := on_message St Ev dstep (k_dst k) (k_ab k) (k_oof k) (inb c1) in
      match step c1 (Retrieve (length (inb c1) - length (D.d_buf d'))) with
      | Ok (c2, e2) => Ok (mkK c2 (D.d_st d') (D.d_abandoned d') (D.d_oof d'), e1 ++ e2, cevs)
      | Rejected => Rejected
      | Fault => Fault
      end
  | Rejected => Rejected
  | Fault => Fault
  end.
Proof. reflexivity. Qed.
Print Assumptions L3_k_step_def.

(* non-vacuity: one frame (tag "RPC0", payload 01 02) cut after 5 bytes - inside the tag - with a
   send in between: nothing after the first read, the message after the second, buffer empty *)
Definition l3_tag : list byte := ["R"; "P"; "C"; "0"]%byte.
Definition l3_payload : list byte := [x01; x02].
Definition l3_frame : list byte := D.encode l3_tag l3_payload.
Definition l3_ops : list kop :=
  [KOp Establish; KRead (firstn 5 l3_frame); KOp (Send [x07] AcceptAll); KRead (skipn 5 l3_frame)].

Example l3_ex_run : exists k e,
  k_run unit (D.cevent (list byte)) (D.cstep (list byte) Some l3_tag) (mkK (init 100 false false) tt false false) l3_ops
    = Ok (k, e, [D.CMsg l3_payload]) /\
  forallb kop_wf l3_ops = true /\ inb (k_conn k) = [] /\ length (consumed (k_conn k)) = 14 /\
  e = [EvUp; EvMsg 5; EvMsg 14].
Proof.
  destruct (k_run unit (D.cevent (list byte)) (D.cstep (list byte) Some l3_tag)
              (mkK (init 100 false false) tt false false) l3_ops) as [[[k e] v]| |] eqn:E;
    try (vm_compute in E; discriminate).
  vm_compute in E. injection E as <- <- <-. eexists _, _. split; [reflexivity|]. vm_compute. auto.
Qed.


(* ---- definitions as equations ------------------------------------------------------------- *)
Theorem L3_defs : forall (St Ev : Type) (dstep : St -> list byte -> D.sres St Ev) k o s ab oof b (ko : kop) ops,
  k_step St Ev dstep k (KOp o) =
    (match step (k_conn k) o with
     | Ok (c', e) => Ok (mkK c' (k_dst k) (k_ab k) (k_oof k), e, [])
     | Rejected => Rejected
     | Fault => Fault
     end) /\
  on_message St Ev dstep s ab oof b =
    (if ab || oof then ([], D.mkD s b ab oof) else D.run dstep (S (length b)) s b) /\
  kop_wf ko = (match ko with KOp (EvReadData _) | KOp (Retrieve _) => false | _ => true end) /\
  chunks_of ops = flat_map (fun o => match o with KRead c => [c] | KOp _ => [] end) ops /\
  k_run St Ev dstep k ops =
    (match ops with
     | [] => Ok (k, [], [])
     | o :: rest =>
         match k_step St Ev dstep k o with
         | Ok (k1, e1, v1) =>
             match k_run St Ev dstep k1 rest with
             | Ok (k2, e2, v2) => Ok (k2, e1 ++ e2, v1 ++ v2)
             | Rejected => Rejected
             | Fault => Fault
             end
         | Rejected => Rejected
         | Fault => Fault
         end
     end).
Proof. intros. repeat split; try reflexivity. destruct ops; reflexivity. Qed.
Print Assumptions L3_defs.

(* ========================================================================================== *)
(* L3, HTTP instance: HttpContext::parseRequest as the message callback                         *)
(* ========================================================================================== *)
(* D.hstep = C18's line-at-a-time step, proved by C18 equal to the literal parser loop on live
   parser states; DR = C18_HttpRef.  For every history: events, parser state, abandoned flag and
   input buffer are those of C18's literal chunk-fed parser on the reads, i.e. the reference parse
   (cut into CRLF lines, request grammar over the lines) of the byte stream received so far. *)
Theorem L3_http_on_connection : forall mark wc hw ops k e v, forallb kop_wf ops = true ->
  k_run D.hctx D.hevent D.hstep (mkK (init mark wc hw) D.ctx0 false false) ops = Ok (k, e, v) ->
  let s := delivered (k_conn k) in
  s = concat (chunks_of ops) /\
  consumed (k_conn k) ++ inb (k_conn k) = s /\
  (v, D.mkD (k_dst k) (inb (k_conn k)) (k_ab k) (k_oof k)) = D.http_feed_all D.http_init (chunks_of ops) /\
  (v, D.mkD (k_dst k) (inb (k_conn k)) (k_ab k) (k_oof k)) = DR.ref_http s.
Proof. exact http_on_connection. Qed.
Print Assumptions L3_http_on_connection.

(* ========================================================================================== *)
(* L3 over L1: the codec on a connection whose inputBuffer_ is a concrete Buffer                *)
(* ========================================================================================== *)
(* kc_step: KCRead kr = handleRead with readFd's kernel answer kr (Link_ConnBuf_Model.c_step on
   CRead kr); if it delivered something the decode loop runs on the readable bytes of inputBuffer_
   and Buffer::retrieve(consumed) is called on the real buffer; KCOp o = any other concrete op. *)
Theorem L3_kc_step_def : forall (St Ev : Type) (dstep : St -> list byte -> D.sres St Ev) k kr o,
  kc_step St Ev dstep k (KCRead kr) =
    (match c_step (kc_conn k) (CRead kr) with
     | Ok (c1, e1) =>
         if 0 <? length (B.delivered (B.readFd_capacity (ibuf (kc_conn k))) kr) then
           let (cevs, d') := on_message St Ev dstep (kc_dst k) (kc_ab k) (kc_oof k) (B.readable (ibuf c1)) in
           match c_step c1 (COp (Retrieve (B.readableBytes (ibuf c1) - length (D.d_buf d')))) with
           | Ok (c2, e2) => Ok (mkKC c2 (D.d_st d') (D.d_abandoned d') (D.d_oof d'), e1 ++ e2, cevs)
           | Rejected => Rejected
           | Fault => Fault
           end
         else Ok (mkKC c1 (kc_dst k) (kc_ab k) (kc_oof k), e1, [])
     | Rejected => Rejected
     | Fault => Fault
     end) /\
  kc_step St Ev dstep k (KCOp o) =
    (match c_step (kc_conn k) o with
     | Ok (c', e) => Ok (mkKC c' (kc_dst k) (kc_ab k) (kc_oof k), e, [])
     | Rejected => Rejected
     | Fault => Fault
     end) /\
  kcop_wf (KCRead kr) = true /\
  kcop_wf (KCOp o) = (match o with COp (Retrieve _) | CRead _ | CRetrieveAll => false | o => cop_wf o end).
Proof. intros. repeat split; try reflexivity; destruct o as [[]| |]; reflexivity. Qed.
Print Assumptions L3_kc_step_def.

Theorem L3_kc_step_refines : forall (St Ev : Type) (dstep : St -> list byte -> D.sres St Ev) k o,
  bufs_ok (kc_conn k) -> kcop_wf o = true ->
  match kc_step St Ev dstep k o with
  | Ok (k', e, v) => k_step St Ev dstep (kabs St k) (kabs_op St k o) = Ok (kabs St k', e, v) /\ bufs_ok (kc_conn k')
  | Rejected => k_step St Ev dstep (kabs St k) (kabs_op St k o) = Rejected
  | Fault => k_step St Ev dstep (kabs St k) (kabs_op St k o) = Fault
  end.
Proof. exact kc_step_refines. Qed.
Print Assumptions L3_kc_step_refines.

(* the decoder of the property text (abandoned flag, see L3_codec_on_connection) over the real
   Buffer; the real codec over the real Buffer is L3_codec_live_on_real_buffers *)
Theorem L3_codec_on_real_buffers :
  forall (msg : Type) (parse : list byte -> option msg) (tag : list byte) mark wc hw ops k e v,
  forallb kcop_wf ops = true ->
  kc_run unit (D.cevent msg) (D.cstep msg parse tag) (mkKC (c_init mark wc hw) tt false false) ops = Ok (k, e, v) ->
  let s := delivered (ctl (kc_conn k)) in
  consumed (ctl (kc_conn k)) ++ B.readable (ibuf (kc_conn k)) = s /\
  (let '(ms, er, rest) := D.ref_decode msg parse tag (S (length s)) s in
   v = map (@D.CMsg msg) ms ++ (match er with Some x => [@D.CErr msg x] | None => [] end) /\
   B.readable (ibuf (kc_conn k)) = rest /\
   kc_ab k = (match er with Some _ => true | None => false end) /\ kc_oof k = false).
Proof. exact codec_on_real_buffers. Qed.
Print Assumptions L3_codec_on_real_buffers.

Theorem L3_codec_on_real_buffers_no_fault :
  forall (msg : Type) (parse : list byte -> option msg) (tag : list byte) mark wc hw ops,
  forallb kcop_wf ops = true ->
  kc_run unit (D.cevent msg) (D.cstep msg parse tag) (mkKC (c_init mark wc hw) tt false false) ops <> Fault.
Proof. exact codec_on_real_buffers_no_fault. Qed.
Print Assumptions L3_codec_on_real_buffers_no_fault.

(* non-vacuity: the frame of l3_ex_run delivered by two readFd calls into the real buffer, then
   the end of file; and an HTTP request line cut in the middle *)
Definition l3_kc_ops : list kcop :=
  [KCOp (COp Establish); KCRead (B.KData (firstn 5 l3_frame)); KCOp (COp (Send [x07] AcceptAll));
   KCRead (B.KData (skipn 5 l3_frame)); KCRead (B.KData [])].

Example l3_ex_real_buffers : exists k e,
  kc_run unit (D.cevent (list byte)) (D.cstep (list byte) Some l3_tag)
    (mkKC (c_init 100 false false) tt false false) l3_kc_ops = Ok (k, e, [D.CMsg l3_payload]) /\
  forallb kcop_wf l3_kc_ops = true /\ B.readable (ibuf (kc_conn k)) = [] /\
  e = [EvUp; EvMsg 5; EvMsg 14; EvDown].
Proof.
  destruct (kc_run unit (D.cevent (list byte)) (D.cstep (list byte) Some l3_tag)
              (mkKC (c_init 100 false false) tt false false) l3_kc_ops) as [[[k e] v]| |] eqn:E;
    try (vm_compute in E; discriminate).
  vm_compute in E. injection E as <- <- <-. eexists _, _. split; [reflexivity|]. vm_compute. auto.
Qed.

Definition l3_http_line : list byte :=
  ["G"; "E"; "T"; " "; "/"; "a"; " "; "H"; "T"; "T"; "P"; "/"; "1"; "."; "1"; x0d; x0a; x0d; x0a]%byte.

Example l3_ex_http : exists k e v,
  k_run D.hctx D.hevent D.hstep (mkK (init 100 false false) D.ctx0 false false)
    [KOp Establish; KRead (firstn 6 l3_http_line); KRead (skipn 6 l3_http_line)] = Ok (k, e, v) /\
  length v = 1 /\ inb (k_conn k) = [] /\ k_ab k = false.
Proof.
  destruct (k_run D.hctx D.hevent D.hstep (mkK (init 100 false false) D.ctx0 false false)
              [KOp Establish; KRead (firstn 6 l3_http_line); KRead (skipn 6 l3_http_line)]) as [[[k e] v]| |] eqn:E;
    try (vm_compute in E; discriminate).
  vm_compute in E. injection E as <- <- <-. eexists _, _, _. split; [reflexivity|]. vm_compute. auto.
Qed.


(* ========================================================================================== *)
(* L3, faithful machine: ProtobufCodecLite as it is (no abandoned flag) + defaultErrorCallback  *)
(* ========================================================================================== *)
(* Link_CodecLive.  State = the connection alone (the codec has no state).  KRead chunk =
   EvReadData chunk; the message callback = onMessage's while loop on the whole buffered input
   ([live_message], run on EVERY delivery); Retrieve of what the loop consumed; if an error was
   reported, errorCallback_ = defaultErrorCallback = `if (conn && conn->connected())
   conn->shutdown()` = Conn_Model's [Shutdown] step.  DL = C18_LiveProofs. *)
Theorem L3_kl_step_def : forall (msg : Type) (parse : list byte -> option msg) (tag : list byte) c chunk o b,
  kl_step msg parse tag c (KRead chunk) =
    (match step c (EvReadData chunk) with
     | Ok (c1, e1) =>
         let '(cevs, rest) := live_message msg parse tag (inb c1) in
         match step c1 (Retrieve (length (inb c1) - length rest)) with
         | Ok (c2, e2) =>
             if existsb (is_err msg) cevs then
               match step c2 Shutdown with
               | Ok (c3, e3) => Ok (c3, e1 ++ e2 ++ e3, cevs)
               | Rejected => Rejected
               | Fault => Fault
               end
             else Ok (c2, e1 ++ e2, cevs)
         | Rejected => Rejected
         | Fault => Fault
         end
     | Rejected => Rejected
     | Fault => Fault
     end) /\
  kl_step msg parse tag c (KOp o) =
    (match step c o with Ok (c', e) => Ok (c', e, []) | Rejected => Rejected | Fault => Fault end) /\
  live_message msg parse tag b =
    (let '(evs, d) := D.run (D.cstep msg parse tag) (S (length b)) tt b in (evs, D.d_buf d)) /\
  (forall e, is_err msg e = match e with D.CErr _ => true | _ => false end).
Proof. intros. repeat split; reflexivity. Qed.
Print Assumptions L3_kl_step_def.

Theorem L3_kl_run_def : forall (msg : Type) (parse : list byte -> option msg) (tag : list byte) c ops,
  kl_run msg parse tag c ops =
    (match ops with
     | [] => Ok (c, [], [])
     | o :: rest =>
         match kl_step msg parse tag c o with
         | Ok (c1, e1, v1) =>
             match kl_run msg parse tag c1 rest with
             | Ok (c2, e2, v2) => Ok (c2, e1 ++ e2, v1 ++ v2)
             | Rejected => Rejected
             | Fault => Fault
             end
         | Rejected => Rejected
         | Fault => Fault
         end
     end).
Proof. intros. destruct ops; reflexivity. Qed.
Print Assumptions L3_kl_run_def.

(* the count of re-reports, declaratively: deliveries that arrive when the stream received before
   them (pre ++ the earlier chunks) already contains an error according to the reference decoder *)
Theorem L3_late_reads_def : forall (msg : Type) (parse : list byte -> option msg) (tag : list byte) pre c cs s,
  DL.late_reads msg parse tag pre [] = 0 /\
  DL.late_reads msg parse tag pre (c :: cs) =
    (match DL.ref_err msg parse tag pre with Some _ => 1 | None => 0 end) + DL.late_reads msg parse tag (pre ++ c) cs /\
  DL.ref_err msg parse tag s = snd (fst (D.ref_decode msg parse tag (S (length s)) s)).
Proof. intros. repeat split; reflexivity. Qed.
Print Assumptions L3_late_reads_def.

(* HEADLINE: the real ProtobufCodecLite::onMessage + defaultErrorCallback on a TcpConnection, EVERY
   history (any split of the peer's bytes into reads, any other ops in between, before and AFTER
   an error).  With (ms, er, rest) = the reference decoding of the byte stream received so far:
   the events the codec's callbacks were given are the messages ms and then, if the stream
   contains an error x, CErr x once for the delivery that made the error detectable and once more
   for EVERY later delivery; the input buffer is rest - nothing is consumed from the bad frame on;
   retrieved ++ buffered = received; after an error the connection has left kConnected for good
   (the error callback's shutdown()). *)
Theorem L3_codec_live_on_connection :
  forall (msg : Type) (parse : list byte -> option msg) (tag : list byte) mark wc hw ops c e v,
  forallb kop_wf ops = true ->
  kl_run msg parse tag (init mark wc hw) ops = Ok (c, e, v) ->
  let s := delivered c in
  s = concat (chunks_of ops) /\
  consumed c ++ inb c = s /\
  (let '(ms, er, rest) := D.ref_decode msg parse tag (S (length s)) s in
   v = map (@D.CMsg msg) ms ++
       (match er with
        | Some x => @D.CErr msg x :: repeat (@D.CErr msg x) (DL.late_reads msg parse tag [] (chunks_of ops))
        | None => []
        end) /\
   inb c = rest /\
   (match er with Some _ => st c = Disconnecting \/ st c = Disconnected | None => True end)).
Proof. exact codec_live_on_connection. Qed.
Print Assumptions L3_codec_live_on_connection.

(* such a history is a Conn_Model history (delivery, the codec's Retrieve, the error callback's
   Shutdown), so C01 / C02 / C03 / C13 apply; and it never faults *)
Theorem L3_live_history_is_connection_history :
  forall (msg : Type) (parse : list byte -> option msg) (tag : list byte) ops c c' e v,
  kl_run msg parse tag c ops = Ok (c', e, v) ->
  run c (kl_conn_ops msg parse tag c ops) = Ok (c', e).
Proof. exact kl_run_is_conn_run. Qed.
Print Assumptions L3_live_history_is_connection_history.

Theorem L3_codec_live_no_fault :
  forall (msg : Type) (parse : list byte -> option msg) (tag : list byte) mark wc hw ops,
  kl_run msg parse tag (init mark wc hw) ops <> Fault.
Proof. intros msg parse tag mark wc hw ops. apply kl_run_no_fault. apply init_inv. Qed.
Print Assumptions L3_codec_live_no_fault.

(* the tie: the link machine and [DE.deliver_all] (C18_EncModel: the machine the `conn` kind of
   bin/check C18 runs against a real TcpConnection after EVERY delivery, deliveries after an error
   included) agree on every history - same codec events, same buffered bytes; a shutdown by the
   error callback there = the connection has left kConnected here *)
Theorem L3_live_link_is_deliver :
  forall (msg : Type) (parse : list byte -> option msg) (tag : list byte) mark wc hw ops c e v n0,
  forallb kop_wf ops = true ->
  kl_run msg parse tag (init mark wc hw) ops = Ok (c, e, v) ->
  exists evss c', DE.deliver_all msg parse tag (DE.conn0 n0) (chunks_of ops) = C10_Model.Ok (evss, c') /\
    v = concat evss /\ inb c = C10_Model.readable (DE.c_in c') /\
    (DE.c_connected c' = false -> st c = Disconnecting \/ st c = Disconnected).
Proof. exact live_link_is_deliver. Qed.
Print Assumptions L3_live_link_is_deliver.

(* over the two concrete Buffers (L1): KCRead kr = handleRead with readFd's kernel answer *)
Theorem L3_kcl_step_def : forall (msg : Type) (parse : list byte -> option msg) (tag : list byte) c kr o,
  kcl_step msg parse tag c (KCRead kr) =
    (match c_step c (CRead kr) with
     | Ok (c1, e1) =>
         if 0 <? length (B.delivered (B.readFd_capacity (ibuf c)) kr) then
           let '(cevs, rest) := live_message msg parse tag (B.readable (ibuf c1)) in
           match c_step c1 (COp (Retrieve (B.readableBytes (ibuf c1) - length rest))) with
           | Ok (c2, e2) =>
               if existsb (is_err msg) cevs then
                 match c_step c2 (COp Shutdown) with
                 | Ok (c3, e3) => Ok (c3, e1 ++ e2 ++ e3, cevs)
                 | Rejected => Rejected
                 | Fault => Fault
                 end
               else Ok (c2, e1 ++ e2, cevs)
           | Rejected => Rejected
           | Fault => Fault
           end
         else Ok (c1, e1, [])
     | Rejected => Rejected
     | Fault => Fault
     end) /\
  kcl_step msg parse tag c (KCOp o) =
    (match c_step c o with Ok (c', e) => Ok (c', e, []) | Rejected => Rejected | Fault => Fault end).
Proof. intros. split; reflexivity. Qed.
Print Assumptions L3_kcl_step_def.

Theorem L3_kcl_step_refines : forall (msg : Type) (parse : list byte -> option msg) (tag : list byte) c o,
  bufs_ok c -> kcop_wf o = true ->
  match kcl_step msg parse tag c o with
  | Ok (c', e, v) => kl_step msg parse tag (abs c) (klabs_op c o) = Ok (abs c', e, v) /\ bufs_ok c'
  | Rejected => kl_step msg parse tag (abs c) (klabs_op c o) = Rejected
  | Fault => kl_step msg parse tag (abs c) (klabs_op c o) = Fault
  end.
Proof. exact kcl_step_refines. Qed.
Print Assumptions L3_kcl_step_refines.

(* [delivered_chunks c0 ops] = the chunks readFd delivered along the history (the kernel's answers
   cut to the capacity readFd offers), = chunks_of of the abstracted ops *)
Theorem L3_delivered_chunks_def : forall (msg : Type) (parse : list byte -> option msg) (tag : list byte) c o rest,
  delivered_chunks msg parse tag c [] = [] /\
  delivered_chunks msg parse tag c (o :: rest) =
    (match klabs_op c o with KRead ch => [ch] | KOp _ => [] end) ++
    (match kcl_step msg parse tag c o with
     | Ok (c', _, _) => delivered_chunks msg parse tag c' rest
     | _ => []
     end) /\
  klabs_op c o =
    (match o with
     | KCOp o' => KOp (abs_op c o')
     | KCRead kr =>
         if 0 <? length (B.delivered (B.readFd_capacity (ibuf c)) kr)
         then KRead (B.delivered (B.readFd_capacity (ibuf c)) kr)
         else KOp (abs_op c (CRead kr))
     end).
Proof.
  intros. split; [reflexivity|]. split; [|destruct o; reflexivity].
  unfold delivered_chunks. cbn [klabs_ops chunks_of flat_map].
  destruct (kcl_step msg parse tag c o) as [[[c' e'] v']| |]; reflexivity.
Qed.
Print Assumptions L3_delivered_chunks_def.

(* HEADLINE over the real Buffer, every history *)
Theorem L3_codec_live_on_real_buffers :
  forall (msg : Type) (parse : list byte -> option msg) (tag : list byte) mark wc hw ops c e v,
  forallb kcop_wf ops = true ->
  kcl_run msg parse tag (c_init mark wc hw) ops = Ok (c, e, v) ->
  let s := delivered (ctl c) in
  s = concat (delivered_chunks msg parse tag (c_init mark wc hw) ops) /\
  consumed (ctl c) ++ B.readable (ibuf c) = s /\
  (let '(ms, er, rest) := D.ref_decode msg parse tag (S (length s)) s in
   v = map (@D.CMsg msg) ms ++
       (match er with
        | Some x => @D.CErr msg x ::
                    repeat (@D.CErr msg x)
                      (DL.late_reads msg parse tag [] (delivered_chunks msg parse tag (c_init mark wc hw) ops))
        | None => []
        end) /\
   B.readable (ibuf c) = rest /\
   (match er with Some _ => st (ctl c) = Disconnecting \/ st (ctl c) = Disconnected | None => True end)).
Proof. exact codec_live_on_real_buffers. Qed.
Print Assumptions L3_codec_live_on_real_buffers.

Theorem L3_codec_live_on_real_buffers_no_fault :
  forall (msg : Type) (parse : list byte -> option msg) (tag : list byte) mark wc hw ops,
  forallb kcop_wf ops = true -> kcl_run msg parse tag (c_init mark wc hw) ops <> Fault.
Proof. exact codec_live_on_real_buffers_no_fault. Qed.
Print Assumptions L3_codec_live_on_real_buffers_no_fault.

(* non-vacuity, the history of REVIEW_D item 1: a negative length field, then two more reads.
   The real codec reports kInvalidLength three times, consumes nothing, and has shut the
   connection down; the decoder of the property text (k_run) reports it once. *)
Definition l3_bad : list byte := [xff; xff; xff; xff; x58; x59; x5a; x00; x00; x00; x00].
Definition l3_tag3 : list byte := [x58; x59; x5a].
Definition l3_err_ops : list kop := [KOp Establish; KRead l3_bad; KRead [x01]; KRead [x02]].

Example l3_ex_live_error : exists c e,
  kl_run (list byte) Some l3_tag3 (init 100 false false) l3_err_ops
    = Ok (c, e, [D.CErr D.kInvalidLength; D.CErr D.kInvalidLength; D.CErr D.kInvalidLength]) /\
  forallb kop_wf l3_err_ops = true /\ inb c = l3_bad ++ [x01; x02] /\ consumed c = [] /\
  st c = Disconnecting /\ e = [EvUp; EvMsg 11; EvFin; EvMsg 12; EvMsg 13] /\
  DL.late_reads (list byte) Some l3_tag3 [] (chunks_of l3_err_ops) = 2 /\
  (exists k e', k_run unit (D.cevent (list byte)) (D.cstep (list byte) Some l3_tag3)
                  (mkK (init 100 false false) tt false false) l3_err_ops
                = Ok (k, e', [D.CErr D.kInvalidLength])).
Proof.
  destruct (kl_run (list byte) Some l3_tag3 (init 100 false false) l3_err_ops) as [[[c e] v]| |] eqn:E;
    try (vm_compute in E; discriminate).
  vm_compute in E. injection E as <- <- <-. eexists _, _. split; [reflexivity|].
  repeat (split; [vm_compute; reflexivity|]).
  destruct (k_run unit (D.cevent (list byte)) (D.cstep (list byte) Some l3_tag3)
              (mkK (init 100 false false) tt false false) l3_err_ops) as [[[k e'] v']| |] eqn:E';
    try (vm_compute in E'; discriminate).
  vm_compute in E'. injection E' as <- <- <-. eexists _, _. reflexivity.
Qed.

Definition l3_kc_err_ops : list kcop :=
  [KCOp (COp Establish); KCRead (B.KData l3_bad); KCRead (B.KData [x01]); KCRead (B.KData [])].

Example l3_ex_live_real_buffers : exists c e,
  kcl_run (list byte) Some l3_tag3 (c_init 100 false false) l3_kc_err_ops
    = Ok (c, e, [D.CErr D.kInvalidLength; D.CErr D.kInvalidLength]) /\
  forallb kcop_wf l3_kc_err_ops = true /\ B.readable (ibuf c) = l3_bad ++ [x01] /\
  st (ctl c) = Disconnected.
Proof.
  destruct (kcl_run (list byte) Some l3_tag3 (c_init 100 false false) l3_kc_err_ops) as [[[c e] v]| |] eqn:E;
    try (vm_compute in E; discriminate).
  vm_compute in E. injection E as <- <- <-. eexists _, _. split; [reflexivity|]. vm_compute. auto.
Qed.
