(* Properties_C06: timers never fire early, the two timer sets agree, the timerfd stays armed for the
   earliest pending deadline, no assertion fails / no dead Timer is dereferenced -- for ALL op lists
   (adds, cancels, clock ticks, expiries with arbitrary callback scripts, foreign-thread adds/cancels
   and doPendingFunctors batches, with arbitrary -- also reused -- allocator addresses).
   Only statements closed by [exact].  The model (C06_Model, TimerModel) is tied to
   muduo/net/TimerQueue.cc by the correspondence check (bin/check C06) and by the regenerated
   facts (Gen_C06: the two literals of the 100 us floor, the getExpired sentinel; Gen_Consts:
   kMicroSecondsPerSecond).
   Since 2026-10-01 also proved for ALL op lists, over the monotone history (the event log):
   exactly-once of one-shots, repeater spacing, none lost / exact re-arm / progress, deadline order
   (C06_Hist.v, C06_Order.v), and the guards of insert / reset / the valid() gate are regenerated
   from the sources and linked to the model (C06_GenTie.v). *)
From Coq Require Import List ZArith Lia Bool Sorted.
From Muduo Require Import Gen_Consts Gen_C06 Gen_C07 C06_Model C06_Proofs C06_Hist C06_Order C06_GenTie C06_Live C06_Marshal C07_Model C07_Proofs.
Import ListNotations.
Local Open Scope Z_scope.

(* A callback runs in an expiry batch only if the deadline it was filed under is <= the instant the
   batch sampled (TimerQueue::handleRead's `now`); callbacks run after that instant. *)
Theorem C06_never_early : forall c ops st evs, run (init c) ops = Ok (st, evs) ->
  forall s dl now t, In (ERun s dl now t) evs -> dl <= now.
Proof. exact never_early. Qed.
Print Assumptions C06_never_early.

(* timers_ and activeTimers_ hold the same timers, no duplicates, same size (the code asserts it),
   and every entry points to a live Timer object carrying that deadline / sequence. *)
Theorem C06_sets_agree : forall c ops st evs, run (init c) ops = Ok (st, evs) ->
  length (timers st) = length (active st) /\ NoDup (timers st) /\ NoDup (active st) /\
  (forall a s, In (a, s) (active st) <->
               exists o, hget a (heap st) = Some o /\ o_seq o = s /\ In (o_exp o, a) (timers st)) /\
  (forall d a, In (d, a) (timers st) ->
               exists o, hget a (heap st) = Some o /\ o_exp o = d /\ In (a, o_seq o) (active st)).
Proof. exact sets_agree. Qed.
Print Assumptions C06_sets_agree.

(* After every op: if a timer is pending, the head of timers_ is the earliest deadline and the
   timerfd is armed (expiration not yet consumed) for an instant no later than
   max(earliest deadline, arm instant + floor). *)
Theorem C06_armed_for_earliest : forall c ops st evs, run (init c) ops = Ok (st, evs) ->
  forall d a r, timers st = (d, a) :: r ->
  (forall k, In k (timers st) -> d <= fst k) /\
  exists x, armed st = Some x /\ x <= Z.max d (arm_at st + TimerQueue_floor_val).
Proof. exact armed_for_earliest. Qed.
Print Assumptions C06_armed_for_earliest.

(* No op list makes an assert of TimerQueue.cc fail or dereferences a dead Timer. *)
Theorem C06_no_assert_fails : forall c ops, run (init c) ops <> Fault.
Proof. exact no_fault. Qed.
Print Assumptions C06_no_assert_fails.

(* the generated facts the proofs rest on (re-checked against the current sources on every run) *)
Theorem C06_generated_floor : 0 < TimerQueue_floor_val /\ 0 < TimerQueue_floor_cmp /\
  TimerQueue_floor_is_lt = true /\ TimerQueue_getExpired_sentry_is_now = true /\ 0 < K.
Proof. exact (conj gen_floor_val_pos (conj gen_floor_cmp_pos (conj gen_floor_is_lt (conj gen_sentry_is_now gen_K_pos)))). Qed.
Print Assumptions C06_generated_floor.

(* ------------------------------------------------------------------ the history theorems *)
(* Every callback run belongs to a timer whose id was returned by an add, and an id is returned once. *)
Theorem C06_run_of_added : forall c ops st evs, run (init c) ops = Ok (st, evs) ->
  forall s dl now t, In (ERun s dl now t) evs -> exists a w iv, In (EAdd s a w iv) evs.
Proof. exact run_of_added. Qed.
Print Assumptions C06_run_of_added.
(* ... and that add precedes the run in the trace (prefix-closed form). *)
Theorem C06_add_precedes_run : forall c ops st evs, run (init c) ops = Ok (st, evs) ->
  forall l1 s dl now t l2, evs = l1 ++ ERun s dl now t :: l2 -> exists a w iv, In (EAdd s a w iv) l1.
Proof. exact add_precedes_run. Qed.
Print Assumptions C06_add_precedes_run.
Theorem C06_add_unique : forall c ops st evs, run (init c) ops = Ok (st, evs) ->
  forall s a w iv a' w' iv', In (EAdd s a w iv) evs -> In (EAdd s a' w' iv') evs -> a = a' /\ w = w' /\ iv = iv'.
Proof. exact add_unique. Qed.
Print Assumptions C06_add_unique.

(* Encoding of the interval field (C06_Model.o_repeat): iv < 0 = not repeating (runAt / runAfter, interval <= 0.0);
   iv >= 0 = repeating, iv = the delta Timer::restart adds = static_cast<int64_t>(interval * 1e6) us (0 for an
   interval below one microsecond).
   A one-shot (iv < 0) runs AT MOST ONCE in any trace: for every occurrence
   of a run of its sequence number there is no other before or after it; it is filed under the
   timer's own deadline w and happens at or after w (w <= batch instant <= clock at the callback). *)
Theorem C06_oneshot_at_most_once : forall c ops st evs, run (init c) ops = Ok (st, evs) ->
  forall s a w iv, In (EAdd s a w iv) evs -> iv < 0 ->
  forall l1 dl now t l2, evs = l1 ++ ERun s dl now t :: l2 ->
  dl = w /\ w <= now <= t /\
  (forall dl' now' t', ~ In (ERun s dl' now' t') l1) /\ (forall dl' now' t', ~ In (ERun s dl' now' t') l2).
Proof. exact oneshot_at_most_once. Qed.
Print Assumptions C06_oneshot_at_most_once.

(* ... and EXACTLY ONCE as soon as an expiry is processed at or after its deadline while it is
   registered: it runs in that expiry, and that is its only run in the whole trace, whatever ops
   came before and whatever ops follow. *)
Theorem C06_oneshot_exactly_once : forall c ops st evs a o script st' ev ops2 st2 evs2,
  run (init c) ops = Ok (st, evs) -> hget a (heap st) = Some o -> o_iv o < 0 ->
  In (o_exp o, a) (timers st) -> o_exp o <= clk st -> fire st script = Ok (st', ev) ->
  run st' ops2 = Ok (st2, evs2) ->
  (exists t, In (ERun (o_seq o) (o_exp o) (clk st) t) ev) /\
  length (runs_of (o_seq o) (evs ++ ev ++ evs2)) = 1%nat.
Proof. exact oneshot_exactly_once. Qed.
Print Assumptions C06_oneshot_exactly_once.

(* A repeater (runEvery; delta iv >= 0, first deadline w): the run that has k predecessors in the
   trace -- its (k+1)-th run -- is filed under a deadline >= w + k*iv and happens at or after it. *)
Theorem C06_repeat_spacing : forall c ops st evs, run (init c) ops = Ok (st, evs) ->
  forall s a w iv, In (EAdd s a w iv) evs -> 0 <= iv ->
  forall l1 dl now t l2, evs = l1 ++ ERun s dl now t :: l2 ->
  w + Z.of_nat (length (runs_of s l1)) * iv <= dl /\ dl <= now <= t.
Proof. exact repeat_spacing. Qed.
Print Assumptions C06_repeat_spacing.

(* One expiry (handleRead at clock now): the callbacks it runs are EXACTLY the registered timers
   whose deadline is <= now (due), each once, in (deadline, address) order, each filed under its
   deadline; afterwards the timerfd is armed for exactly max(earliest remaining deadline, now' + floor). *)
Theorem C06_expiry_runs_exactly_due : forall c ops st evs script st' ev, run (init c) ops = Ok (st, evs) ->
  fire st script = Ok (st', ev) ->
  rlog ev = map (fun k => (seqof (heap st) (snd k), fst k, clk st)) (due st) /\
  StronglySorted (fun x y => klt x y = true) (due st) /\
  (forall d a, In (d, a) (due st) <-> In (d, a) (timers st) /\ d <= clk st) /\
  (forall d a r, timers st' = (d, a) :: r ->
     armed st' = Some (Z.max d (clk st' + TimerQueue_floor_val)) /\ arm_at st' = clk st').
Proof. exact fire_runs_due. Qed.
Print Assumptions C06_expiry_runs_exactly_due.

(* None lost: a registered timer whose deadline has passed runs in the next expiry. *)
Theorem C06_none_lost : forall c ops st evs script st' ev, run (init c) ops = Ok (st, evs) ->
  fire st script = Ok (st', ev) ->
  forall d a, In (d, a) (timers st) -> d <= clk st ->
  exists o t, hget a (heap st) = Some o /\ In (ERun (o_seq o) d (clk st) t) ev.
Proof. exact none_lost. Qed.
Print Assumptions C06_none_lost.

(* Progress: when the timerfd has become readable (armed instant x <= clock) and a timer is pending,
   the expiry either runs the earliest timer, or -- the arming was stale (x < earliest deadline: the
   timer it was armed for has been cancelled) -- runs nothing, leaves the sets alone and re-arms for
   exactly max(earliest, now + floor) >= earliest, so that the next readable expiry does run it (first
   case).  With C06_armed_for_earliest (always armed while a timer is pending) and the timerfd
   contract this is "every registered timer does run while the loop keeps running". *)
Theorem C06_progress : forall c ops st evs script st' ev d a r x, run (init c) ops = Ok (st, evs) ->
  timers st = (d, a) :: r -> armed st = Some x -> x <= clk st -> fire st script = Ok (st', ev) ->
  (forall d' a' r', timers st' = (d', a') :: r' ->
     armed st' = Some (Z.max d' (clk st' + TimerQueue_floor_val)) /\ arm_at st' = clk st') /\
  ((d <= clk st /\ exists o t, hget a (heap st) = Some o /\ In (ERun (o_seq o) d (clk st) t) ev) \/
   (clk st < d /\ x < d /\ rlog ev = [] /\ timers st' = timers st /\ clk st' = clk st /\
    armed st' = Some (Z.max d (clk st + TimerQueue_floor_val)))).
Proof. exact progress. Qed.
Print Assumptions C06_progress.

(* Progress over two expiries, as one statement: the timerfd is readable (x <= clock) with a timer pending;
   the loop processes the expiry, sleeps until the timerfd is readable again (only the clock moves, up to
   at least the new armed instant) and processes the next expiry: the earliest timer (d, a) has run in the
   first or in the second. *)
Theorem C06_progress_two : forall c ops st evs s1 st1 ev1 dt st2 e2 s2 st3 ev2 d a r x,
  run (init c) ops = Ok (st, evs) -> timers st = (d, a) :: r -> armed st = Some x -> x <= clk st ->
  fire st s1 = Ok (st1, ev1) ->
  step st1 (Cb (CTick dt)) = Ok (st2, e2) -> (forall x1, armed st1 = Some x1 -> x1 <= clk st2) ->
  fire st2 s2 = Ok (st3, ev2) ->
  exists o, hget a (heap st) = Some o /\
    ((exists t, In (ERun (o_seq o) d (clk st) t) ev1) \/ (exists t, In (ERun (o_seq o) d (clk st2) t) ev2)).
Proof. exact progress_two. Qed.
Print Assumptions C06_progress_two.

(* Liveness ("every registered timer does run while the loop keeps running").  The environment env chooses
   EVERY step (loop events with arbitrary callback scripts, clock ticks, foreign micro-steps); assumed
   about it: the timerfd contract -- a timer pending, the timerfd armed for x, the clock at or past x =>
   the loop's next event is handleRead -- and that it issues no cancel of A's id.  After ANY number n of
   its steps: A has run under its deadline, or A is still registered, the timerfd is armed for
   x <= max(dA, arm instant + floor), and once the clock has reached x and dA the next step is an expiry
   that succeeds and runs A.  C06_liveness_bound: the FIRST expiry processed at or after dA runs A, i.e.
   A runs within one Fire step after its deadline. *)
Theorem C06_liveness : forall (env : nat -> state -> op),
  (forall i st x, timers st <> [] -> armed st = Some x -> x <= clk st -> exists script, env i st = Fire script) ->
  forall c ops st evs a oA, run (init c) ops = Ok (st, evs) ->
  hget a (heap st) = Some oA -> In (o_exp oA, a) (timers st) ->
  existsb (pf_cancels a (o_seq oA)) (pending st) = false ->
  (forall j st', op_cancels a (o_seq oA) (env j st') = false) ->
  forall n stn evn, C06_Live.exec env n 0 st = Ok (stn, evn) ->
  (exists nA tA, In (ERun (o_seq oA) (o_exp oA) nA tA) evn) \/
  (hget a (heap stn) = Some oA /\ In (o_exp oA, a) (timers stn) /\
   exists x, armed stn = Some x /\ x <= Z.max (o_exp oA) (arm_at stn + TimerQueue_floor_val) /\
     (x <= clk stn -> o_exp oA <= clk stn ->
      exists script st' ev' t, env n stn = Fire script /\ C06_Live.exec env 1 n stn = Ok (st', ev') /\
                               In (ERun (o_seq oA) (o_exp oA) (clk stn) t) ev')).
Proof. exact liveness. Qed.
Print Assumptions C06_liveness.
Theorem C06_liveness_bound : forall (env : nat -> state -> op) c ops st evs a oA, run (init c) ops = Ok (st, evs) ->
  hget a (heap st) = Some oA -> In (o_exp oA, a) (timers st) ->
  existsb (pf_cancels a (o_seq oA)) (pending st) = false ->
  (forall j st', op_cancels a (o_seq oA) (env j st') = false) ->
  forall k stk evk script st' ev', C06_Live.exec env k 0 st = Ok (stk, evk) -> env k stk = Fire script -> o_exp oA <= clk stk ->
  step stk (Fire script) = Ok (st', ev') ->
  exists nA tA, In (ERun (o_seq oA) (o_exp oA) nA tA) (evk ++ ev').
Proof. exact liveness_bound. Qed.
Print Assumptions C06_liveness_bound.

(* "However timers are added (from any thread ...)": a foreign-thread add is CFNew (new Timer, id known) ;
   CFEnq (hand-off).  Its first micro-step hands out an id that names the new object; the doPendingFunctors
   that processes the hand-off registers the object under that id (unless a cancel of the id is queued too),
   and from then on every theorem above applies to it.  All invariants hold in every interleaving of these
   micro-steps with loop events, callbacks and user functors (they are ops of the same model). *)
Theorem C06_foreign_add_id : forall st w iv a st' ev, cb_step st (CFNew w iv a) = Ok (st', ev) ->
  ev = [EAdd (next_seq st + 1) a w iv] /\ hget a (heap st') = Some (mkT (next_seq st + 1) w iv) /\
  hget a (heap st) = None /\ In a (inflight st') /\ pending st' = pending st /\ timers st' = timers st.
Proof. exact foreign_new_id. Qed.
Print Assumptions C06_foreign_add_id.
Theorem C06_foreign_add_registers : forall c ops st evs a o st' ev, run (init c) ops = Ok (st, evs) ->
  In (PAdd a) (pending st) -> hget a (heap st) = Some o ->
  existsb (pf_cancels a (o_seq o)) (pending st) = false ->
  step st RunPending = Ok (st', ev) ->
  hget a (heap st') = Some o /\ In (o_exp o, a) (timers st') /\ In (a, o_seq o) (active st') /\
  (forall dl now t, ~ In (ERun (o_seq o) dl now t) ev).
Proof. exact foreign_add_registers. Qed.
Print Assumptions C06_foreign_add_registers.

(* Deadline order.  A is registered under deadline dA = o_exp oA at a reachable state.  In EVERY
   continuation, every callback filed under a later deadline is preceded by A's callback filed under
   dA -- or else A never runs in the continuation and its Timer object is dead at the end (it was
   cancelled before it could run).  Within one expiry the order is (deadline, address)
   (C06_expiry_runs_exactly_due); across expiries an expiry takes EVERY timer that is due. *)
Theorem C06_deadline_order : forall c ops st evs a oA ops2 st2 evs2,
  run (init c) ops = Ok (st, evs) -> hget a (heap st) = Some oA -> In (o_exp oA, a) (timers st) ->
  run st ops2 = Ok (st2, evs2) ->
  (forall l1 s dl n t l2, evs2 = l1 ++ ERun s dl n t :: l2 -> o_exp oA < dl ->
      exists nA tA, In (ERun (o_seq oA) (o_exp oA) nA tA) l1) \/
  ((forall dl n t, ~ In (ERun (o_seq oA) dl n t) evs2) /\ gone st2 (o_seq oA)).
Proof. exact deadline_order. Qed.
Print Assumptions C06_deadline_order.

(* Deadline order, unconditional form: if no cancel of A's id is queued at the state where A is
   registered and the continuation issues none (Cb (CCancel ..), Cb (CFCancel ..), or the same from
   inside any callback script), then every callback filed under a later deadline is preceded by A's
   callback filed under dA, and at the end A has run or is still registered (it cannot be lost). *)
Theorem C06_deadline_order_nocancel : forall c ops st evs a oA ops2 st2 evs2,
  run (init c) ops = Ok (st, evs) -> hget a (heap st) = Some oA -> In (o_exp oA, a) (timers st) ->
  existsb (pf_cancels a (o_seq oA)) (pending st) = false ->
  forallb (fun o => negb (op_cancels a (o_seq oA) o)) ops2 = true ->
  run st ops2 = Ok (st2, evs2) ->
  (forall l1 s dl n t l2, evs2 = l1 ++ ERun s dl n t :: l2 -> o_exp oA < dl ->
      exists nA tA, In (ERun (o_seq oA) (o_exp oA) nA tA) l1) /\
  ((exists nA tA, In (ERun (o_seq oA) (o_exp oA) nA tA) evs2) \/
   (hget a (heap st2) = Some oA /\ In (o_exp oA, a) (timers st2))).
Proof. exact deadline_order_nocancel. Qed.
Print Assumptions C06_deadline_order_nocancel.

(* The guards of the CURRENT sources (regenerated from the clang AST on every run) are the tests the
   model performs: insert's `earliestChanged`, reset's `repeat() && not in cancelingTimers_`, the
   Timestamp::valid() gate of the re-arm (a default Timestamp is invalid), and the guarded branches do
   what the model does (structure facts). *)
Theorem C06_generated_guards :
  (forall st addr, insert st addr = insert_src st addr) /\
  (forall ex st now, reset_loop st ex now = reset_loop_src st ex now) /\
  (forall x, (0 <? x) = Timestamp_valid x) /\ Timestamp_valid Timestamp_default_us = false /\
  TimerQueue_floor_cmp = TimerQueue_floor_val /\
  (TimerQueue_insert_returns_guard = true /\ TimerQueue_insert_files_both = true /\
   TimerQueue_addTimerInLoop_rearms_iff_earliest = true /\
   TimerQueue_reset_then_restart_insert = true /\ TimerQueue_reset_else_delete = true /\
   TimerQueue_reset_rearms_head_iff_valid = true /\
   TimerQueue_cancelInLoop_found_erases_both_deletes = true /\ TimerQueue_cancelInLoop_marks_canceling = true).
Proof. exact (conj insert_is_source (conj reset_loop_is_source (conj valid_is_source (conj default_timestamp_invalid (conj gen_floor_same structure_facts))))). Qed.
Print Assumptions C06_generated_guards.

(* Timer::restart / addTime arithmetic, the destructor sweep and the EventLoop wrappers of the CURRENT sources
   (regenerated from the clang AST; canonical text in Gen_C06.v): the interval (a double, seconds) enters the
   deadline arithmetic only as delta = static_cast<int64_t>(interval * kMicroSecondsPerSecond), which is the
   model's o_iv; restart(now) files a repeater under now + delta; repeat_ = (interval > 0.0); ~TimerQueue deletes
   exactly timers_; runAt/runAfter/runEvery/cancel are the thin wrappers the harness assumes. *)
Theorem C06_generated_arithmetic :
  Timestamp_addTime_truncates_product = true /\ Timer_restart_adds_interval_to_now = true /\
  Timer_ctor_repeat_iff_interval_positive = true /\ TimerQueue_dtor_deletes_exactly_timers = true /\
  EventLoop_runAt_is_addTimer_interval_zero = true /\ EventLoop_runAfter_is_runAt_addTime_now = true /\
  EventLoop_runEvery_first_deadline_is_now_plus_interval = true /\ EventLoop_cancel_forwards = true /\
  TimerQueue_cancel_hands_off_cancelInLoop = true.
Proof. exact structure_facts_arith. Qed.
Print Assumptions C06_generated_arithmetic.

(* What really holds for repeaters, on what addTime computes.  A repeater that is due in an expiry and that no
   callback of the expiry cancels runs exactly once in it and is filed again under (batch instant + delta),
   delta = o_iv >= 0 = trunc(interval * 1e6).  With C06_repeat_spacing: the run with k predecessors is filed under
   a deadline >= first deadline + k*delta -- the property text's "(k-1) intervals" holds exactly iff the interval is
   a whole number of microseconds that survives the double product (delta = interval*1e6); otherwise the spacing
   guaranteed is delta < interval*1e6 < delta+1 per run (shortfall below one microsecond per run).
   delta = 0 (interval below one microsecond): the repeater is filed under the batch instant itself; it does NOT
   run a second time in the same expiry (C07_once_per_expiry) and the timerfd is re-armed no earlier than
   clock + floor (100 us): the loop does not spin, the callback runs at most once per floor interval. *)
Theorem C06_repeater_rescheduled : forall c ops st evs script st' ev d a o,
  run (init c) ops = Ok (st, evs) -> fire st script = Ok (st', ev) ->
  In (d, a) (timers st) -> d <= clk st -> hget a (heap st) = Some o -> 0 <= o_iv o ->
  existsb (existsb (cb_cancels a (o_seq o))) script = false ->
  hget a (heap st') = Some (mkT (o_seq o) (clk st + o_iv o) (o_iv o)) /\ In (clk st + o_iv o, a) (timers st') /\
  length (runs_of (o_seq o) ev) = 1%nat /\
  (forall x, armed st' = Some x -> clk st' + TimerQueue_floor_val <= x).
Proof. exact repeater_rescheduled. Qed.
Print Assumptions C06_repeater_rescheduled.

(* doPendingFunctors as micro-steps.  (1) Executing the batch functor by functor, with arbitrary steps of the rest
   of the world after each functor (mrun), IS the atomic RunPending over the batch woven with user functors.
   (2) Commutation: a hand-off / queued cancel / queued user functor that lands WHILE a timer functor runs has
   exactly the effect of the same step right after it (same state, same events) -- so placing foreign enqueues
   between functors loses no behaviour. *)
Theorem C06_run_pending_micro_steps :
  (forall fs st between, mrun st fs between = run_functors st (weave fs between)) /\
  (forall st f c st1 e1 stc ec, timer_functor f -> enqueue_step c ->
     run_one st f = Ok (st1, e1) -> cb_step st c = Ok (stc, ec) ->
     exists st2, cb_step st1 c = Ok (st2, []) /\ run_one stc f = Ok (st2, e1) /\ ec = []).
Proof. exact (conj mrun_weave enqueue_commutes). Qed.
Print Assumptions C06_run_pending_micro_steps.

(* non-vacuity: a program with equal deadlines, a repeater, a nested add with a past deadline, a
   sibling cancel and a foreign add runs without rejection and produces runs *)
Definition ex_ops : list op :=
  [Cb (CAdd 1500 (-1) 20); Cb (CAdd 1500 (-1) 10); Cb (CAdd 1100 200 30); Cb (CTick 500);
   Fire [[CCancel 20 1; CAdd 1400 (-1) 40]; [CTick 10]; []]; Fire []; Cb (CFAdd 9000 (-1) 50); RunPending;
   Cb (CCancel 30 3); Cb (CAdd 1600 (-1) 30); Cb (CCancel 30 3); Cb (CTick 100); Fire []].
Example C06_nonvacuous :
  match run (init 1000) ex_ops with
  | Ok (st, evs) => (length (filter (fun e => match e with ERun _ _ _ _ => true | _ => false end) evs) = 5)%nat
                    /\ length (timers st) = 1%nat /\ armed st = Some 9000
  | _ => False
  end.
Proof. vm_compute. auto. Qed.

(* non-vacuity of the history theorems: a repeater (seq 1, first deadline 1100, interval 200) runs three
   times under deadlines 1100, 1700, 2300 (>= 1100 + k*200) at 1500, 2100, 2350, a one-shot (seq 2) runs once; the
   hypotheses of C06_repeat_spacing / C06_oneshot_at_most_once are inhabited by this trace *)
Definition hist_ops : list op :=
  [Cb (CAdd 1100 200 30); Cb (CAdd 1600 (-1) 10); Cb (CTick 500); Fire []; Cb (CTick 600); Fire [];
   Cb (CTick 250); Fire []].
Example C06_history_nonvacuous :
  match run (init 1000) hist_ops with
  | Ok (st, evs) =>
      In (EAdd 1 30 1100 200) evs /\ In (EAdd 2 10 1600 (-1)) evs /\
      rlog evs = [(1, 1100, 1500); (2, 1600, 2100); (1, 1700, 2100); (1, 2300, 2350)] /\
      (exists l1 l2, evs = l1 ++ ERun 1 2300 2350 2350 :: l2 /\ length (runs_of 1 l1) = 2%nat)
  | _ => False
  end.
Proof.
  vm_compute. repeat split; auto 20.
  exists [EArm 1000 100; EAdd 1 30 1100 200; EAdd 2 10 1600 (-1); ERun 1 1100 1500 1500; EArm 1500 100;
          ERun 2 1600 2100 2100; ERun 1 1700 2100 2100; EArm 2100 200], [EArm 2350 200]. split; reflexivity.
Qed.

(* non-vacuity of C06_progress, second branch: the earliest timer (deadline 1500) is cancelled, the
   stale arming (1500) becomes readable at 1600 < 9000: the expiry runs nothing and re-arms for
   exactly max(9000, 1600 + 100); first branch: at 9000 the expiry runs the timer *)
Definition stale_ops : list op := [Cb (CAdd 1500 (-1) 10); Cb (CAdd 9000 (-1) 20); Cb (CCancel 10 1); Cb (CTick 600)].
Example C06_progress_nonvacuous :
  match run (init 1000) stale_ops with
  | Ok (st, _) =>
      timers st = [(9000, 20)] /\ armed st = Some 1500 /\ clk st = 1600 /\
      match fire st [] with
      | Ok (st', ev) => rlog ev = [] /\ armed st' = Some 9000 /\
          match run st' [Cb (CTick 7400); Fire []] with
          | Ok (_, ev2) => rlog ev2 = [(2, 9000, 9000)]
          | _ => False end
      | _ => False end
  | _ => False
  end.
Proof. vm_compute. auto 10. Qed.

(* non-vacuity of C06_deadline_order: A (deadline 1500) and B (deadline 1700) registered; in the
   continuation B's run (filed under 1700 > 1500) is preceded by A's (left disjunct, with an actual
   split); if A is cancelled first, A never runs and is dead (right disjunct) *)
Example C06_deadline_order_nonvacuous :
  match run (init 1000) [Cb (CAdd 1700 (-1) 20); Cb (CAdd 1500 (-1) 10)] with
  | Ok (st, _) =>
      hget 10 (heap st) = Some (mkT 2 1500 (-1)) /\ In (1500, 10) (timers st) /\
      existsb (pf_cancels 10 2) (pending st) = false /\
      forallb (fun o => negb (op_cancels 10 2 o)) [Cb (CTick 800); Fire [[CCancel 20 1]]] = true /\
      match run st [Cb (CTick 800); Fire []] with
      | Ok (_, evs2) => exists l2, evs2 = [ERun 2 1500 1800 1800] ++ ERun 1 1700 1800 1800 :: l2
      | _ => False end /\
      match run st [Cb (CCancel 10 2); Cb (CTick 800); Fire []] with
      | Ok (st2, evs2) => rlog evs2 = [(1, 1700, 1800)] /\ hget 10 (heap st2) = None
      | _ => False end
  | _ => False
  end.
Proof. vm_compute. repeat split; auto. eexists; reflexivity. Qed.

(* non-vacuity of C06_liveness: an environment that satisfies the timerfd contract (it fires as soon as a
   pending timer's arming is due and lets 37 us pass otherwise) and never cancels; a timer registered under
   deadline 1500 at clock 1000 has not run after 13 steps and has run after 14 *)
Definition demo_env (i : nat) (st : state) : op :=
  match timers st, armed st with
  | _ :: _, Some x => if x <=? clk st then Fire [] else Cb (CTick 37)
  | _, _ => Cb (CTick 37)
  end.
Example C06_liveness_nonvacuous :
  (forall i st x, timers st <> [] -> armed st = Some x -> x <= clk st -> exists script, demo_env i st = Fire script) /\
  (forall a s j st', op_cancels a s (demo_env j st') = false) /\
  match run (init 1000) [Cb (CAdd 1500 (-1) 10)] with
  | Ok (st, _) =>
      match C06_Live.exec demo_env 13 0 st, C06_Live.exec demo_env 15 0 st with
      | Ok (s13, e13), Ok (s15, e15) => rlog e13 = [] /\ In (1500, 10) (timers s13) /\ rlog e15 = [(1, 1500, 1518)]
      | _, _ => False end
  | _ => False end.
Proof.
  split; [|split].
  - intros i st x NE A L. unfold demo_env. destruct (timers st); [contradiction|]. rewrite A.
    destruct (Z.leb_spec x (clk st)); [eauto|lia].
  - intros a s j st'. unfold demo_env. destruct (timers st'); [reflexivity|]. destruct (armed st') as [x|]; [|reflexivity].
    destruct (x <=? clk st'); reflexivity.
  - vm_compute. auto.
Qed.

(* non-vacuity of the foreign-add theorems: micro-steps of two foreign adds interleaved (allocation order
   differs from hand-off order), a user functor between them that performs another foreign micro-step *)
Example C06_foreign_add_nonvacuous :
  match run (init 1000) [Cb (CFNew 2000 (-1) 10); Cb (CFNew 1800 (-1) 20); Cb (CFEnq 20); Cb (CQueue [CFEnq 10; CTick 5]); RunPending] with
  | Ok (st, evs) => In (EAdd 1 10 2000 (-1)) evs /\ In (EAdd 2 20 1800 (-1)) evs /\ timers st = [(1800, 20)] /\
                    pending st = [PAdd 10] /\ inflight st = [] /\ armed st = Some 1800 /\
      match run st [RunPending; Cb (CTick 1000); Fire []] with
      | Ok (st2, ev2) => rlog ev2 = [(2, 1800, 2005); (1, 2000, 2005)] | _ => False end
  | _ => False end.
Proof. vm_compute. auto 10. Qed.

(* non-vacuity of C06_repeater_rescheduled with delta 0 (an interval below one microsecond): the repeater added
   under deadline 1500 runs once in the expiry at 1600, is filed under 1600, the timerfd is armed for 1700; an
   expiry at 1700 runs it again (filed under 1600), one at 1650 would be a stale dispatch *)
Example C06_zero_delta_nonvacuous :
  match run (init 1000) [Cb (CAdd 1500 0 10); Cb (CTick 600)] with
  | Ok (st, _) => In (1500, 10) (timers st) /\ hget 10 (heap st) = Some (mkT 1 1500 0) /\
      match fire st [] with
      | Ok (st', ev) => rlog ev = [(1, 1500, 1600)] /\ timers st' = [(1600, 10)] /\ armed st' = Some 1700 /\
          match run st' [Cb (CTick 100); Fire []] with Ok (_, ev2) => rlog ev2 = [(1, 1600, 1700)] | _ => False end
      | _ => False end
  | _ => False end.
Proof. vm_compute. auto 10. Qed.


(* ========================================================================================== *)
(* Cross-model links (appended; owner: the links, docs/Link.md section L2)                      *)
(* ========================================================================================== *)
(* "The loop stays armed for the earliest timer" (C06_armed_for_earliest) seen from the loop's
   poll.  Link_LoopTimer joins this model with C09's loop iteration (P = C09_Model, PQ =
   C09_Proofs, PP = C09_ProofsLoop; T = this file's C06_Model) by the timerfd contract as a
   definition: [due tq] = the timerfd is armed for an instant that has passed; [env_of w rd tq] =
   the environment the poll sees (eventfd counter w, timerfd readable iff due tq, other
   descriptors rd); [tq_reach tq] = tq is reached by some history of this file's model. *)
From Muduo Require Import Link_LoopTimer Link_Properties_L2b.

Theorem C06_link_defs : forall w rd tq,
  (due tq <-> exists x, T.armed tq = Some x /\ x <= T.clk tq) /\
  (tq_reach tq <-> exists c ops evs, T.run (T.init c) ops = T.Ok (tq, evs)) /\
  floor_val = TimerQueue_floor_val /\
  P.k_wake (env_of w rd tq) = w /\ P.k_rd (env_of w rd tq) = rd /\
  ((0 < P.k_texp (env_of w rd tq))%N <-> due tq).
Proof.
  exact (fun w rd tq =>
    match L2_timer_defs tq 0%nat [] with
    | conj a (conj b (conj c _)) => conj a (conj b (conj c (conj eq_refl (conj eq_refl (env_of_texp w rd tq)))))
    end).
Qed.
Print Assumptions C06_link_defs.

(* With a timer registered the loop cannot sleep past it.  In any combined state (epoll poller
   reached by any history, the loop's wake-up and timer channels registered, functor queue p under
   the queue invariant, timer queue reached by any history of this model): if the next poll blocks,
   the timerfd IS armed, for an instant later than now and no later than
   max(earliest deadline, last arming + 100 us floor) - the kernel ends the block by then; and a
   registered timer whose deadline has passed (the floor since the last arming too) keeps the poll
   from blocking at all. *)
Theorem C06_registered_timer_keeps_poll_from_blocking : forall st sp wc tc wfd tfd w rd (p : list nat) tq,
  PQ.reachEC st sp -> PP.loop_channels sp wc tc wfd tfd -> (p <> [] -> (0 < w)%N) -> tq_reach tq ->
  let blocks := P.ep_full st (P.env_ready wfd tfd (env_of w rd tq)) = [] in
  (blocks -> forall d a r, T.timers tq = (d, a) :: r ->
     exists x, T.armed tq = Some x /\ T.clk tq < x <= Z.max d (T.arm_at tq + floor_val)) /\
  (forall d a, In (d, a) (T.timers tq) -> d <= T.clk tq -> T.arm_at tq + floor_val <= T.clk tq ->
     ~ blocks).
Proof. exact L2b_registered_timer_bounds_the_poll. Qed.
Print Assumptions C06_registered_timer_keeps_poll_from_blocking.

(* what C09's iteration assumes of the timer channel's read callback (unread expirations := 0) is
   what handleRead does here: readTimerfd consumes a due arming, and at the end of handleRead a
   registered timer means the timerfd is armed for a later instant (not readable) *)
Theorem C06_timer_read_agrees_with_loop_model : forall tq script tq' ev,
  (due tq -> T.armed (T.consume tq) = None) /\
  (tq_reach tq -> T.fire tq script = T.Ok (tq', ev) -> T.timers tq' <> [] -> ~ due tq').
Proof. exact L2b_timer_read_agrees. Qed.
Print Assumptions C06_timer_read_agrees_with_loop_model.

(* non-vacuity: the loop's constructor state with one timer (deadline 5000, added at clock 1000):
   the poll blocks, the timerfd is armed for a later instant; 5 ms later the timerfd is due *)
Example C06_link_ex_blocked : exists st sp tq,
  PQ.reachEC st sp /\ PP.loop_channels sp 1 0 4 3 /\ tq_reach tq /\ T.timers tq <> [] /\
  P.ep_full st (P.env_ready 4 3 (env_of 0 (fun _ => 0%N) tq)) = [] /\
  exists x, T.armed tq = Some x /\ T.clk tq < x.
Proof. exact l2_ex_blocked. Qed.
Example C06_link_ex_due : exists tq, tq_reach tq /\ due tq /\ T.timers tq <> [].
Proof. exact l2_ex_due. Qed.
