(* Properties_C06: timers never fire early, the two timer sets agree, the timerfd stays armed for the
   earliest pending deadline, no assertion fails / no dead Timer is dereferenced -- for ALL op lists
   (adds, cancels, clock ticks, expiries with arbitrary callback scripts, foreign-thread adds/cancels
   and doPendingFunctors batches, with arbitrary -- also reused -- allocator addresses).
   Only statements closed by [exact].  The model (C06_Model, TimerModel) is tied to
   muduo/net/TimerQueue.cc by the correspondence check (bin/check C06) and by the regenerated
   facts (Gen_C06: the two literals of the 100 us floor, the getExpired sentinel; Gen_Consts:
   kMicroSecondsPerSecond).
   NOT proved here (tied by the oracle of the correspondence check only, see docs/C06.md):
   C06_oneshot_exactly_once, C06_repeat_spacing, C06_deadline_order, C06_progress. *)
From Coq Require Import List ZArith Lia Bool.
From Muduo Require Import Gen_Consts Gen_C06 C06_Model C06_Proofs.
Import ListNotations.
Local Open Scope Z_scope.

(* A callback runs in an expiry batch only if the deadline it was filed under is <= the instant the
   batch sampled (TimerQueue::handleRead's `now`); callbacks run after that instant. *)
Theorem C06_never_early : forall c ops st evs, run (init c) ops = Ok (st, evs) ->
  forall s dl now t, In (ERun s dl now t) evs -> dl <= now.
Proof. exact never_early. Qed.
Print Assumptions C06_never_early.

(* timers_ and activeTimers_ hold the same timers, no duplicates, same size (the code asserts it),
   and every entry points to a live Timer object carrying that deadline / sequence. *)
Theorem C06_sets_agree : forall c ops st evs, run (init c) ops = Ok (st, evs) ->
  length (timers st) = length (active st) /\ NoDup (timers st) /\ NoDup (active st) /\
  (forall a s, In (a, s) (active st) <->
               exists o, hget a (heap st) = Some o /\ o_seq o = s /\ In (o_exp o, a) (timers st)) /\
  (forall d a, In (d, a) (timers st) ->
               exists o, hget a (heap st) = Some o /\ o_exp o = d /\ In (a, o_seq o) (active st)).
Proof. exact sets_agree. Qed.
Print Assumptions C06_sets_agree.

(* After every op: if a timer is pending, the head of timers_ is the earliest deadline and the
   timerfd is armed (expiration not yet consumed) for an instant no later than
   max(earliest deadline, arm instant + floor). *)
Theorem C06_armed_for_earliest : forall c ops st evs, run (init c) ops = Ok (st, evs) ->
  forall d a r, timers st = (d, a) :: r ->
  (forall k, In k (timers st) -> d <= fst k) /\
  exists x, armed st = Some x /\ x <= Z.max d (arm_at st + TimerQueue_floor_val).
Proof. exact armed_for_earliest. Qed.
Print Assumptions C06_armed_for_earliest.

(* No op list makes an assert of TimerQueue.cc fail or dereferences a dead Timer. *)
Theorem C06_no_assert_fails : forall c ops, run (init c) ops <> Fault.
Proof. exact no_fault. Qed.
Print Assumptions C06_no_assert_fails.

(* the generated facts the proofs rest on (re-checked against the current sources on every run) *)
Theorem C06_generated_floor : 0 < TimerQueue_floor_val /\ 0 < TimerQueue_floor_cmp /\
  TimerQueue_floor_is_lt = true /\ TimerQueue_getExpired_sentry_is_now = true /\ 0 < K.
Proof. exact (conj gen_floor_val_pos (conj gen_floor_cmp_pos (conj gen_floor_is_lt (conj gen_sentry_is_now gen_K_pos)))). Qed.
Print Assumptions C06_generated_floor.

(* non-vacuity: a program with equal deadlines, a repeater, a nested add with a past deadline, a
   sibling cancel and a foreign add runs without rejection and produces runs *)
Definition ex_ops : list op :=
  [Cb (CAdd 1500 0 20); Cb (CAdd 1500 0 10); Cb (CAdd 1100 200 30); Cb (CTick 500);
   Fire [[CCancel 20 1; CAdd 1400 0 40]; [CTick 10]; []]; Fire []; Cb (CFAdd 9000 0 50); RunPending;
   Cb (CCancel 30 3); Cb (CAdd 1600 0 30); Cb (CCancel 30 3); Cb (CTick 100); Fire []].
Example C06_nonvacuous :
  match run (init 1000) ex_ops with
  | Ok (st, evs) => (length (filter (fun e => match e with ERun _ _ _ _ => true | _ => false end) evs) = 5)%nat
                    /\ length (timers st) = 1%nat /\ armed st = Some 9000
  | _ => False
  end.
Proof. vm_compute. auto. Qed.
