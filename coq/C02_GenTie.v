(* C02_GenTie: the structure facts regenerated from the current sources (Gen_C02.v, lib/gen_C02.py)
   against what C02_Model builds in.  Each lemma is [reflexivity] on the generated boolean: a
   changed hand-over in TcpServer.cc / TcpClient.cc / EPollPoller.cc / Socket.cc / Channel.cc
   breaks it directly. *)
From Coq Require Import Bool List Arith Lia.
From Muduo Require Import Conn_Model Gen_C02 C02_Model C02_SysProofs.
Import ListNotations.

(* C02_Model.accept: io = 0 -> establish inline, else enq ... (TEstablish c)  = runInLoop on the io loop *)
Lemma tie_server_establish_runInLoop : server_establish_runInLoop = true. Proof. reflexivity. Qed.
(* C02_Model.close_cb CbServer: thr = 0 -> remove_in_loop inline, else enq s 0 (TRemove c)  = runInLoop on the acceptor loop *)
Lemma tie_server_remove_hop_runInLoop : server_remove_hop_runInLoop = true. Proof. reflexivity. Qed.
(* C02_Model.remove_in_loop: always enq ... (TDestroy c), never inline  = queueInLoop *)
Lemma tie_server_destroy_queueInLoop : server_destroy_queueInLoop = true. Proof. reflexivity. Qed.
(* C02_Model.srv_destroy_from: k_loop = 0 -> connect_destroyed inline, else enq  = runInLoop *)
Lemma tie_server_dtor_runInLoop : server_dtor_runInLoop = true. Proof. reflexivity. Qed.
(* C02_Model.close_cb CbClient / CbDetail: always enq ... (TDestroy c)  = queueInLoop *)
Lemma tie_client_remove_queueInLoop : client_remove_queueInLoop = true. Proof. reflexivity. Qed.
Lemma tie_detail_remove_queueInLoop : detail_remove_queueInLoop = true. Proof. reflexivity. Qed.
(* C02_Model.cli_connect: establish inline *)
Lemma tie_client_establish_direct : client_establish_direct = true. Proof. reflexivity. Qed.
(* C02_Model.cli_destroy: unique := holders = 1 is evaluated on the state BEFORE the local copy exists *)
Lemma tie_client_unique_before_copy : client_unique_before_copy = true. Proof. reflexivity. Qed.
Lemma tie_client_dtor_forceClose : client_dtor_forceClose = true. Proof. reflexivity. Qed.
(* C02_Model.kill: the destructor is the only source of close(fd) and always closes *)
Lemma tie_socket_dtor_closes : socket_dtor_closes = true. Proof. reflexivity. Qed.
(* C02_Model.ev_step: an event is dispatched only to a live connection (tie_.lock()) *)
Lemma tie_channel_event_locks_tie : channel_event_locks_tie = true. Proof. reflexivity. Qed.
(* the poller variant of the current sources: init_sys _ epoll_registers_empty_interest; since the fix
   of F-15 a channel whose interest is empty is not put into the epoll set *)
Lemma tie_epoll_registers_empty_interest : epoll_registers_empty_interest = false. Proof. reflexivity. Qed.

(* ---- the pool's tear-down (C02_Model.step SrvDestroy / EndBatch of a quitting loop) ------------------------------------
   SrvDestroy: after the hand-offs, set_stop 1 = ~TcpServer's members die, threadPool_ among them (server_owns_pool), and
   ~EventLoopThread stores quit_ and joins (loopthread_dtor_quits_then_joins); ~TcpServer does not wait for the hand-offs
   (server_dtor_waits_for_handoffs = false).  EndBatch of a quitting loop = the exit: `while (!quit_)` is evaluated right
   after a drain (loop_drain_ends_iteration) and nothing drains pendingFunctors_ afterwards (loop_drains_after_while = false):
   the queue is dropped.  A repair of EventLoop::loop() / ~TcpServer flips one of these facts and breaks the lemma. *)
Lemma tie_loop_drains_after_while : loop_drains_after_while = false. Proof. reflexivity. Qed.
Lemma tie_loop_drain_ends_iteration : loop_drain_ends_iteration = true. Proof. reflexivity. Qed.
Lemma tie_loopthread_dtor_quits_then_joins : loopthread_dtor_quits_then_joins = true. Proof. reflexivity. Qed.
Lemma tie_server_dtor_waits_for_handoffs : server_dtor_waits_for_handoffs = false. Proof. reflexivity. Qed.
Lemma tie_server_owns_pool : server_owns_pool = true. Proof. reflexivity. Qed.

(* ---- affinity of poller-event callbacks ----------------------------------------------------------------------------------
   C02_Model.ev_step DEFINES the thread of a poller event of connection c to be k_loop k.  What makes that the code's
   behaviour: (1) server_conn_on_next_loop: the loop recorded in the connection (TcpConnection::loop_, k_loop) is the one
   getNextLoop() returned and the one connectEstablished is handed to; (2) conn_channel_on_conn_loop: the connection's channel
   is constructed on that same loop; (3) channel_registers_with_its_loop: a channel registers with (and only with) the poller
   of its loop_, on that loop's thread; (4) loop_dispatches_own_poller: a loop's thread calls handleEvent exactly on the
   channels its own poller reported. *)
Lemma tie_server_conn_on_next_loop : server_conn_on_next_loop = true. Proof. reflexivity. Qed.
Lemma tie_conn_channel_on_conn_loop : conn_channel_on_conn_loop = true. Proof. reflexivity. Qed.
Lemma tie_channel_registers_with_its_loop : channel_registers_with_its_loop = true. Proof. reflexivity. Qed.
Lemma tie_loop_dispatches_own_poller : loop_dispatches_own_poller = true. Proof. reflexivity. Qed.

(* the model's side of (1): accept records in the new connection the loop it queues connectEstablished on (or runs it on) *)
Lemma accept_same_loop s s' o : accept s = Ok (s', o) ->
  let c := length (s_conns s) in
  exists k, getc s' c = Some k /\ k_st k <> Disconnected /\
    ((k_loop k = 0 /\ o = [OUp 0 c]) \/
     (k_loop k <> 0 /\ o = [] /\ forall v, getl s (k_loop k) = Some v -> exists v', getl s' (k_loop k) = Some v' /\ q_pend v' = q_pend v ++ [TEstablish c])).
Proof.
  unfold accept. destruct (negb (s_srv s) || s_dying s); [discriminate|].
  set (io := if s_nio s =? 0 then 0 else S (s_rr s)). set (rr := if s_nio s =? 0 then 0 else _).
  set (s1 := mkSys _ _ _ _ _ _ _ _ _ _ _). cbv zeta.
  assert (Hg : getc s1 (length (s_conns s)) = Some (fresh io CbServer)) by (unfold getc, s1; cbn [s_conns]; apply nth_app_new).
  assert (Hlt : length (s_conns s) < length (s_conns s1)) by (unfold s1; cbn [s_conns]; rewrite app_length; cbn; lia).
  destruct (io =? 0) eqn:E.
  - apply Nat.eqb_eq in E. unfold establish. rewrite Hg. cbn [fresh k_alive k_loop k_st negb cstate_eqb]. rewrite E. cbn [Nat.eqb negb].
    unfold emit. intros H. injection H as <- <-. eexists. split; [apply getc_put_eq, Hlt|].
    pose proof (chan_update_fields (s_readd s) (set_life (fresh 0 CbServer) Connected 1 0) false true) as F. cbv zeta in F.
    destruct F as (F1 & _ & _ & _ & _ & F6 & _). cbn [set_life fresh k_st k_loop k_wr k_ups k_downs] in *. rewrite F1, F6.
    split; [discriminate|]. left. split; reflexivity.
  - apply Nat.eqb_neq in E. unfold ret. intros H. injection H as <- <-. exists (fresh io CbServer).
    rewrite getc_enq. split; [exact Hg|]. split; [discriminate|]. right. cbn [fresh k_loop].
    split; [exact E|]. split; [reflexivity|]. intros v Hv. change (getl s io) with (getl s1 io) in Hv.
    rewrite (getl_enq_eq s1 io _ v Hv). eexists. split; [reflexivity|]. reflexivity.
Qed.

(* the model's side of (2)-(4), true by the definition of ev_step: every callback of a poller event of c carries k_loop of c *)
Lemma ev_step_thread strict s c e s' o : ev_step strict s c e = Ok (s', o) ->
  exists k, getc s c = Some k /\
  forall thr c', In (OUp thr c') o \/ In (ODown thr c') o \/ In (OMsg thr c') o -> c' = c /\ thr = k_loop k.
Proof.
  intros Hev. unfold ev_step in Hev. destruct (getc s c) as [k|] eqn:Hg; [|discriminate Hev]. exists k. split; [reflexivity|].
  destruct (negb _); [discriminate Hev|].
  assert (Hhc : handle_close s (k_loop k) c = Ok (s', o) ->
            forall thr c', In (OUp thr c') o \/ In (ODown thr c') o \/ In (OMsg thr c') o -> c' = c /\ thr = k_loop k).
  { clear Hev. unfold handle_close. rewrite Hg. destruct (negb (k_loop k =? k_loop k)); [discriminate|]. destruct (negb (k_closable k)); [discriminate|].
    unfold bind, emit. match goal with |- match close_cb ?x ?t ?y with _ => _ end = _ -> _ => destruct (close_cb x t y) as [[s2 o2]| |] eqn:Ec end; try discriminate.
    intros Hx. injection Hx as <- <-.
    assert (Ho2 : o2 = []).
    { unfold close_cb in Ec. destruct (getc (put s c _) c) as [k1|]; [|discriminate Ec]. destruct (k_ccb k1).
      - destruct (_ && _); [discriminate Ec|]. destruct (k_loop k =? 0); [|injection Ec as _ <-; reflexivity].
        unfold remove_in_loop in Ec. destruct (negb (s_srv _)); [discriminate Ec|]. destruct (negb _); [discriminate Ec|].
        destruct (getc (put s c _) c) as [k2|]; [|discriminate Ec]. destruct (negb (k_mapped k2)); [discriminate Ec|]. injection Ec as _ <-. reflexivity.
      - destruct (negb (s_cli _)); [discriminate Ec|]. destruct (negb _); [discriminate Ec|]. destruct (s_cliconn _) as [c'|]; [|discriminate Ec].
        destruct (negb (c' =? c)); [discriminate Ec|]. injection Ec as _ <-. reflexivity.
      - injection Ec as _ <-. reflexivity. }
    subst o2. cbn [app]. intros thr c' [Hi|[Hi|Hi]]; cbn in Hi; destruct Hi as [Hi|[]]; try discriminate Hi. injection Hi as <- <-. auto. }
  destruct e.
  - destruct (k_rd k); [|discriminate Hev]. unfold emit in Hev. injection Hev as <- <-.
    intros thr c' [Hi|[Hi|Hi]]; cbn in Hi; destruct Hi as [Hi|[]]; try discriminate Hi. injection Hi as <- <-. auto.
  - destruct (k_rd k); [|discriminate Hev]. destruct (_ && _); [discriminate Hev|]. apply (Hhc Hev).
  - destruct (k_rd k); [|discriminate Hev]. injection Hev as <- <-. intros thr c' [[]|[[]|[]]].
  - destruct (_ && _); [discriminate Hev|]. apply (Hhc Hev).
  - injection Hev as <- <-. intros thr c' [[]|[[]|[]]].
  - destruct (k_wr k); [|discriminate Hev]. destruct drained; injection Hev as <- <-; intros thr c' [[]|[[]|[]]].
Qed.
