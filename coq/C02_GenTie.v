(* C02_GenTie: the structure facts regenerated from the current sources (Gen_C02.v, lib/gen_C02.py)
   against what C02_Model builds in.  Each lemma is [reflexivity] on the generated boolean: a
   changed hand-over in TcpServer.cc / TcpClient.cc / EPollPoller.cc / Socket.cc / Channel.cc
   breaks it directly. *)
From Coq Require Import Bool.
From Muduo Require Import Gen_C02 C02_Model.

(* C02_Model.accept: io = 0 -> establish inline, else enq ... (TEstablish c)  = runInLoop on the io loop *)
Lemma tie_server_establish_runInLoop : server_establish_runInLoop = true. Proof. reflexivity. Qed.
(* C02_Model.close_cb CbServer: thr = 0 -> remove_in_loop inline, else enq s 0 (TRemove c)  = runInLoop on the acceptor loop *)
Lemma tie_server_remove_hop_runInLoop : server_remove_hop_runInLoop = true. Proof. reflexivity. Qed.
(* C02_Model.remove_in_loop: always enq ... (TDestroy c), never inline  = queueInLoop *)
Lemma tie_server_destroy_queueInLoop : server_destroy_queueInLoop = true. Proof. reflexivity. Qed.
(* C02_Model.srv_destroy_from: k_loop = 0 -> connect_destroyed inline, else enq  = runInLoop *)
Lemma tie_server_dtor_runInLoop : server_dtor_runInLoop = true. Proof. reflexivity. Qed.
(* C02_Model.close_cb CbClient / CbDetail: always enq ... (TDestroy c)  = queueInLoop *)
Lemma tie_client_remove_queueInLoop : client_remove_queueInLoop = true. Proof. reflexivity. Qed.
Lemma tie_detail_remove_queueInLoop : detail_remove_queueInLoop = true. Proof. reflexivity. Qed.
(* C02_Model.cli_connect: establish inline *)
Lemma tie_client_establish_direct : client_establish_direct = true. Proof. reflexivity. Qed.
(* C02_Model.cli_destroy: unique := holders = 1 is evaluated on the state BEFORE the local copy exists *)
Lemma tie_client_unique_before_copy : client_unique_before_copy = true. Proof. reflexivity. Qed.
Lemma tie_client_dtor_forceClose : client_dtor_forceClose = true. Proof. reflexivity. Qed.
(* C02_Model.kill: the destructor is the only source of close(fd) and always closes *)
Lemma tie_socket_dtor_closes : socket_dtor_closes = true. Proof. reflexivity. Qed.
(* C02_Model.ev_step: an event is dispatched only to a live connection (tie_.lock()) *)
Lemma tie_channel_event_locks_tie : channel_event_locks_tie = true. Proof. reflexivity. Qed.
(* the poller variant of the current sources: init_sys _ epoll_registers_empty_interest; since the fix
   of F-15 a channel whose interest is empty is not put into the epoll set *)
Lemma tie_epoll_registers_empty_interest : epoll_registers_empty_interest = false. Proof. reflexivity. Qed.
