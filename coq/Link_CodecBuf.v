(* Link_CodecBuf (L3 over L1): the decoder as message callback of the connection OVER TWO CONCRETE
   BUFFERS (Link_ConnBuf_Model).  handleRead = readFd with the kernel's answer; if it delivered
   something the message callback runs the decode loop on the readable bytes of inputBuffer_ and
   retrieves what it consumed (Buffer::retrieve on the real buffer); otherwise (end of file, read
   error) no callback.  Refines the machine of Link_CodecConn step by step (via L1), so the codec
   theorem holds of the real Buffer: the messages are the reference decoding of the received
   stream, the readable bytes of inputBuffer_ are the reference's rest.

   Names used: Link_ConnBuf_Model / Link_ConnBuf (L1), Link_CodecConn (L3), C18_Model (D),
   C10_Model (B), Conn_Proofs.{i_inbound, run_inv, init_inv}. *)
From Coq Require Import List ZArith Lia Bool Arith NArith.
From Coq.Strings Require Import Byte.
From Muduo Require C10_Model C10_Proofs C18_Model.
From Muduo Require Import Conn_Model Conn_Proofs Conn_Trace Link_ConnBuf_Model Link_ConnBuf Link_CodecConn.
Import ListNotations.

Section DecoderOnBuffers.
  Variables (St Ev : Type).
  Variable dstep : St -> list byte -> D.sres St Ev.

  Record kcst := mkKC { kc_conn : cconn; kc_dst : St; kc_ab : bool; kc_oof : bool }.

  Inductive kcop :=
  | KCOp (o : cop)            (* an op of the connection over buffers, but no read and no user retrieve *)
  | KCRead (kr : B.kres).     (* POLLIN -> handleRead: readFd with the kernel's answer kr *)

  Definition kcop_wf (o : kcop) : bool :=
    match o with
    | KCOp (COp (Retrieve _)) | KCOp (CRead _) | KCOp CRetrieveAll => false
    | KCOp o => cop_wf o
    | KCRead _ => true
    end.

  (* readFd returned n > 0 *)
  Definition delivers (c : cconn) (kr : B.kres) : bool :=
    0 <? length (B.delivered (B.readFd_capacity (ibuf c)) kr).

  Definition kc_step (k : kcst) (o : kcop) : res (kcst * list event * list Ev) :=
    match o with
    | KCOp o =>
        match c_step (kc_conn k) o with
        | Ok (c', e) => Ok (mkKC c' (kc_dst k) (kc_ab k) (kc_oof k), e, [])
        | Rejected => Rejected
        | Fault => Fault
        end
    | KCRead kr =>
        match c_step (kc_conn k) (CRead kr) with
        | Ok (c1, e1) =>
            if delivers (kc_conn k) kr then
              (* TcpConnection.cc:352-355: n > 0, messageCallback_(.., &inputBuffer_, ..) *)
              let (cevs, d') := on_message St Ev dstep (kc_dst k) (kc_ab k) (kc_oof k) (B.readable (ibuf c1)) in
              match c_step c1 (COp (Retrieve (B.readableBytes (ibuf c1) - length (D.d_buf d')))) with
              | Ok (c2, e2) => Ok (mkKC c2 (D.d_st d') (D.d_abandoned d') (D.d_oof d'), e1 ++ e2, cevs)
              | Rejected => Rejected
              | Fault => Fault
              end
            else Ok (mkKC c1 (kc_dst k) (kc_ab k) (kc_oof k), e1, [])
        | Rejected => Rejected
        | Fault => Fault
        end
    end.

  Fixpoint kc_run (k : kcst) (ops : list kcop) : res (kcst * list event * list Ev) :=
    match ops with
    | [] => Ok (k, [], [])
    | o :: rest =>
        match kc_step k o with
        | Ok (k1, e1, v1) =>
            match kc_run k1 rest with
            | Ok (k2, e2, v2) => Ok (k2, e1 ++ e2, v1 ++ v2)
            | Rejected => Rejected
            | Fault => Fault
            end
        | Rejected => Rejected
        | Fault => Fault
        end
    end.

  (* the abstraction to the machine of Link_CodecConn *)
  Definition kabs (k : kcst) : kst St := mkK (abs (kc_conn k)) (kc_dst k) (kc_ab k) (kc_oof k).
  Definition kabs_op (k : kcst) (o : kcop) : kop :=
    match o with
    | KCOp o => KOp (abs_op (kc_conn k) o)
    | KCRead kr =>
        if delivers (kc_conn k) kr
        then KRead (B.delivered (B.readFd_capacity (ibuf (kc_conn k))) kr)
        else KOp (abs_op (kc_conn k) (CRead kr))
    end.
  Fixpoint kabs_ops (k : kcst) (ops : list kcop) : list kop :=
    match ops with
    | [] => []
    | o :: rest => kabs_op k o :: match kc_step k o with Ok (k', _, _) => kabs_ops k' rest | _ => [] end
    end.

  Lemma kabs_op_wf k o : kcop_wf o = true -> kop_wf (kabs_op k o) = true.
  Proof.
    destruct o as [o|kr]; cbn [kcop_wf kabs_op].
    - destruct o as [o| |]; try discriminate. cbn [abs_op]. destruct o; cbn; congruence.
    - intros _. unfold delivers. destruct kr as [avail|z]; cbn [B.delivered abs_op]; [|reflexivity].
      destruct (firstn (B.readFd_capacity (ibuf (kc_conn k))) avail); reflexivity.
  Qed.

  Lemma abs_op_read_delivers c kr : delivers c kr = true ->
    abs_op c (CRead kr) = EvReadData (B.delivered (B.readFd_capacity (ibuf c)) kr).
  Proof.
    unfold delivers. destruct kr as [avail|z]; cbn [B.delivered abs_op].
    - intros ->. reflexivity.
    - cbn. discriminate.
  Qed.

  Theorem kc_step_refines k o : bufs_ok (kc_conn k) -> kcop_wf o = true ->
    match kc_step k o with
    | Ok (k', e, v) => k_step St Ev dstep (kabs k) (kabs_op k o) = Ok (kabs k', e, v) /\ bufs_ok (kc_conn k')
    | Rejected => k_step St Ev dstep (kabs k) (kabs_op k o) = Rejected
    | Fault => k_step St Ev dstep (kabs k) (kabs_op k o) = Fault
    end.
  Proof.
    intros Hb Hwf. destruct k as [c s ab oof]. cbn [kc_conn kc_dst kc_ab kc_oof] in *.
    destruct o as [o|kr]; cbn [kc_step kabs_op kc_conn kc_dst kc_ab kc_oof].
    - assert (Hw : cop_wf o = true).
      { cbn [kcop_wf] in Hwf. destruct o as [o| |]; try discriminate. destruct o; try discriminate; exact Hwf. }
      pose proof (c_step_refines c o Hb Hw) as H. cbn [k_step kabs k_conn k_dst k_ab k_oof kc_conn kc_dst kc_ab kc_oof].
      destruct (c_step c o) as [[c' e]| |]; [destruct H as [-> Hb']; auto|rewrite H; reflexivity|rewrite H; reflexivity].
    - pose proof (c_step_refines c (CRead kr) Hb eq_refl) as H.
      destruct (delivers c kr) eqn:Ed.
      + rewrite (abs_op_read_delivers c kr Ed) in H.
        cbn [k_step kabs k_conn k_dst k_ab k_oof kc_conn kc_dst kc_ab kc_oof].
        destruct (c_step c (CRead kr)) as [[c1 e1]| |]; [|rewrite H; reflexivity|rewrite H; reflexivity].
        destruct H as [-> Hb1].
        change (inb (abs c1)) with (B.readable (ibuf c1)).
        destruct (on_message St Ev dstep s ab oof (B.readable (ibuf c1))) as [cevs d'].
        destruct (abs_backlog c1 Hb1) as [_ Hlen]. change (inb (abs c1)) with (B.readable (ibuf c1)) in Hlen.
        rewrite Hlen.
        pose proof (c_step_refines c1 (COp (Retrieve (B.readableBytes (ibuf c1) - length (D.d_buf d')))) Hb1 eq_refl) as H2.
        cbn [abs_op] in H2.
        destruct (c_step c1 (COp (Retrieve (B.readableBytes (ibuf c1) - length (D.d_buf d'))))) as [[c2 e2]| |];
          [destruct H2 as [-> Hb2]; auto|rewrite H2; reflexivity|rewrite H2; reflexivity].
      + cbn [k_step kabs k_conn k_dst k_ab k_oof kc_conn kc_dst kc_ab kc_oof].
        destruct (c_step c (CRead kr)) as [[c1 e1]| |]; [destruct H as [-> Hb1]; auto|rewrite H; reflexivity|rewrite H; reflexivity].
  Qed.

  Theorem kc_run_refines ops : forall k, bufs_ok (kc_conn k) -> forallb kcop_wf ops = true ->
    match kc_run k ops with
    | Ok (k', e, v) =>
        k_run St Ev dstep (kabs k) (kabs_ops k ops) = Ok (kabs k', e, v) /\ bufs_ok (kc_conn k') /\
        forallb kop_wf (kabs_ops k ops) = true
    | Rejected => k_run St Ev dstep (kabs k) (kabs_ops k ops) = Rejected
    | Fault => k_run St Ev dstep (kabs k) (kabs_ops k ops) = Fault
    end.
  Proof.
    induction ops as [|o rest IH]; intros k Hb Hwf.
    - cbn. auto.
    - cbn [forallb] in Hwf. apply andb_true_iff in Hwf as [Hwo Hwr].
      cbn [kc_run kabs_ops k_run forallb]. pose proof (kc_step_refines k o Hb Hwo) as Hs.
      destruct (kc_step k o) as [[[k1 e1] v1]| |].
      + destruct Hs as [Hs Hb1]. rewrite Hs. specialize (IH k1 Hb1 Hwr).
        destruct (kc_run k1 rest) as [[[k2 e2] v2]| |].
        * destruct IH as (-> & Hb2 & Hw2). rewrite (kabs_op_wf k o Hwo), Hw2. auto.
        * rewrite IH. reflexivity.
        * rewrite IH. reflexivity.
      + rewrite Hs. reflexivity.
      + rewrite Hs. reflexivity.
  Qed.
End DecoderOnBuffers.

Arguments mkKC {St} kc_conn kc_dst kc_ab kc_oof.
Arguments kc_conn {St} k.
Arguments kc_dst {St} k.
Arguments kc_ab {St} k.
Arguments kc_oof {St} k.

(* HEADLINE (codec over the real Buffer).  ProtobufCodecLite::onMessage on a TcpConnection whose
   inputBuffer_ is a concrete Buffer, fed by readFd: for every history (any kernel answers to readv
   - any split, end of file, errors - any other ops in between) the codec's events are the
   reference decoding of the byte stream received so far, the readable bytes of inputBuffer_ are
   the reference's unconsumed rest, and no Buffer precondition is violated on the way (the history
   is Ok by hypothesis; it never Faults by L1). *)
Theorem codec_on_real_buffers (msg : Type) (parse : list byte -> option msg) (tag : list byte)
    mark wc hw ops k e v :
  forallb kcop_wf ops = true ->
  kc_run unit (D.cevent msg) (D.cstep msg parse tag) (mkKC (c_init mark wc hw) tt false false) ops = Ok (k, e, v) ->
  let s := delivered (ctl (kc_conn k)) in
  consumed (ctl (kc_conn k)) ++ B.readable (ibuf (kc_conn k)) = s /\
  (let '(ms, er, rest) := D.ref_decode msg parse tag (S (length s)) s in
   v = map (@D.CMsg msg) ms ++ (match er with Some x => [@D.CErr msg x] | None => [] end) /\
   B.readable (ibuf (kc_conn k)) = rest /\
   kc_ab k = (match er with Some _ => true | None => false end) /\ kc_oof k = false).
Proof.
  intros Hwf H s.
  pose proof (kc_run_refines unit (D.cevent msg) (D.cstep msg parse tag) ops
                (mkKC (c_init mark wc hw) tt false false) (c_init_ok mark wc hw) Hwf) as Hr.
  rewrite H in Hr. destruct Hr as (Hk & _ & Hw).
  unfold kabs in Hk. cbn [kc_conn kc_dst kc_ab kc_oof] in Hk. rewrite abs_c_init in Hk.
  pose proof (codec_on_connection msg parse tag mark wc hw _ _ _ _ Hw Hk) as Hc.
  cbv zeta in Hc. cbn [k_conn k_ab k_oof] in Hc. destruct Hc as (_ & Hcons & Hdec).
  split; [exact Hcons|exact Hdec].
Qed.

Theorem codec_on_real_buffers_no_fault (msg : Type) (parse : list byte -> option msg) (tag : list byte)
    mark wc hw ops :
  forallb kcop_wf ops = true ->
  kc_run unit (D.cevent msg) (D.cstep msg parse tag) (mkKC (c_init mark wc hw) tt false false) ops <> Fault.
Proof.
  intros Hwf E.
  pose proof (kc_run_refines unit (D.cevent msg) (D.cstep msg parse tag) ops
                (mkKC (c_init mark wc hw) tt false false) (c_init_ok mark wc hw) Hwf) as Hr.
  rewrite E in Hr. unfold kabs in Hr. cbn [kc_conn kc_dst kc_ab kc_oof] in Hr. rewrite abs_c_init in Hr.
  pose proof (k_run_is_conn_run unit (D.cevent msg) (D.cstep msg parse tag)) as Hc.
  (* a Fault of the k-machine is a Fault of the underlying Conn_Model run *)
  revert Hr. generalize (kabs_ops unit (D.cevent msg) (D.cstep msg parse tag) (mkKC (c_init mark wc hw) tt false false) ops).
  intros kops. assert (HI : Inv (k_conn (mkK (init mark wc hw) tt false false))) by apply init_inv.
  revert HI. generalize (mkK (init mark wc hw) tt false false). clear.
  induction kops as [|o rest IH]; intros k0 HI Hr; cbn [k_run] in Hr; [discriminate|].
  destruct (k_step unit (D.cevent msg) (D.cstep msg parse tag) k0 o) as [[[k1 e1] v1]| |] eqn:E1; try discriminate.
  - destruct (k_run unit (D.cevent msg) (D.cstep msg parse tag) k1 rest) as [[[k2 e2] v2]| |] eqn:E2; try discriminate.
    apply (IH k1); [|exact E2].
    pose proof (k_run_is_conn_run unit (D.cevent msg) (D.cstep msg parse tag) [o] k0 k1 e1 v1) as Hc.
    cbn [k_run] in Hc. rewrite E1, !app_nil_r in Hc. specialize (Hc eq_refl).
    eapply run_inv; [exact HI|exact Hc].
  - destruct o as [o|chunk]; cbn [k_step] in E1.
    + destruct (step (k_conn k0) o) as [[c' e']| |] eqn:Es; try discriminate. exact (no_fault _ _ HI Es).
    + destruct (step (k_conn k0) (EvReadData chunk)) as [[c1 ea]| |] eqn:Es1; try discriminate;
        [|exact (no_fault _ _ HI Es1)].
      destruct (on_message unit (D.cevent msg) (D.cstep msg parse tag) (k_dst k0) (k_ab k0) (k_oof k0) (inb c1)) as [cevs d'].
      destruct (step c1 _) as [[c2 eb]| |] eqn:Es2; try discriminate.
      exact (no_fault _ _ (step_inv _ _ _ _ HI Es1) Es2).
Qed.
