(* Base_Bytes: bytes as numbers, big-endian two's-complement encodings of
   fixed width, list helpers shared by the Buffer / codec / address models. *)
From Coq Require Import List ZArith Lia Bool Arith NArith.
From Coq.Strings Require Import Byte.
Import ListNotations.
Local Open Scope Z_scope.

Definition Z_of_byte (b : byte) : Z := Z.of_N (Byte.to_N b).

Definition byte_of_Z (z : Z) : byte :=
  match Byte.of_N (Z.to_N z) with Some b => b | None => x00 end.

(* stable names for the extraction glue (extract/util.ml) *)
Definition xbyte_of_N (x : N) : byte :=
  match Byte.of_N x with Some b => b | None => x00 end.
Definition xN_of_byte (b : byte) : N := Byte.to_N b.
(* forces nat, positive, N and Z into every extraction, as extract/util.ml expects them *)
Definition xanchor (z : Z) (n : N) (k : nat) : Z := z + Z.of_N n + Z.of_nat k.

Lemma Z_of_byte_range b : 0 <= Z_of_byte b < 256.
Proof.
  unfold Z_of_byte. pose proof (Byte.to_N_bounded b) as H. lia.
Qed.

Lemma byte_of_Z_of_byte b : byte_of_Z (Z_of_byte b) = b.
Proof.
  unfold byte_of_Z, Z_of_byte. rewrite N2Z.id, Byte.of_to_N. reflexivity.
Qed.

Lemma Z_of_byte_of_Z z : 0 <= z < 256 -> Z_of_byte (byte_of_Z z) = z.
Proof.
  intros Hz. unfold byte_of_Z, Z_of_byte.
  destruct (Byte.of_N (Z.to_N z)) as [b|] eqn:E.
  - apply Byte.to_of_N in E. rewrite E. lia.
  - apply Byte.of_N_None_iff in E. lia.
Qed.

(* ---- big-endian, fixed width ------------------------------------------- *)

(* n bytes, most significant first, of x modulo 256^n (so negative x are
   encoded in two's complement). *)
Fixpoint be_encode (n : nat) (x : Z) : list byte :=
  match n with
  | O => []
  | S n' => be_encode n' (x / 256) ++ [byte_of_Z (x mod 256)]
  end.

Definition be_decode (l : list byte) : Z :=
  fold_left (fun acc b => acc * 256 + Z_of_byte b) l 0.

(* interpretation of an unsigned n-byte value as signed two's complement *)
Definition to_signed (n : nat) (u : Z) : Z :=
  if u <? 256 ^ Z.of_nat n / 2 then u else u - 256 ^ Z.of_nat n.

Definition be_decode_signed (l : list byte) : Z :=
  to_signed (length l) (be_decode l).

Lemma be_encode_length n x : length (be_encode n x) = n.
Proof.
  revert x; induction n as [|n IH]; intros x; cbn [be_encode]; [reflexivity|].
  rewrite app_length, IH. cbn. lia.
Qed.

Lemma be_decode_app l b :
  be_decode (l ++ [b]) = be_decode l * 256 + Z_of_byte b.
Proof. unfold be_decode. rewrite fold_left_app. reflexivity. Qed.

Lemma be_decode_range l : 0 <= be_decode l < 256 ^ Z.of_nat (length l).
Proof.
  induction l as [|b l IH] using rev_ind.
  - cbn. lia.
  - rewrite be_decode_app, app_length. cbn [length].
    replace (Z.of_nat (length l + 1)) with (Z.of_nat (length l) + 1) by lia.
    rewrite Z.pow_add_r by lia. pose proof (Z_of_byte_range b). lia.
Qed.

Lemma be_decode_encode n x : be_decode (be_encode n x) = x mod 256 ^ Z.of_nat n.
Proof.
  revert x; induction n as [|n IH]; intros x.
  - cbn. rewrite Z.mod_1_r. reflexivity.
  - cbn [be_encode]. rewrite be_decode_app, IH.
    rewrite Z_of_byte_of_Z by (apply Z.mod_pos_bound; lia).
    replace (Z.of_nat (S n)) with (1 + Z.of_nat n) by lia.
    rewrite Z.pow_add_r by lia. change (256 ^ 1) with 256.
    assert (Hp : 0 < 256 ^ Z.of_nat n) by (apply Z.pow_pos_nonneg; lia).
    rewrite (Z.rem_mul_r x 256 (256 ^ Z.of_nat n)) by lia. lia.
Qed.

Lemma be_encode_decode l : be_encode (length l) (be_decode l) = l.
Proof.
  induction l as [|b l IH] using rev_ind; [reflexivity|].
  rewrite app_length. cbn [length]. rewrite Nat.add_1_r. cbn [be_encode].
  rewrite be_decode_app. pose proof (Z_of_byte_range b) as Hb.
  assert (Hd : (be_decode l * 256 + Z_of_byte b) / 256 = be_decode l)
    by (Z.div_mod_to_equations; lia).
  assert (Hm : (be_decode l * 256 + Z_of_byte b) mod 256 = Z_of_byte b)
    by (Z.div_mod_to_equations; lia).
  rewrite Hd, Hm.
  rewrite IH, byte_of_Z_of_byte. reflexivity.
Qed.

Definition signed_range (n : nat) (x : Z) : Prop :=
  - (256 ^ Z.of_nat n / 2) <= x < 256 ^ Z.of_nat n / 2.

Lemma pow256_even n : (0 < n)%nat -> 256 ^ Z.of_nat n = 2 * (256 ^ Z.of_nat n / 2).
Proof.
  intros Hn. destruct n as [|n]; [lia|].
  replace (Z.of_nat (S n)) with (1 + Z.of_nat n) by lia.
  rewrite Z.pow_add_r by lia. change (256 ^ 1) with (2 * 128).
  rewrite <- Z.mul_assoc, (Z.mul_comm 2), Z.div_mul by lia. lia.
Qed.

Theorem be_signed_roundtrip n x :
  (0 < n)%nat -> signed_range n x ->
  be_decode_signed (be_encode n x) = x.
Proof.
  intros Hn [Hlo Hhi]. unfold be_decode_signed, to_signed.
  rewrite be_encode_length, be_decode_encode.
  pose proof (pow256_even n Hn) as He.
  set (M := 256 ^ Z.of_nat n) in *. set (H := M / 2) in *.
  assert (HM : 0 < M) by (apply Z.pow_pos_nonneg; lia).
  destruct (Z.ltb_spec (x mod M) H) as [Hlt|Hge].
  - destruct (Z.neg_nonneg_cases x) as [Hneg|Hpos].
    + (* x < 0 : x mod M = x + M >= H, contradiction *)
      assert (x mod M = x + M).
      { symmetry. apply Z.mod_unique_pos with (q := -1); lia. }
      lia.
    + apply Z.mod_small. lia.
  - destruct (Z.neg_nonneg_cases x) as [Hneg|Hpos].
    + assert (x mod M = x + M).
      { symmetry. apply Z.mod_unique_pos with (q := -1); lia. }
      lia.
    + rewrite Z.mod_small in Hge by lia. lia.
Qed.

Theorem be_unsigned_roundtrip n x :
  0 <= x < 256 ^ Z.of_nat n -> be_decode (be_encode n x) = x.
Proof. intros H. rewrite be_decode_encode. apply Z.mod_small. exact H. Qed.

(* ---- list helpers -------------------------------------------------------- *)

Section ListHelpers.
  Context {A : Type}.

  Lemma firstn_app_exact (l1 l2 : list A) : firstn (length l1) (l1 ++ l2) = l1.
  Proof.
    rewrite firstn_app, Nat.sub_diag, firstn_all. cbn. apply app_nil_r.
  Qed.

  Lemma skipn_app_exact (l1 l2 : list A) : skipn (length l1) (l1 ++ l2) = l2.
  Proof.
    rewrite skipn_app, Nat.sub_diag, skipn_all. reflexivity.
  Qed.

  Lemma skipn_add (n m : nat) (l : list A) : skipn n (skipn m l) = skipn (m + n) l.
  Proof.
    revert l; induction m as [|m IH]; intros l; [reflexivity|].
    destruct l as [|a l]; [rewrite !skipn_nil; reflexivity|].
    cbn [skipn Nat.add]. apply IH.
  Qed.

  Lemma firstn_skipn_split (n m : nat) (l : list A) :
    firstn (n + m) l = firstn n l ++ firstn m (skipn n l).
  Proof.
    revert l; induction n as [|n IH]; intros l; [reflexivity|].
    destruct l as [|a l]; [rewrite firstn_nil; cbn; rewrite firstn_nil; reflexivity|].
    cbn [firstn skipn Nat.add app]. f_equal. apply IH.
  Qed.
End ListHelpers.
