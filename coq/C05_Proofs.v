(* C05_Proofs, part 1: the quit flag of the LoopModel (C04_Model) over all reachable states:
   quit() always ends the loop, a quit() is never lost unless loop() resets quit_ on entry. *)
From Coq Require Import List Bool Arith Lia.
Import ListNotations.
From Muduo Require Import C04_Model C04_Proofs.

(* ---------------------------------------------------------------- history projections *)
Lemma qsr_app : forall a b acc, qsr (a ++ b) acc = qsr b (qsr a acc).
Proof. induction a as [|e a IH]; cbn; intros; [reflexivity|]. destruct e; apply IH. Qed.

Lemma returned_app : forall a b, returned (a ++ b) = returned a || returned b.
Proof. intros; apply existsb_app. Qed.

Lemma qsr_no_ret : forall l acc, returned l = false -> qsr l acc = acc || quit_called l.
Proof.
  induction l as [|e l IH]; cbn; intros acc H; [rewrite orb_false_r; reflexivity|].
  destruct e; cbn in *; try (apply IH; exact H); try discriminate.
  rewrite (IH true H). rewrite orb_true_r. reflexivity.
Qed.

Definition midquit (s : st) : bool := existsb head_is_qwake (fcode s).
(* the loop thread is inside the while loop of loop() *)
Definition active (p : lpc) : bool :=
  match p with LTest | LPoll | LHandle _ | LSwap | LRun _ => true | _ => false end.
(* position inside one iteration, counted backwards from the while test *)
Definition rank (p : lpc) : nat :=
  match p with LPoll => 5 | LHandle true => 4 | LHandle false => 3 | LSwap => 2 | LRun _ => 1 | _ => 0 end.

(* what one micro-operation does to the quit flag and the history *)
Lemma exec_mop_quit : forall sh scr who il m rest g g' c',
  exec_mop sh scr who il m rest g = (g', c') ->
  (m = MQuitStore /\ quit g' = true /\ log g' = log g ++ [EQuit who] /\ c' = MQuitWake :: rest /\ evfd g' = evfd g) \/
  (m <> MQuitStore /\ quit g' = quit g /\ quit_called (log g') = quit_called (log g) /\
   returned (log g') = returned (log g) /\ (forall acc, qsr (log g') acc = qsr (log g) acc) /\
   evfd g <= evfd g' /\
   (m = MQuitWake -> qwake sh il = true -> 0 < evfd g')).
Proof.
  intros sh scr who il m rest g g' c' H. unfold exec_mop in H.
  destruct m;
    [ | destruct (wake sh il (calling g) (looping g)) eqn:W | destruct il | | destruct (qwake sh il) eqn:W | ];
    injection H as <- <-; cbn [quit log evfd];
    try (left; repeat split; reflexivity);
    right; (split; [discriminate|]); unfold quit_called, returned;
    rewrite ?existsb_app; cbn [existsb]; rewrite ?orb_false_r;
    repeat split; intros; try rewrite qsr_app; cbn [qsr]; try reflexivity; try lia; try discriminate.
Qed.

(* ---------------------------------------------------------------- J1: the flag and the history *)
(* quit_ set => quit() was called;  loop() left / returned => quit() was called *)
Definition J1 (s : st) : Prop :=
  (quit (sg s) = true -> quit_called (log (sg s)) = true) /\
  (pc s = LExit \/ returned (log (sg s)) = true -> quit_called (log (sg s)) = true).

Lemma J1_step : forall sh scr s lab s', J1 s -> step sh scr s lab = Some s' -> J1 s'.
Proof.
  intros sh scr s lab s' [A B] H. unfold J1.
  destruct (step_cases _ _ _ _ _ H) as [(i & m & rest & g' & c' & -> & N & E & ->) |
                                        [(m & rest & g' & c' & -> & CC & LC & E & ->) | C]].
  - cbn [sg pc]. destruct (exec_mop_quit _ _ _ _ _ _ _ _ _ E) as [(-> & Q & L & _) | (_ & Q & QC & RT & _)].
    + assert (X : quit_called (log g') = true) by (rewrite L, quit_called_app; cbn; apply orb_true_r). tauto.
    + rewrite Q, QC, RT. tauto.
  - cbn [sg pc]. destruct (exec_mop_quit _ _ _ _ _ _ _ _ _ E) as [(-> & Q & L & _) | (_ & Q & QC & RT & _)].
    + assert (X : quit_called (log g') = true) by (rewrite L, quit_called_app; cbn; apply orb_true_r). tauto.
    + rewrite Q, QC, RT. tauto.
  - inversion C; subst; cbn [sg pc set_flags quit log]; rewrite ?quit_called_app, ?returned_app; cbn [quit_called returned existsb];
      rewrite ?orb_false_r;
      try (split; [try (destruct (resets_on_entry sh)); try (destruct (resets sh)); intros; try discriminate; auto|
                   intros [X|X]; try discriminate; auto]; fail).
Qed.

Lemma J1_reach : forall sh scr prefix later progs s, reach_t sh scr (init prefix later progs) s -> J1 s.
Proof.
  intros sh scr prefix later progs. apply reach_ind_inv.
  - split; cbn; intros; try discriminate. destruct H; discriminate.
  - intros; eapply J1_step; eauto.
Qed.

(* ---------------------------------------------------------------- J2: a quit() is not lost *)
(* unless loop() clears quit_ on entry: a quit_ stored since loop() last returned is still set *)
Definition J2 (s : st) : Prop := quit_since_ret (log (sg s)) = true -> quit (sg s) = true.

Lemma J2_step : forall sh scr s lab s', resets_on_entry sh = false -> J2 s -> step sh scr s lab = Some s' -> J2 s'.
Proof.
  intros sh scr s lab s' RE A H. unfold J2, quit_since_ret in *.
  destruct (step_cases _ _ _ _ _ H) as [(i & m & rest & g' & c' & -> & N & E & ->) |
                                        [(m & rest & g' & c' & -> & CC & LC & E & ->) | C]].
  - cbn [sg]. destruct (exec_mop_quit _ _ _ _ _ _ _ _ _ E) as [(-> & Q & _) | (_ & Q & _ & _ & QS & _)]; [auto|].
    rewrite Q, QS. exact A.
  - cbn [sg]. destruct (exec_mop_quit _ _ _ _ _ _ _ _ _ E) as [(-> & Q & _) | (_ & Q & _ & _ & QS & _)]; [auto|].
    rewrite Q, QS. exact A.
  - inversion C; subst; cbn [sg set_flags quit log]; rewrite ?qsr_app; cbn [qsr]; try exact A.
    + rewrite RE. exact A.
    + intros X; discriminate.
Qed.

Lemma J2_reach : forall sh scr prefix later progs s, resets_on_entry sh = false ->
  reach_t sh scr (init prefix later progs) s -> J2 s.
Proof.
  intros sh scr prefix later progs s RE. revert s. apply reach_ind_inv.
  - intros X; discriminate.
  - intros; eapply J2_step; eauto.
Qed.

(* ---------------------------------------------------------------- J3: quit() wakes the loop *)
(* quit_ set while the loop thread is in poll: the wake-up descriptor is readable or a foreign
   thread is between its store of quit_ and its wakeup() *)
Definition J3 (s : st) : Prop :=
  quit (sg s) = true -> pc s = LPoll -> 0 < evfd (sg s) \/ midquit s = true.

Lemma J3_step : forall sh scr s lab s', qwake_ok sh = true -> J3 s -> step sh scr s lab = Some s' -> J3 s'.
Proof.
  intros sh scr s lab s' QW A H. unfold J3, midquit in *.
  destruct (step_cases _ _ _ _ _ H) as [(i & m & rest & g' & c' & -> & N & E & ->) |
                                        [(m & rest & g' & c' & -> & CC & LC & E & ->) | C]].
  - cbn [sg pc fcode]. intros Q P.
    destruct (exec_mop_quit _ _ _ _ _ _ _ _ _ E) as [(-> & _ & _ & -> & _) | (NM & Q' & _ & _ & _ & EV & WK)].
    + right. eapply existsb_upd_new; eauto.
    + rewrite Q' in Q. destruct (A Q P) as [X|X]; [left; lia|].
      destruct m; try (right; eapply existsb_upd; eauto; intros Y; discriminate; fail).
      left. apply WK; auto.
  - cbn [pc]. intros _ P. rewrite P in CC. discriminate.
  - inversion C; subst; cbn [sg pc]; intros Q P; try discriminate. congruence.
Qed.

Lemma J3_reach : forall sh scr prefix later progs s, qwake_ok sh = true ->
  reach_t sh scr (init prefix later progs) s -> J3 s.
Proof.
  intros sh scr prefix later progs s QW. revert s. apply reach_ind_inv.
  - intros X; discriminate.
  - intros; eapply J3_step; eauto.
Qed.

Lemma J3_not_quiescent : forall s, J3 s -> quit (sg s) = true -> quiescent s = false.
Proof.
  intros s A Q. unfold quiescent. destruct (pc s) eqn:P; rewrite ?andb_false_r; try reflexivity.
  destruct (A Q P) as [X|X].
  - unfold poll_ready. replace (0 <? evfd (sg s)) with true by (symmetry; apply Nat.ltb_lt; exact X).
    cbn. apply andb_false_r.
  - unfold midquit in X.
    destruct (forallb (fun c => match c with [] => true | _ => false end) (fcode s)) eqn:F; [|reflexivity].
    rewrite (existsb_forallb_false _ head_is_qwake (fun c => match c with [] => true | _ => false end)) in X;
      [discriminate| |exact F].
    intros [|? ?]; [reflexivity|discriminate].
Qed.

(* ---------------------------------------------------------------- no new iteration after quit *)
(* a step from a state with quit_ set and the loop thread inside the while loop: the loop thread
   leaves the loop, or it stays inside with quit_ still set and has not moved backwards in its
   iteration -- in particular it never returns to poll once it has left it *)
Lemma no_new_iteration : forall sh scr s lab s', step sh scr s lab = Some s' ->
  quit (sg s) = true -> active (pc s) = true ->
  pc s' = LExit \/ (active (pc s') = true /\ quit (sg s') = true /\ rank (pc s') <= rank (pc s)).
Proof.
  intros sh scr s lab s' H Q AC.
  destruct (step_cases _ _ _ _ _ H) as [(i & m & rest & g' & c' & -> & N & E & ->) |
                                        [(m & rest & g' & c' & -> & CC & LC & E & ->) | C]].
  - right. cbn [sg pc]. destruct (exec_mop_cases _ _ _ _ _ _ _ _ _ E) as (_ & _ & _ & QM & _). auto.
  - right. cbn [sg pc]. destruct (exec_mop_cases _ _ _ _ _ _ _ _ _ E) as (_ & _ & _ & QM & _). auto.
  - inversion C; subst; cbn [sg pc set_flags quit];
      match goal with H : pc s = _ |- _ => rewrite H in AC |- * end; try discriminate; try congruence;
      try (left; reflexivity); right; try destruct (0 <? evfd (sg s)); cbn; repeat split; auto; lia.
Qed.

(* the loop thread is never blocked inside the while loop except in a poll with nothing ready *)
Lemma loop_thread_progress : forall sh scr s, active (pc s) = true ->
  (pc s = LPoll -> poll_ready (sg s) = true) ->
  exists lab s', (lab = TLoop \/ lab = TRead) /\ step sh scr s lab = Some s'.
Proof.
  intros sh scr [g p lc ln fc] AC PR. cbn in AC, PR. unfold step; cbn [sg pc lcode lnext fcode].
  destruct p as [ | | | [|] | | [|t b] | | ]; try discriminate.
  - exists TLoop. destruct lc; destruct (quit g); eexists; split; auto.
  - exists TLoop. rewrite (PR eq_refl). destruct lc; destruct (evq g); eexists; split; auto.
  - exists TRead. eexists; split; auto.
  - exists TLoop. destruct lc as [|m r]; [eexists; split; auto|].
    destruct (exec_mop sh scr 0 true m r g) eqn:E. eexists; split; auto.
  - exists TLoop. destruct lc; eexists; split; auto.
  - exists TLoop. destruct lc as [|m r]; [eexists; split; auto|].
    destruct (exec_mop sh scr 0 true m r g) eqn:E. eexists; split; auto.
  - exists TLoop. destruct lc as [|m r]; [eexists; split; auto|].
    destruct (exec_mop sh scr 0 true m r g) eqn:E. eexists; split; auto.
Qed.

(* ---------------------------------------------------------------- the refutation for reset-on-entry *)
(* any shape that clears quit_ on entry of loop(): quit() on the loop's own thread, then loop():
   the loop sits in a poll that only the time-out can end, although quit() was called and loop()
   has not returned since *)
Definition lost_witness_prefix : list act := [AQuit].
Definition lost_labels_nowake : list label := [TLoop; TLoop; TLoop; TLoop].
Definition lost_labels_wake : list label := [TLoop; TLoop; TLoop; TLoop; TLoop; TRead; TLoop; TLoop; TLoop; TLoop].

Lemma lost_witness : forall sh scr, resets_on_entry sh = true ->
  exists s, reach sh scr (init lost_witness_prefix [] []) s /\
            quit_since_ret (log (sg s)) = true /\ quiescent s = true /\ quit (sg s) = false /\
            looping (sg s) = true.
Proof.
  intros sh scr RE. destruct (qwake sh true) eqn:QW.
  - eexists. split.
    + eapply run_reach with (labs := lost_labels_wake); [repeat constructor; discriminate|].
      cbn. rewrite QW. cbn. rewrite RE. cbn. reflexivity.
    + cbn. auto.
  - eexists. split.
    + eapply run_reach with (labs := lost_labels_nowake); [repeat constructor; discriminate|].
      cbn. rewrite QW. cbn. rewrite RE. cbn. reflexivity.
    + cbn. auto.
Qed.

(* ---------------------------------------------------------------- frames and monotone history *)
Lemma exec_mop_log_ext : forall sh scr who il m rest g g' c',
  exec_mop sh scr who il m rest g = (g', c') -> exists l, log g' = log g ++ l.
Proof.
  intros sh scr who il m rest g g' c' H. unfold exec_mop in H.
  destruct m;
    [ | destruct (wake sh il (calling g) (looping g)) | destruct il | | destruct (qwake sh il) | ];
    injection H as <- <-; cbn [log]; try (eexists; reflexivity); exists []; rewrite app_nil_r; reflexivity.
Qed.

Lemma step_log_ext : forall sh scr s lab s', step sh scr s lab = Some s' ->
  exists l, log (sg s') = log (sg s) ++ l.
Proof.
  intros sh scr s lab s' H.
  destruct (step_cases _ _ _ _ _ H) as [(i & m & rest & g' & c' & -> & N & E & ->) |
                                        [(m & rest & g' & c' & -> & CC & LC & E & ->) | C]].
  - cbn [sg]. eapply exec_mop_log_ext; eauto.
  - cbn [sg]. eapply exec_mop_log_ext; eauto.
  - inversion C; subst; cbn [sg set_flags log]; try (eexists; reflexivity); exists []; rewrite app_nil_r; reflexivity.
Qed.

Lemma step_mono : forall sh scr s lab s', step sh scr s lab = Some s' ->
  (quit_called (log (sg s)) = true -> quit_called (log (sg s')) = true) /\
  (returned (log (sg s)) = true -> returned (log (sg s')) = true).
Proof.
  intros sh scr s lab s' H. destruct (step_log_ext _ _ _ _ _ H) as [l ->].
  rewrite quit_called_app, returned_app. split; intros ->; reflexivity.
Qed.

(* a step of foreign thread i: the loop thread's control state and the other threads' code are
   untouched; thread i's code loses its head, possibly replaced by the follow-up micro-operation *)
Lemma step_TF_frame : forall sh scr s i s', step sh scr s (TF i) = Some s' ->
  pc s' = pc s /\ lcode s' = lcode s /\ lnext s' = lnext s /\
  exists m rest g' c', nth_error (fcode s) i = Some (m :: rest) /\
    exec_mop sh scr (S i) false m rest (sg s) = (g', c') /\ sg s' = g' /\ fcode s' = upd (fcode s) i c'.
Proof.
  intros sh scr s i s' H.
  destruct (step_cases _ _ _ _ _ H) as [(j & m & rest & g' & c' & EQ & N & E & ->) |
                                        [(m & rest & g' & c' & X & _) | C]]; [|discriminate|inversion C].
  injection EQ as <-. cbn. repeat split; auto. exists m, rest, g', c'. auto.
Qed.

Lemma step_loop_frame : forall sh scr s lab s', (lab = TLoop \/ lab = TRead) -> step sh scr s lab = Some s' ->
  fcode s' = fcode s.
Proof.
  intros sh scr s lab s' L H.
  destruct (step_cases _ _ _ _ _ H) as [(j & m & rest & g' & c' & -> & N & E & ->) |
                                        [(m & rest & g' & c' & -> & CC & LC & E & ->) | C]].
  - destruct L; discriminate.
  - reflexivity.
  - inversion C; subst; reflexivity.
Qed.

(* ---------------------------------------------------------------- J4: one call of loop() *)
(* with no further call of loop() to come: loop() has returned iff the loop thread is done *)
Definition J4 (s : st) : Prop :=
  lnext s = [] /\ (returned (log (sg s)) = true <-> pc s = LDone).

Lemma J4_step : forall sh scr s lab s', J4 s -> step sh scr s lab = Some s' -> J4 s'.
Proof.
  intros sh scr s lab s' [A B] H. unfold J4.
  destruct (step_cases _ _ _ _ _ H) as [(i & m & rest & g' & c' & -> & N & E & ->) |
                                        [(m & rest & g' & c' & -> & CC & LC & E & ->) | C]].
  - cbn [sg pc lnext]. split; [exact A|].
    destruct (exec_mop_quit _ _ _ _ _ _ _ _ _ E) as [(-> & _ & L & _) | (_ & _ & _ & RT & _)].
    + rewrite L, returned_app. cbn. rewrite orb_false_r. exact B.
    + rewrite RT. exact B.
  - cbn [sg pc lnext]. split; [exact A|].
    destruct (exec_mop_quit _ _ _ _ _ _ _ _ _ E) as [(-> & _ & L & _) | (_ & _ & _ & RT & _)].
    + rewrite L, returned_app. cbn. rewrite orb_false_r. exact B.
    + rewrite RT. exact B.
  - inversion C; subst; cbn [sg pc lnext set_flags log]; rewrite ?returned_app; cbn [returned existsb]; rewrite ?orb_false_r;
      try congruence;
      (split; [exact A|]); split; intros X; try discriminate; try reflexivity;
      try (rewrite orb_true_r; reflexivity); apply B in X; congruence.
Qed.

Lemma J4_reach : forall sh scr prefix progs s, reach_t sh scr (init prefix [] progs) s -> J4 s.
Proof.
  intros sh scr prefix progs. apply reach_ind_inv.
  - split; [reflexivity|]. cbn. split; intros; discriminate.
  - intros; eapply J4_step; eauto.
Qed.

(* ---------------------------------------------------------------- J5: nobody but thread 1 quits *)
(* two foreign threads; the second one's whole program is one quit(); no other code contains a
   quit(): then quit_ is stored only by that thread *)
Definition qfree_acts (l : list act) : bool := forallb (fun a => match a with AQuit => false | _ => true end) l.
Definition qfree_code (c : list mop) : bool := forallb (fun m => match m with MQuitStore => false | _ => true end) c.

Lemma qfree_expand : forall il l, qfree_acts l = true -> qfree_code (expand_all il l) = true.
Proof.
  induction l as [|a l IH]; cbn; intros H; [reflexivity|]. apply andb_true_iff in H as [H1 H2].
  unfold qfree_code, expand_all in *. cbn [flat_map]. rewrite forallb_app, (IH H2), andb_true_r.
  destruct a; try discriminate; try reflexivity. destruct il; reflexivity.
Qed.

Definition J5 (s : st) : Prop :=
  qfree_code (lcode s) = true /\ lnext s = [] /\
  exists c0 c1, fcode s = [c0; c1] /\ qfree_code c0 = true /\
    ((c1 = [MQuitStore] /\ quit_called (log (sg s)) = false) \/ c1 = [MQuitWake] \/ c1 = []).

Lemma exec_mop_qfree : forall sh scr who il m rest g g' c',
  (forall t, qfree_acts (scr t) = true) -> qfree_code (m :: rest) = true ->
  exec_mop sh scr who il m rest g = (g', c') ->
  qfree_code c' = true /\ quit_called (log g') = quit_called (log g).
Proof.
  intros sh scr who il m rest g g' c' QS QF H. cbn in QF. apply andb_true_iff in QF as [Q1 Q2].
  unfold exec_mop in H.
  destruct m; try discriminate;
    [ | destruct (wake sh il (calling g) (looping g)) | destruct il | destruct (qwake sh il) | ];
    injection H as <- <-; cbn [log]; unfold quit_called; rewrite ?existsb_app; cbn [existsb]; rewrite ?orb_false_r;
    (split; [|reflexivity]); try exact Q2; try (cbn; exact Q2).
  unfold qfree_code. rewrite forallb_app. fold (qfree_code (expand_all true (scr t))).
  rewrite (qfree_expand true _ (QS t)). exact Q2.
Qed.

Lemma J5_step : forall sh scr s lab s', (forall t, qfree_acts (scr t) = true) ->
  J5 s -> step sh scr s lab = Some s' -> J5 s'.
Proof.
  intros sh scr s lab s' QS (A & LN & c0 & c1 & F & Q0 & Q1) H. unfold J5.
  destruct (step_cases _ _ _ _ _ H) as [(i & m & rest & g' & c' & -> & N & E & ->) |
                                        [(m & rest & g' & c' & -> & CC & LC & E & ->) | C]].
  - cbn [sg lcode lnext fcode]. split; [exact A|]. split; [exact LN|]. rewrite F in N |- *.
    destruct i as [|[|i]]; cbn in N.
    + injection N as ->. destruct (exec_mop_qfree _ _ _ _ _ _ _ _ _ QS Q0 E) as [X Y].
      exists c', c1. cbn. rewrite Y. auto.
    + injection N as ->. destruct Q1 as [[Q1 Q2]|[Q1|Q1]]; try discriminate.
      * injection Q1 as -> ->. cbn in E. injection E as <- <-. exists c0, [MQuitWake]. cbn. auto.
      * injection Q1 as -> ->. exists c0, []. cbn. split; [|auto].
        cbn in E. destruct (qwake sh false); injection E as <- <-; reflexivity.
    + destruct i; discriminate.
  - cbn [sg lcode lnext fcode]. rewrite LC in A. destruct (exec_mop_qfree _ _ _ _ _ _ _ _ _ QS A E) as [X Y].
    split; [exact X|]. split; [exact LN|]. exists c0, c1. rewrite Y. auto.
  - inversion C; subst; cbn [sg lcode lnext fcode set_flags log]; rewrite ?quit_called_app; cbn [quit_called existsb];
      rewrite ?orb_false_r; try congruence;
      (split; [try reflexivity; try exact A; try (apply qfree_expand; apply QS)|split; [exact LN|exists c0, c1; auto]]).
Qed.

Lemma J5_reach : forall sh scr cb uacts s, (forall t, qfree_acts (scr t) = true) ->
  qfree_acts cb = true -> qfree_acts uacts = true ->
  reach_t sh scr (init cb [] [uacts; [AQuit]]) s -> J5 s.
Proof.
  intros sh scr cb uacts s QS QC QU. revert s. apply reach_ind_inv.
  - split; [apply qfree_expand; exact QC|]. split; [reflexivity|].
    eexists _, _. split; [reflexivity|]. split; [apply qfree_expand; exact QU|]. left. split; reflexivity.
  - intros; eapply J5_step; eauto.
Qed.

(* ---------------------------------------------------------------- the statements of Properties_C05 *)
Theorem quit_ends_loop : forall sh scr prefix later progs s,
  qwake_ok sh = true ->
  reach sh scr (init prefix later progs) s -> quit (sg s) = true ->
  quiescent s = false /\ (pc s = LPoll -> 0 < evfd (sg s) \/ midquit s = true).
Proof.
  intros sh scr prefix later progs s QW R Q.
  pose proof (J3_reach _ _ _ _ _ _ QW (reach_reach_t _ _ _ _ R)) as J.
  split; [apply J3_not_quiescent; assumption|]. intros P. apply J; assumption.
Qed.

Theorem quit_not_lost : forall sh scr prefix later progs s,
  resets_on_entry sh = false -> qwake_ok sh = true ->
  reach sh scr (init prefix later progs) s -> quit_since_ret (log (sg s)) = true ->
  quit (sg s) = true /\ quiescent s = false /\
  (pc s = LTest -> exists s', step sh scr s TLoop = Some s' /\ pc s' = LExit).
Proof.
  intros sh scr prefix later progs s RE QW R QS.
  pose proof (J2_reach _ _ _ _ _ _ RE (reach_reach_t _ _ _ _ R) QS) as Q.
  split; [exact Q|]. split.
  - apply J3_not_quiescent; [|exact Q]. apply (J3_reach _ _ _ _ _ _ QW (reach_reach_t _ _ _ _ R)).
  - intros P. destruct s as [g p lc ln fc]. cbn in *. subst p. unfold step. cbn. rewrite Q.
    destruct lc; eexists; split; reflexivity.
Qed.

(* ---------------------------------------------------------------- the order of the two halves of quit() *)
Lemma step_o_true : forall sh scr s lab, step_o true sh scr s lab = step sh scr s lab.
Proof.
  intros sh scr [g p lc ln fc] lab. unfold step_o, step, exec_mop_o. cbn [sg pc lcode lnext fcode].
  destruct lab; try reflexivity.
  destruct p as [ | | | [|] | | [|? ?] | | ]; destruct lc; reflexivity.
Qed.

Lemma run_o_true : forall sh scr labs s, run_o true sh scr s labs = run sh scr s labs.
Proof.
  intros sh scr. induction labs as [|l r IH]; intros s; [reflexivity|]. cbn. rewrite step_o_true.
  destruct (step sh scr s l); [apply IH|reflexivity].
Qed.

(* wake-up first, store last (any shape whose quit() wakes from a foreign thread): the loop thread
   consumes the wake-up, re-tests quit_ (still clear) and blocks in the next poll before the foreign
   thread stores the flag: quit() has returned, quit_ is set, every thread is blocked and only the
   poll time-out can end loop() *)
Definition wake_first_labels : list label := [TLoop; TLoop; TF 0; TLoop; TRead; TLoop; TLoop; TLoop; TLoop; TF 0].

Lemma wake_first_witness : forall sh scr, qwake sh false = true ->
  exists s, run_o false sh scr (init [] [] [[AQuit]]) wake_first_labels = Some s /\
            quit (sg s) = true /\ quit_called (log (sg s)) = true /\ returned (log (sg s)) = false /\
            quiescent s = true /\ looping (sg s) = true.
Proof.
  intros sh scr QW. eexists. split.
  - cbn. rewrite QW. cbn. destruct (resets_on_entry sh); cbn; reflexivity.
  - cbn. destruct (resets_on_entry sh); cbn; auto.
Qed.
