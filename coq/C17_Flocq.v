(* C17_Flocq: the binary64 arithmetic of C17_Model's formatSI / formatIEC IS IEEE-754 arithmetic.
   Flocq's [round radix2 (FLT_exp (-1074) 53) ZnearestE] is the binary64 rounding to nearest, ties to
   even, on real numbers -- the specification against which Flocq's own IEEE-754 operations
   (Binary.Bdiv, binary_normalize) are proved.  Shown here: the model's static_cast<double>
   ([to_double]) is that rounding of the integer, and the model's quotient ([div_double]) is that
   rounding of the exact real quotient (operands below 2^64: normal range); then, at bit level, that
   they are the values of Flocq's IEEE-754 operations [binary_normalize] (integer -> binary64) and
   [Bdiv] on [binary_float 53 1024] (finite results), and that the model's test on the double is
   [Bltb].  printf's %.<p>f: [dec_fix] is the specification (x rounded to the nearest multiple of
   10^-p, ties to even = round radix10 (FIX_exp (-p)) ZnearestE); the model's [fixed_scaled] is
   proved to be it; that glibc implements it is tested by the correspondence run.
   These statements are about real numbers: they depend on the axioms of Coq's Reals (printed by
   Print Assumptions in Properties_C17.v and named in the trusted base).  Nothing else in C17 does. *)
From Coq Require Import List ZArith Reals Lia Lra.
From Flocq Require Import Core BinarySingleNaN.
From Muduo Require Import C17_Model C17_Units C17_G12.
Local Open Scope Z_scope.

Lemma Rcompare_half (r den : Z) : 0 < den ->
  Rcompare (IZR r / IZR den) (/ 2) = Z.compare (2 * r) den.
Proof.
  intros Hd. assert (HD : (0 < IZR den)%R) by (apply IZR_lt; exact Hd).
  destruct (Z.compare_spec (2 * r) den) as [E|L|G].
  - apply Rcompare_Eq. apply (f_equal IZR) in E. rewrite mult_IZR in E. field_simplify_eq; [lra|lra].
  - apply Rcompare_Lt. apply IZR_lt in L. rewrite mult_IZR in L.
    apply (Rmult_lt_reg_r (IZR den)); [exact HD|]. unfold Rdiv. rewrite Rmult_assoc, Rinv_l by lra. lra.
  - apply Rcompare_Gt. apply IZR_lt in G. rewrite mult_IZR in G.
    apply (Rmult_lt_reg_r (IZR den)); [exact HD|]. unfold Rdiv. rewrite Rmult_assoc, Rinv_l by lra. lra.
Qed.

Lemma ZnearestE_rne num den : 0 < den -> ZnearestE (IZR num / IZR den) = rne num den.
Proof.
  intros Hd. assert (HD : (0 < IZR den)%R) by (apply IZR_lt; exact Hd).
  unfold Znearest, rne, rhe.
  rewrite Zfloor_div by lia.
  pose proof (Z.div_mod num den ltac:(lia)) as E. pose proof (Z.mod_pos_bound num den Hd) as Hr.
  set (q := num / den) in *. set (r := num mod den) in *.
  assert (X : (IZR num / IZR den - IZR q = IZR r / IZR den)%R).
  { rewrite E, plus_IZR, mult_IZR. field. lra. }
  rewrite X, Rcompare_half by exact Hd.
  assert (C : r <> 0 -> Zceil (IZR num / IZR den) = q + 1).
  { intros Hr0. rewrite Zceil_floor_neq; rewrite Zfloor_div by lia; fold q; [reflexivity|].
    intros Heq. assert (IZR r / IZR den = 0)%R by lra.
    assert (IZR r = 0)%R. { apply (Rmult_eq_reg_r (/ IZR den)); [unfold Rdiv in H; lra|apply Rinv_neq_0_compat; lra]. }
    apply eq_IZR in H0. lia. }
  destruct (Z.compare_spec (2 * r) den) as [E2|L|G].
  - destruct (Z.ltb_spec (2 * r) den); [lia|]. destruct (Z.ltb_spec den (2 * r)); [lia|].
    rewrite C by lia. destruct (Z.even q); reflexivity.
  - destruct (Z.ltb_spec (2 * r) den); [reflexivity|lia].
  - destruct (Z.ltb_spec (2 * r) den); [lia|]. destruct (Z.ltb_spec den (2 * r)); [|lia].
    apply C. lia.
Qed.

Definition b64 : Z -> Z := FLT_exp (-1074) 53.
Definition rnd64 : R -> R := round radix2 b64 ZnearestE.

Lemma pow2_bpow e : 0 <= e -> IZR (2 ^ e) = bpow radix2 e.
Proof. intros H. rewrite <- IZR_Zpower by exact H. reflexivity. Qed.

(* x = (A/B) * 2^e with A/B in [2^52, 2^53) and no underflow: binary64 rounding of x rounds A/B *)
Lemma round_at (x : R) (e A B : Z) : 0 < B -> -1074 <= e ->
  x = (IZR A / IZR B * bpow radix2 e)%R -> 2 ^ 52 * B <= A < 2 ^ 53 * B ->
  rnd64 x = F2R (Float radix2 (rne A B) e).
Proof.
  intros HB He Hx [H1 H2].
  assert (HBr : (0 < IZR B)%R) by (apply IZR_lt; exact HB).
  assert (Q1 : (bpow radix2 52 <= IZR A / IZR B)%R).
  { rewrite <- pow2_bpow by lia. apply (Rmult_le_reg_r (IZR B)); [exact HBr|].
    unfold Rdiv. rewrite Rmult_assoc, Rinv_l, Rmult_1_r by lra. rewrite <- mult_IZR. apply IZR_le. exact H1. }
  assert (Q2 : (IZR A / IZR B < bpow radix2 53)%R).
  { rewrite <- pow2_bpow by lia. apply (Rmult_lt_reg_r (IZR B)); [exact HBr|].
    unfold Rdiv. rewrite Rmult_assoc, Rinv_l, Rmult_1_r by lra. rewrite <- mult_IZR. apply IZR_lt. exact H2. }
  pose proof (bpow_gt_0 radix2 e) as Pe. pose proof (bpow_gt_0 radix2 52) as P52.
  assert (Hmag : mag radix2 x = e + 53 :> Z).
  { apply mag_unique. rewrite Hx. rewrite Rabs_pos_eq by (apply Rmult_le_pos; lra).
    replace (e + 53 - 1) with (52 + e) by lia. replace (e + 53) with (53 + e) by lia.
    rewrite !bpow_plus. split; [apply Rmult_le_compat_r; lra|apply Rmult_lt_compat_r; lra]. }
  unfold rnd64, round, cexp, scaled_mantissa, cexp. rewrite Hmag.
  assert (Ec : b64 (e + 53) = e) by (unfold b64, FLT_exp; lia). rewrite Ec.
  assert (Es : (x * bpow radix2 (- e) = IZR A / IZR B)%R).
  { rewrite Hx, Rmult_assoc, <- bpow_plus, Z.add_opp_diag_r. cbn [bpow]. lra. }
  rewrite Es, ZnearestE_rne by exact HB. reflexivity.
Qed.

(* static_cast<double>(n) of the model IS the binary64 rounding (nearest, ties to even) of n *)
Theorem to_double_is_round n : 0 <= n -> IZR (to_double n) = rnd64 (IZR n).
Proof.
  intros Hn. destruct (Z_lt_le_dec n (2 ^ 53)) as [H|H].
  - rewrite to_double_small by exact H. symmetry. apply round_generic; [apply valid_rnd_N|].
    apply generic_format_FLT. apply (FLT_spec radix2 (-1074) 53 (IZR n) (Float radix2 n 0)).
    + unfold F2R. cbn [Fnum Fexp bpow]. lra.
    + cbn [Fnum]. rewrite Z.abs_eq by lia. exact H.
    + cbn [Fexp]. lia.
  - destruct (to_double_big n H) as [HL [Hp [Et [[B1 B2] _]]]].
    set (L := Z.log2 n) in *.
    assert (E52 : 2 ^ L = 2 ^ 52 * 2 ^ (L - 52)) by (rewrite <- Z.pow_add_r by lia; f_equal; lia).
    assert (E53 : 2 ^ (L + 1) = 2 ^ 53 * 2 ^ (L - 52)) by (rewrite <- Z.pow_add_r by lia; f_equal; lia).
    rewrite (round_at (IZR n) (L - 52) n (2 ^ (L - 52))); try lia.
    + rewrite Et. unfold F2R. cbn [Fnum Fexp]. rewrite mult_IZR, pow2_bpow by lia. reflexivity.
    + rewrite pow2_bpow by lia. pose proof (bpow_gt_0 radix2 (L - 52)). field. lra.
Qed.

(* the quotient of the model IS the binary64 rounding of the exact quotient (operands below 2^64:
   the quotient is a normal number, no underflow or overflow) *)
Theorem div_double_is_round a b m e : 0 < a < 2 ^ 64 -> 0 < b < 2 ^ 64 -> div_double a b = (m, e) ->
  F2R (Float radix2 m e) = rnd64 (IZR a / IZR b).
Proof.
  intros [Ha Ha'] [Hb Hb'] E.
  destruct (div_double_canon a b Ha Hb m e E) as [M [D [C1 C2]]].
  assert (Hn : 0 <= eneg e) by (unfold eneg; lia). assert (Hp : 0 <= epos e) by (unfold epos; lia).
  assert (Hd : e = epos e - eneg e) by (unfold epos, eneg; lia).
  assert (He : -1074 <= e).
  { (* a >= 1, b < 2^64 => (a/b)/2^e >= 2^52 forces e > -117 *)
    destruct (Z_le_gt_dec (-1074) e) as [|Hlt]; [assumption|exfalso].
    assert (En : eneg e = - e) by (unfold eneg; lia). assert (Ep : epos e = 0) by (unfold epos; lia).
    rewrite En, Ep, Z.pow_0_r, Z.mul_1_r in C2.
    assert (2 ^ 128 <= 2 ^ (- e)) by (apply Z.pow_le_mono_r; lia).
    assert (a * 2 ^ 128 <= a * 2 ^ (- e)) by (apply Z.mul_le_mono_nonneg_l; lia).
    lia. }
  symmetry. rewrite M. apply round_at; try assumption; try lia.
  rewrite !mult_IZR, !pow2_bpow by assumption.
  pose proof (bpow_gt_0 radix2 (eneg e)). pose proof (bpow_gt_0 radix2 (epos e)).
  assert (Eb : bpow radix2 e = (bpow radix2 (epos e) / bpow radix2 (eneg e))%R).
  { rewrite Hd at 1. unfold Z.sub. rewrite bpow_plus, bpow_opp. reflexivity. }
  rewrite Eb.
  assert (0 < IZR b)%R by (apply IZR_lt; exact Hb).
  field. repeat split; lra.
Qed.

(* the real number m * 2^e *)
Definition b64_value (m e : Z) : R := F2R (Float radix2 m e).
Lemma b64_value_eq m e : b64_value m e = (IZR m * bpow radix2 e)%R.
Proof. reflexivity. Qed.

(* the two operations in sequence, as formatSI / formatIEC use them: n / d in binary64 *)
Theorem quotient_is_binary64 n d m e : 0 < n < 2 ^ 63 -> 0 < d < 2 ^ 64 ->
  div_double (to_double n) d = (m, e) ->
  b64_value m e = rnd64 (rnd64 (IZR n) / IZR d).
Proof.
  intros Hn Hd E. unfold b64_value. rewrite <- to_double_is_round by lia.
  apply div_double_is_round; [|exact Hd|exact E].
  pose proof (to_double_mono 1 n ltac:(lia)) as H1. pose proof (to_double_mono n (2 ^ 63) ltac:(lia)) as H2.
  change (to_double 1) with 1 in H1.
  assert (E63 : to_double (2 ^ 63) = 2 ^ 63) by (vm_compute; reflexivity).
  rewrite E63 in H2. lia.
Qed.

(* every divisor of the regenerated ladders is itself a binary64 number (the constant the code
   divides by is the double, e.g. 1e18) *)
Definition divisor_exact (r : Gen_C17.rung_test * Gen_C17.rung_fmt) : bool :=
  match snd r with Gen_C17.RInt => true | Gen_C17.RFix _ d _ => (0 <? d) && (d <? 2 ^ 64) && (to_double d =? d) end.
Lemma divisors_binary64 :
  forallb divisor_exact Gen_C17.si_ladder = true /\ forallb divisor_exact Gen_C17.iec_ladder = true.
Proof. vm_compute. split; reflexivity. Qed.

(* ---- bit-level binary64: Flocq's IEEE-754 operations --------------------------------------- *)

Definition p53 : Prec_gt_0 53 := eq_refl.
Definition p53_1024 : Prec_lt_emax 53 1024 := eq_refl.
Definition binary64 : Type := binary_float 53 1024.

(* static_cast<double>(n): the integer n * 2^0 normalised to binary64, to nearest even *)
Definition b64_of_Z (n : Z) : binary64 := binary_normalize 53 1024 p53 p53_1024 mode_NE n 0 false.
(* operator/ on doubles *)
Definition b64_div (x y : binary64) : binary64 := @Bdiv 53 1024 p53 p53_1024 mode_NE x y.

Lemma rnd64_is_spec x : round radix2 (SpecFloat.fexp 53 1024) (round_mode mode_NE) x = rnd64 x.
Proof. reflexivity. Qed.

Lemma rnd64_bound x : (0 <= x <= bpow radix2 64)%R -> (Rabs (rnd64 x) < bpow radix2 1024)%R.
Proof.
  intros [H0 H1]. unfold rnd64.
  assert (V : Valid_exp b64) by (unfold b64; apply FLT_exp_valid; reflexivity).
  assert (L : (0 <= round radix2 b64 ZnearestE x)%R).
  { rewrite <- (round_0 radix2 b64 ZnearestE). apply round_le; [exact V|apply valid_rnd_N|exact H0]. }
  assert (U : (round radix2 b64 ZnearestE x <= bpow radix2 64)%R).
  { rewrite <- (round_generic radix2 b64 ZnearestE (bpow radix2 64)).
    - apply round_le; [exact V|apply valid_rnd_N|exact H1].
    - apply generic_format_bpow. unfold b64, FLT_exp. lia. }
  rewrite Rabs_pos_eq by exact L.
  apply Rle_lt_trans with (1 := U). apply bpow_lt. lia.
Qed.

Theorem b64_of_Z_correct n : 0 <= n < 2 ^ 64 ->
  B2R (b64_of_Z n) = IZR (to_double n) /\ is_finite (b64_of_Z n) = true.
Proof.
  intros Hn. unfold b64_of_Z.
  pose proof (binary_normalize_correct 53 1024 p53 p53_1024 mode_NE n 0 false) as H.
  cbv zeta in H. rewrite rnd64_is_spec in H.
  assert (E : F2R (Float radix2 n 0) = IZR n) by (unfold F2R; cbn [Fnum Fexp bpow]; lra).
  rewrite E in H. rewrite Rlt_bool_true in H.
  - destruct H as [H1 [H2 _]]. rewrite to_double_is_round by lia. split; assumption.
  - apply rnd64_bound. split; [apply IZR_le; lia|].
    change (bpow radix2 64) with (IZR (2 ^ 64)). apply IZR_le. lia.
Qed.

Theorem b64_div_correct n d m e : 0 < n < 2 ^ 63 -> 0 < d < 2 ^ 64 -> to_double d = d ->
  div_double (to_double n) d = (m, e) ->
  B2R (b64_div (b64_of_Z n) (b64_of_Z d)) = b64_value m e /\
  is_finite (b64_div (b64_of_Z n) (b64_of_Z d)) = true.
Proof.
  intros Hn Hd Ed E.
  destruct (b64_of_Z_correct n ltac:(lia)) as [Rn Fn]. destruct (b64_of_Z_correct d ltac:(lia)) as [Rd Fd].
  rewrite Ed in Rd.
  assert (Dpos : (0 < IZR d)%R) by (apply IZR_lt; lia).
  pose proof (Bdiv_correct 53 1024 p53 p53_1024 mode_NE (b64_of_Z n) (b64_of_Z d)) as H.
  rewrite Rd in H. specialize (H ltac:(lra)). rewrite rnd64_is_spec, Rn in H.
  pose proof (to_double_mono 1 n ltac:(lia)) as H1. pose proof (to_double_mono n (2 ^ 63) ltac:(lia)) as H2.
  change (to_double 1) with 1 in H1.
  assert (E63 : to_double (2 ^ 63) = 2 ^ 63) by (vm_compute; reflexivity). rewrite E63 in H2.
  rewrite Rlt_bool_true in H.
  - destruct H as [Hv [Hf _]]. unfold b64_div. split; [|rewrite Hf; exact Fn].
    rewrite Hv. symmetry. unfold b64_value. apply div_double_is_round; [lia|lia|exact E].
  - apply rnd64_bound.
    assert (Apos : (1 <= IZR (to_double n))%R) by (apply IZR_le; lia).
    assert (Ale : (IZR (to_double n) <= bpow radix2 64)%R).
    { change (bpow radix2 64) with (IZR (2 ^ 64)). apply IZR_le. lia. }
    assert (D1 : (1 <= IZR d)%R) by (apply IZR_le; lia).
    split.
    + apply Rmult_le_pos; [lra|]. apply Rlt_le, Rinv_0_lt_compat. lra.
    + apply Rle_trans with (2 := Ale). apply (Rmult_le_reg_r (IZR d)); [lra|].
      unfold Rdiv. rewrite Rmult_assoc, Rinv_l, Rmult_1_r by lra.
      rewrite <- (Rmult_1_r (IZR (to_double n))) at 1. apply Rmult_le_compat_l; lra.
Qed.


(* `n < X` on doubles, X a finite double with exact value num/den: the model's OnDouble test *)
Theorem b64_lt_correct n (y : binary64) num den : 0 <= n < 2 ^ 64 -> 0 < den ->
  is_finite y = true -> B2R y = (IZR num / IZR den)%R ->
  Bltb (b64_of_Z n) y = (to_double n * den <? num).
Proof.
  intros Hn Hd Fy Ry. destruct (b64_of_Z_correct n Hn) as [Rn Fn].
  rewrite Bltb_correct by assumption. rewrite Rn, Ry.
  assert (HD : (0 < IZR den)%R) by (apply IZR_lt; exact Hd).
  destruct (Z.ltb_spec (to_double n * den) num) as [L|G].
  - apply Rlt_bool_true. apply (Rmult_lt_reg_r (IZR den)); [exact HD|].
    unfold Rdiv. rewrite Rmult_assoc, Rinv_l, Rmult_1_r by lra. rewrite <- mult_IZR. apply IZR_lt. exact L.
  - apply Rlt_bool_false. apply (Rmult_le_reg_r (IZR den)); [exact HD|].
    unfold Rdiv. rewrite Rmult_assoc, Rinv_l, Rmult_1_r by lra. rewrite <- mult_IZR. apply IZR_le. exact G.
Qed.

(* Flocq's ZnearestE (a notation): the nearest integer, ties to the even one *)
Definition nearest_even : R -> Z := ZnearestE.

(* ---- printf "%.<p>f" of a binary64: the specification ---------------------------------------- *)

Definition radix10 : radix := Build_radix 10 eq_refl.
(* x rounded to the nearest multiple of 10^-p, ties to the even multiple: the decimal fixed-point
   number a correctly rounding printf prints for %.<p>f in round-to-nearest mode (C11 7.21.6.1
   with IEC 60559 Annex F.5: the result is the exact value correctly rounded) *)
Definition dec_fix (p : Z) (x : R) : R := round radix10 (FIX_exp (- p)) ZnearestE x.

Lemma pow10_bpow p : 0 <= p -> IZR (10 ^ p) = bpow radix10 p.
Proof. intros H. rewrite <- IZR_Zpower by exact H. reflexivity. Qed.

Theorem fixed_scaled_is_round p m e : 0 <= p ->
  fixed_scaled p (m, e) = ZnearestE (b64_value m e * IZR (10 ^ p)) /\
  dec_fix p (b64_value m e) = F2R (Float radix10 (fixed_scaled p (m, e)) (- p)).
Proof.
  intros Hp.
  assert (A : fixed_scaled p (m, e) = ZnearestE (b64_value m e * IZR (10 ^ p))).
  { rewrite b64_value_eq. unfold fixed_scaled. destruct (Z.leb_spec 0 e) as [He|He].
    - rewrite <- pow2_bpow by exact He. rewrite <- !mult_IZR, (@Zrnd_IZR ZnearestE (valid_rnd_N _)). ring.
    - assert (HP : 0 < 2 ^ (- e)) by (apply Z.pow_pos_nonneg; lia).
      rewrite <- (ZnearestE_rne _ _ HP). f_equal.
      rewrite mult_IZR, pow2_bpow by lia. rewrite bpow_opp.
      pose proof (bpow_gt_0 radix2 e). unfold Rdiv. rewrite Rinv_inv. ring. }
  split; [exact A|].
  unfold dec_fix, round, cexp, scaled_mantissa, cexp, FIX_exp. rewrite Z.opp_involutive.
  rewrite <- pow10_bpow by exact Hp. rewrite <- A. reflexivity.
Qed.


(* ---- everything in sequence: what formatSI / formatIEC print on a rung with a unit ---------- *)
(* x = (double)n / d computed by Flocq's IEEE-754 binary64 operations; the characters in front of
   the unit are the decimal numeral, with exactly p decimals, of x correctly rounded to p decimals
   (nearest, ties to even) *)
Theorem render_is_ieee_printf n p d u : 0 < n < 2 ^ 63 -> 0 <= p -> 0 < d < 2 ^ 64 -> to_double d = d ->
  let x := B2R (b64_div (b64_of_Z n) (b64_of_Z d)) in
  exists k body, render (Gen_C17.RFix p d u) n = body ++ u /\ fixed_numeral body p k /\
    k = ZnearestE (x * IZR (10 ^ p)) /\ dec_fix p x = F2R (Float radix10 k (- p)).
Proof.
  intros Hn Hp Hd Ed x.
  destruct (div_double (to_double n) d) as [m e] eqn:E.
  destruct (b64_div_correct n d m e Hn Hd Ed E) as [Hx _]. fold x in Hx.
  destruct (fixed_scaled_is_round p m e Hp) as [A B].
  exists (fixed_scaled p (m, e)), (fixed_text p (m, e)).
  split; [cbn [render]; rewrite E; reflexivity|]. split.
  - apply fixed_text_numeral; [exact Hp|].
    pose proof (scaled_nonneg p d n Hp ltac:(lia) ltac:(lia)) as K. unfold scaled in K. rewrite E in K. exact K.
  - rewrite Hx. split; [exact A|exact B].
Qed.

Lemma binary64_semantics :
  (forall n, 0 <= n -> IZR (to_double n) = rnd64 (IZR n)) /\
  (forall a b m e, 0 < a < 2 ^ 64 -> 0 < b < 2 ^ 64 -> div_double a b = (m, e) ->
     b64_value m e = rnd64 (IZR a / IZR b)) /\
  (forall n d m e, 0 < n < 2 ^ 63 -> 0 < d < 2 ^ 64 -> div_double (to_double n) d = (m, e) ->
     b64_value m e = rnd64 (rnd64 (IZR n) / IZR d)) /\
  forallb divisor_exact Gen_C17.si_ladder = true /\ forallb divisor_exact Gen_C17.iec_ladder = true.
Proof.
  exact (conj to_double_is_round (conj div_double_is_round (conj quotient_is_binary64 divisors_binary64))).
Qed.

Lemma ieee754_bit_level :
  (forall n, 0 <= n < 2 ^ 64 ->
     B2R (b64_of_Z n) = IZR (to_double n) /\ is_finite (b64_of_Z n) = true) /\
  (forall n d m e, 0 < n < 2 ^ 63 -> 0 < d < 2 ^ 64 -> to_double d = d ->
     div_double (to_double n) d = (m, e) ->
     B2R (b64_div (b64_of_Z n) (b64_of_Z d)) = b64_value m e /\
     is_finite (b64_div (b64_of_Z n) (b64_of_Z d)) = true) /\
  (forall n (y : binary64) num den, 0 <= n < 2 ^ 64 -> 0 < den ->
     is_finite y = true -> B2R y = (IZR num / IZR den)%R ->
     Bltb (b64_of_Z n) y = (to_double n * den <? num)).
Proof. exact (conj b64_of_Z_correct (conj b64_div_correct b64_lt_correct)). Qed.

Lemma printf_fixed_spec :
  (forall p m e, 0 <= p ->
     fixed_scaled p (m, e) = ZnearestE (b64_value m e * IZR (10 ^ p)) /\
     dec_fix p (b64_value m e) = F2R (Float radix10 (fixed_scaled p (m, e)) (- p))) /\
  (forall n p d u, 0 < n < 2 ^ 63 -> 0 <= p -> 0 < d < 2 ^ 64 -> to_double d = d ->
     let x := B2R (b64_div (b64_of_Z n) (b64_of_Z d)) in
     exists k body, render (Gen_C17.RFix p d u) n = body ++ u /\ fixed_numeral body p k /\
       k = ZnearestE (x * IZR (10 ^ p)) /\ dec_fix p x = F2R (Float radix10 k (- p))).
Proof. exact (conj fixed_scaled_is_round render_is_ieee_printf). Qed.

(* ---- snprintf("%.12g"): the twelve digits are the correctly rounded decimal ------------------ *)

Lemma ge_pow10_R N D X : 0 < N -> 0 < D ->
  (ge_pow10 N D X = true <-> (bpow radix10 X <= IZR N / IZR D)%R).
Proof.
  intros HN HD. assert (RD : (0 < IZR D)%R) by (apply IZR_lt; exact HD).
  unfold ge_pow10. destruct (Z.leb_spec 0 X) as [H|H].
  - rewrite Z.leb_le. rewrite <- pow10_bpow by exact H. split; intros L.
    + apply (Rmult_le_reg_r (IZR D)); [exact RD|]. unfold Rdiv. rewrite Rmult_assoc, Rinv_l, Rmult_1_r by lra.
      rewrite <- mult_IZR. apply IZR_le. lia.
    + apply (Rmult_le_compat_r (IZR D)) in L; [|lra]. unfold Rdiv in L. rewrite Rmult_assoc, Rinv_l, Rmult_1_r in L by lra.
      rewrite <- mult_IZR in L. apply le_IZR in L. lia.
  - rewrite Z.leb_le. replace X with (- (- X)) at 2 by lia. rewrite bpow_opp, <- pow10_bpow by lia.
    assert (P : 0 < 10 ^ (- X)) by (apply Z.pow_pos_nonneg; lia).
    assert (RP : (0 < IZR (10 ^ (- X)))%R) by (apply IZR_lt; exact P).
    split; intros L.
    + apply (Rmult_le_reg_r (IZR D * IZR (10 ^ (- X)))); [apply Rmult_lt_0_compat; lra|].
      replace (/ IZR (10 ^ (- X)) * (IZR D * IZR (10 ^ (- X))))%R with (IZR D) by (field; lra).
      replace (IZR N / IZR D * (IZR D * IZR (10 ^ (- X))))%R with (IZR N * IZR (10 ^ (- X)))%R by (field; lra).
      rewrite <- mult_IZR. apply IZR_le. exact L.
    + apply (Rmult_le_compat_r (IZR D * IZR (10 ^ (- X)))) in L; [|apply Rlt_le, Rmult_lt_0_compat; lra].
      replace (/ IZR (10 ^ (- X)) * (IZR D * IZR (10 ^ (- X))))%R with (IZR D) in L by (field; lra).
      replace (IZR N / IZR D * (IZR D * IZR (10 ^ (- X))))%R with (IZR N * IZR (10 ^ (- X)))%R in L by (field; lra).
      rewrite <- mult_IZR in L. apply le_IZR in L. exact L.
Qed.

(* x rounded to 12 significant decimal digits, nearest, ties to even *)
Definition dec_sig12 (x : R) : R := round radix10 (FLX_exp 12) ZnearestE x.

Theorem round12_is_round N D : in_range N D ->
  F2R (Float radix10 (fst (round12 N D)) (snd (round12 N D) - 11)) = dec_sig12 (IZR N / IZR D).
Proof.
  intros R. pose proof (dec_exp_spec N D R) as S. destruct R as [HN [HD _]].
  apply dec_exp_ok_elim in S. destruct S as [_ [G1 G2]].
  assert (RD : (0 < IZR D)%R) by (apply IZR_lt; exact HD).
  assert (RN : (0 < IZR N)%R) by (apply IZR_lt; exact HN).
  set (x := (IZR N / IZR D)%R).
  assert (Xpos : (0 < x)%R) by (unfold x; apply Rdiv_lt_0_compat; lra).
  unfold round12. set (X := dec_exp N D) in *.
  apply (ge_pow10_R N D X HN HD) in G1. fold x in G1.
  assert (G2' : (x < bpow radix10 (X + 1))%R).
  { destruct (Rlt_le_dec x (bpow radix10 (X + 1))) as [|C]; [assumption|exfalso].
    apply (ge_pow10_R N D (X + 1) HN HD) in C. congruence. }
  assert (Hmag : mag radix10 x = X + 1 :> Z).
  { apply mag_unique. rewrite Rabs_pos_eq by lra. replace (X + 1 - 1) with X by lia. split; assumption. }
  set (k0 := if 0 <=? 11 - X then rne (N * 10 ^ (11 - X)) D else rne N (D * 10 ^ (- (11 - X)))).
  assert (E0 : dec_sig12 x = F2R (Float radix10 k0 (X - 11))).
  { unfold dec_sig12, round, cexp, scaled_mantissa, cexp. rewrite Hmag.
    replace (FLX_exp 12 (X + 1)) with (X - 11) by (unfold FLX_exp; lia).
    f_equal. f_equal. unfold k0, x.
    destruct (Z.leb_spec 0 (11 - X)) as [Hs|Hs].
    - rewrite <- (ZnearestE_rne _ _ HD). f_equal.
      rewrite mult_IZR, pow10_bpow by lia. replace (- (X - 11)) with (11 - X) by lia. field. lra.
    - assert (P : 0 < 10 ^ (- (11 - X))) by (apply Z.pow_pos_nonneg; lia).
      assert (HD' : 0 < D * 10 ^ (- (11 - X))) by (apply Z.mul_pos_pos; lia).
      rewrite <- (ZnearestE_rne _ _ HD'). f_equal.
      rewrite mult_IZR, pow10_bpow by lia. replace (- (11 - X)) with (X - 11) by lia.
      rewrite (bpow_opp radix10 (X - 11)). pose proof (bpow_gt_0 radix10 (X - 11)). field. lra. }
  rewrite E0. fold k0.
  destruct (Z.eqb_spec k0 (10 ^ 12)) as [E|E]; cbn [fst snd]; [|reflexivity].
  rewrite E. unfold F2R. cbn [Fnum Fexp].
  replace (X + 1 - 11) with (1 + (X - 11)) by lia. rewrite bpow_plus.
  change (bpow radix10 1) with 10%R. change (10 ^ 12) with (10 * 10 ^ 11). rewrite mult_IZR. ring.
Qed.

(* ---- the bounds of the OnDouble rungs are binary64 numbers ---------------------------------- *)
(* [b64_lt_correct] makes the model's test [to_double n * den <? num] the C++ `n < X` on doubles only
   if the bound X = num/den (the exact value of the folded constant, regenerated) IS a finite double.
   [threshold_exact] checks that for one rung: num, den > 0, den = 2^k, and num = m * 2^j exactly with
   j = max 0 (log2 num - 52), m < 2^53, -1074 <= j - k <= 971, i.e. num/den = m * 2^(j-k) with a
   53-bit significand and an exponent of the finite binary64 range.  OnInt / Else rungs: nothing to check. *)
Definition threshold_exact (r : Gen_C17.rung_test * Gen_C17.rung_fmt) : bool :=
  match fst r with
  | Gen_C17.OnDouble num den =>
      let k := Z.log2 den in
      let j := Z.max 0 (Z.log2 num - 52) in
      let m := num / 2 ^ j in
      (0 <? num) && (0 <? den) && (2 ^ k =? den) && (m * 2 ^ j =? num) && (m <? 2 ^ 53) &&
      (-1074 <=? j - k) && (j - k <=? 971)
  | _ => true
  end.

Lemma thresholds_exact :
  forallb threshold_exact Gen_C17.si_ladder = true /\ forallb threshold_exact Gen_C17.iec_ladder = true.
Proof. vm_compute. split; reflexivity. Qed.

(* what the boolean buys: a finite binary64 whose value is exactly num/den *)
Theorem threshold_exact_sound num den f :
  threshold_exact (Gen_C17.OnDouble num den, f) = true ->
  0 < den /\ exists y : binary64, is_finite y = true /\ B2R y = (IZR num / IZR den)%R.
Proof.
  unfold threshold_exact. cbn [fst]. cbv zeta.
  set (k := Z.log2 den). set (j := Z.max 0 (Z.log2 num - 52)). set (m := num / 2 ^ j).
  intros H. repeat (apply andb_prop in H; destruct H as [H ?]).
  apply Z.ltb_lt in H. apply Z.ltb_lt in H5. apply Z.eqb_eq in H4. apply Z.eqb_eq in H3. apply Z.ltb_lt in H2.
  apply Z.leb_le in H1. apply Z.leb_le in H0.
  split; [exact H5|].
  assert (Hj : 0 <= j) by (unfold j; lia).
  assert (Hk : 0 <= k) by (unfold k; apply Z.log2_nonneg).
  assert (Pj : 0 < 2 ^ j) by (apply Z.pow_pos_nonneg; lia).
  assert (Hm : 0 <= m) by (unfold m; apply Z.div_pos; lia).
  set (e := j - k) in *.
  pose proof (binary_normalize_correct 53 1024 p53 p53_1024 mode_NE m e false) as C.
  cbv zeta in C. rewrite rnd64_is_spec in C.
  assert (G : rnd64 (F2R (Float radix2 m e)) = F2R (Float radix2 m e)).
  { apply round_generic; [apply valid_rnd_N|]. apply generic_format_FLT.
    apply (FLT_spec radix2 (-1074) 53 _ (Float radix2 m e)); [reflexivity| |].
    - cbn [Fnum]. rewrite Z.abs_eq by exact Hm. exact H2.
    - cbn [Fexp]. exact H1. }
  rewrite G in C. rewrite Rlt_bool_true in C.
  - destruct C as [Cv [Cf _]].
    exists (binary_normalize 53 1024 p53 p53_1024 mode_NE m e false). split; [exact Cf|].
    rewrite Cv. unfold F2R. cbn [Fnum Fexp].
    rewrite <- H3, <- H4, !mult_IZR, !pow2_bpow by lia.
    unfold e, Z.sub. rewrite bpow_plus, bpow_opp.
    pose proof (bpow_gt_0 radix2 k). pose proof (bpow_gt_0 radix2 j). field. lra.
  - apply F2R_lt_bpow. cbn [Fnum Fexp]. rewrite Z.abs_eq by exact Hm.
    apply Z.lt_le_trans with (1 := H2). change (Zpower radix2 (1024 - e)) with (2 ^ (1024 - e)).
    apply Z.pow_le_mono_r; lia.
Qed.

(* hence: on every OnDouble rung of the two regenerated ladders the model's test IS `n < X` on doubles
   (Flocq's Bltb on the double of n and a finite double X of value exactly num/den) *)
Theorem thresholds_are_binary64 :
  (forallb threshold_exact Gen_C17.si_ladder = true /\ forallb threshold_exact Gen_C17.iec_ladder = true) /\
  (forall num den f, In (Gen_C17.OnDouble num den, f) (Gen_C17.si_ladder ++ Gen_C17.iec_ladder) ->
     0 < den /\
     exists y : binary64, is_finite y = true /\ B2R y = (IZR num / IZR den)%R /\
       forall n, 0 <= n < 2 ^ 64 -> Bltb (b64_of_Z n) y = (to_double n * den <? num)).
Proof.
  split; [exact thresholds_exact|]. intros num den f Hin.
  assert (T : threshold_exact (Gen_C17.OnDouble num den, f) = true).
  { destruct thresholds_exact as [S I]. rewrite forallb_forall in S, I.
    apply in_app_or in Hin. destruct Hin as [Hin|Hin]; [apply S|apply I]; exact Hin. }
  destruct (threshold_exact_sound num den f T) as (Hd & y & Fy & Ry).
  split; [exact Hd|]. exists y. split; [exact Fy|]. split; [exact Ry|].
  intros n Hn. exact (b64_lt_correct n y num den Hn Hd Fy Ry).
Qed.
