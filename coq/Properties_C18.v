(* Properties_C18: stream decoders are segmentation-invariant, bounded, and reject malformed
   input.  Only statements, closed by [exact], with Print Assumptions and non-vacuity examples.

   Objects (C18_Model.v):
   * codec_feed_all msg parse tag codec_init chunks : the onMessage loop of ProtobufCodecLite
     (literal model [cstep]) run after each chunk is appended to the input Buffer; result =
     (events, final state): events are CMsg m (messageCallback_), CErr e (errorCallback_,
     after which the stream is abandoned) and CFault (a read outside the received bytes);
     the state holds the unconsumed bytes [d_buf] (= Buffer::readableBytes), [d_abandoned]
     and [d_oof] (loop fuel exhausted).  [parse]/[ser] are protobuf's ParseFromArray /
     serializer: arbitrary functions (environment), [tag] any byte string ("RPC0" for RpcCodec).
   * ref_decode : the declarative reference (greedy split by the length prefix).
   * http_feed_all http_init chunks : HttpContext::parseRequest (literal model) driven as
     "parse; false => 400 and abandon; gotAll => deliver, reset(), again", after each chunk.
   The models are tied to /repo by the regenerated constants (Gen_Consts) and by the
   correspondence check (bin/check C18). *)
From Coq Require Import List ZArith Lia Bool Arith NArith.
From Coq.Strings Require Import Byte.
From Muduo Require Import C19_Model C19_Wire C19_WireProofs.
From Muduo Require Import Base_Bytes Gen_Consts Gen_C18 C10_Model C10_Proofs C18_Model C18_StreamProofs C18_CodecProofs C18_HttpProofs C18_HttpRef C18_HttpDecl C18_HttpPtr C18_Proofs C18_EncModel C18_EncProofs C18_LiveProofs C18_OldCodec C18_OldCodecProofs C18_HttpSrvModel C18_HttpSrvProofs C18_GenLink C18_RpcInstance.
Import ListNotations.
Local Open Scope Z_scope.

(* For every payload parser, tag, byte stream and segmentation of it into chunks: feeding the
   chunks one by one yields the same events (messages, first error), the same abandoned flag,
   the same unconsumed bytes and consumed count as feeding the concatenation in one piece; the
   decode loop never runs out of fuel.  Same for the HTTP parser (also the parser state). *)
Theorem C18_seg_invariant :
  (forall (msg : Type) (parse : list byte -> option msg) (tag : list byte) (chunks : list (list byte)),
    let r1 := codec_feed_all msg parse tag codec_init chunks in
    let r2 := codec_feed msg parse tag codec_init (concat chunks) in
    fst r1 = fst r2 /\
    d_abandoned (snd r1) = d_abandoned (snd r2) /\
    d_buf (snd r1) = d_buf (snd r2) /\
    consumed (length (concat chunks)) (snd r1) = consumed (length (concat chunks)) (snd r2) /\
    d_oof (snd r1) = false)
  /\
  (forall chunks : list (list byte),
    let r1 := http_feed_all http_init chunks in
    let r2 := http_feed http_init (concat chunks) in
    fst r1 = fst r2 /\
    d_st (snd r1) = d_st (snd r2) /\
    d_abandoned (snd r1) = d_abandoned (snd r2) /\
    d_buf (snd r1) = d_buf (snd r2) /\
    consumed (length (concat chunks)) (snd r1) = consumed (length (concat chunks)) (snd r2) /\
    d_oof (snd r1) = false).
Proof. exact seg_invariant. Qed.
Print Assumptions C18_seg_invariant.

(* The chunk-fed literal decoder equals the reference decoding of the whole stream: messages,
   first error, unconsumed rest.  The codec's reference [ref_decode] is written independently of the
   model (list surgery from the wire-format comment).  For HTTP the reference [ref_http]
   (C18_HttpRef.v) cuts the whole stream into its CRLF-terminated lines and folds over the list of
   lines; result = events, final parser state, unconsumed bytes, abandoned flag.  It is independent
   of the parser in its CONTROL STRUCTURE only: per line it calls the model's own find_crlf,
   processRequestLine, find_byte COLON and add_header.  The independent per-line definitions are
   C18_http_request_line_declarative (request line), C18_http_accepts_only_valid (iff against
   valid_request_line) and C18_http_header_semantics (header lines) below.  (A further, fully
   independent reference is the Python oracle of the check.) *)
Theorem C18_equals_reference :
  (forall (msg : Type) (parse : list byte -> option msg) (tag : list byte) (chunks : list (list byte)),
    let s := concat chunks in
    codec_feed_all msg parse tag codec_init chunks =
    (let '(ms, e, rest) := ref_decode msg parse tag (S (length s)) s in
     (map CMsg ms ++ match e with Some x => [CErr x] | None => [] end,
      mkD tt rest (match e with Some _ => true | None => false end) false)))
  /\
  (forall chunks : list (list byte),
    http_feed_all http_init chunks = ref_http (concat chunks)).
Proof. exact equals_reference. Qed.
Print Assumptions C18_equals_reference.

(* Every sequence of messages encoded by the library (frames within the size limit), cut
   into chunks in any way, decodes to exactly those messages; everything is consumed. *)
Theorem C18_roundtrip :
  forall (msg : Type) (parse : list byte -> option msg) (ser : msg -> list byte) (tag : list byte),
    (forall m, parse (ser m) = Some m) ->
    forall (ms : list msg) (chunks : list (list byte)),
      Forall (fun m => fits tag (ser m)) ms ->
      concat chunks = flat_map (encode_msg msg ser tag) ms ->
      codec_feed_all msg parse tag codec_init chunks = (map CMsg ms, mkD tt [] false false).
Proof. exact roundtrip. Qed.
Print Assumptions C18_roundtrip.

(* Reject classes.  In each: any valid frames [ps] (delivered as [ms]) followed by a
   malformed head, in any segmentation: exactly the messages of the valid frames, then exactly
   the class's error code; the malformed frame is not delivered, nothing of it is consumed,
   the stream is abandoned. *)
Theorem C18_reject_length :
  forall (msg : Type) (parse : list byte -> option msg) (tag : list byte) ps ms t chunks,
    valid_frames msg parse tag ps ms -> concat chunks = flat_map (encode tag) ps ++ t ->
    (4 + length tag + 4 <= length t)%nat ->
    (be_decode_signed (firstn 4 t) < Z.of_nat (length tag) + 4 \/
     kMaxMessageLen < be_decode_signed (firstn 4 t)) ->
    codec_feed_all msg parse tag codec_init chunks =
      (map CMsg ms ++ [CErr kInvalidLength], mkD tt t true false).
Proof. exact reject_length. Qed.
Print Assumptions C18_reject_length.

(* "checksum mismatch" semantically: the 4-byte trailer differs from Adler-32 of tag+payload *)
Theorem C18_reject_checksum :
  forall (msg : Type) (parse : list byte -> option msg) (tag : list byte) ps ms tp ck rest chunks,
    valid_frames msg parse tag ps ms ->
    concat chunks = flat_map (encode tag) ps ++
                    (be_encode 4 (Z.of_nat (length tp) + 4) ++ tp ++ ck ++ rest) ->
    length ck = 4%nat -> (length tag <= length tp)%nat ->
    Z.of_nat (length tp) + 4 <= kMaxMessageLen ->
    be_decode ck <> adler32 tp ->
    codec_feed_all msg parse tag codec_init chunks =
      (map CMsg ms ++ [CErr kCheckSumError],
       mkD tt (be_encode 4 (Z.of_nat (length tp) + 4) ++ tp ++ ck ++ rest) true false).
Proof. exact reject_checksum. Qed.
Print Assumptions C18_reject_checksum.

Theorem C18_reject_tag :
  forall (msg : Type) (parse : list byte -> option msg) (tag : list byte) ps ms tg p rest chunks,
    valid_frames msg parse tag ps ms ->
    concat chunks = flat_map (encode tag) ps ++ (encode tg p ++ rest) ->
    length tg = length tag -> tg <> tag -> fits tag p ->
    codec_feed_all msg parse tag codec_init chunks =
      (map CMsg ms ++ [CErr kUnknownMessageType], mkD tt (encode tg p ++ rest) true false).
Proof. exact reject_tag. Qed.
Print Assumptions C18_reject_tag.

Theorem C18_reject_payload :
  forall (msg : Type) (parse : list byte -> option msg) (tag : list byte) ps ms p rest chunks,
    valid_frames msg parse tag ps ms ->
    concat chunks = flat_map (encode tag) ps ++ (encode tag p ++ rest) ->
    fits tag p -> parse p = None ->
    codec_feed_all msg parse tag codec_init chunks =
      (map CMsg ms ++ [CErr kParseError], mkD tt (encode tag p ++ rest) true false).
Proof. exact reject_payload. Qed.
Print Assumptions C18_reject_payload.

(* For every stream and segmentation: the stream is exactly the well-formed frames that
   were delivered (each within the limit, each payload parsing to the delivered message)
   followed by the unconsumed bytes; the consumed count is the sum over the delivered frames
   of 4 + len; events are those messages, then at most one error.  So no byte of a later frame
   is ever consumed, and no message is delivered that is not a checksummed frame of the stream. *)
Theorem C18_consumes_only_own_bytes :
  forall (msg : Type) (parse : list byte -> option msg) (tag : list byte) chunks,
    let r := codec_feed_all msg parse tag codec_init chunks in
    exists ps ms,
      valid_frames msg parse tag ps ms /\
      concat chunks = flat_map (encode tag) ps ++ d_buf (snd r) /\
      consumed (length (concat chunks)) (snd r) =
        list_sum (map (fun p => 4 + (length tag + length p + 4))%nat ps) /\
      ((fst r = map CMsg ms /\ d_abandoned (snd r) = false) \/
       (exists e, fst r = map CMsg ms ++ [CErr e] /\ d_abandoned (snd r) = true)).
Proof. exact consumes_only_own_bytes. Qed.
Print Assumptions C18_consumes_only_own_bytes.

(* No input makes a bounds-checked read of the CODEC fail (every read of onMessage / parse /
   validateChecksum / asInt32 is inside the received bytes), and the loop terminates.  (Codec only:
   the HTTP model works on lists, where an over-read cannot be written down; for processRequestLine
   see C18_http_request_line_reads_in_bounds, for the old codec C18_old_codec_reads_in_bounds.) *)
Theorem C18_reads_in_bounds :
  forall (msg : Type) (parse : list byte -> option msg) (tag : list byte) chunks,
    ~ In CFault (fst (codec_feed_all msg parse tag codec_init chunks)) /\
    d_oof (snd (codec_feed_all msg parse tag codec_init chunks)) = false.
Proof. exact reads_in_bounds. Qed.
Print Assumptions C18_reads_in_bounds.

(* A request line is accepted iff it is METHOD SP target SP "HTTP/1." ("0"|"1") with METHOD in
   {GET, POST, HEAD, PUT, DELETE} and target free of SP; the accepted request has that method,
   version, path = target up to '?', query = from '?'; a stream whose first line is anything
   else is answered by exactly one error, abandoned, nothing consumed (any segmentation). *)
Theorem C18_http_accepts_only_valid :
  (forall line r, (exists r', processRequestLine line r = Some r') <-> valid_request_line line)
  /\
  (forall m t v r, valid_method m -> ~ In SP t -> (v = x30 \/ v = x31) ->
     processRequestLine (m ++ [SP] ++ t ++ [SP] ++ s_HTTP1dot ++ [v]) r =
       Some (mkReq (set_method m) (if Byte.eqb v x31 then kHttp11 else kHttp10)
                   (match find_byte QMARK t with Some q => firstn q t | None => t end)
                   (match find_byte QMARK t with Some q => skipn q t | None => q_query r end)
                   (q_headers r)))
  /\
  (forall line rest chunks,
     crlf_line line -> ~ valid_request_line line ->
     concat chunks = line ++ [CR; LF] ++ rest ->
     http_feed_all http_init chunks = ([HBad], mkD ctx0 (line ++ [CR; LF] ++ rest) true false)).
Proof. exact http_accepts_only_valid. Qed.
Print Assumptions C18_http_accepts_only_valid.

(* Only complete CRLF-terminated lines are ever consumed: the stream is a sequence of lines,
   each ended by its first CRLF, followed by the unconsumed bytes. *)
Theorem C18_http_line_atomic :
  forall chunks,
    let (evs, d) := http_feed_all http_init chunks in
    exists lines, concat chunks = flat_map (fun l => l ++ [CR; LF]) lines ++ d_buf d /\
                  Forall crlf_line lines.
Proof. exact line_atomic. Qed.
Print Assumptions C18_http_line_atomic.

(* The length test of onMessage as translated from the current source by lib/gen_C18.py
   (clang AST) is the length test of the model: editing the test breaks this obligation. *)
Theorem C18_generated_length_test :
  forall (tag : list byte) (len : Z),
    Gen_C18.onMessage_length_bad len kMaxMessageLen (kMinMessageLen tag) = length_bad tag len.
Proof. exact gen_length_test. Qed.
Print Assumptions C18_generated_length_test.

(* ======================= the encoder, through the C10 Buffer model ========================== *)
(* fillEmptyBuffer (append tag; serializeToBuffer = ensureWritableBytes + the serializer writing at
   beginWrite() + hasWritten; checksum over peek()..; appendInt32; prepend of the length), run on
   the Buffer model of C10: on a fresh Buffer of any initial size, and on every reachable empty
   Buffer with at least 4 prependable bytes, the readable bytes are exactly the wire format;
   a non-empty Buffer trips the assertion. *)
Theorem C18_encode_matches_wire_format :
  forall (msg : Type) (ser : msg -> list byte) (tag : list byte) (m : msg),
    (forall n, exists b', fillEmptyBuffer msg ser tag m (new_buf n) = Ok b' /\
                          readable b' = encode tag (ser m)) /\
    (forall st s, reach st s -> fst s = [] -> (4 <= prependableBytes (fst st))%nat ->
       exists b', fillEmptyBuffer msg ser tag m (fst st) = Ok b' /\
                  readable b' = encode tag (ser m)) /\
    (forall st s, reach st s -> fst s <> [] -> fillEmptyBuffer msg ser tag m (fst st) = Rejected).
Proof. exact encode_matches_wire_format. Qed.
Print Assumptions C18_encode_matches_wire_format.

(* The dependency on C10 made explicit: kHeaderLen <= kCheapPrepend (two regenerated constants);
   on any Buffer whose history contains no prepend (C10_cheap_prepend_unused) the final prepend is
   accepted; and it IS needed: a reachable empty Buffer whose prepend area was used up makes
   fillEmptyBuffer fail in Buffer::prepend's assertion. *)
Theorem C18_encode_needs_cheap_prepend :
  (hdr_len <= kCheapPrepend)%nat /\
  (forall (msg : Type) (ser : msg -> list byte) (tag : list byte) (m : msg) n k ops st outs,
     C10_Model.run (new_buf n, new_buf k) ops = Ok (st, outs) ->
     forallb (fun o => negb (prepends o)) ops = true ->
     readable (fst st) = [] ->
     exists b', fillEmptyBuffer msg ser tag m (fst st) = Ok b' /\ readable b' = encode tag (ser m)) /\
  (exists st outs,
     C10_Model.run (new_buf 16, new_buf 0) [PrependInt W64 0%Z; Unwrite 8] = Ok (st, outs) /\
     readable (fst st) = [] /\
     fillEmptyBuffer (list byte) (fun x => x) [] [] (fst st) = Rejected).
Proof. exact encode_needs_cheap_prepend. Qed.
Print Assumptions C18_encode_needs_cheap_prepend.

(* Round trip through the real buffer operations on both sides: every message encoded by
   fillEmptyBuffer into a fresh Buffer; the Buffers' readable bytes concatenated and cut into
   deliveries in any way; each delivery appended to the connection's input Buffer and decoded by
   onMessage with every access through Buffer's members (readableBytes, peekInt32, peek()+offset,
   retrieve): exactly those messages, input Buffer empty at the end, no error, no shutdown. *)
Theorem C18_roundtrip_through_buffers :
  forall (msg : Type) (parse : list byte -> option msg) (ser : msg -> list byte) (tag : list byte),
    forall (ms : list msg) (bufs : list buf) (chunks : list (list byte)) (n0 : nat),
      Forall (fun m => parse (ser m) = Some m /\ fits tag (ser m)) ms ->
      Forall2 (fun m b => exists n, fillEmptyBuffer msg ser tag m (new_buf n) = Ok b) ms bufs ->
      concat chunks = flat_map readable bufs ->
      exists evss c', deliver_all msg parse tag (conn0 n0) chunks = Ok (evss, c') /\
        concat evss = map CMsg ms /\ readable (c_in c') = [] /\
        c_connected c' = true /\ c_shutdowns c' = 0%nat.
Proof. exact roundtrip_through_buffers. Qed.
Print Assumptions C18_roundtrip_through_buffers.

(* The decoder over the Buffer model never faults (no read outside the Buffer's readable region,
   no failed assertion, loop terminates), leaves in the input Buffer exactly the unconsumed bytes
   of the list-level decoder, and, as long as no error occurred, reports exactly its events. *)
Theorem C18_decoder_over_buffer :
  forall (msg : Type) (parse : list byte -> option msg) (tag : list byte) (chunks : list (list byte)) (n0 : nat),
    let r := codec_feed_all msg parse tag codec_init chunks in
    exists evss c', deliver_all msg parse tag (conn0 n0) chunks = Ok (evss, c') /\
      length evss = length chunks /\
      readable (c_in c') = d_buf (snd r) /\
      (d_abandoned (snd r) = false ->
         concat evss = fst r /\ c_connected c' = true /\ c_shutdowns c' = 0%nat).
Proof. exact decoder_over_buffer. Qed.
Print Assumptions C18_decoder_over_buffer.

(* "the same first error, after which the stream is abandoned" as a modelled step: the codec
   keeps no flag; defaultErrorCallback shuts the connection down (once); TcpConnection goes on
   delivering what still arrives; every such delivery reports the SAME error again, delivers no
   message and consumes nothing.  [r1] is the abandoned-flag decoder of the theorems above. *)
Theorem C18_error_abandons_stream :
  forall (msg : Type) (parse : list byte -> option msg) (tag : list byte)
         (chunks1 chunks2 : list (list byte)) (n0 : nat),
    let r1 := codec_feed_all msg parse tag codec_init chunks1 in
    d_abandoned (snd r1) = true ->
    exists e pre evss1 c',
      fst r1 = pre ++ [CErr e] /\
      deliver_all msg parse tag (conn0 n0) (chunks1 ++ chunks2) =
        Ok (evss1 ++ repeat [CErr e] (length chunks2), c') /\
      length evss1 = length chunks1 /\
      c_connected c' = false /\ c_shutdowns c' = 1%nat /\
      readable (c_in c') = d_buf (snd r1) ++ concat chunks2.
Proof. exact error_abandons_stream. Qed.
Print Assumptions C18_error_abandons_stream.

(* The real codec (no abandoned flag; the loop runs on every delivery) on EVERY stream, streams
   with an error included, list level: with (ms, er, rest) = the reference decoding of the whole
   stream, one event list per delivery, concatenated = the messages ms, then - if the stream
   contains an error x - CErr x once for the delivery that made it detectable and once more for
   every later delivery ([late_reads] = the number of deliveries that arrive when the stream
   received before them already contains an error, counted by the reference decoder on prefixes
   of the stream); what stays unconsumed is rest. *)
Theorem C18_live_events :
  forall (msg : Type) (parse : list byte -> option msg) (tag : list byte) (chunks : list (list byte)),
    let s := concat chunks in
    let '(ms, er, rest) := ref_decode msg parse tag (S (length s)) s in
    let '(es, lf) := live_all msg parse tag [] chunks in
    length es = length chunks /\ lf = rest /\
    concat es = map CMsg ms ++
                match er with
                | Some x => CErr x :: repeat (CErr x) (late_reads msg parse tag [] chunks)
                | None => []
                end.
Proof. exact live_events. Qed.
Print Assumptions C18_live_events.

Theorem C18_live_defs :
  forall (msg : Type) (parse : list byte -> option msg) (tag : list byte) l c cs pre s,
    live_all msg parse tag l [] = ([], l) /\
    live_all msg parse tag l (c :: cs) =
      (let '(e1, l1) := live_feed msg parse tag l c in
       let '(es, lf) := live_all msg parse tag l1 cs in (e1 :: es, lf)) /\
    live_feed msg parse tag l c =
      (let '(evs, st) := C18_Model.run (cstep msg parse tag) (S (length (l ++ c))) tt (l ++ c) in (evs, d_buf st)) /\
    late_reads msg parse tag pre [] = 0%nat /\
    late_reads msg parse tag pre (c :: cs) =
      ((match ref_err msg parse tag pre with Some _ => 1 | None => 0 end) + late_reads msg parse tag (pre ++ c) cs)%nat /\
    ref_err msg parse tag s = snd (fst (ref_decode msg parse tag (S (length s)) s)).
Proof. exact (fun msg parse tag l c cs pre s => conj eq_refl (conj eq_refl (conj eq_refl (conj eq_refl (conj eq_refl eq_refl))))). Qed.
Print Assumptions C18_live_defs.

(* The Buffer-level decoder on a connection (every access through Buffer's members, the error
   callback's shutdown) on EVERY delivery sequence, error streams included - this pins what
   C18_decoder_over_buffer / C18_error_abandons_stream left open (their [evss] were constrained
   only while no error had occurred / only by their length): the per-delivery event lists,
   concatenated, are exactly the reference's messages followed by the error re-reported once per
   delivery from the one that completed the bad head on; NO CFault (no read outside the readable
   region, no failed assert) also on error streams; the bad frame is never delivered and nothing of
   it is consumed (readable = rest); connected iff no error; shutdown() took effect exactly once
   iff there is an error. *)
Theorem C18_decoder_over_buffer_full :
  forall (msg : Type) (parse : list byte -> option msg) (tag : list byte) (chunks : list (list byte)) (n0 : nat),
    let s := concat chunks in
    let '(ms, er, rest) := ref_decode msg parse tag (S (length s)) s in
    exists evss c', deliver_all msg parse tag (conn0 n0) chunks = Ok (evss, c') /\
      length evss = length chunks /\
      concat evss = map CMsg ms ++
                    match er with
                    | Some x => CErr x :: repeat (CErr x) (late_reads msg parse tag [] chunks)
                    | None => []
                    end /\
      ~ In CFault (concat evss) /\
      readable (c_in c') = rest /\
      c_connected c' = (match er with Some _ => false | None => true end) /\
      c_shutdowns c' = (match er with Some _ => 1 | None => 0 end)%nat.
Proof. exact decoder_over_buffer_full. Qed.
Print Assumptions C18_decoder_over_buffer_full.

(* The round trip needs the parser hypothesis only for the messages actually sent. *)
Theorem C18_roundtrip_on :
  forall (msg : Type) (parse : list byte -> option msg) (ser : msg -> list byte) (tag : list byte)
         (ms : list msg) (chunks : list (list byte)),
    Forall (fun m => parse (ser m) = Some m /\ fits tag (ser m)) ms ->
    concat chunks = flat_map (encode_msg msg ser tag) ms ->
    codec_feed_all msg parse tag codec_init chunks = (map CMsg ms, mkD tt [] false false).
Proof. exact roundtrip_on. Qed.
Print Assumptions C18_roundtrip_on.

(* ======================= RpcCodec: tag "RPC0", payload = RpcMessage ========================== *)
(* The payload format is C19_Wire.wire_parse / wire_ser (rpc.proto as protobuf reads / writes it;
   C19_wire_roundtrip).  Every well-formed RpcMessage within the size limit, encoded through the
   Buffer model, decodes to an equal RpcMessage in any segmentation, over the list decoder and
   over the connection's input Buffer. *)
Theorem C18_rpc_codec_instance :
  forall (ms : list rpcmsg) (bufs : list buf) (chunks : list (list byte)) (n0 : nat),
    Forall rpc_sendable ms ->
    Forall2 (fun m b => exists n, fillEmptyBuffer rpcmsg wire_ser rpctag m (new_buf n) = Ok b) ms bufs ->
    concat chunks = flat_map readable bufs ->
    flat_map readable bufs = flat_map (encode_msg rpcmsg wire_ser rpctag) ms /\
    codec_feed_all rpcmsg wire_parse rpctag codec_init chunks = (map CMsg ms, mkD tt [] false false) /\
    exists evss c', deliver_all rpcmsg wire_parse rpctag (conn0 n0) chunks = Ok (evss, c') /\
      concat evss = map CMsg ms /\ readable (c_in c') = [] /\
      c_connected c' = true /\ c_shutdowns c' = 0%nat.
Proof. exact rpc_codec_instance. Qed.
Print Assumptions C18_rpc_codec_instance.

Theorem C18_rpc_rejects_unparsable :
  forall ps ms p rest chunks,
    valid_frames rpcmsg wire_parse rpctag ps ms ->
    concat chunks = flat_map (encode rpctag) ps ++ (encode rpctag p ++ rest) ->
    fits rpctag p -> wire_parse p = None ->
    codec_feed_all rpcmsg wire_parse rpctag codec_init chunks =
      (map CMsg ms ++ [CErr kParseError], mkD tt (encode rpctag p ++ rest) true false).
Proof. exact rpc_rejects_unparsable. Qed.
Print Assumptions C18_rpc_rejects_unparsable.

Theorem C18_rpctag_generated : map Z_of_byte rpctag = Gen_C18.RpcCodec_rpctag.
Proof. exact rpctag_generated. Qed.
Print Assumptions C18_rpctag_generated.

(* ======================= the OLD codec: examples/protobuf/codec/codec.cc ====================== *)
(* class ProtobufCodec (not ProtobufCodecLite): wire layout len | nameLen | typeName (nameLen bytes,
   NUL-terminated by the encoder) | protobufData | checkSum = Adler-32 of nameLen, typeName and
   protobufData (codec.h:17-24).  [ostep] (C18_OldCodec.v) is one iteration of the while loop of
   ProtobufCodec::onMessage with ProtobufCodec::parse inlined, every read bounds-checked; the
   message type is looked up by name: [create tn] = createMessage(typeName) != NULL, [parse tn data] =
   message->ParseFromArray (both environment: arbitrary functions); kHeaderLen, kMinMessageLen,
   kMaxMessageLen are regenerated from codec.h.  A fourth instance of the generic chunk-fed decoder. *)

(* segmentation invariance: chunk by chunk = in one piece (events, unconsumed bytes, abandoned
   flag); the loop never runs out of fuel *)
Theorem C18_old_codec_seg_invariant :
  forall (msg : Type) (create : list byte -> bool) (parse : list byte -> list byte -> option msg)
         (chunks : list (list byte)),
    ocodec_feed_all msg create parse ocodec_init chunks = ocodec_feed msg create parse ocodec_init (concat chunks) /\
    d_oof (snd (ocodec_feed_all msg create parse ocodec_init chunks)) = false.
Proof. exact (fun msg create parse chunks => conj (old_codec_seg_invariant msg create parse chunks) (old_codec_no_oof msg create parse chunks)). Qed.
Print Assumptions C18_old_codec_seg_invariant.

(* the chunk-fed literal decoder = the reference decoding [oref_decode] of the concatenation (greedy
   split written from the struct comment of codec.h: list surgery, unsigned checksum comparison,
   literal 64 MiB): messages, first error, unconsumed rest *)
Theorem C18_old_codec_equals_reference :
  forall (msg : Type) (create : list byte -> bool) (parse : list byte -> list byte -> option msg)
         (chunks : list (list byte)),
    let s := concat chunks in
    ocodec_feed_all msg create parse ocodec_init chunks =
    (let '(ms, e, rest) := oref_decode msg create parse (S (length s)) s in
     (map CMsg ms ++ match e with Some x => [CErr x] | None => [] end,
      mkD tt rest (match e with Some _ => true | None => false end) false)).
Proof. exact old_codec_equals_reference. Qed.
Print Assumptions C18_old_codec_equals_reference.

(* no input makes a bounds-checked read of ProtobufCodec::onMessage / parse / asInt32 / the typeName
   range / the data range fail; the loop terminates *)
Theorem C18_old_codec_reads_in_bounds :
  forall (msg : Type) (create : list byte -> bool) (parse : list byte -> list byte -> option msg) chunks,
    ~ In CFault (fst (ocodec_feed_all msg create parse ocodec_init chunks)) /\
    d_oof (snd (ocodec_feed_all msg create parse ocodec_init chunks)) = false.
Proof. exact old_codec_reads_in_bounds. Qed.
Print Assumptions C18_old_codec_reads_in_bounds.

(* round trip with the encoder's wire format [oencode] (fillEmptyBuffer: nameLen = |typeName|+1, the
   name with its NUL, the serialised message, the checksum, the length prepended): frames whose type
   name is non-empty and known to the factory, whose payload the message type parses and which are
   within the limit, cut into chunks in any way, are delivered exactly; everything is consumed *)
Theorem C18_old_codec_roundtrip :
  forall (msg : Type) (create : list byte -> bool) (parse : list byte -> list byte -> option msg)
         (fs : list (list byte * list byte)) (ms : list msg) (chunks : list (list byte)),
    Forall2 (fun f m => fst f <> [] /\ create (fst f) = true /\ parse (fst f) (snd f) = Some m /\
                        ofits (fst f) (snd f)) fs ms ->
    concat chunks = flat_map (fun f => oencode (fst f) (snd f)) fs ->
    ocodec_feed_all msg create parse ocodec_init chunks = (map CMsg ms, mkD tt [] false false).
Proof. exact old_codec_roundtrip. Qed.
Print Assumptions C18_old_codec_roundtrip.

(* rejection: valid frames followed by a head the reference calls bad, in any segmentation: exactly
   the messages of the valid frames, then exactly that error; nothing of the bad head is consumed,
   the stream is abandoned *)
Theorem C18_old_codec_reject :
  forall (msg : Type) (create : list byte -> bool) (parse : list byte -> list byte -> option msg)
         fs ms t e chunks,
    Forall2 (fun f m => fst f <> [] /\ create (fst f) = true /\ parse (fst f) (snd f) = Some m /\
                        ofits (fst f) (snd f)) fs ms ->
    oref_split msg create parse t = RBad msg e ->
    concat chunks = flat_map (fun f => oencode (fst f) (snd f)) fs ++ t ->
    ocodec_feed_all msg create parse ocodec_init chunks = (map CMsg ms ++ [CErr e], mkD tt t true false).
Proof. exact old_codec_reject. Qed.
Print Assumptions C18_old_codec_reject.

(* ... and which heads are bad, class by class: length field < 10 or > 64 MiB (signed); trailer <>
   Adler-32 of nameLen+typeName+protobufData; correct checksum but nameLen < 2 or nameLen > len - 8
   (kInvalidNameLen, the class only this codec has); a well-formed frame whose type name the factory
   does not know; one whose payload the message type rejects *)
Theorem C18_old_codec_reject_classes :
  forall (msg : Type) (create : list byte -> bool) (parse : list byte -> list byte -> option msg),
  (forall t, (4 + 10 <= length t)%nat ->
     (be_decode_signed (firstn 4 t) < 10 \/ 64 * 1024 * 1024 < be_decode_signed (firstn 4 t)) ->
     oref_split msg create parse t = RBad msg kInvalidLength) /\
  (forall cov ck rest, length ck = 4%nat -> (6 <= length cov)%nat -> Z.of_nat (length cov) + 4 <= 64 * 1024 * 1024 ->
     be_decode ck <> adler32 cov ->
     oref_split msg create parse (be_encode 4 (Z.of_nat (length cov) + 4) ++ cov ++ ck ++ rest) = RBad msg kCheckSumError) /\
  (forall cov rest, (6 <= length cov)%nat -> Z.of_nat (length cov) + 4 <= 64 * 1024 * 1024 ->
     (be_decode_signed (firstn 4 cov) < 2 \/ Z.of_nat (length cov) - 4 < be_decode_signed (firstn 4 cov)) ->
     oref_split msg create parse (be_encode 4 (Z.of_nat (length cov) + 4) ++ cov ++ be_encode 4 (adler32 cov) ++ rest) =
     RBad msg kInvalidNameLen) /\
  (forall tn data rest, tn <> [] -> ofits tn data -> create tn = false ->
     oref_split msg create parse (oencode tn data ++ rest) = RBad msg kUnknownMessageType) /\
  (forall tn data rest, tn <> [] -> ofits tn data -> create tn = true -> parse tn data = None ->
     oref_split msg create parse (oencode tn data ++ rest) = RBad msg kParseError).
Proof.
  exact (fun msg create parse =>
    conj (obad_length msg create parse) (conj (obad_checksum msg create parse) (conj (obad_namelen msg create parse)
      (conj (obad_type msg create parse) (obad_payload msg create parse))))).
Qed.
Print Assumptions C18_old_codec_reject_classes.

(* every comparison of ProtobufCodec::onMessage / parse, the offsets and lengths handed to parse,
   asInt32, adler32, the typeName range, retrieve, and the two asserts of fillEmptyBuffer, as
   translated from the clang AST of codec.cc, are the model's; the three constants are codec.h's *)
Theorem C18_gen_old_codec : forall (b : list byte) (len nameLen P off e a c bs : Z) (r : nat) (mok : bool),
  old_onMessage_while0 okHeaderLen okMinMessageLen (Z.of_nat (length b))
    = (Z.of_nat (length b) >=? okMinMessageLen + okHeaderLen) /\
  old_onMessage_if0 okMaxMessageLen okMinMessageLen len = olength_bad len /\
  (old_onMessage_cmp0 okMaxMessageLen len || old_onMessage_cmp1 okMinMessageLen len)%bool = olength_bad len /\
  old_onMessage_if1 okHeaderLen len (Z.of_nat (length b)) = (Z.of_nat (length b) >=? len + okHeaderLen) /\
  old_onMessage_cmp2 okHeaderLen len (Z.of_nat (length b)) = (Z.of_nat (length b) >=? len + okHeaderLen) /\
  old_onMessage_call0_parse_arg0 okHeaderLen P - P = okHeaderLen /\
  old_onMessage_call0_parse_arg1 len = len /\
  old_onMessage_if2 e 0 mok = ((e =? 0) && mok)%bool /\
  old_onMessage_cmp3 e 0 = (e =? 0) /\
  old_onMessage_call1_retrieve okHeaderLen len = okHeaderLen + len /\
  old_onMessage_let_len len = len /\
  (let buf := P + off in
   old_parse_call0_asInt32 buf okHeaderLen len - P = off + len - okHeaderLen /\
   old_parse_call1_adler32_arg0 buf = buf /\
   old_parse_call1_adler32_arg1 okHeaderLen len = len - okHeaderLen /\
   old_parse_if0 a c = (a =? c) /\ old_parse_cmp0 a c = (a =? c) /\
   old_parse_call2_asInt32 buf = buf /\
   old_parse_if1 okHeaderLen len nameLen = ((nameLen >=? 2) && (nameLen <=? len - 2 * okHeaderLen))%bool /\
   (old_parse_cmp1 nameLen && old_parse_cmp2 okHeaderLen len nameLen)%bool
     = ((nameLen >=? 2) && (nameLen <=? len - 2 * okHeaderLen))%bool /\
   old_parse_typeName_arg0 buf okHeaderLen - P = off + okHeaderLen /\
   old_parse_typeName_arg1 buf okHeaderLen nameLen - old_parse_typeName_arg0 buf okHeaderLen = nameLen - 1 /\
   old_parse_if2 mok = mok /\
   old_parse_let_data buf okHeaderLen nameLen - P = off + okHeaderLen + nameLen /\
   old_parse_let_dataLen okHeaderLen len nameLen = len - nameLen - 2 * okHeaderLen) /\
  old_fillEmptyBuffer_assert0 (Z.of_nat r) = (r =? 0)%nat /\
  old_fillEmptyBuffer_assert1 bs nameLen (Z.of_nat r) = (Z.of_nat r =? 4 + nameLen + bs + 4).
Proof. exact gen_old_codec. Qed.
Print Assumptions C18_gen_old_codec.

Theorem C18_old_codec_constants :
  okHeaderLen = 4 /\ okMinMessageLen = 2 * okHeaderLen + 2 /\ okMaxMessageLen = 64 * 1024 * 1024 /\
  okHeaderLen = Gen_C18.ProtobufCodec_kHeaderLen /\ okMinMessageLen = Gen_C18.ProtobufCodec_kMinMessageLen /\
  okMaxMessageLen = Gen_C18.ProtobufCodec_kMaxMessageLen.
Proof. exact (conj okHeaderLen_val (conj okMin_derivation (conj okMaxMessageLen_val (conj eq_refl (conj eq_refl eq_refl))))). Qed.
Print Assumptions C18_old_codec_constants.

(* ======================= HTTP: headers, server loop, responses ================================ *)
(* addHeader: the field name is the bytes before the colon (not trimmed); the value is what follows,
   with C-locale white space removed at both ends and nothing else; assigning a field again
   replaces its value (duplicate header lines: the last one wins), other fields are untouched. *)
Theorem C18_http_header_semantics : forall r line colon,
  let field := firstn colon line in
  let raw := skipn (colon + 1) line in
  let value := trim_right (drop_space raw) in
  get_header (add_header r line colon) field = value /\
  (forall k, k <> field -> get_header (add_header r line colon) k = get_header r k) /\
  (exists p s, raw = p ++ value ++ s /\ forallb isspace p = true /\ forallb isspace s = true) /\
  match value with x :: _ => isspace x = false | [] => True end /\
  match rev value with x :: _ => isspace x = false | [] => True end.
Proof. exact add_header_spec. Qed.
Print Assumptions C18_http_header_semantics.

(* HttpServer::onMessage calls parseRequest once per delivery.  The requests handed to the
   callback are therefore a PREFIX of the requests contained in the delivered bytes (= those of
   the segmentation-invariant decoder http_feed_all, whose gotAll => deliver, reset(), again loop
   is what C18_seg_invariant is about); the missing ones are exactly those the ideal loop [drain]
   still finds in the server's input buffer, and from there it ends in the ideal decoder's state
   (parser state after reset(), unconsumed bytes, abandoned).  Never out of fuel. *)
Theorem C18_http_server_requests_prefix :
  forall (callback : request -> bool -> response) (chunks : list (list byte)),
    let '(ess, c) := srv_deliver_all callback sconn0 chunks in
    let '(ei, di) := http_feed_all http_init chunks in
    hreqs ei = requests_of (concat ess) ++ hreqs (fst (drain c)) /\
    snd (drain c) = di /\ ~ In SOof (concat ess) /\
    (In SAssert (concat ess) -> d_abandoned di = true).
Proof. exact server_requests_prefix. Qed.
Print Assumptions C18_http_server_requests_prefix.

(* An INDEPENDENT request line (C18_HttpDecl.v): [ref_http] above shares processRequestLine with the
   parser; [ref_request_line] does not use any function of the parser model - the line is cut at
   EVERY space into fields; it is a request line iff there are exactly three fields, the first one of
   the five method names (ASCII strings, standard list equality), the third "HTTP/1.0" or "HTTP/1.1";
   path = the target up to its first '?', query = from it (the prior request's query if there is
   none; the headers are the prior request's).  The parser's processRequestLine IS that function,
   for every line and every prior request (accepting and rejecting alike), and the chunk-fed literal
   parser equals the reference built on it, on every stream in every segmentation. *)
Theorem C18_http_request_line_declarative :
  (forall line r0, processRequestLine line r0 = ref_request_line line r0) /\
  (forall chunks, http_feed_all http_init chunks = ref_http_decl (concat chunks)).
Proof. exact (conj ref_request_line_eq http_equals_decl_reference). Qed.
Print Assumptions C18_http_request_line_declarative.

Theorem C18_http_request_line_decl_defs : forall line r0 x t,
  ref_request_line line r0 =
    (match fields line with
     | [m; tg; v] =>
         match method_named m, version_named v with
         | Some k, Some ver =>
             Some (mkReq k ver (before_q tg) (match from_q tg with Some q => q | None => q_query r0 end) (q_headers r0))
         | _, _ => None
         end
     | _ => None
     end) /\
  fields [] = [[]] /\
  fields (x :: t) = (if Byte.byte_eq_dec x b_SP then [] :: fields t
                     else match fields t with f :: fs => (x :: f) :: fs | [] => [[x]] end) /\
  before_q [] = [] /\ before_q (x :: t) = (if Byte.byte_eq_dec x b_Q then [] else x :: before_q t) /\
  from_q [] = None /\ from_q (x :: t) = (if Byte.byte_eq_dec x b_Q then Some (x :: t) else from_q t) /\
  (forall m, method_named m =
     if same_bytes m ["G"; "E"; "T"]%byte then Some kGet
     else if same_bytes m ["P"; "O"; "S"; "T"]%byte then Some kPost
     else if same_bytes m ["H"; "E"; "A"; "D"]%byte then Some kHead
     else if same_bytes m ["P"; "U"; "T"]%byte then Some kPut
     else if same_bytes m ["D"; "E"; "L"; "E"; "T"; "E"]%byte then Some kDelete
     else None) /\
  (forall v, version_named v =
     if same_bytes v ["H"; "T"; "T"; "P"; "/"; "1"; "."; "1"]%byte then Some kHttp11
     else if same_bytes v ["H"; "T"; "T"; "P"; "/"; "1"; "."; "0"]%byte then Some kHttp10
     else None) /\
  (forall a b, same_bytes a b = true <-> a = b).
Proof.
  exact (fun line r0 x t => conj eq_refl (conj eq_refl (conj eq_refl (conj eq_refl (conj eq_refl (conj eq_refl (conj eq_refl
    (conj (fun m => eq_refl) (conj (fun v => eq_refl) same_bytes_true))))))))).
Qed.
Print Assumptions C18_http_request_line_decl_defs.

(* "No read outside the received bytes" for the request-line parser (C18_HttpPtr.v): processRequestLine
   modelled at the level of its POINTERS - begin = offset 0, end = the length of the line, every
   dereference (the two std::find for SP, the one for '?', the copies of setMethod / setPath / setQuery,
   std::equal(start, end-1, "HTTP/1.") on the line AND on the 8-byte literal, *(end-1)) bounds-checked,
   a failed check = PF - never fails a check and returns exactly the list-level model's result, for
   every line and prior request.  The comparison in front of std::equal is the REGENERATED fact
   processRequestLine_cmp3 (`end-start == 8` in the current HttpContext.cc); with `>= 8` the theorem is
   false (C18_ex_http_ge8_overreads: std::equal walks off the literal - the mutant ASan caught). *)
Theorem C18_http_request_line_reads_in_bounds : forall line r,
  p_processRequestLine Gen_C18.processRequestLine_cmp3 line r = PV (processRequestLine line r).
Proof. exact p_processRequestLine_ok. Qed.
Print Assumptions C18_http_request_line_reads_in_bounds.

(* FINDING (http-bytes-after-rejected-request-line): HttpServer answers a rejected request line
   with 400 + shutdown() but neither resets the context nor stops reading.  When the rejected line
   had a valid method, HttpRequest::setMethod has already stored it; the next bytes that arrive make
   parseRequest run processRequestLine on the same, unconsumed line and
   assert(method_ == kInvalid) (HttpRequest.h:55) fails.  Refuted: "no input makes the decoder
   fail"; partial (last conjunct above): it can only happen after a request line was rejected,
   i.e. when the ideal decoder has abandoned the stream. *)
Theorem C18_http_server_assert_refuted :
  exists chunks, In SAssert (concat (fst (srv_deliver_all ex_callback sconn0 chunks))) /\
                 length chunks = 2%nat.
Proof. exact server_assert_refuted. Qed.
Print Assumptions C18_http_server_assert_refuted.

(* ... and the server as a whole is not segmentation invariant (the property text claims it for
   the request PARSER only): two pipelined requests in one delivery => one is answered now. *)
Theorem C18_http_server_pipelining_refuted :
  exists (c1 c2 : list (list byte)), concat c1 = concat c2 /\
    length (requests_of (concat (fst (srv_deliver_all ex_callback sconn0 c1)))) = 1%nat /\
    length (requests_of (concat (fst (srv_deliver_all ex_callback sconn0 c2)))) = 2%nat /\
    length (hreqs (fst (http_feed_all http_init c1))) = 2%nat.
Proof. exact server_pipelining_refuted. Qed.
Print Assumptions C18_http_server_pipelining_refuted.

(* HttpResponse::appendToBuffer: status line, then "Connection: close" or Content-Length +
   "Connection: Keep-Alive", then the headers in map order, the empty line, the body.  The emitted
   bytes parse back under the reference grammar (status-line / header-field / body with
   Content-Length check) to the same code, reason, header list and body. *)
Theorem C18_http_response_parses_back : forall r, wf_response r ->
  ref_parse_response (response_bytes r) =
    Some (mkPR (rs_code r) (rs_msg r) (implicit_headers r ++ rs_headers r) (rs_body r)).
Proof. exact response_parses_back. Qed.
Print Assumptions C18_http_response_parses_back.

(* ======================= generated comparisons of the sources ================================= *)
Local Notation Zn := Z.of_nat.
Theorem C18_gen_onMessage : forall (tag b : list byte) (len P e : Z),
  onMessage_while0 kHeaderLen (kMinMessageLen tag) (Zn (length b))
    = (Zn (length b) >=? kMinMessageLen tag + kHeaderLen) /\
  (onMessage_cmp0 kMaxMessageLen len || onMessage_cmp1 (kMinMessageLen tag) len)%bool = length_bad tag len /\
  onMessage_if0 kMaxMessageLen (kMinMessageLen tag) len = length_bad tag len /\
  onMessage_cmp2 kHeaderLen len (Zn (length b)) = (Zn (length b) >=? kHeaderLen + len) /\
  onMessage_if1 kHeaderLen len (Zn (length b)) = (Zn (length b) >=? kHeaderLen + len) /\
  onMessage_call1_parse_arg0 kHeaderLen P - P = kHeaderLen /\
  onMessage_call1_parse_arg1 len = len /\
  onMessage_call0_retrieve kHeaderLen len = kHeaderLen + len /\
  onMessage_call2_retrieve kHeaderLen len = kHeaderLen + len /\
  onMessage_let_len len = len /\
  onMessage_cmp3 e Gen_Consts.ProtobufCodecLite_kNoError = (e =? 0).
Proof. exact gen_onMessage. Qed.
Print Assumptions C18_gen_onMessage.

Theorem C18_gen_parse : forall (tag : list byte) (P off len a b m : Z),
  let buf := P + off in
  parse_call0_validateChecksum_arg0 buf = buf /\ parse_call0_validateChecksum_arg1 len = len /\
  parse_cmp0 m = (m =? 0) /\ parse_if1 m = (m =? 0) /\
  parse_call1_memcmp_arg0 buf = buf /\
  parse_let_data buf (Zn (length tag)) - P = off + Zn (length tag) /\
  parse_let_dataLen kChecksumLen len (Zn (length tag)) = len - kChecksumLen - Zn (length tag) /\
  validateChecksum_call0_asInt32 buf kChecksumLen len - P = off + len - kChecksumLen /\
  validateChecksum_call1_checksum_arg0 buf = buf /\
  validateChecksum_call1_checksum_arg1 kChecksumLen len = len - kChecksumLen /\
  validateChecksum_cmp0 a b = (a =? b).
Proof. exact gen_parse. Qed.
Print Assumptions C18_gen_parse.

Theorem C18_gen_encoder : forall (tag : list byte) (b : buf) (n r : nat) (P : Z),
  fillEmptyBuffer_assert0 (Zn (readableBytes b)) = (readableBytes b =? 0)%nat /\
  fillEmptyBuffer_assert1 (Zn n) kChecksumLen (Zn r) (Zn (length tag)) = (r =? length tag + n + cks_len)%nat /\
  fillEmptyBuffer_call0_checksum_arg1 (Zn r) = Zn r /\
  fillEmptyBuffer_call2_prepend_arg1 = Zn hdr_len /\
  serializeToBuffer_call0_ensureWritableBytes (Zn n) kChecksumLen = Zn (n + cks_len) /\
  serializeToBuffer_call1_hasWritten (Zn n) = Zn n /\
  serializeToBuffer_cmp0 (Zn n) (P + Zn n) P = false.
Proof. exact gen_encoder. Qed.
Print Assumptions C18_gen_encoder.

Theorem C18_gen_processRequestLine : forall (line target ver : list byte) (P : Z),
  processRequestLine_cmp0 (P + Zn (length line)) (P + Zn (idx SP line))
    = (match find_byte SP line with Some _ => true | None => false end) /\
  processRequestLine_cmp1 (P + Zn (length line)) (P + Zn (idx SP line))
    = (match find_byte SP line with Some _ => true | None => false end) /\
  processRequestLine_cmp2 (P + Zn (idx QMARK target)) (P + Zn (length target))
    = (match find_byte QMARK target with Some _ => true | None => false end) /\
  processRequestLine_cmp3 (P + Zn (length ver)) P = (length ver =? 8)%nat /\
  ((1 <= length ver)%nat ->
     processRequestLine_cmp4 (deref_of P ver) (P + Zn (length ver)) = Byte.eqb (nth (length ver - 1) ver x00) x31 /\
     processRequestLine_cmp5 (deref_of P ver) (P + Zn (length ver)) = Byte.eqb (nth (length ver - 1) ver x00) x30).
Proof. exact gen_processRequestLine. Qed.
Print Assumptions C18_gen_processRequestLine.

Theorem C18_gen_parseRequest : forall (s : hstate) (line : list byte) (i : nat) (P : Z),
  parseRequest_cmp0 Gen_Consts.HttpContext_kExpectRequestLine (state_code s)
    = (match s with kExpectRequestLine => true | _ => false end) /\
  parseRequest_cmp1 Gen_Consts.HttpContext_kExpectHeaders (state_code s)
    = (match s with kExpectHeaders => true | _ => false end) /\
  parseRequest_cmp3 Gen_Consts.HttpContext_kExpectBody (state_code s)
    = (match s with kExpectBody => true | _ => false end) /\
  parseRequest_cmp2 (P + Zn (idx COLON line)) (P + Zn (length line))
    = (match find_byte COLON line with Some _ => true | None => false end) /\
  parseRequest_call0_retrieveUntil (P + Zn i) - P = Zn (i + 2) /\
  parseRequest_call1_retrieveUntil (P + Zn i) - P = Zn (i + 2).
Proof. exact gen_parseRequest. Qed.
Print Assumptions C18_gen_parseRequest.

Theorem C18_gen_http_server : forall (ok g c : bool) (v : version),
  HttpServer_onMessage_if0 ok = negb ok /\ HttpServer_onMessage_if1 g = g /\
  HttpServer_onRequest_cmp0 Gen_Consts.HttpRequest_kHttp10 (version_code v) = is_http10 v /\
  appendToBuffer_if0 c = c.
Proof. exact gen_http_server. Qed.
Print Assumptions C18_gen_http_server.

(* ---- non-vacuity: the hypotheses are inhabited, the objects are non-trivial ------------ *)
Definition tagXYZ : list byte := [x58; x59; x5a].
Definition hello : list byte := [x68; x65; x6c; x6c; x6f].

(* the round-trip hypothesis holds for the payload format of correspondence instance "raw" *)
Example C18_ex_parse_ser : forall m, raw_parse (raw_ser m) = Some m.
Proof. exact raw_parse_ser. Qed.

(* the frame of "hello" is the 17 bytes the real fillEmptyBuffer produces (bin/check compares) *)
Example C18_ex_encode :
  encode tagXYZ (raw_ser hello) =
  [x00; x00; x00; x0d; x58; x59; x5a; x2a; x68; x65; x6c; x6c; x6f; x0f; x82; x03; x4a].
Proof. vm_compute. reflexivity. Qed.

(* two frames cut inside the length field and inside the checksum: both delivered, all consumed *)
Example C18_ex_roundtrip :
  let s := encode tagXYZ (raw_ser hello) ++ encode tagXYZ (raw_ser []) in
  codec_feed_all _ raw_parse tagXYZ codec_init [firstn 2 s; firstn 13 (skipn 2 s); skipn 15 s] =
  ([CMsg hello; CMsg []], mkD tt [] false false).
Proof. vm_compute. reflexivity. Qed.

(* a flipped checksum bit: the first frame is delivered, the second reported and kept *)
Example C18_ex_reject :
  let f := encode tagXYZ (raw_ser hello) in
  let bad := firstn 16 f ++ [x4b] in
  codec_feed_all _ raw_parse tagXYZ codec_init [f ++ bad] =
  ([CMsg hello; CErr kCheckSumError], mkD tt bad true false).
Proof. vm_compute. reflexivity. Qed.

(* a negative length field *)
Example C18_ex_negative_length :
  fst (codec_feed_all _ raw_parse tagXYZ codec_init [[xff; xff; xff; xff; x58; x59; x5a; x00; x00; x00; x00]]) =
  [CErr kInvalidLength].
Proof. vm_compute. reflexivity. Qed.

(* "GET /a?b HTTP/1.1\r\nHost: x\r\n\r\n" split between CR and LF *)
Example C18_ex_http :
  fst (http_feed_all http_init
    [[x47; x45; x54; x20; x2f; x61; x3f; x62; x20; x48; x54; x54; x50; x2f; x31; x2e; x31; x0d];
     [x0a; x48; x6f; x73; x74; x3a; x20; x78; x0d; x0a; x0d; x0a]]) =
  [HReq (mkReq kGet kHttp11 [x2f; x61] [x3f; x62] [([x48; x6f; x73; x74], [x78])])].
Proof. vm_compute. reflexivity. Qed.

(* "GET / HTTP/1.2" is rejected *)
Example C18_ex_http_bad :
  fst (http_feed_all http_init
    [[x47; x45; x54; x20; x2f; x20; x48; x54; x54; x50; x2f; x31; x2e; x32; x0d; x0a]]) = [HBad].
Proof. vm_compute. reflexivity. Qed.

(* the independent request line on a concrete line; the over-read of the `>= 8` mutant *)
Example C18_ex_http_decl :
  ref_request_line [x47; x45; x54; x20; x2f; x61; x3f; x62; x20; x48; x54; x54; x50; x2f; x31; x2e; x31] empty_request =
  Some (mkReq kGet kHttp11 [x2f; x61] [x3f; x62] []) /\
  ref_request_line [x47; x45; x54; x20; x20; x48; x54; x54; x50; x2f; x31; x2e; x30] empty_request =
  Some (mkReq kGet kHttp10 [] [] []) /\
  ref_request_line [x47; x45; x54; x20; x2f; x20; x48; x54; x54; x50; x2f; x31; x2e; x31; x20] empty_request = None.
Proof. vm_compute. repeat split. Qed.
Example C18_ex_http_ge8_overreads :
  p_processRequestLine (fun e s => (e - s >=? 8)%Z)
    ([x47; x45; x54; x20; x2f; x20] ++ s_HTTP1dot ++ [x00; x00; x31]) empty_request = PF.
Proof. exact p_processRequestLine_ge8_overreads. Qed.

(* ---- non-vacuity of the additions ------------------------------------------------------------ *)
(* fillEmptyBuffer over the Buffer model produces the 17 bytes of C18_ex_encode, leaving 4
   prependable bytes *)
Example C18_ex_fill :
  exists b, fillEmptyBuffer _ raw_ser tagXYZ hello (new_buf 1024%nat) = Ok b /\
            readable b = encode tagXYZ (raw_ser hello) /\ prependableBytes b = 4%nat.
Proof. vm_compute. eexists. repeat split. Qed.

(* a bad checksum, then two more deliveries: the error is reported three times, one shutdown *)
Example C18_ex_error_path :
  let f := encode tagXYZ (raw_ser hello) in
  let bad := firstn 16 f ++ [x4b] in
  exists c, deliver_all _ raw_parse tagXYZ (conn0 64%nat) [f ++ bad; hello; []] =
              Ok ([[CMsg hello; CErr kCheckSumError]; [CErr kCheckSumError]; [CErr kCheckSumError]], c) /\
            c_connected c = false /\ c_shutdowns c = 1%nat /\ readable (c_in c) = bad ++ hello.
Proof. vm_compute. eexists. repeat split. Qed.

(* the same stream as C18_ex_error_path: the reference finds one message and a checksum error;
   three deliveries, the last two arrive after the error => it is re-reported twice *)
Example C18_ex_late_reads :
  let f := encode tagXYZ (raw_ser hello) in
  let bad := firstn 16 f ++ [x4b] in
  late_reads _ raw_parse tagXYZ [] [f ++ bad; hello; []] = 2%nat /\
  ref_err _ raw_parse tagXYZ (f ++ bad) = Some kCheckSumError /\ ref_err _ raw_parse tagXYZ f = None.
Proof. vm_compute. repeat split. Qed.

(* the OLD codec: type name "T", payload "hello": the 19 bytes the real fillEmptyBuffer layout gives
   (bin/check compares with the real ProtobufCodec); two frames cut inside nameLen and inside the
   checksum; a frame whose nameLen field says 1 (correct checksum): kInvalidNameLen *)
Definition old_create (tn : list byte) : bool := bytes_eqb tn [x54].
Definition old_parse (_ : list byte) (d : list byte) : option (list byte) := Some d.
Example C18_ex_old_encode :
  oencode [x54] hello =
  [x00; x00; x00; x0f; x00; x00; x00; x02; x54; x00; x68; x65; x6c; x6c; x6f] ++ be_encode 4 (adler32 ([x00; x00; x00; x02; x54; x00] ++ hello)).
Proof. vm_compute. reflexivity. Qed.
Example C18_ex_old_roundtrip :
  let s := oencode [x54] hello ++ oencode [x54] [] in
  ocodec_feed_all _ old_create old_parse ocodec_init [firstn 6 s; firstn 12 (skipn 6 s); skipn 18 s] =
  ([CMsg hello; CMsg []], mkD tt [] false false).
Proof. vm_compute. reflexivity. Qed.
Example C18_ex_old_namelen :
  let cov := [x00; x00; x00; x01; x54; x00] ++ hello in
  let f := be_encode 4 (Z.of_nat (length cov) + 4) ++ cov ++ be_encode 4 (adler32 cov) in
  ocodec_feed_all _ old_create old_parse ocodec_init [f] = ([CErr kInvalidNameLen], mkD tt f true false).
Proof. vm_compute. reflexivity. Qed.

Example C18_ex_rpc_sendable : rpc_sendable ex_rpc.
Proof. exact ex_rpc_sendable. Qed.

(* a well-formed response: 200 OK, keep-alive, one header, a body *)
Definition ex_resp : response := mkResp 200 [x4f; x4b] false [([x58], [x31])] hello.
Example C18_ex_response_wf : wf_response ex_resp.
Proof.
  constructor; cbn; try lia; try reflexivity.
  - intros [H|[H|[]]]; discriminate H.
  - repeat constructor; cbn; intros H; repeat (destruct H as [H|H]; [discriminate H|]); exact H.
Qed.
Example C18_ex_response_bytes :
  response_bytes ex_resp =
  s_HTTP11_SP ++ [x32; x30; x30; x20; x4f; x4b; x0d; x0a] ++ s_content_length ++ [x35; x0d; x0a] ++
  s_conn_keep ++ [x0d; x0a; x58; x3a; x20; x31; x0d; x0a; x0d; x0a] ++ hello.
Proof. vm_compute. reflexivity. Qed.


(* ========================================================================================== *)
(* Cross-model links (appended; owner: the links, docs/Link.md section L3)                      *)
(* ========================================================================================== *)
(* This file's decoder model keeps its own copy of "the Buffer's readable bytes" (d_buf) and is
   FED chunks.  Link_CodecConn makes the decoder the message callback of C01's connection model
   (Conn_Model): the decoder's buffer IS the connection's input buffer [inb]; [KRead chunk] =
   POLLIN with the kernel's read returning chunk = Conn_Model's [EvReadData chunk], then the decode
   loop on the whole buffered input, then [Retrieve] of exactly what the loop consumed; [KOp o] =
   any other Conn_Model op.  D = C18_Model (this file's model); the unqualified connection names
   below are Conn_Model's. *)
Local Close Scope Z_scope.
From Muduo Require Import Conn_Model Link_CodecConn Link_Properties_L3.

(* the machine, as equations *)
Theorem C18_link_k_step_def :
  forall (St Ev : Type) (dstep : St -> list byte -> D.sres St Ev) (k : kst St) chunk o,
  k_step St Ev dstep k (KRead chunk) =
    (match Conn_Model.step (k_conn k) (EvReadData chunk) with
     | Conn_Model.Ok (c1, e1) =>
         let (cevs, d') := on_message St Ev dstep (k_dst k) (k_ab k) (k_oof k) (inb c1) in
         match Conn_Model.step c1 (Conn_Model.Retrieve (length (inb c1) - length (D.d_buf d'))) with
         | Conn_Model.Ok (c2, e2) => Conn_Model.Ok (mkK c2 (D.d_st d') (D.d_abandoned d') (D.d_oof d'), e1 ++ e2, cevs)
         | Conn_Model.Rejected => Conn_Model.Rejected
         | Conn_Model.Fault => Conn_Model.Fault
         end
     | Conn_Model.Rejected => Conn_Model.Rejected
     | Conn_Model.Fault => Conn_Model.Fault
     end) /\
  k_step St Ev dstep k (KOp o) =
    (match Conn_Model.step (k_conn k) o with
     | Conn_Model.Ok (c', e) => Conn_Model.Ok (mkK c' (k_dst k) (k_ab k) (k_oof k), e, [])
     | Conn_Model.Rejected => Conn_Model.Rejected
     | Conn_Model.Fault => Conn_Model.Fault
     end).
Proof. exact (fun St Ev dstep k chunk o => conj eq_refl eq_refl). Qed.
Print Assumptions C18_link_k_step_def.

Theorem C18_link_defs :
  forall (St Ev : Type) (dstep : St -> list byte -> D.sres St Ev) (k : kst St) (s : St) ab oof b (ko : kop) ops,
  on_message St Ev dstep s ab oof b =
    (if ab || oof then ([], D.mkD s b ab oof) else D.run dstep (S (length b)) s b) /\
  kop_wf ko = (match ko with KOp (EvReadData _) | KOp (Conn_Model.Retrieve _) => false | _ => true end) /\
  chunks_of ops = flat_map (fun o => match o with KRead c => [c] | KOp _ => [] end) ops /\
  k_run St Ev dstep k ops =
    (match ops with
     | [] => Conn_Model.Ok (k, [], [])
     | o :: rest =>
         match k_step St Ev dstep k o with
         | Conn_Model.Ok (k1, e1, v1) =>
             match k_run St Ev dstep k1 rest with
             | Conn_Model.Ok (k2, e2, v2) => Conn_Model.Ok (k2, e1 ++ e2, v1 ++ v2)
             | Conn_Model.Rejected => Conn_Model.Rejected
             | Conn_Model.Fault => Conn_Model.Fault
             end
         | Conn_Model.Rejected => Conn_Model.Rejected
         | Conn_Model.Fault => Conn_Model.Fault
         end
     end).
Proof.
  exact (fun St Ev dstep k s ab oof b ko ops =>
    match L3_defs St Ev dstep k Establish s ab oof b ko ops with
    | conj _ r => r
    end).
Qed.
Print Assumptions C18_link_defs.

(* generic: for any decoder of this file's Stream section whose loop leaves a suffix of its buffer
   (it consumes by Buffer::retrieve), every history of the connection with the decoder as message
   callback gives the events and state of the chunk-fed decoder [D.feed_all] on the chunks the
   kernel delivered; the connection's input buffer is the decoder's unconsumed rest; the chunks
   concatenated are the stream delivered so far *)
Theorem C18_decoder_on_connection :
  forall (St Ev : Type) (dstep : St -> list byte -> D.sres St Ev),
  (forall s b evs s' r, dstep s b = D.SEmit evs s' r -> exists n, r = skipn n b) ->
  forall s0 mark wc hw ops k e v, forallb kop_wf ops = true ->
  k_run St Ev dstep (mkK (Conn_Model.init mark wc hw) s0 false false) ops = Conn_Model.Ok (k, e, v) ->
  (v, D.mkD (k_dst k) (inb (k_conn k)) (k_ab k) (k_oof k)) = D.feed_all dstep (D.init s0) (chunks_of ops) /\
  delivered (k_conn k) = concat (chunks_of ops).
Proof. exact L3_decoder_on_connection. Qed.
Print Assumptions C18_decoder_on_connection.

(* THE DECODER OF THE PROPERTY TEXT on a TcpConnection: this file's codec loop [cstep] WITH the
   [abandoned] flag of part 1 ([on_message] skips the loop once an error was reported - "the first
   error, after which the stream is abandoned").  The real ProtobufCodecLite keeps NO such flag
   (C18_error_abandons_stream); what its callbacks are given on every history, histories after an
   error included, is C18_codec_live_on_connection below (machine [kl_step]).  The two agree on the
   messages, the first error and the input buffer; the real codec re-reports the error on every
   later delivery and shuts the connection down.  Statement: whatever way the kernel splits the
   peer's byte stream into reads, and whatever else happens on the connection in between (sends,
   writable events, shutdown, pausing and resuming reads, functors): the messages - and the first
   error, if any - this decoder reports are the reference decoding [ref_decode] of the byte stream
   RECEIVED SO FAR; the connection's input buffer holds exactly the reference's unconsumed rest;
   retrieved ++ buffered = received; abandoned iff an error was reported; the decode loop never runs
   out of fuel.  (= C01_inbound_stream_trace composed with C18_equals_reference, hence with
   C18_seg_invariant.) *)
Theorem C18_codec_on_connection :
  forall (msg : Type) (parse : list byte -> option msg) (tag : list byte) mark wc hw ops k e v,
  forallb kop_wf ops = true ->
  k_run unit (D.cevent msg) (D.cstep msg parse tag) (mkK (Conn_Model.init mark wc hw) tt false false) ops
    = Conn_Model.Ok (k, e, v) ->
  let s := delivered (k_conn k) in
  s = concat (chunks_of ops) /\
  Conn_Model.consumed (k_conn k) ++ inb (k_conn k) = s /\
  (let '(ms, er, rest) := D.ref_decode msg parse tag (S (length s)) s in
   v = map (@D.CMsg msg) ms ++ (match er with Some x => [@D.CErr msg x] | None => [] end) /\
   inb (k_conn k) = rest /\
   k_ab k = (match er with Some _ => true | None => false end) /\ k_oof k = false).
Proof. exact L3_codec_on_connection. Qed.
Print Assumptions C18_codec_on_connection.

(* the connection part of such a history is a Conn_Model history: C01 / C02 / C03 / C13 apply *)
Theorem C18_link_history_is_connection_history :
  forall (St Ev : Type) (dstep : St -> list byte -> D.sres St Ev) ops k k' e v,
  k_run St Ev dstep k ops = Conn_Model.Ok (k', e, v) ->
  Conn_Model.run (k_conn k) (conn_ops St Ev dstep k ops) = Conn_Model.Ok (k_conn k', e).
Proof. exact L3_history_is_connection_history. Qed.
Print Assumptions C18_link_history_is_connection_history.

(* non-vacuity: one frame (tag "RPC0", payload 01 02) cut after 5 bytes - inside the tag - with a
   send in between: nothing after the first read, the message after the second, buffer empty *)
Example C18_link_ex_run : exists k e,
  k_run unit (D.cevent (list byte)) (D.cstep (list byte) Some l3_tag)
    (mkK (Conn_Model.init 100 false false) tt false false) l3_ops
    = Conn_Model.Ok (k, e, [D.CMsg l3_payload]) /\
  forallb kop_wf l3_ops = true /\ inb (k_conn k) = [] /\ length (Conn_Model.consumed (k_conn k)) = 14 /\
  e = [EvUp; EvMsg 5; EvMsg 14].
Proof. exact l3_ex_run. Qed.

(* ---- the HTTP parser as message callback -------------------------------------------------- *)
(* (Again the decoder of the property text: the caller loop "parse; false => 400 and abandon; gotAll
   => deliver, reset(), again" with the abandoned flag.  The real HttpServer::onMessage - one
   parseRequest per delivery, no flag, keeps reading after a 400 - is C18_http_server_requests_prefix
   / finding F-22 above, not this machine.)
   [D.hstep] is this file's line-at-a-time step, proved equal to the literal parser loop on live
   parser states (C18_http_line_atomic's machinery).  For every history of the connection with
   HttpContext::parseRequest as message callback: events (requests, the 400), parser state,
   abandoned flag and input buffer are those of the literal chunk-fed parser [http_feed_all] on the
   reads the kernel delivered, i.e. the reference parse [ref_http] of the byte stream received so
   far. *)
From Muduo Require Import Link_CodecHttp.
Theorem C18_http_on_connection : forall mark wc hw ops k e v, forallb kop_wf ops = true ->
  k_run D.hctx D.hevent D.hstep (mkK (Conn_Model.init mark wc hw) D.ctx0 false false) ops = Conn_Model.Ok (k, e, v) ->
  let s := delivered (k_conn k) in
  s = concat (chunks_of ops) /\
  Conn_Model.consumed (k_conn k) ++ inb (k_conn k) = s /\
  (v, D.mkD (k_dst k) (inb (k_conn k)) (k_ab k) (k_oof k)) = D.http_feed_all D.http_init (chunks_of ops) /\
  (v, D.mkD (k_dst k) (inb (k_conn k)) (k_ab k) (k_oof k)) = C18_HttpRef.ref_http s.
Proof. exact L3_http_on_connection. Qed.
Print Assumptions C18_http_on_connection.

(* ---- the codec on a connection whose inputBuffer_ is a concrete Buffer (L3 over L1) ------- *)
(* Link_ConnBuf_Model (quoted as equations in Properties_C01.v, section "Cross-model links") is the
   connection over two concrete C10 Buffers; B = C10_Model.  [KCRead kr] = handleRead with the
   kernel's answer kr to readFd's readv; if it delivered something the decode loop runs on the
   readable bytes of inputBuffer_ and Buffer::retrieve(consumed) is called on the real buffer. *)
From Muduo Require Import Link_ConnBuf_Model Link_ConnBuf Link_CodecBuf.
Theorem C18_link_kc_step_def : forall (St Ev : Type) (dstep : St -> list byte -> D.sres St Ev) k kr o,
  kc_step St Ev dstep k (KCRead kr) =
    (match c_step (kc_conn k) (CRead kr) with
     | Conn_Model.Ok (c1, e1) =>
         if 0 <? length (B.delivered (B.readFd_capacity (ibuf (kc_conn k))) kr) then
           let (cevs, d') := on_message St Ev dstep (kc_dst k) (kc_ab k) (kc_oof k) (B.readable (ibuf c1)) in
           match c_step c1 (COp (Conn_Model.Retrieve (B.readableBytes (ibuf c1) - length (D.d_buf d')))) with
           | Conn_Model.Ok (c2, e2) => Conn_Model.Ok (mkKC c2 (D.d_st d') (D.d_abandoned d') (D.d_oof d'), e1 ++ e2, cevs)
           | Conn_Model.Rejected => Conn_Model.Rejected
           | Conn_Model.Fault => Conn_Model.Fault
           end
         else Conn_Model.Ok (mkKC c1 (kc_dst k) (kc_ab k) (kc_oof k), e1, [])
     | Conn_Model.Rejected => Conn_Model.Rejected
     | Conn_Model.Fault => Conn_Model.Fault
     end) /\
  kc_step St Ev dstep k (KCOp o) =
    (match c_step (kc_conn k) o with
     | Conn_Model.Ok (c', e) => Conn_Model.Ok (mkKC c' (kc_dst k) (kc_ab k) (kc_oof k), e, [])
     | Conn_Model.Rejected => Conn_Model.Rejected
     | Conn_Model.Fault => Conn_Model.Fault
     end) /\
  kcop_wf (KCRead kr) = true /\
  kcop_wf (KCOp o) = (match o with COp (Conn_Model.Retrieve _) | CRead _ | CRetrieveAll => false | o => cop_wf o end).
Proof. exact L3_kc_step_def. Qed.
Print Assumptions C18_link_kc_step_def.

(* The decoder of the property text (abandoned flag, see C18_codec_on_connection) over the real
   Buffer: for every history (any kernel answers to readv - any split, end of file, errors -, any
   other ops in between) its events are the reference decoding of the byte stream received so far
   and the readable bytes of inputBuffer_ are the reference's unconsumed rest; and no such history
   faults (no Buffer precondition is violated by TcpConnection or by the codec's retrieve).  The
   real codec (no flag, error callback) over the real Buffer: C18_codec_live_on_real_buffers. *)
Theorem C18_codec_on_real_buffers :
  forall (msg : Type) (parse : list byte -> option msg) (tag : list byte) mark wc hw ops k e v,
  forallb kcop_wf ops = true ->
  kc_run unit (D.cevent msg) (D.cstep msg parse tag) (mkKC (c_init mark wc hw) tt false false) ops
    = Conn_Model.Ok (k, e, v) ->
  let s := delivered (ctl (kc_conn k)) in
  Conn_Model.consumed (ctl (kc_conn k)) ++ B.readable (ibuf (kc_conn k)) = s /\
  (let '(ms, er, rest) := D.ref_decode msg parse tag (S (length s)) s in
   v = map (@D.CMsg msg) ms ++ (match er with Some x => [@D.CErr msg x] | None => [] end) /\
   B.readable (ibuf (kc_conn k)) = rest /\
   kc_ab k = (match er with Some _ => true | None => false end) /\ kc_oof k = false).
Proof. exact L3_codec_on_real_buffers. Qed.
Print Assumptions C18_codec_on_real_buffers.

Theorem C18_codec_on_real_buffers_no_fault :
  forall (msg : Type) (parse : list byte -> option msg) (tag : list byte) mark wc hw ops,
  forallb kcop_wf ops = true ->
  kc_run unit (D.cevent msg) (D.cstep msg parse tag) (mkKC (c_init mark wc hw) tt false false) ops
    <> Conn_Model.Fault.
Proof. exact L3_codec_on_real_buffers_no_fault. Qed.
Print Assumptions C18_codec_on_real_buffers_no_fault.

Example C18_link_ex_real_buffers : exists k e,
  kc_run unit (D.cevent (list byte)) (D.cstep (list byte) Some l3_tag)
    (mkKC (c_init 100 false false) tt false false) l3_kc_ops = Conn_Model.Ok (k, e, [D.CMsg l3_payload]) /\
  forallb kcop_wf l3_kc_ops = true /\ B.readable (ibuf (kc_conn k)) = [] /\
  e = [EvUp; EvMsg 5; EvMsg 14; EvDown].
Proof. exact l3_ex_real_buffers. Qed.


(* ---- the REAL codec as message callback: no abandoned flag, defaultErrorCallback ---------- *)
(* Link_CodecLive.  State = the connection alone.  [KRead chunk] = EvReadData chunk; the message
   callback = onMessage's while loop on the whole buffered input ([live_message] = [live_feed] of
   part 2, run on EVERY delivery); Retrieve of what the loop consumed; if an error was reported,
   errorCallback_ = defaultErrorCallback = `if (conn && conn->connected()) conn->shutdown()` =
   Conn_Model's [Shutdown] step (ProtobufCodecLite.cc:58-97, 176-186). *)
From Muduo Require Import Link_CodecLive.
Theorem C18_link_kl_step_def :
  forall (msg : Type) (parse : list byte -> option msg) (tag : list byte) (c : Conn_Model.conn) chunk o b,
  kl_step msg parse tag c (KRead chunk) =
    (match Conn_Model.step c (EvReadData chunk) with
     | Conn_Model.Ok (c1, e1) =>
         let '(cevs, rest) := live_message msg parse tag (inb c1) in
         match Conn_Model.step c1 (Conn_Model.Retrieve (length (inb c1) - length rest)) with
         | Conn_Model.Ok (c2, e2) =>
             if existsb (Link_CodecLive.is_err msg) cevs then
               match Conn_Model.step c2 Conn_Model.Shutdown with
               | Conn_Model.Ok (c3, e3) => Conn_Model.Ok (c3, e1 ++ e2 ++ e3, cevs)
               | Conn_Model.Rejected => Conn_Model.Rejected
               | Conn_Model.Fault => Conn_Model.Fault
               end
             else Conn_Model.Ok (c2, e1 ++ e2, cevs)
         | Conn_Model.Rejected => Conn_Model.Rejected
         | Conn_Model.Fault => Conn_Model.Fault
         end
     | Conn_Model.Rejected => Conn_Model.Rejected
     | Conn_Model.Fault => Conn_Model.Fault
     end) /\
  kl_step msg parse tag c (KOp o) =
    (match Conn_Model.step c o with
     | Conn_Model.Ok (c', e) => Conn_Model.Ok (c', e, [])
     | Conn_Model.Rejected => Conn_Model.Rejected
     | Conn_Model.Fault => Conn_Model.Fault
     end) /\
  live_message msg parse tag b =
    (let '(evs, d) := D.run (D.cstep msg parse tag) (S (length b)) tt b in (evs, D.d_buf d)) /\
  (forall e, Link_CodecLive.is_err msg e = match e with D.CErr _ => true | _ => false end).
Proof. exact L3_kl_step_def. Qed.
Print Assumptions C18_link_kl_step_def.

Theorem C18_link_kl_run_def :
  forall (msg : Type) (parse : list byte -> option msg) (tag : list byte) (c : Conn_Model.conn) ops,
  kl_run msg parse tag c ops =
    (match ops with
     | [] => Conn_Model.Ok (c, [], [])
     | o :: rest =>
         match kl_step msg parse tag c o with
         | Conn_Model.Ok (c1, e1, v1) =>
             match kl_run msg parse tag c1 rest with
             | Conn_Model.Ok (c2, e2, v2) => Conn_Model.Ok (c2, e1 ++ e2, v1 ++ v2)
             | Conn_Model.Rejected => Conn_Model.Rejected
             | Conn_Model.Fault => Conn_Model.Fault
             end
         | Conn_Model.Rejected => Conn_Model.Rejected
         | Conn_Model.Fault => Conn_Model.Fault
         end
     end).
Proof. exact L3_kl_run_def. Qed.
Print Assumptions C18_link_kl_run_def.

(* HEADLINE: the real ProtobufCodecLite::onMessage + defaultErrorCallback on a TcpConnection, EVERY
   history - any split of the peer's bytes into reads, any other ops in between, before and AFTER
   an error.  With (ms, er, rest) = [ref_decode] of the byte stream received so far: the events
   the codec's callbacks were given are the messages ms and then, if the stream contains an error
   x, CErr x once for the delivery that made the error detectable and once more for EVERY later
   delivery ([late_reads], C18_live_defs); the input buffer is rest - nothing is consumed from the
   bad frame on; retrieved ++ buffered = received; after an error the connection has left
   kConnected for good (the error callback's shutdown()). *)
Theorem C18_codec_live_on_connection :
  forall (msg : Type) (parse : list byte -> option msg) (tag : list byte) mark wc hw ops (c : Conn_Model.conn) e v,
  forallb kop_wf ops = true ->
  kl_run msg parse tag (Conn_Model.init mark wc hw) ops = Conn_Model.Ok (c, e, v) ->
  let s := delivered c in
  s = concat (chunks_of ops) /\
  Conn_Model.consumed c ++ inb c = s /\
  (let '(ms, er, rest) := D.ref_decode msg parse tag (S (length s)) s in
   v = map (@D.CMsg msg) ms ++
       (match er with
        | Some x => @D.CErr msg x :: repeat (@D.CErr msg x) (late_reads msg parse tag [] (chunks_of ops))
        | None => []
        end) /\
   inb c = rest /\
   (match er with Some _ => st c = Disconnecting \/ st c = Disconnected | None => True end)).
Proof. exact L3_codec_live_on_connection. Qed.
Print Assumptions C18_codec_live_on_connection.

Theorem C18_link_live_history_is_connection_history :
  forall (msg : Type) (parse : list byte -> option msg) (tag : list byte) ops (c c' : Conn_Model.conn) e v,
  kl_run msg parse tag c ops = Conn_Model.Ok (c', e, v) ->
  Conn_Model.run c (kl_conn_ops msg parse tag c ops) = Conn_Model.Ok (c', e).
Proof. exact L3_live_history_is_connection_history. Qed.
Print Assumptions C18_link_live_history_is_connection_history.

Theorem C18_codec_live_no_fault :
  forall (msg : Type) (parse : list byte -> option msg) (tag : list byte) mark wc hw ops,
  kl_run msg parse tag (Conn_Model.init mark wc hw) ops <> Conn_Model.Fault.
Proof. exact L3_codec_live_no_fault. Qed.
Print Assumptions C18_codec_live_no_fault.

(* the tie to the differential run: the link machine and [deliver_all] (part 2; the machine the
   `conn` kind of bin/check C18 compares with a real TcpConnection after every delivery, deliveries
   after an error included) agree on every history *)
Theorem C18_live_link_is_deliver :
  forall (msg : Type) (parse : list byte -> option msg) (tag : list byte) mark wc hw ops (c : Conn_Model.conn) e v n0,
  forallb kop_wf ops = true ->
  kl_run msg parse tag (Conn_Model.init mark wc hw) ops = Conn_Model.Ok (c, e, v) ->
  exists evss c', deliver_all msg parse tag (conn0 n0) (chunks_of ops) = C10_Model.Ok (evss, c') /\
    v = concat evss /\ inb c = C10_Model.readable (c_in c') /\
    (c_connected c' = false -> st c = Disconnecting \/ st c = Disconnected).
Proof. exact L3_live_link_is_deliver. Qed.
Print Assumptions C18_live_link_is_deliver.

(* over the two concrete Buffers (L1) *)
Theorem C18_link_kcl_step_def :
  forall (msg : Type) (parse : list byte -> option msg) (tag : list byte) c kr o,
  kcl_step msg parse tag c (KCRead kr) =
    (match c_step c (CRead kr) with
     | Conn_Model.Ok (c1, e1) =>
         if 0 <? length (B.delivered (B.readFd_capacity (ibuf c)) kr) then
           let '(cevs, rest) := live_message msg parse tag (B.readable (ibuf c1)) in
           match c_step c1 (COp (Conn_Model.Retrieve (B.readableBytes (ibuf c1) - length rest))) with
           | Conn_Model.Ok (c2, e2) =>
               if existsb (Link_CodecLive.is_err msg) cevs then
                 match c_step c2 (COp Conn_Model.Shutdown) with
                 | Conn_Model.Ok (c3, e3) => Conn_Model.Ok (c3, e1 ++ e2 ++ e3, cevs)
                 | Conn_Model.Rejected => Conn_Model.Rejected
                 | Conn_Model.Fault => Conn_Model.Fault
                 end
               else Conn_Model.Ok (c2, e1 ++ e2, cevs)
           | Conn_Model.Rejected => Conn_Model.Rejected
           | Conn_Model.Fault => Conn_Model.Fault
           end
         else Conn_Model.Ok (c1, e1, [])
     | Conn_Model.Rejected => Conn_Model.Rejected
     | Conn_Model.Fault => Conn_Model.Fault
     end) /\
  kcl_step msg parse tag c (KCOp o) =
    (match c_step c o with
     | Conn_Model.Ok (c', e) => Conn_Model.Ok (c', e, [])
     | Conn_Model.Rejected => Conn_Model.Rejected
     | Conn_Model.Fault => Conn_Model.Fault
     end).
Proof. exact L3_kcl_step_def. Qed.
Print Assumptions C18_link_kcl_step_def.

Theorem C18_link_delivered_chunks_def :
  forall (msg : Type) (parse : list byte -> option msg) (tag : list byte) c o rest,
  delivered_chunks msg parse tag c [] = [] /\
  delivered_chunks msg parse tag c (o :: rest) =
    (match klabs_op c o with KRead ch => [ch] | KOp _ => [] end) ++
    (match kcl_step msg parse tag c o with
     | Conn_Model.Ok (c', _, _) => delivered_chunks msg parse tag c' rest
     | _ => []
     end) /\
  klabs_op c o =
    (match o with
     | KCOp o' => KOp (abs_op c o')
     | KCRead kr =>
         if 0 <? length (B.delivered (B.readFd_capacity (ibuf c)) kr)
         then KRead (B.delivered (B.readFd_capacity (ibuf c)) kr)
         else KOp (abs_op c (CRead kr))
     end).
Proof. exact L3_delivered_chunks_def. Qed.
Print Assumptions C18_link_delivered_chunks_def.

(* HEADLINE over the real Buffer, every history (any kernel answers to readv, end of file, errors,
   any other ops in between, before and after a codec error); no such history faults *)
Theorem C18_codec_live_on_real_buffers :
  forall (msg : Type) (parse : list byte -> option msg) (tag : list byte) mark wc hw ops c e v,
  forallb kcop_wf ops = true ->
  kcl_run msg parse tag (c_init mark wc hw) ops = Conn_Model.Ok (c, e, v) ->
  let s := delivered (ctl c) in
  s = concat (delivered_chunks msg parse tag (c_init mark wc hw) ops) /\
  Conn_Model.consumed (ctl c) ++ B.readable (ibuf c) = s /\
  (let '(ms, er, rest) := D.ref_decode msg parse tag (S (length s)) s in
   v = map (@D.CMsg msg) ms ++
       (match er with
        | Some x => @D.CErr msg x ::
                    repeat (@D.CErr msg x)
                      (late_reads msg parse tag [] (delivered_chunks msg parse tag (c_init mark wc hw) ops))
        | None => []
        end) /\
   B.readable (ibuf c) = rest /\
   (match er with Some _ => st (ctl c) = Disconnecting \/ st (ctl c) = Disconnected | None => True end)).
Proof. exact L3_codec_live_on_real_buffers. Qed.
Print Assumptions C18_codec_live_on_real_buffers.

Theorem C18_codec_live_on_real_buffers_no_fault :
  forall (msg : Type) (parse : list byte -> option msg) (tag : list byte) mark wc hw ops,
  forallb kcop_wf ops = true -> kcl_run msg parse tag (c_init mark wc hw) ops <> Conn_Model.Fault.
Proof. exact L3_codec_live_on_real_buffers_no_fault. Qed.
Print Assumptions C18_codec_live_on_real_buffers_no_fault.

(* non-vacuity (the history of REVIEW_D): a negative length field, then two more reads: the real
   codec reports kInvalidLength three times, consumes nothing, the connection is shut down; the
   decoder of the property text reports it once *)
Example C18_link_ex_live_error : exists (c : Conn_Model.conn) e,
  kl_run (list byte) Some l3_tag3 (Conn_Model.init 100 false false) l3_err_ops
    = Conn_Model.Ok (c, e, [D.CErr D.kInvalidLength; D.CErr D.kInvalidLength; D.CErr D.kInvalidLength]) /\
  forallb kop_wf l3_err_ops = true /\ inb c = l3_bad ++ [x01; x02] /\ Conn_Model.consumed c = [] /\
  st c = Disconnecting /\ e = [EvUp; EvMsg 11; EvFin; EvMsg 12; EvMsg 13] /\
  late_reads (list byte) Some l3_tag3 [] (chunks_of l3_err_ops) = 2 /\
  (exists k e', k_run unit (D.cevent (list byte)) (D.cstep (list byte) Some l3_tag3)
                  (mkK (Conn_Model.init 100 false false) tt false false) l3_err_ops
                = Conn_Model.Ok (k, e', [D.CErr D.kInvalidLength])).
Proof. exact l3_ex_live_error. Qed.

Example C18_link_ex_live_real_buffers : exists c e,
  kcl_run (list byte) Some l3_tag3 (c_init 100 false false) l3_kc_err_ops
    = Conn_Model.Ok (c, e, [D.CErr D.kInvalidLength; D.CErr D.kInvalidLength]) /\
  forallb kcop_wf l3_kc_err_ops = true /\ B.readable (ibuf c) = l3_bad ++ [x01] /\
  st (ctl c) = Disconnected.
Proof. exact l3_ex_live_real_buffers. Qed.
