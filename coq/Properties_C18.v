(* Properties_C18: stream decoders are segmentation-invariant, bounded, and reject malformed
   input.  Only statements, closed by [exact], with Print Assumptions and non-vacuity examples.

   Objects (C18_Model.v):
   * codec_feed_all msg parse tag codec_init chunks : the onMessage loop of ProtobufCodecLite
     (literal model [cstep]) run after each chunk is appended to the input Buffer; result =
     (events, final state): events are CMsg m (messageCallback_), CErr e (errorCallback_,
     after which the stream is abandoned) and CFault (a read outside the received bytes);
     the state holds the unconsumed bytes [d_buf] (= Buffer::readableBytes), [d_abandoned]
     and [d_oof] (loop fuel exhausted).  [parse]/[ser] are protobuf's ParseFromArray /
     serializer: arbitrary functions (environment), [tag] any byte string ("RPC0" for RpcCodec).
   * ref_decode : the declarative reference (greedy split by the length prefix).
   * http_feed_all http_init chunks : HttpContext::parseRequest (literal model) driven as
     "parse; false => 400 and abandon; gotAll => deliver, reset(), again", after each chunk.
   The models are tied to /repo by the regenerated constants (Gen_Consts) and by the
   correspondence check (bin/check C18). *)
From Coq Require Import List ZArith Lia Bool Arith NArith.
From Coq.Strings Require Import Byte.
From Muduo Require Import Base_Bytes Gen_Consts Gen_C18 C18_Model C18_StreamProofs C18_CodecProofs C18_HttpProofs C18_HttpRef C18_Proofs C18_GenLink.
Import ListNotations.
Local Open Scope Z_scope.

(* For every payload parser, tag, byte stream and segmentation of it into chunks: feeding the
   chunks one by one yields the same events (messages, first error), the same abandoned flag,
   the same unconsumed bytes and consumed count as feeding the concatenation in one piece; the
   decode loop never runs out of fuel.  Same for the HTTP parser (also the parser state). *)
Theorem C18_seg_invariant :
  (forall (msg : Type) (parse : list byte -> option msg) (tag : list byte) (chunks : list (list byte)),
    let r1 := codec_feed_all msg parse tag codec_init chunks in
    let r2 := codec_feed msg parse tag codec_init (concat chunks) in
    fst r1 = fst r2 /\
    d_abandoned (snd r1) = d_abandoned (snd r2) /\
    d_buf (snd r1) = d_buf (snd r2) /\
    consumed (length (concat chunks)) (snd r1) = consumed (length (concat chunks)) (snd r2) /\
    d_oof (snd r1) = false)
  /\
  (forall chunks : list (list byte),
    let r1 := http_feed_all http_init chunks in
    let r2 := http_feed http_init (concat chunks) in
    fst r1 = fst r2 /\
    d_st (snd r1) = d_st (snd r2) /\
    d_abandoned (snd r1) = d_abandoned (snd r2) /\
    d_buf (snd r1) = d_buf (snd r2) /\
    consumed (length (concat chunks)) (snd r1) = consumed (length (concat chunks)) (snd r2) /\
    d_oof (snd r1) = false).
Proof. exact seg_invariant. Qed.
Print Assumptions C18_seg_invariant.

(* The chunk-fed literal decoder equals the reference decoding of the whole stream: messages,
   first error, unconsumed rest.  For HTTP the reference [ref_http] (C18_HttpRef.v) cuts the
   whole stream into its CRLF-terminated lines and runs the request grammar over the list of
   lines; result = events, final parser state, unconsumed bytes, abandoned flag.  (A further,
   fully independent reference is the Python oracle of the check.) *)
Theorem C18_equals_reference :
  (forall (msg : Type) (parse : list byte -> option msg) (tag : list byte) (chunks : list (list byte)),
    let s := concat chunks in
    codec_feed_all msg parse tag codec_init chunks =
    (let '(ms, e, rest) := ref_decode msg parse tag (S (length s)) s in
     (map CMsg ms ++ match e with Some x => [CErr x] | None => [] end,
      mkD tt rest (match e with Some _ => true | None => false end) false)))
  /\
  (forall chunks : list (list byte),
    http_feed_all http_init chunks = ref_http (concat chunks)).
Proof. exact equals_reference. Qed.
Print Assumptions C18_equals_reference.

(* Every sequence of messages encoded by the library (frames within the size limit), cut
   into chunks in any way, decodes to exactly those messages; everything is consumed. *)
Theorem C18_roundtrip :
  forall (msg : Type) (parse : list byte -> option msg) (ser : msg -> list byte) (tag : list byte),
    (forall m, parse (ser m) = Some m) ->
    forall (ms : list msg) (chunks : list (list byte)),
      Forall (fun m => fits tag (ser m)) ms ->
      concat chunks = flat_map (encode_msg msg ser tag) ms ->
      codec_feed_all msg parse tag codec_init chunks = (map CMsg ms, mkD tt [] false false).
Proof. exact roundtrip. Qed.
Print Assumptions C18_roundtrip.

(* Reject classes.  In each: any valid frames [ps] (delivered as [ms]) followed by a
   malformed head, in any segmentation: exactly the messages of the valid frames, then exactly
   the class's error code; the malformed frame is not delivered, nothing of it is consumed,
   the stream is abandoned. *)
Theorem C18_reject_length :
  forall (msg : Type) (parse : list byte -> option msg) (tag : list byte) ps ms t chunks,
    valid_frames msg parse tag ps ms -> concat chunks = flat_map (encode tag) ps ++ t ->
    (4 + length tag + 4 <= length t)%nat ->
    (be_decode_signed (firstn 4 t) < Z.of_nat (length tag) + 4 \/
     kMaxMessageLen < be_decode_signed (firstn 4 t)) ->
    codec_feed_all msg parse tag codec_init chunks =
      (map CMsg ms ++ [CErr kInvalidLength], mkD tt t true false).
Proof. exact reject_length. Qed.
Print Assumptions C18_reject_length.

(* "checksum mismatch" semantically: the 4-byte trailer differs from Adler-32 of tag+payload *)
Theorem C18_reject_checksum :
  forall (msg : Type) (parse : list byte -> option msg) (tag : list byte) ps ms tp ck rest chunks,
    valid_frames msg parse tag ps ms ->
    concat chunks = flat_map (encode tag) ps ++
                    (be_encode 4 (Z.of_nat (length tp) + 4) ++ tp ++ ck ++ rest) ->
    length ck = 4%nat -> (length tag <= length tp)%nat ->
    Z.of_nat (length tp) + 4 <= kMaxMessageLen ->
    be_decode ck <> adler32 tp ->
    codec_feed_all msg parse tag codec_init chunks =
      (map CMsg ms ++ [CErr kCheckSumError],
       mkD tt (be_encode 4 (Z.of_nat (length tp) + 4) ++ tp ++ ck ++ rest) true false).
Proof. exact reject_checksum. Qed.
Print Assumptions C18_reject_checksum.

Theorem C18_reject_tag :
  forall (msg : Type) (parse : list byte -> option msg) (tag : list byte) ps ms tg p rest chunks,
    valid_frames msg parse tag ps ms ->
    concat chunks = flat_map (encode tag) ps ++ (encode tg p ++ rest) ->
    length tg = length tag -> tg <> tag -> fits tag p ->
    codec_feed_all msg parse tag codec_init chunks =
      (map CMsg ms ++ [CErr kUnknownMessageType], mkD tt (encode tg p ++ rest) true false).
Proof. exact reject_tag. Qed.
Print Assumptions C18_reject_tag.

Theorem C18_reject_payload :
  forall (msg : Type) (parse : list byte -> option msg) (tag : list byte) ps ms p rest chunks,
    valid_frames msg parse tag ps ms ->
    concat chunks = flat_map (encode tag) ps ++ (encode tag p ++ rest) ->
    fits tag p -> parse p = None ->
    codec_feed_all msg parse tag codec_init chunks =
      (map CMsg ms ++ [CErr kParseError], mkD tt (encode tag p ++ rest) true false).
Proof. exact reject_payload. Qed.
Print Assumptions C18_reject_payload.

(* For every stream and segmentation: the stream is exactly the well-formed frames that
   were delivered (each within the limit, each payload parsing to the delivered message)
   followed by the unconsumed bytes; the consumed count is the sum over the delivered frames
   of 4 + len; events are those messages, then at most one error.  So no byte of a later frame
   is ever consumed, and no message is delivered that is not a checksummed frame of the stream. *)
Theorem C18_consumes_only_own_bytes :
  forall (msg : Type) (parse : list byte -> option msg) (tag : list byte) chunks,
    let r := codec_feed_all msg parse tag codec_init chunks in
    exists ps ms,
      valid_frames msg parse tag ps ms /\
      concat chunks = flat_map (encode tag) ps ++ d_buf (snd r) /\
      consumed (length (concat chunks)) (snd r) =
        list_sum (map (fun p => 4 + (length tag + length p + 4))%nat ps) /\
      ((fst r = map CMsg ms /\ d_abandoned (snd r) = false) \/
       (exists e, fst r = map CMsg ms ++ [CErr e] /\ d_abandoned (snd r) = true)).
Proof. exact consumes_only_own_bytes. Qed.
Print Assumptions C18_consumes_only_own_bytes.

(* No input makes a bounds-checked read of the codec fail (every read of onMessage / parse /
   validateChecksum / asInt32 is inside the received bytes), and the loop terminates. *)
Theorem C18_reads_in_bounds :
  forall (msg : Type) (parse : list byte -> option msg) (tag : list byte) chunks,
    ~ In CFault (fst (codec_feed_all msg parse tag codec_init chunks)) /\
    d_oof (snd (codec_feed_all msg parse tag codec_init chunks)) = false.
Proof. exact reads_in_bounds. Qed.
Print Assumptions C18_reads_in_bounds.

(* A request line is accepted iff it is METHOD SP target SP "HTTP/1." ("0"|"1") with METHOD in
   {GET, POST, HEAD, PUT, DELETE} and target free of SP; the accepted request has that method,
   version, path = target up to '?', query = from '?'; a stream whose first line is anything
   else is answered by exactly one error, abandoned, nothing consumed (any segmentation). *)
Theorem C18_http_accepts_only_valid :
  (forall line r, (exists r', processRequestLine line r = Some r') <-> valid_request_line line)
  /\
  (forall m t v r, valid_method m -> ~ In SP t -> (v = x30 \/ v = x31) ->
     processRequestLine (m ++ [SP] ++ t ++ [SP] ++ s_HTTP1dot ++ [v]) r =
       Some (mkReq (set_method m) (if Byte.eqb v x31 then kHttp11 else kHttp10)
                   (match find_byte QMARK t with Some q => firstn q t | None => t end)
                   (match find_byte QMARK t with Some q => skipn q t | None => q_query r end)
                   (q_headers r)))
  /\
  (forall line rest chunks,
     crlf_line line -> ~ valid_request_line line ->
     concat chunks = line ++ [CR; LF] ++ rest ->
     http_feed_all http_init chunks = ([HBad], mkD ctx0 (line ++ [CR; LF] ++ rest) true false)).
Proof. exact http_accepts_only_valid. Qed.
Print Assumptions C18_http_accepts_only_valid.

(* Only complete CRLF-terminated lines are ever consumed: the stream is a sequence of lines,
   each ended by its first CRLF, followed by the unconsumed bytes. *)
Theorem C18_http_line_atomic :
  forall chunks,
    let (evs, d) := http_feed_all http_init chunks in
    exists lines, concat chunks = flat_map (fun l => l ++ [CR; LF]) lines ++ d_buf d /\
                  Forall crlf_line lines.
Proof. exact line_atomic. Qed.
Print Assumptions C18_http_line_atomic.

(* The length test of onMessage as translated from the current source by lib/gen_C18.py
   (clang AST) is the length test of the model: editing the test breaks this obligation. *)
Theorem C18_generated_length_test :
  forall (tag : list byte) (len : Z),
    Gen_C18.onMessage_length_bad len kMaxMessageLen (kMinMessageLen tag) = length_bad tag len.
Proof. exact gen_length_test. Qed.
Print Assumptions C18_generated_length_test.

(* ---- non-vacuity: the hypotheses are inhabited, the objects are non-trivial ------------ *)
Definition tagXYZ : list byte := [x58; x59; x5a].
Definition hello : list byte := [x68; x65; x6c; x6c; x6f].

(* the round-trip hypothesis holds for the payload format of correspondence instance "raw" *)
Example C18_ex_parse_ser : forall m, raw_parse (raw_ser m) = Some m.
Proof. exact raw_parse_ser. Qed.

(* the frame of "hello" is the 17 bytes the real fillEmptyBuffer produces (bin/check compares) *)
Example C18_ex_encode :
  encode tagXYZ (raw_ser hello) =
  [x00; x00; x00; x0d; x58; x59; x5a; x2a; x68; x65; x6c; x6c; x6f; x0f; x82; x03; x4a].
Proof. vm_compute. reflexivity. Qed.

(* two frames cut inside the length field and inside the checksum: both delivered, all consumed *)
Example C18_ex_roundtrip :
  let s := encode tagXYZ (raw_ser hello) ++ encode tagXYZ (raw_ser []) in
  codec_feed_all _ raw_parse tagXYZ codec_init [firstn 2 s; firstn 13 (skipn 2 s); skipn 15 s] =
  ([CMsg hello; CMsg []], mkD tt [] false false).
Proof. vm_compute. reflexivity. Qed.

(* a flipped checksum bit: the first frame is delivered, the second reported and kept *)
Example C18_ex_reject :
  let f := encode tagXYZ (raw_ser hello) in
  let bad := firstn 16 f ++ [x4b] in
  codec_feed_all _ raw_parse tagXYZ codec_init [f ++ bad] =
  ([CMsg hello; CErr kCheckSumError], mkD tt bad true false).
Proof. vm_compute. reflexivity. Qed.

(* a negative length field *)
Example C18_ex_negative_length :
  fst (codec_feed_all _ raw_parse tagXYZ codec_init [[xff; xff; xff; xff; x58; x59; x5a; x00; x00; x00; x00]]) =
  [CErr kInvalidLength].
Proof. vm_compute. reflexivity. Qed.

(* "GET /a?b HTTP/1.1\r\nHost: x\r\n\r\n" split between CR and LF *)
Example C18_ex_http :
  fst (http_feed_all http_init
    [[x47; x45; x54; x20; x2f; x61; x3f; x62; x20; x48; x54; x54; x50; x2f; x31; x2e; x31; x0d];
     [x0a; x48; x6f; x73; x74; x3a; x20; x78; x0d; x0a; x0d; x0a]]) =
  [HReq (mkReq kGet kHttp11 [x2f; x61] [x3f; x62] [([x48; x6f; x73; x74], [x78])])].
Proof. vm_compute. reflexivity. Qed.

(* "GET / HTTP/1.2" is rejected *)
Example C18_ex_http_bad :
  fst (http_feed_all http_init
    [[x47; x45; x54; x20; x2f; x20; x48; x54; x54; x50; x2f; x31; x2e; x32; x0d; x0a]]) = [HBad].
Proof. vm_compute. reflexivity. Qed.
