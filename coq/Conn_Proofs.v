(* Conn_Proofs: invariants of the connection model, for every reachable state, and the
   per-step characterisations behind Properties_C01 / C03 / C13. *)
From Coq Require Import List ZArith Lia Bool Arith NArith.
From Coq.Strings Require Import Byte.
From Muduo Require Import Conn_Model.
Import ListNotations.

Arguments Nat.min : simpl never.
Arguments N.leb : simpl never.
Arguments N.ltb : simpl never.
Arguments N.of_nat : simpl never.

Ltac projs :=
  cbn [st outb inb writing rd_chan rd_flag registered hwm has_wc has_hwm wire fin pending chk
       delayed accepted consumed delivered enq ran ups downs fst snd set_pending set_st set_reading] in *.

Ltac triv :=
  try solve [ auto
            | discriminate
            | intros; discriminate
            | intros [?|?]; discriminate
            | intros [?|?]; congruence
            | intros; split; [discriminate|]; intros [?|?]; discriminate
            | intros ?; exfalso; auto
            | intros; congruence ].

(* ---- small facts ------------------------------------------------------------------- *)
Lemma cstate_eqb_true a b : cstate_eqb a b = true <-> a = b.
Proof. destruct a, b; cbn; split; intros; congruence. Qed.

Lemma cstate_eqb_false a b : cstate_eqb a b = false <-> a <> b.
Proof. destruct a, b; cbn; split; intros; congruence. Qed.

Definition sends_of (l : list functor) : list (nat * list byte) :=
  flat_map (fun f => match f with FSend t d => [(t, d)] | _ => [] end) l.

Definition destroys (l : list functor) : nat :=
  length (filter is_destroy l).

Lemma sends_of_app l1 l2 : sends_of (l1 ++ l2) = sends_of l1 ++ sends_of l2.
Proof. unfold sends_of. apply flat_map_app. Qed.

Lemma destroys_app l1 l2 : destroys (l1 ++ l2) = destroys l1 + destroys l2.
Proof. unfold destroys. rewrite filter_app, app_length. reflexivity. Qed.

Lemma existsb_destroy l : existsb is_destroy l = false -> destroys l = 0.
Proof.
  unfold destroys. induction l as [|f l IH]; cbn; [reflexivity|].
  destruct (is_destroy f); cbn; [discriminate|exact IH].
Qed.

Definition up (c : conn) : Prop := st c = Connected \/ st c = Disconnecting.

Lemma closable_up c : closable c = true <-> up c.
Proof. unfold closable, up. destruct (st c); cbn; intuition discriminate. Qed.

Lemma closable_false c : closable c = false <-> st c = Connecting \/ st c = Disconnected.
Proof. unfold closable. destruct (st c); cbn; intuition discriminate. Qed.

Lemma up_cases c : up c -> cstate_eqb (st c) Disconnected = false /\ cstate_eqb (st c) Connecting = false.
Proof. intros [H|H]; rewrite H; split; reflexivity. Qed.

Lemma not_up c : ~ up c <-> st c = Connecting \/ st c = Disconnected.
Proof. unfold up. destruct (st c); intuition discriminate. Qed.

Lemma up_of c : st c <> Connecting -> st c <> Disconnected -> up c.
Proof. unfold up. destruct (st c); intuition congruence. Qed.

Lemma length_zero_iff {A} (l : list A) : (length l =? 0) = true <-> l = [].
Proof. destruct l; cbn; split; intros H; try reflexivity; discriminate. Qed.

Lemma length_zero_false {A} (l : list A) : (length l =? 0) = false <-> l <> [].
Proof. destruct l; cbn; split; intros H; try discriminate; try congruence. Qed.

Lemma app_one_neq {A} (l : list A) x : l ++ [x] <> l.
Proof. intros H. apply (f_equal (@length A)) in H. rewrite app_length in H. cbn in H. lia. Qed.

(* ---- the invariant ----------------------------------------------------------------- *)
Record Inv (c : conn) : Prop := {
  i_stream : wire c ++ outb c = accepted c;
  i_interest : up c -> writing c = negb (length (outb c) =? 0);
  i_idle : ~ up c -> writing c = false /\ rd_chan c = false;
  i_fresh : st c = Connecting ->
            outb c = [] /\ pending c = [] /\ registered c = false /\ fin c = false /\ wire c = [];
  i_inbound : consumed c ++ inb c = delivered c;
  i_fifo : ran c ++ sends_of (pending c) = enq c;
  i_fin : fin c = true -> st c <> Connected /\ (up c -> outb c = []);
  i_updown : match st c with
             | Connecting => ups c = 0 /\ downs c = 0
             | Connected | Disconnecting => ups c = 1 /\ downs c = 0
             | Disconnected => ups c = 1 /\ downs c = 1
             end;
  i_reg : up c -> registered c = true;
  i_destroy : match destroys (pending c) with
              | 0 => True
              | 1 => st c = Disconnected /\ registered c = true
              | _ => False
              end;
  i_shut : In FShutdown (pending c) -> st c <> Connected
}.

Lemma init_inv mark wc hw : Inv (init mark wc hw).
Proof.
  constructor; cbn; try reflexivity; try tauto; try (intros [H|H]; discriminate);
    try (intros _; repeat split; reflexivity); try discriminate.
Qed.

Lemma inv_up_nodestroy c : Inv c -> up c -> destroys (pending c) = 0.
Proof.
  intros HI Hup. pose proof (i_destroy c HI) as H.
  destruct (destroys (pending c)) as [|[|n]]; [reflexivity| |contradiction].
  destruct H as [H _]. destruct Hup as [Hu|Hu]; congruence.
Qed.

Lemma inv_up_writing_false c : Inv c -> up c -> outb c = [] -> writing c = false.
Proof. intros HI Hup Ho. rewrite (i_interest c HI Hup), Ho. reflexivity. Qed.

Lemma inv_writing_up c : Inv c -> writing c = true -> up c.
Proof.
  intros HI Hw. destruct (st c) eqn:E; unfold up; auto;
    (destruct (i_idle c HI) as [H _]; [rewrite not_up; auto | congruence]).
Qed.

Lemma inv_rd_up c : Inv c -> rd_chan c = true -> up c.
Proof.
  intros HI Hw. destruct (st c) eqn:E; unfold up; auto;
    (destruct (i_idle c HI) as [_ H]; [rewrite not_up; auto | congruence]).
Qed.

Lemma inv_writing_outb c : Inv c -> writing c = true -> outb c <> [].
Proof.
  intros HI Hw Ho. pose proof (inv_up_writing_false c HI (inv_writing_up c HI Hw) Ho). congruence.
Qed.

Lemma inv_pending_not_connecting c : Inv c -> pending c <> [] -> st c <> Connecting.
Proof. intros HI Hp Hc. destruct (i_fresh c HI Hc) as (_ & H & _). contradiction. Qed.

(* ---- normal forms of the sub-functions --------------------------------------------- *)
Definition s_direct (c : conn) : bool := negb (writing c) && (length (outb c) =? 0).
Definition s_nwrote (c : conn) (d : list byte) (k : kres) : nat :=
  if s_direct c then
    match effective c k with
    | Err _ => 0
    | k' => match taken k' (length d) with Some n => n | None => 0 end
    end
  else 0.
Definition s_fatal (c : conn) (k : kres) : bool :=
  if s_direct c then match effective c k with Err e => is_fatal e | _ => false end else false.
Definition s_ok (c : conn) (k : kres) : bool :=
  if s_direct c then match effective c k with Err _ => false | _ => true end else false.
Definition s_rem (c : conn) (d : list byte) (k : kres) : nat := length d - s_nwrote c d k.
Definition s_queue (c : conn) (d : list byte) (k : kres) : bool :=
  negb (s_fatal c k) && (0 <? s_rem c d k).
Definition s_wc (c : conn) (d : list byte) (k : kres) : bool :=
  s_ok c k && (s_rem c d k =? 0) && has_wc c.
Definition s_hw (c : conn) (d : list byte) (k : kres) : bool :=
  s_queue c d k && (hwm c <=? N.of_nat (length (outb c) + s_rem c d k))%N
  && (N.of_nat (length (outb c)) <? hwm c)%N && has_hwm c.
Definition s_q (c : conn) (d : list byte) (k : kres) : list functor :=
  (if s_wc c d k then [FWriteComplete] else []) ++
  (if s_hw c d k then [FHighWater (length (outb c) + s_rem c d k)] else []).
Definition s_evs (c : conn) (k : kres) : list event :=
  if s_direct c then match effective c k with Err EAGAIN => [] | Err _ => [EvErrorLogged] | _ => [] end
  else [].

Lemma sendInLoop_nf c d k : cstate_eqb (st c) Disconnected = false ->
  sendInLoop c d k =
  (mkConn (st c)
          (if s_queue c d k then outb c ++ skipn (s_nwrote c d k) d else outb c)
          (inb c)
          (if s_queue c d k then true else writing c)
          (rd_chan c) (rd_flag c) (registered c) (hwm c) (has_wc c) (has_hwm c)
          (wire c ++ firstn (s_nwrote c d k) d) (fin c) (pending c ++ s_q c d k) (chk c) (delayed c)
          (if s_fatal c k then accepted c else accepted c ++ d)
          (consumed c) (delivered c) (enq c) (ran c) (ups c) (downs c), s_evs c k).
Proof.
  intros H. unfold sendInLoop, s_q, s_hw, s_wc, s_queue, s_rem, s_nwrote, s_fatal, s_ok, s_evs, s_direct.
  rewrite H.
  destruct (negb (writing c) && (length (outb c) =? 0)); [destruct (effective c k)|];
    match goal with
    | |- context [if ?a && ?b && has_wc c then _ else _] => destruct (a && b && has_wc c)
    end;
    match goal with
    | |- context [if ?a && ?b && ?cc && has_hwm c then _ else _] => destruct (a && b && cc && has_hwm c)
    end; cbn [app]; rewrite ?app_nil_r, <- ?app_assoc; reflexivity.
Qed.

Lemma sendInLoop_down c d k : cstate_eqb (st c) Disconnected = true ->
  sendInLoop c d k = (c, [EvGiveUp]).
Proof. intros H. unfold sendInLoop. rewrite H. reflexivity. Qed.

Definition h_n (c : conn) (k : kres) : nat :=
  match taken (effective c k) (length (outb c)) with Some n => n | None => 0 end.
Definition h_act (c : conn) (k : kres) : bool := writing c && (0 <? h_n c k).
Definition h_empty (c : conn) (k : kres) : bool := length (skipn (h_n c k) (outb c)) =? 0.
Definition h_fin (c : conn) (k : kres) : bool := h_empty c k && cstate_eqb (st c) Disconnecting.

Lemma handleWrite_nf c k : handleWrite c k =
  if h_act c k then
    (mkConn (st c) (skipn (h_n c k) (outb c)) (inb c) (negb (h_empty c k))
            (rd_chan c) (rd_flag c) (registered c) (hwm c) (has_wc c) (has_hwm c)
            (wire c ++ firstn (h_n c k) (outb c)) (if h_fin c k then true else fin c)
            (pending c ++ (if h_empty c k && has_wc c then [FWriteComplete] else []))
            (chk c) (delayed c) (accepted c) (consumed c) (delivered c) (enq c) (ran c)
            (ups c) (downs c), if h_fin c k then [EvFin] else [])
  else (c, if writing c then [EvErrorLogged] else []).
Proof.
  unfold handleWrite, h_act, h_fin, h_empty, h_n.
  destruct (writing c); cbn [andb]; [|reflexivity].
  destruct (taken (effective c k) (length (outb c))) as [n'|]; [|reflexivity].
  destruct (0 <? n') eqn:En; [|reflexivity].
  destruct (length (skipn n' (outb c)) =? 0) eqn:E; cbn [andb negb].
  - destruct (cstate_eqb (st c) Disconnecting); unfold shutdownInLoop; cbn [writing];
      destruct (has_wc c); rewrite ?app_nil_r; reflexivity.
  - rewrite app_nil_r. reflexivity.
Qed.

Lemma connectDestroyed_nf c : connectDestroyed c =
  if negb (registered c) then Fault else
  if closable c then
    Ok (mkConn Disconnected (outb c) (inb c) false false (rd_flag c) false (hwm c) (has_wc c)
               (has_hwm c) (wire c) (fin c) (pending c) (chk c) (delayed c) (accepted c) (consumed c)
               (delivered c) (enq c) (ran c) (ups c) (S (downs c)), [EvDown])
  else if writing c || rd_chan c then Fault
  else Ok (mkConn (st c) (outb c) (inb c) (writing c) (rd_chan c) (rd_flag c) false (hwm c) (has_wc c)
                  (has_hwm c) (wire c) (fin c) (pending c) (chk c) (delayed c) (accepted c)
                  (consumed c) (delivered c) (enq c) (ran c) (ups c) (downs c), []).
Proof.
  unfold connectDestroyed. destruct (negb (registered c)); [reflexivity|].
  destruct (closable c); cbn; reflexivity.
Qed.

Definition add_ran (c : conn) (t : nat) (d : list byte) : conn :=
  mkConn (st c) (outb c) (inb c) (writing c) (rd_chan c) (rd_flag c) (registered c) (hwm c)
         (has_wc c) (has_hwm c) (wire c) (fin c) (pending c) (chk c) (delayed c)
         (accepted c) (consumed c) (delivered c) (enq c) (ran c ++ [(t, d)]) (ups c) (downs c).

Lemma run_functor_send c t d k :
  run_functor c (FSend t d) k = Ok (add_ran (fst (sendInLoop c d k)) t d, snd (sendInLoop c d k)).
Proof. unfold run_functor. destruct (sendInLoop c d k). reflexivity. Qed.

(* ---- facts about the quantities of sendInLoop -------------------------------------- *)
Lemma s_direct_true c : s_direct c = true -> writing c = false /\ outb c = [].
Proof.
  unfold s_direct. intros H. apply andb_prop in H as [H1 H2].
  apply negb_true_iff in H1. apply length_zero_iff in H2. auto.
Qed.

Lemma s_nwrote_le c d k : s_nwrote c d k <= length d.
Proof.
  unfold s_nwrote. destruct (s_direct c); [|lia].
  destruct (effective c k) as [n| |e]; cbn [taken]; lia.
Qed.

Lemma s_fatal_true c d k : s_fatal c k = true ->
  s_nwrote c d k = 0 /\ s_queue c d k = false /\ s_ok c k = false /\ s_direct c = true.
Proof.
  unfold s_queue, s_nwrote, s_fatal, s_ok. destruct (s_direct c); [|discriminate].
  destruct (effective c k); try discriminate. intros ->. auto.
Qed.

Lemma s_indirect c d k : s_direct c = false ->
  s_nwrote c d k = 0 /\ s_fatal c k = false /\ s_ok c k = false.
Proof. unfold s_nwrote, s_fatal, s_ok. intros ->. auto. Qed.

Lemma s_outb_or c d k : outb c = [] \/ s_nwrote c d k = 0.
Proof.
  destruct (s_direct c) eqn:E.
  - left. apply s_direct_true, E.
  - right. apply s_indirect, E.
Qed.

Lemma s_noqueue_skipn c d k : s_fatal c k = false -> s_queue c d k = false ->
  skipn (s_nwrote c d k) d = [].
Proof.
  unfold s_queue, s_rem. intros -> H. cbn [negb andb] in H. apply Nat.ltb_ge in H.
  apply skipn_all2. lia.
Qed.

Lemma s_queue_skipn c d k : s_queue c d k = true -> skipn (s_nwrote c d k) d <> [].
Proof.
  unfold s_queue, s_rem. intros H. apply andb_prop in H as [_ H]. apply Nat.ltb_lt in H.
  intros E. apply (f_equal (@length byte)) in E. rewrite skipn_length in E. cbn in E. lia.
Qed.

Lemma s_queue_len c d k : s_queue c d k = true ->
  length (outb c ++ skipn (s_nwrote c d k) d) = length (outb c) + s_rem c d k /\ 0 < s_rem c d k.
Proof.
  unfold s_queue. intros H. apply andb_prop in H as [_ H]. apply Nat.ltb_lt in H.
  rewrite app_length, skipn_length. unfold s_rem in *. lia.
Qed.

Lemma s_outb_nf c d k : s_fatal c k = false ->
  (if s_queue c d k then outb c ++ skipn (s_nwrote c d k) d else outb c)
  = outb c ++ skipn (s_nwrote c d k) d.
Proof.
  intros Hf. destruct (s_queue c d k) eqn:Eq; [reflexivity|].
  rewrite (s_noqueue_skipn c d k Hf Eq), app_nil_r. reflexivity.
Qed.

Lemma s_fin c d k : fin c = true -> s_nwrote c d k = 0 /\ (s_direct c = true -> s_fatal c k = true).
Proof.
  unfold s_nwrote, s_fatal, effective. intros ->. destruct (s_direct c); auto.
Qed.

Lemma s_fin_inv c d k : Inv c -> up c -> fin c = true ->
  s_fatal c k = true /\ s_nwrote c d k = 0 /\ s_queue c d k = false /\ s_ok c k = false.
Proof.
  intros HI Hup Hf. destruct (i_fin c HI Hf) as [_ Ho]. specialize (Ho Hup).
  assert (Hd : s_direct c = true).
  { unfold s_direct. rewrite (inv_up_writing_false c HI Hup Ho), Ho. reflexivity. }
  destruct (s_fin c d k Hf) as [_ H]. specialize (H Hd).
  destruct (s_fatal_true c d k H) as (? & ? & ? & ?). auto.
Qed.

Lemma stream_step (w o a d : list byte) nw : w ++ o = a -> (o = [] \/ nw = 0) ->
  (w ++ firstn nw d) ++ (o ++ skipn nw d) = a ++ d.
Proof.
  intros <- [-> | ->]; cbn [firstn skipn app]; rewrite ?app_nil_r.
  - rewrite <- app_assoc, firstn_skipn. reflexivity.
  - rewrite app_assoc. reflexivity.
Qed.

Lemma s_q_sends c d k : sends_of (s_q c d k) = [].
Proof. unfold s_q. destruct (s_wc c d k), (s_hw c d k); reflexivity. Qed.

Lemma s_q_destroys c d k : destroys (s_q c d k) = 0.
Proof. unfold s_q. destruct (s_wc c d k), (s_hw c d k); reflexivity. Qed.

Lemma s_q_in c d k f : In f (s_q c d k) -> f = FWriteComplete \/ exists n, f = FHighWater n.
Proof.
  unfold s_q. destruct (s_wc c d k), (s_hw c d k); cbn; intros H;
    repeat (destruct H as [H|H]; [subst; eauto|]); contradiction.
Qed.

(* ---- the invariant is preserved by every sub-function ------------------------------- *)
Lemma sendInLoop_inv c d k : Inv c -> up c -> Inv (fst (sendInLoop c d k)).
Proof.
  intros HI Hup. destruct (up_cases c Hup) as [Hd Hc].
  rewrite (sendInLoop_nf c d k Hd).
  pose proof (s_fin_inv c d k HI Hup) as Hfi.
  destruct HI as [Hs Hi Hid Hfr Hin Hff Hfin Hud Hreg Hde Hsh].
  constructor; unfold up in *; projs.
  - destruct (s_fatal c k) eqn:Ef.
    + destruct (s_fatal_true c d k Ef) as (-> & -> & _). cbn [firstn]. rewrite app_nil_r. exact Hs.
    + rewrite (s_outb_nf c d k Ef). apply stream_step; [exact Hs|apply s_outb_or].
  - intros _. destruct (s_queue c d k) eqn:Eq; [|auto].
    pose proof (s_queue_skipn c d k Eq) as Hn.
    destruct (outb c ++ skipn (s_nwrote c d k) d) eqn:E; [|reflexivity].
    apply app_eq_nil in E as [_ E]. contradiction.
  - intros Hn. contradiction.
  - intros Hcg. destruct Hup; congruence.
  - exact Hin.
  - rewrite sends_of_app, s_q_sends, app_nil_r. exact Hff.
  - intros Hf. destruct (Hfi Hf) as (_ & _ & -> & _). auto.
  - exact Hud.
  - exact Hreg.
  - rewrite destroys_app, s_q_destroys, Nat.add_0_r. exact Hde.
  - intros H. apply in_app_or in H as [H|H]; [auto|].
    apply s_q_in in H as [H|[n H]]; discriminate.
Qed.

Lemma sendInLoop_inv_any c d k : Inv c -> st c <> Connecting -> Inv (fst (sendInLoop c d k)).
Proof.
  intros HI Hc. destruct (cstate_eqb (st c) Disconnected) eqn:E.
  - rewrite sendInLoop_down by exact E. exact HI.
  - apply sendInLoop_inv; [exact HI|]. apply up_of; [exact Hc|]. apply cstate_eqb_false, E.
Qed.

Lemma h_n_le c k : h_n c k <= length (outb c).
Proof.
  unfold h_n. destruct (effective c k) as [n| |e]; cbn [taken]; lia.
Qed.

Lemma h_fin_noact c k : fin c = true -> h_act c k = false.
Proof.
  unfold h_act, h_n, effective. intros ->. cbn. apply andb_false_r.
Qed.

Lemma handleWrite_inv c k : Inv c -> Inv (fst (handleWrite c k)).
Proof.
  intros HI. rewrite handleWrite_nf. destruct (h_act c k) eqn:Ea; [|exact HI].
  assert (Hw : writing c = true) by (unfold h_act in Ea; apply andb_prop in Ea; tauto).
  pose proof (inv_writing_up c HI Hw) as Hup.
  assert (Hf : fin c = false).
  { destruct (fin c) eqn:Ef; [|reflexivity]. rewrite (h_fin_noact c k Ef) in Ea. discriminate. }
  destruct HI as [Hs Hi Hid Hfr Hin Hff Hfin Hud Hreg Hde Hsh].
  assert (Hq : forall b : bool, sends_of (if b then [FWriteComplete] else []) = [] /\
                         destroys (if b then [FWriteComplete] else []) = 0 /\
                         ~ In FShutdown (if b then [FWriteComplete] else [])).
  { intros [|]; cbn; repeat split; try tauto. intros [H|H]; [discriminate|contradiction]. }
  constructor; unfold up in *; projs.
  - rewrite <- app_assoc, firstn_skipn. exact Hs.
  - intros _. reflexivity.
  - intros Hn. contradiction.
  - intros Hcg. destruct Hup; congruence.
  - exact Hin.
  - rewrite sends_of_app. destruct (Hq (h_empty c k && has_wc c)) as (-> & _). rewrite app_nil_r. exact Hff.
  - rewrite Hf. intros H. destruct (h_fin c k) eqn:E; [|discriminate].
    unfold h_fin in E. apply andb_prop in E as [E1 E2]. apply cstate_eqb_true in E2.
    split; [congruence|]. intros _. apply length_zero_iff. exact E1.
  - exact Hud.
  - exact Hreg.
  - rewrite destroys_app. destruct (Hq (h_empty c k && has_wc c)) as (_ & -> & _).
    rewrite Nat.add_0_r. exact Hde.
  - intros H. apply in_app_or in H as [H|H]; [auto|].
    destruct (Hq (h_empty c k && has_wc c)) as (_ & _ & Hn). contradiction.
Qed.

Lemma set_st_disc_inv c : Inv c -> up c -> Inv (set_st c Disconnecting).
Proof.
  intros HI Hup.
  pose proof (inv_up_nodestroy c HI Hup) as Hnd.
  destruct HI as [Hs Hi Hid Hfr Hin Hff Hfin Hud Hreg Hde Hsh].
  constructor; unfold up in *; projs; triv.
  - intros Hf. destruct (Hfin Hf) as [_ H]. split; [discriminate|]. auto.
  - destruct Hup as [E|E]; rewrite E in Hud; exact Hud.
  - rewrite Hnd. exact I.
Qed.

Lemma shutdownInLoop_inv c : Inv c -> st c <> Connected -> st c <> Connecting ->
  Inv (fst (shutdownInLoop c)).
Proof.
  intros HI Hc Hcg. unfold shutdownInLoop. destruct (writing c) eqn:Ew; [exact HI|].
  destruct HI as [Hs Hi Hid Hfr Hin Hff Hfin Hud Hreg Hde Hsh].
  constructor; unfold up in *; projs; triv.
  - rewrite <- Ew. exact Hi.
  - intros Hn. destruct (Hid Hn) as [_ H]. auto.
  - intros _. split; [exact Hc|]. intros Hup. specialize (Hi Hup). rewrite Ew in Hi.
    symmetry in Hi. apply negb_false_iff in Hi. apply length_zero_iff. exact Hi.
Qed.

Lemma handleClose_inv c : Inv c -> up c -> Inv (fst (handleClose c)).
Proof.
  intros HI Hup.
  pose proof (inv_up_nodestroy c HI Hup) as Hnd.
  destruct HI as [Hs Hi Hid Hfr Hin Hff Hfin Hud Hreg Hde Hsh].
  unfold handleClose. constructor; unfold up in *; projs; triv.
  - rewrite sends_of_app. cbn. rewrite app_nil_r. exact Hff.
  - destruct Hup as [E|E]; rewrite E in Hud; destruct Hud as [-> ->]; auto.
  - rewrite destroys_app, Hnd. cbn. auto.
Qed.

Lemma forceCloseInLoop_inv c : Inv c -> Inv (fst (forceCloseInLoop c)).
Proof.
  intros HI. unfold forceCloseInLoop. destruct (closable c) eqn:E; [|exact HI].
  apply handleClose_inv; [exact HI|]. apply closable_up, E.
Qed.

Lemma forceClose_inv c : Inv c -> Inv (forceClose c).
Proof.
  intros HI. unfold forceClose. destruct (closable c) eqn:E; [|exact HI].
  apply closable_up in E.
  pose proof (set_st_disc_inv c HI E) as H1.
  destruct H1 as [Hs Hi Hid Hfr Hin Hff Hfin Hud Hreg Hde Hsh].
  constructor; unfold up in *; projs; triv.
  - rewrite sends_of_app. cbn. rewrite app_nil_r. exact Hff.
  - rewrite destroys_app. cbn. rewrite Nat.add_0_r. exact Hde.
Qed.

Lemma connectDestroyed_inv c : Inv c -> registered c = true -> destroys (pending c) = 0 ->
  exists c' e, connectDestroyed c = Ok (c', e) /\ Inv c'.
Proof.
  intros HI Hr Hnd. rewrite connectDestroyed_nf, Hr. cbn [negb].
  destruct (closable c) eqn:E.
  - apply closable_up in E. eexists _, _. split; [reflexivity|].
    destruct HI as [Hs Hi Hid Hfr Hin Hff Hfin Hud Hreg Hde Hsh].
    constructor; unfold up in *; projs; triv.
    + destruct E as [E|E]; rewrite E in Hud; destruct Hud as [-> ->]; auto.
    + rewrite Hnd. exact I.
  - apply closable_false in E.
    destruct (i_idle c HI) as [Hw Hrd]; [apply not_up, E|].
    rewrite Hw, Hrd. cbn [orb]. eexists _, _. split; [reflexivity|].
    assert (Ed : st c = Disconnected).
    { destruct E as [E|E]; [|exact E]. destruct (i_fresh c HI E) as (_ & _ & H & _). congruence. }
    destruct HI as [Hs Hi Hid Hfr Hin Hff Hfin Hud Hreg Hde Hsh].
    constructor; unfold up in *; projs; triv.
    rewrite Hnd. exact I.
Qed.

Lemma startReadInLoop_inv c : Inv c -> st c <> Connecting -> Inv (startReadInLoop c).
Proof.
  intros HI Hc. unfold startReadInLoop.
  destruct (negb (cstate_eqb (st c) Disconnected) && (negb (rd_flag c) || negb (rd_chan c))) eqn:E;
    [|exact HI].
  apply andb_prop in E as [E _]. apply negb_true_iff, cstate_eqb_false in E.
  pose proof (up_of c Hc E) as Hup. pose proof (inv_up_nodestroy c HI Hup) as Hnd.
  destruct HI as [Hs Hi Hid Hfr Hin Hff Hfin Hud Hreg Hde Hsh].
  constructor; unfold up in *; projs; triv.
  rewrite Hnd. exact I.
Qed.

Lemma stopReadInLoop_inv c : Inv c -> st c <> Connecting -> Inv (stopReadInLoop c).
Proof.
  intros HI Hc. unfold stopReadInLoop.
  destruct (negb (cstate_eqb (st c) Disconnected) && (rd_flag c || rd_chan c)) eqn:E;
    [|exact HI].
  apply andb_prop in E as [E _]. apply negb_true_iff, cstate_eqb_false in E.
  pose proof (up_of c Hc E) as Hup. pose proof (inv_up_nodestroy c HI Hup) as Hnd.
  destruct HI as [Hs Hi Hid Hfr Hin Hff Hfin Hud Hreg Hde Hsh].
  constructor; unfold up in *; projs; triv.
  rewrite Hnd. exact I.
Qed.

Definition set_aux (c : conn) (ch : list (nat * bool)) (n : nat) : conn :=
  mkConn (st c) (outb c) (inb c) (writing c) (rd_chan c) (rd_flag c) (registered c) (hwm c) (has_wc c)
         (has_hwm c) (wire c) (fin c) (pending c) ch n (accepted c) (consumed c) (delivered c)
         (enq c) (ran c) (ups c) (downs c).

Lemma set_aux_inv c ch n : Inv c -> Inv (set_aux c ch n).
Proof.
  intros [Hs Hi Hid Hfr Hin Hff Hfin Hud Hreg Hde Hsh].
  constructor; unfold up in *; projs; triv.
Qed.

Lemma set_pending_inv c p : Inv c -> st c <> Connecting ->
  sends_of p = sends_of (pending c) ->
  (destroys p = destroys (pending c) \/ destroys p = 0) ->
  (In FShutdown p -> st c <> Connected) ->
  Inv (set_pending c p).
Proof.
  intros [Hs Hi Hid Hfr Hin Hff Hfin Hud Hreg Hde Hsh] Hc Hsd Hds Hin'.
  constructor; unfold up in *; projs; triv.
  destruct Hds as [-> | ->]; [exact Hde|exact I].
Qed.

Lemma sendInLoop_add_ran c t d d' k :
  sendInLoop (add_ran c t d') d k = (add_ran (fst (sendInLoop c d k)) t d', snd (sendInLoop c d k)).
Proof.
  destruct (cstate_eqb (st c) Disconnected) eqn:E.
  - rewrite (sendInLoop_down c), (sendInLoop_down (add_ran c t d')) by exact E. reflexivity.
  - rewrite (sendInLoop_nf c), (sendInLoop_nf (add_ran c t d')) by exact E. reflexivity.
Qed.

Lemma ok_inv (x : conn * list event) : Inv (fst x) ->
  match Ok x with Ok (c', _) => Inv c' | Rejected => True | Fault => False end.
Proof. destruct x. auto. Qed.

Lemma step_ok_inv c o : Inv c ->
  match step c o with Ok (c', _) => Inv c' | Rejected => True | Fault => False end.
Proof.
  intros HI. unfold step.
  destruct (user_op o && cstate_eqb (st c) Connecting) eqn:Eu; [exact I|].
  destruct o; cbn [user_op andb] in Eu; try (apply cstate_eqb_false in Eu); unfold ok.
  - (* Establish *)
    destruct (cstate_eqb (st c) Connecting) eqn:E; [|exact I].
    apply cstate_eqb_true in E.
    destruct (i_idle c HI) as [Hw _]; [apply not_up; auto|].
    destruct (i_fresh c HI E) as (Ho & Hp & Hr & Hf & Hwi).
    destruct HI as [Hs Hi Hid Hfr Hin Hff Hfin Hud Hreg Hde Hsh].
    rewrite E in Hud. destruct Hud as [Hu Hdn].
    constructor; unfold up in *; projs; triv.
    + intros _. rewrite Hw, Ho. reflexivity.
    + rewrite Hp. exact I.
    + rewrite Hp. intros [].
  - (* Send *)
    destruct (cstate_eqb (st c) Connected) eqn:E; [|exact HI].
    apply ok_inv. apply sendInLoop_inv; [exact HI|]. left. apply cstate_eqb_true, E.
  - (* FSendCheck *)
    apply (set_aux_inv c _ (delayed c) HI).
  - (* FSendEnq *)
    destruct (lookup t (chk c)); [|exact HI].
    apply (set_aux_inv (mkConn (st c) (outb c) (inb c) (writing c) (rd_chan c) (rd_flag c) (registered c) (hwm c)
       (has_wc c) (has_hwm c) (wire c) (fin c) (pending c ++ [FSend t d]) (chk c) (delayed c)
       (accepted c) (consumed c) (delivered c) (enq c ++ [(t, d)]) (ran c) (ups c) (downs c))
       ((t, false) :: chk c) (delayed c)).
    destruct HI as [Hs Hi Hid Hfr Hin Hff Hfin Hud Hreg Hde Hsh].
    constructor; unfold up in *; projs; triv.
    + rewrite sends_of_app. cbn. rewrite app_assoc, Hff. reflexivity.
    + rewrite destroys_app. cbn. rewrite Nat.add_0_r. exact Hde.
    + intros H. apply in_app_or in H as [H|[H|[]]]; [auto|discriminate].
  - (* RunOne *)
    destruct (pending c) as [|f rest] eqn:Ep; [exact HI|].
    assert (Hc : st c <> Connecting) by (apply inv_pending_not_connecting; [exact HI|congruence]).
    pose proof (i_destroy c HI) as Hde. pose proof (i_shut c HI) as Hsh. pose proof (i_fifo c HI) as Hff.
    rewrite Ep in Hde, Hsh, Hff.
    destruct f; [rewrite run_functor_send|unfold run_functor, ok ..].
    + (* FSend *)
      cbn [fst].
      pose proof (sendInLoop_add_ran (set_pending c rest) t d d k) as Hcomm.
      apply (f_equal fst) in Hcomm. cbn [fst] in Hcomm. rewrite <- Hcomm.
      apply sendInLoop_inv_any; [|exact Hc].
      destruct HI as [Hs Hi Hid Hfr Hin Hff' Hfin Hud Hreg Hde' Hsh'].
      constructor; unfold up in *; unfold add_ran; projs; triv.
      * rewrite <- Hff. cbn. rewrite <- app_assoc. reflexivity.
      * intros H. apply Hsh. right. exact H.
    + (* FShutdown *)
      apply ok_inv. apply shutdownInLoop_inv; [|apply Hsh; left; reflexivity|exact Hc].
      apply set_pending_inv; [exact HI|exact Hc|rewrite Ep; reflexivity|left; rewrite Ep; reflexivity|].
      intros _. apply Hsh. left. reflexivity.
    + (* FForceClose *)
      apply ok_inv. apply forceCloseInLoop_inv.
      apply set_pending_inv; [exact HI|exact Hc|rewrite Ep; reflexivity|left; rewrite Ep; reflexivity|].
      intros H. apply Hsh. right. exact H.
    + apply startReadInLoop_inv; [|exact Hc].
      apply set_pending_inv; [exact HI|exact Hc|rewrite Ep; reflexivity|left; rewrite Ep; reflexivity|].
      intros H. apply Hsh. right. exact H.
    + apply stopReadInLoop_inv; [|exact Hc].
      apply set_pending_inv; [exact HI|exact Hc|rewrite Ep; reflexivity|left; rewrite Ep; reflexivity|].
      intros H. apply Hsh. right. exact H.
    + apply set_pending_inv; [exact HI|exact Hc|rewrite Ep; reflexivity|left; rewrite Ep; reflexivity|].
      intros H. apply Hsh. right. exact H.
    + apply set_pending_inv; [exact HI|exact Hc|rewrite Ep; reflexivity|left; rewrite Ep; reflexivity|].
      intros H. apply Hsh. right. exact H.
    + (* FDestroy *)
      unfold destroys in Hde. cbn [filter is_destroy length] in Hde. fold (destroys rest) in Hde.
      destruct (destroys rest) eqn:Er; [|contradiction]. destruct Hde as [Hd Hr].
      destruct (connectDestroyed_inv (set_pending c rest)) as (c' & e & -> & HI').
      * apply set_pending_inv; [exact HI|exact Hc|rewrite Ep; reflexivity|right; exact Er|].
        intros H. apply Hsh. right. exact H.
      * exact Hr.
      * exact Er.
      * exact HI'.
  - (* EvWritable *)
    destruct (registered c); [|exact I]. apply ok_inv, handleWrite_inv, HI.
  - (* EvReadData *)
    destruct (rd_chan c && registered c && (0 <? length d)); [|exact I].
    destruct HI as [Hs Hi Hid Hfr Hin Hff Hfin Hud Hreg Hde Hsh].
    constructor; unfold up in *; projs; triv.
    rewrite app_assoc, Hin. reflexivity.
  - (* EvReadEOF *)
    destruct (rd_chan c && registered c) eqn:E; [|exact I].
    apply andb_prop in E as [E _]. pose proof (inv_rd_up c HI E) as Hup.
    unfold handleCloseChecked. rewrite (proj2 (closable_up c) Hup).
    apply ok_inv, handleClose_inv; assumption.
  - (* EvReadErr *)
    destruct (rd_chan c && registered c); [exact HI|exact I].
  - (* EvHup *)
    destruct ((rd_chan c || writing c) && registered c) eqn:E; [|exact I].
    apply andb_prop in E as [E _].
    assert (Hup : up c).
    { apply orb_prop in E as [E|E]; [apply inv_rd_up|apply inv_writing_up]; assumption. }
    unfold handleCloseChecked. rewrite (proj2 (closable_up c) Hup).
    apply ok_inv, handleClose_inv; assumption.
  - (* EvError *)
    destruct ((rd_chan c || writing c) && registered c); [exact HI|exact I].
  - (* Retrieve *)
    destruct (n <=? length (inb c)); [|exact I].
    destruct HI as [Hs Hi Hid Hfr Hin Hff Hfin Hud Hreg Hde Hsh].
    constructor; unfold up in *; projs; triv.
    rewrite <- app_assoc, firstn_skipn. exact Hin.
  - (* Shutdown *)
    destruct (cstate_eqb (st c) Connected) eqn:E; [|exact HI].
    apply cstate_eqb_true in E.
    apply ok_inv, shutdownInLoop_inv; [apply set_st_disc_inv; [exact HI|left; exact E]| |];
      cbn [set_st st]; discriminate.
  - (* XShutdown *)
    destruct (cstate_eqb (st c) Connected) eqn:E; [|exact HI].
    apply cstate_eqb_true in E.
    change (Inv (set_pending (set_st c Disconnecting) (pending (set_st c Disconnecting) ++ [FShutdown]))).
    apply set_pending_inv; [apply set_st_disc_inv; [exact HI|left; exact E]| | | |];
      cbn [set_st st pending]; try discriminate.
    + rewrite sends_of_app. cbn. apply app_nil_r.
    + left. rewrite destroys_app. cbn. apply Nat.add_0_r.
  - (* ForceClose *)
    apply forceClose_inv, HI.
  - (* ForceCloseDelay *)
    destruct (closable c) eqn:E; [|exact HI].
    apply (set_aux_inv (set_st c Disconnecting) (chk c) (S (delayed c))).
    apply set_st_disc_inv; [exact HI|apply closable_up, E].
  - (* DelayFire *)
    destruct (delayed c) as [|n]; [exact I|].
    apply (set_aux_inv (forceClose c) (chk (forceClose c)) n). apply forceClose_inv, HI.
  - destruct (registered c); [|exact I]. apply startReadInLoop_inv; assumption.
  - destruct (registered c); [|exact I]. apply stopReadInLoop_inv; assumption.
  - apply set_pending_inv; [exact HI|exact Eu| | |].
    + rewrite sends_of_app. cbn. apply app_nil_r.
    + left. rewrite destroys_app. cbn. apply Nat.add_0_r.
    + intros H. apply in_app_or in H as [H|[H|[]]]; [apply (i_shut c HI H)|discriminate].
  - apply set_pending_inv; [exact HI|exact Eu| | |].
    + rewrite sends_of_app. cbn. apply app_nil_r.
    + left. rewrite destroys_app. cbn. apply Nat.add_0_r.
    + intros H. apply in_app_or in H as [H|[H|[]]]; [apply (i_shut c HI H)|discriminate].
  - (* OwnerDestroy *)
    destruct (registered c && negb (existsb is_destroy (pending c))) eqn:E; [|exact I].
    apply andb_prop in E as [Er En]. apply negb_true_iff in En.
    destruct (connectDestroyed_inv c HI Er (existsb_destroy _ En)) as (c' & e & -> & HI').
    exact HI'.
Qed.

Theorem step_inv c o c' e : Inv c -> step c o = Ok (c', e) -> Inv c'.
Proof. intros HI H. pose proof (step_ok_inv c o HI) as H'. rewrite H in H'. exact H'. Qed.

Theorem no_fault c o : Inv c -> step c o <> Fault.
Proof. intros HI H. pose proof (step_ok_inv c o HI) as H'. rewrite H in H'. exact H'. Qed.

(* ---- reachability ------------------------------------------------------------------- *)
Inductive reach : conn -> Prop :=
| reach_init mark wc hw : reach (init mark wc hw)
| reach_step c o c' e : reach c -> step c o = Ok (c', e) -> reach c'.

Lemma reach_inv c : reach c -> Inv c.
Proof. induction 1 as [| c o c' e _ IH H]; [apply init_inv|exact (step_inv c o c' e IH H)]. Qed.

Lemma run_reach ops : forall c c' e, reach c -> run c ops = Ok (c', e) -> reach c'.
Proof.
  induction ops as [|o ops IH]; intros c c' e Hr H; cbn [run] in H.
  - injection H as <- _. exact Hr.
  - destruct (step c o) as [[c1 e1]| |] eqn:E1; try discriminate.
    destruct (run c1 ops) as [[c2 e2]| |] eqn:E2; try discriminate.
    injection H as <- _. eapply IH; [|exact E2]. eapply reach_step; eassumption.
Qed.

Lemma run_inv ops : forall c c' e, Inv c -> run c ops = Ok (c', e) -> Inv c'.
Proof.
  induction ops as [|o ops IH]; intros c c' e Hr H; cbn [run] in H.
  - injection H as <- _. exact Hr.
  - destruct (step c o) as [[c1 e1]| |] eqn:E1; try discriminate.
    destruct (run c1 ops) as [[c2 e2]| |] eqn:E2; try discriminate.
    injection H as <- _. eapply IH; [|exact E2]. eapply step_inv; eassumption.
Qed.

Lemma run_no_fault ops : forall c, Inv c -> run c ops <> Fault.
Proof.
  induction ops as [|o ops IH]; intros c HI H; cbn [run] in H; [discriminate|].
  destruct (step c o) as [[c1 e1]| |] eqn:E1; try discriminate.
  - destruct (run c1 ops) as [[c2 e2]| |] eqn:E2; try discriminate.
    apply (IH c1); [eapply step_inv; eassumption|exact E2].
  - exact (no_fault c o HI E1).
Qed.

(* [run] as a relation, for inductions over a whole trace *)
Lemma run_cons c o ops c' e : run c (o :: ops) = Ok (c', e) ->
  exists c1 e1 e2, step c o = Ok (c1, e1) /\ run c1 ops = Ok (c', e2) /\ e = e1 ++ e2.
Proof.
  cbn [run]. destruct (step c o) as [[c1 e1]| |] eqn:E1; try discriminate.
  destruct (run c1 ops) as [[c2 e2]| |] eqn:E2; try discriminate.
  intros H. injection H as <- <-. eauto 7.
Qed.

(* ---- unconditional normal forms, and the case analysis of [step] -------------------- *)
(* result of a sendInLoop that runs on a connection that is not Disconnected; [p] is the
   functor queue it starts from *)
Definition send_res (c : conn) (d : list byte) (k : kres) (p : list functor) : conn :=
  mkConn (st c)
         (if s_queue c d k then outb c ++ skipn (s_nwrote c d k) d else outb c)
         (inb c)
         (if s_queue c d k then true else writing c)
         (rd_chan c) (rd_flag c) (registered c) (hwm c) (has_wc c) (has_hwm c)
         (wire c ++ firstn (s_nwrote c d k) d) (fin c) (p ++ s_q c d k) (chk c) (delayed c)
         (if s_fatal c k then accepted c else accepted c ++ d)
         (consumed c) (delivered c) (enq c) (ran c) (ups c) (downs c).

Lemma sendInLoop_nf' c d k : sendInLoop c d k =
  if cstate_eqb (st c) Disconnected then (c, [EvGiveUp]) else (send_res c d k (pending c), s_evs c k).
Proof.
  destruct (cstate_eqb (st c) Disconnected) eqn:E.
  - apply sendInLoop_down, E.
  - apply sendInLoop_nf, E.
Qed.

Lemma runone_send_nf c rest t d k : run_functor (set_pending c rest) (FSend t d) k =
  if cstate_eqb (st c) Disconnected then Ok (add_ran (set_pending c rest) t d, [EvGiveUp])
  else Ok (add_ran (send_res c d k rest) t d, s_evs c k).
Proof.
  rewrite run_functor_send, sendInLoop_nf'. cbn [set_pending st].
  destruct (cstate_eqb (st c) Disconnected); reflexivity.
Qed.

Lemma step_DelayFire c : step c DelayFire =
  match delayed c with
  | O => Rejected
  | S n => Ok (set_aux (forceClose c) (chk c) n, [])
  end.
Proof.
  unfold step. cbn [user_op andb]. destruct (delayed c); [reflexivity|].
  unfold forceClose. destruct (closable c); reflexivity.
Qed.

Ltac projs' :=
  cbn [st outb inb writing rd_chan rd_flag registered hwm has_wc has_hwm wire fin pending chk
       delayed accepted consumed delivered enq ran ups downs fst snd set_pending set_st set_reading
       send_res add_ran set_aux] in *.

Ltac brk H :=
  repeat match type of H with
    | (if ?b then _ else _) = _ => destruct b eqn:?
    | Ok (if ?b then _ else _) = _ => destruct b eqn:?
    | Ok ((if ?b then _ else _), _) = _ => destruct b eqn:?
    | Ok (set_aux (if ?b then _ else _) _ _, _) = _ => destruct b eqn:?
    | (match ?x with _ => _ end) = _ => destruct x eqn:?
    end;
  try discriminate H.

(* explode [H : step c o = Ok (c', e)] into one goal per control path of the model, with c' and
   e replaced by their explicit values (the ifs inside record fields are left alone) *)
Ltac step_cases H :=
  match type of H with
  | step ?c ?o = _ =>
    destruct o;
    try rewrite step_DelayFire in H;
    unfold step in H; cbn [user_op andb] in H;
    try match type of H with
      | (match pending c with _ => _ end) = _ =>
          let f := fresh "f" in let rest := fresh "rest" in
          destruct (pending c) as [|f rest] eqn:Epend;
          [| destruct f; [rewrite runone_send_nf in H | unfold run_functor in H ..]]
      end;
    unfold ok, handleCloseChecked, forceCloseInLoop in H;
    rewrite ?sendInLoop_nf', ?handleWrite_nf, ?connectDestroyed_nf in H;
    unfold shutdownInLoop, forceClose, handleClose, startReadInLoop, stopReadInLoop in H;
    cbv zeta in H; projs'; brk H; injection H as <- <-; projs'
  end.

Ltac st_norm :=
  repeat match goal with
  | H : cstate_eqb _ _ = true |- _ => apply cstate_eqb_true in H
  | H : cstate_eqb _ _ = false |- _ => apply cstate_eqb_false in H
  end.

Ltac rw_conds :=
  repeat match goal with
  | H : ?b = true |- context [?b] => rewrite H
  | H : ?b = false |- context [?b] => rewrite H
  | H : pending ?c = _ |- context [pending ?c] => rewrite H
  end.

Lemma step_const c o c' e : step c o = Ok (c', e) ->
  hwm c' = hwm c /\ has_wc c' = has_wc c /\ has_hwm c' = has_hwm c.
Proof. intros H. step_cases H. all: auto. Qed.

(* ---- which sendInLoop a step executes ---------------------------------------------- *)
(* the block, the scripted kernel answer and the functor queue the call starts from *)
Definition send_of (c : conn) (o : op) : option (list byte * kres * list functor) :=
  match o with
  | Send d k => if cstate_eqb (st c) Connected then Some (d, k, pending c) else None
  | RunOne k =>
      match pending c with
      | FSend _ d :: rest => if cstate_eqb (st c) Disconnected then None else Some (d, k, rest)
      | _ => None
      end
  | _ => None
  end.

(* the direct write was attempted and failed with EPIPE / ECONNRESET (which is also what the
   kernel answers once the write side is shut down): the only way sendInLoop drops a block *)
Definition send_fatal (c : conn) (k : kres) : bool :=
  negb (writing c) && (length (outb c) =? 0) &&
  match effective c k with Err e => is_fatal e | _ => false end.

Lemma send_fatal_eq c k : send_fatal c k = s_fatal c k.
Proof. unfold send_fatal, s_fatal, s_direct. destruct (negb (writing c) && (length (outb c) =? 0)); reflexivity. Qed.

Definition block_taken (c : conn) (o : op) : list byte :=
  match send_of c o with
  | Some (d, k, _) => if send_fatal c k then [] else d
  | None => []
  end.

Lemma step_accepted c o c' e : step c o = Ok (c', e) -> accepted c' = accepted c ++ block_taken c o.
Proof.
  intros H. unfold block_taken, send_of. step_cases H; rw_conds; cbv beta iota;
    rewrite <- ?send_fatal_eq, ?app_nil_r; try reflexivity.
  all: st_norm; try congruence.
  all: try (destruct (send_fatal c k); rewrite ?app_nil_r; reflexivity).
Qed.

Lemma send_fatal_iff c k : send_fatal c k = true <->
  writing c = false /\ outb c = [] /\ exists e, effective c k = Err e /\ is_fatal e = true.
Proof.
  unfold send_fatal. split.
  - intros H. apply andb_prop in H as [H H3]. apply andb_prop in H as [H1 H2].
    apply negb_true_iff in H1. apply length_zero_iff in H2.
    destruct (effective c k); try discriminate. eauto.
  - intros (-> & -> & e & -> & ->). reflexivity.
Qed.

(* ---- wire ---------------------------------------------------------------------------- *)
Lemma step_wire c o c' e : step c o = Ok (c', e) -> exists w, wire c' = wire c ++ w.
Proof.
  intros H. step_cases H.
  all: first [ exists []; rewrite app_nil_r; reflexivity | eexists; reflexivity ].
Qed.

Lemma step_fin_wire c o c' e : step c o = Ok (c', e) -> fin c = true -> wire c' = wire c /\ fin c' = true.
Proof.
  intros H Hf. step_cases H; auto.
  all: try (rewrite (proj1 (s_fin c d k Hf)); cbn [firstn]; rewrite app_nil_r; auto).
  all: try (rewrite (h_fin_noact c k Hf) in *; discriminate).
Qed.

Lemma send_of_up c o d k p : Inv c -> send_of c o = Some (d, k, p) -> up c.
Proof.
  intros HI. unfold send_of. destruct o; try discriminate.
  - destruct (cstate_eqb (st c) Connected) eqn:E; [|discriminate]. intros _. left. apply cstate_eqb_true, E.
  - destruct (pending c) as [|[] rest] eqn:Ep; try discriminate.
    destruct (cstate_eqb (st c) Disconnected) eqn:E; [discriminate|]. intros _.
    apply up_of; [|apply cstate_eqb_false, E]. apply inv_pending_not_connecting; [exact HI|congruence].
Qed.

Lemma step_fin_accepted c o c' e : Inv c -> step c o = Ok (c', e) -> fin c = true ->
  accepted c' = accepted c.
Proof.
  intros HI H Hf. rewrite (step_accepted c o c' e H). unfold block_taken.
  destruct (send_of c o) as [[[d k] p]|] eqn:Es; [|apply app_nil_r].
  pose proof (send_of_up c o d k p HI Es) as Hup.
  destruct (s_fin_inv c d k HI Hup Hf) as (Hft & _). rewrite send_fatal_eq, Hft. apply app_nil_r.
Qed.

(* ---- foreign sends ------------------------------------------------------------------- *)
Definition enq_of (c : conn) (o : op) : list (nat * list byte) :=
  match o with
  | FSendEnq t d => if lookup t (chk c) then [(t, d)] else []
  | _ => []
  end.

Definition ran_of (c : conn) (o : op) : list (nat * list byte) :=
  match o with
  | RunOne _ => match pending c with FSend t d :: _ => [(t, d)] | _ => [] end
  | _ => []
  end.

Lemma step_enq_ran c o c' e : step c o = Ok (c', e) ->
  enq c' = enq c ++ enq_of c o /\ ran c' = ran c ++ ran_of c o.
Proof.
  intros H. unfold enq_of, ran_of. step_cases H; rw_conds; rewrite ?app_nil_r; auto.
Qed.

(* ---- inbound ------------------------------------------------------------------------- *)
Definition is_msg (ev : event) : bool := match ev with EvMsg _ => true | _ => false end.

Lemma s_evs_in c k ev : In ev (s_evs c k) -> ev = EvErrorLogged.
Proof.
  unfold s_evs. destruct (s_direct c); [|intros []].
  destruct (effective c k) as [| |[]]; cbn; intuition.
Qed.

Lemma filter_id {A} (f : A -> bool) l : (forall x, In x l -> f x = true) -> filter f l = l.
Proof.
  induction l as [|a l IH]; intros H; cbn; [reflexivity|].
  rewrite (H a (or_introl eq_refl)), IH; [reflexivity|]. intros x Hx. apply H. right. exact Hx.
Qed.

Lemma step_inbound c o c' e : step c o = Ok (c', e) ->
  delivered c' = delivered c ++ (match o with EvReadData d => d | _ => [] end) /\
  consumed c' = consumed c ++ (match o with Retrieve n => firstn n (inb c) | _ => [] end) /\
  inb c' = (match o with EvReadData d => inb c ++ d | Retrieve n => skipn n (inb c) | _ => inb c end) /\
  e = (match o with EvReadData d => [EvMsg (length (inb c'))] | _ => filter (fun x => negb (is_msg x)) e end).
Proof.
  intros H. step_cases H; rewrite ?app_nil_r; repeat split; try reflexivity.
  all: try (destruct (h_fin c k); reflexivity).
  all: try (destruct (writing c); reflexivity).
  all: symmetry; apply filter_id; intros x Hx; apply s_evs_in in Hx; subst x; reflexivity.
Qed.
