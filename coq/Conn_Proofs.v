(* Conn_Proofs: invariants of the connection model, for every reachable state, and the
   per-step characterisations behind Properties_C01 / C03 / C13. *)
From Coq Require Import List ZArith Lia Bool Arith NArith.
From Coq.Strings Require Import Byte.
From Muduo Require Import Conn_Model.
Import ListNotations.

Arguments Nat.min : simpl never.
Arguments N.leb : simpl never.
Arguments N.ltb : simpl never.
Arguments N.of_nat : simpl never.

Ltac projs :=
  cbn [st outb inb writing rd_chan rd_flag registered hwm has_wc has_hwm wire fin pending chk
       delayed accepted consumed delivered enq ran ups downs fst snd set_pending set_st set_reading] in *.

Ltac triv :=
  try solve [ auto
            | discriminate
            | intros; discriminate
            | intros [?|?]; discriminate
            | intros [?|?]; congruence
            | intros; split; [discriminate|]; intros [?|?]; discriminate
            | intros ?; exfalso; auto
            | intros; congruence ].

(* ---- small facts ------------------------------------------------------------------- *)
Lemma cstate_eqb_true a b : cstate_eqb a b = true <-> a = b.
Proof. destruct a, b; cbn; split; intros; congruence. Qed.

Lemma cstate_eqb_false a b : cstate_eqb a b = false <-> a <> b.
Proof. destruct a, b; cbn; split; intros; congruence. Qed.

Definition sends_of (l : list functor) : list (nat * list byte) :=
  flat_map (fun f => match f with FSend t d => [(t, d)] | _ => [] end) l.

Definition destroys (l : list functor) : nat :=
  length (filter is_destroy l).

Lemma sends_of_app l1 l2 : sends_of (l1 ++ l2) = sends_of l1 ++ sends_of l2.
Proof. unfold sends_of. apply flat_map_app. Qed.

Lemma destroys_app l1 l2 : destroys (l1 ++ l2) = destroys l1 + destroys l2.
Proof. unfold destroys. rewrite filter_app, app_length. reflexivity. Qed.

Lemma existsb_destroy l : existsb is_destroy l = false -> destroys l = 0.
Proof.
  unfold destroys. induction l as [|f l IH]; cbn; [reflexivity|].
  destruct (is_destroy f); cbn; [discriminate|exact IH].
Qed.

Definition up (c : conn) : Prop := st c = Connected \/ st c = Disconnecting.

Lemma closable_up c : closable c = true <-> up c.
Proof. unfold closable, up. destruct (st c); cbn; intuition discriminate. Qed.

Lemma closable_false c : closable c = false <-> st c = Connecting \/ st c = Disconnected.
Proof. unfold closable. destruct (st c); cbn; intuition discriminate. Qed.

Lemma up_cases c : up c -> cstate_eqb (st c) Disconnected = false /\ cstate_eqb (st c) Connecting = false.
Proof. intros [H|H]; rewrite H; split; reflexivity. Qed.

Lemma not_up c : ~ up c <-> st c = Connecting \/ st c = Disconnected.
Proof. unfold up. destruct (st c); intuition discriminate. Qed.

Lemma up_of c : st c <> Connecting -> st c <> Disconnected -> up c.
Proof. unfold up. destruct (st c); intuition congruence. Qed.

Lemma length_zero_iff {A} (l : list A) : (length l =? 0) = true <-> l = [].
Proof. destruct l; cbn; split; intros H; try reflexivity; discriminate. Qed.

Lemma length_zero_false {A} (l : list A) : (length l =? 0) = false <-> l <> [].
Proof. destruct l; cbn; split; intros H; try discriminate; try congruence. Qed.

Lemma app_one_neq {A} (l : list A) x : l ++ [x] <> l.
Proof. intros H. apply (f_equal (@length A)) in H. rewrite app_length in H. cbn in H. lia. Qed.

(* ---- the invariant ----------------------------------------------------------------- *)
Record Inv (c : conn) : Prop := {
  i_stream : wire c ++ outb c = accepted c;
  i_interest : up c -> writing c = negb (length (outb c) =? 0);
  i_idle : ~ up c -> writing c = false /\ rd_chan c = false;
  i_fresh : st c = Connecting ->
            outb c = [] /\ pending c = [] /\ registered c = false /\ fin c = false /\ wire c = [];
  i_inbound : consumed c ++ inb c = delivered c;
  i_fifo : ran c ++ sends_of (pending c) = enq c;
  i_fin : fin c = true -> st c <> Connected /\ (up c -> outb c = []);
  i_updown : match st c with
             | Connecting => ups c = 0 /\ downs c = 0
             | Connected | Disconnecting => ups c = 1 /\ downs c = 0
             | Disconnected => ups c = 1 /\ downs c = 1
             end;
  i_reg : up c -> registered c = true;
  i_destroy : match destroys (pending c) with
              | 0 => True
              | 1 => st c = Disconnected /\ registered c = true
              | _ => False
              end;
  i_shut : In FShutdown (pending c) -> st c <> Connected
}.

Lemma init_inv mark wc hw : Inv (init mark wc hw).
Proof.
  constructor; cbn; try reflexivity; try tauto; try (intros [H|H]; discriminate);
    try (intros _; repeat split; reflexivity); try discriminate.
Qed.

Lemma inv_up_nodestroy c : Inv c -> up c -> destroys (pending c) = 0.
Proof.
  intros HI Hup. pose proof (i_destroy c HI) as H.
  destruct (destroys (pending c)) as [|[|n]]; [reflexivity| |contradiction].
  destruct H as [H _]. destruct Hup as [Hu|Hu]; congruence.
Qed.

Lemma inv_up_writing_false c : Inv c -> up c -> outb c = [] -> writing c = false.
Proof. intros HI Hup Ho. rewrite (i_interest c HI Hup), Ho. reflexivity. Qed.

Lemma inv_writing_up c : Inv c -> writing c = true -> up c.
Proof.
  intros HI Hw. destruct (st c) eqn:E; unfold up; auto;
    (destruct (i_idle c HI) as [H _]; [rewrite not_up; auto | congruence]).
Qed.

Lemma inv_rd_up c : Inv c -> rd_chan c = true -> up c.
Proof.
  intros HI Hw. destruct (st c) eqn:E; unfold up; auto;
    (destruct (i_idle c HI) as [_ H]; [rewrite not_up; auto | congruence]).
Qed.

Lemma inv_writing_outb c : Inv c -> writing c = true -> outb c <> [].
Proof.
  intros HI Hw Ho. pose proof (inv_up_writing_false c HI (inv_writing_up c HI Hw) Ho). congruence.
Qed.

Lemma inv_pending_not_connecting c : Inv c -> pending c <> [] -> st c <> Connecting.
Proof. intros HI Hp Hc. destruct (i_fresh c HI Hc) as (_ & H & _). contradiction. Qed.

(* ---- normal forms of the sub-functions --------------------------------------------- *)
Definition s_direct (c : conn) : bool := negb (writing c) && (length (outb c) =? 0).
Definition s_nwrote (c : conn) (d : list byte) (k : kres) : nat :=
  if s_direct c then
    match effective c k with
    | Err _ => 0
    | k' => match taken k' (length d) with Some n => n | None => 0 end
    end
  else 0.
Definition s_fatal (c : conn) (k : kres) : bool :=
  if s_direct c then match effective c k with Err e => is_fatal e | _ => false end else false.
Definition s_ok (c : conn) (k : kres) : bool :=
  if s_direct c then match effective c k with Err _ => false | _ => true end else false.
Definition s_rem (c : conn) (d : list byte) (k : kres) : nat := length d - s_nwrote c d k.
Definition s_queue (c : conn) (d : list byte) (k : kres) : bool :=
  negb (s_fatal c k) && (0 <? s_rem c d k).
Definition s_wc (c : conn) (d : list byte) (k : kres) : bool :=
  s_ok c k && (s_rem c d k =? 0) && has_wc c.
Definition s_hw (c : conn) (d : list byte) (k : kres) : bool :=
  s_queue c d k && (hwm c <=? N.of_nat (length (outb c) + s_rem c d k))%N
  && (N.of_nat (length (outb c)) <? hwm c)%N && has_hwm c.
Definition s_q (c : conn) (d : list byte) (k : kres) : list functor :=
  (if s_wc c d k then [FWriteComplete] else []) ++
  (if s_hw c d k then [FHighWater (length (outb c) + s_rem c d k)] else []).
Definition s_evs (c : conn) (k : kres) : list event :=
  if s_direct c then match effective c k with Err EAGAIN => [] | Err _ => [EvErrorLogged] | _ => [] end
  else [].

Lemma sendInLoop_nf c d k : cstate_eqb (st c) Disconnected = false ->
  sendInLoop c d k =
  (mkConn (st c)
          (if s_queue c d k then outb c ++ skipn (s_nwrote c d k) d else outb c)
          (inb c)
          (if s_queue c d k then true else writing c)
          (rd_chan c) (rd_flag c) (registered c) (hwm c) (has_wc c) (has_hwm c)
          (wire c ++ firstn (s_nwrote c d k) d) (fin c) (pending c ++ s_q c d k) (chk c) (delayed c)
          (if s_fatal c k then accepted c else accepted c ++ d)
          (consumed c) (delivered c) (enq c) (ran c) (ups c) (downs c), s_evs c k).
Proof.
  intros H. unfold sendInLoop, s_q, s_hw, s_wc, s_queue, s_rem, s_nwrote, s_fatal, s_ok, s_evs, s_direct.
  rewrite H.
  destruct (negb (writing c) && (length (outb c) =? 0)); [destruct (effective c k)|];
    match goal with
    | |- context [if ?a && ?b && has_wc c then _ else _] => destruct (a && b && has_wc c)
    end;
    match goal with
    | |- context [if ?a && ?b && ?cc && has_hwm c then _ else _] => destruct (a && b && cc && has_hwm c)
    end; cbn [app]; rewrite ?app_nil_r, <- ?app_assoc; reflexivity.
Qed.

Lemma sendInLoop_down c d k : cstate_eqb (st c) Disconnected = true ->
  sendInLoop c d k = (c, [EvGiveUp]).
Proof. intros H. unfold sendInLoop. rewrite H. reflexivity. Qed.

Definition h_n (c : conn) (k : kres) : nat :=
  match taken (effective c k) (length (outb c)) with Some n => n | None => 0 end.
Definition h_act (c : conn) (k : kres) : bool := writing c && (0 <? h_n c k).
Definition h_empty (c : conn) (k : kres) : bool := length (skipn (h_n c k) (outb c)) =? 0.
Definition h_fin (c : conn) (k : kres) : bool := h_empty c k && cstate_eqb (st c) Disconnecting.

Lemma handleWrite_nf c k : handleWrite c k =
  if h_act c k then
    (mkConn (st c) (skipn (h_n c k) (outb c)) (inb c) (negb (h_empty c k))
            (rd_chan c) (rd_flag c) (registered c) (hwm c) (has_wc c) (has_hwm c)
            (wire c ++ firstn (h_n c k) (outb c)) (if h_fin c k then true else fin c)
            (pending c ++ (if h_empty c k && has_wc c then [FWriteComplete] else []))
            (chk c) (delayed c) (accepted c) (consumed c) (delivered c) (enq c) (ran c)
            (ups c) (downs c), if h_fin c k then [EvFin] else [])
  else (c, if writing c then [EvErrorLogged] else []).
Proof.
  unfold handleWrite, h_act, h_fin, h_empty, h_n.
  destruct (writing c); cbn [andb]; [|reflexivity].
  destruct (taken (effective c k) (length (outb c))) as [n'|]; [|reflexivity].
  destruct (0 <? n') eqn:En; [|reflexivity].
  destruct (length (skipn n' (outb c)) =? 0) eqn:E; cbn [andb negb].
  - destruct (cstate_eqb (st c) Disconnecting); unfold shutdownInLoop; cbn [writing];
      destruct (has_wc c); rewrite ?app_nil_r; reflexivity.
  - rewrite app_nil_r. reflexivity.
Qed.

Lemma connectDestroyed_nf c : connectDestroyed c =
  if negb (registered c) then Fault else
  if closable c then
    Ok (mkConn Disconnected (outb c) (inb c) false false (rd_flag c) false (hwm c) (has_wc c)
               (has_hwm c) (wire c) (fin c) (pending c) (chk c) (delayed c) (accepted c) (consumed c)
               (delivered c) (enq c) (ran c) (ups c) (S (downs c)), [EvDown])
  else if writing c || rd_chan c then Fault
  else Ok (mkConn (st c) (outb c) (inb c) (writing c) (rd_chan c) (rd_flag c) false (hwm c) (has_wc c)
                  (has_hwm c) (wire c) (fin c) (pending c) (chk c) (delayed c) (accepted c)
                  (consumed c) (delivered c) (enq c) (ran c) (ups c) (downs c), []).
Proof.
  unfold connectDestroyed. destruct (negb (registered c)); [reflexivity|].
  destruct (closable c); cbn; reflexivity.
Qed.

Definition add_ran (c : conn) (t : nat) (d : list byte) : conn :=
  mkConn (st c) (outb c) (inb c) (writing c) (rd_chan c) (rd_flag c) (registered c) (hwm c)
         (has_wc c) (has_hwm c) (wire c) (fin c) (pending c) (chk c) (delayed c)
         (accepted c) (consumed c) (delivered c) (enq c) (ran c ++ [(t, d)]) (ups c) (downs c).

Lemma run_functor_send c t d k :
  run_functor c (FSend t d) k = Ok (add_ran (fst (sendInLoop c d k)) t d, snd (sendInLoop c d k)).
Proof. unfold run_functor. destruct (sendInLoop c d k). reflexivity. Qed.

(* ---- facts about the quantities of sendInLoop -------------------------------------- *)
Lemma s_direct_true c : s_direct c = true -> writing c = false /\ outb c = [].
Proof.
  unfold s_direct. intros H. apply andb_prop in H as [H1 H2].
  apply negb_true_iff in H1. apply length_zero_iff in H2. auto.
Qed.

Lemma s_nwrote_le c d k : s_nwrote c d k <= length d.
Proof.
  unfold s_nwrote. destruct (s_direct c); [|lia].
  destruct (effective c k) as [n| |e]; cbn [taken]; lia.
Qed.

Lemma s_fatal_true c d k : s_fatal c k = true ->
  s_nwrote c d k = 0 /\ s_queue c d k = false /\ s_ok c k = false /\ s_direct c = true.
Proof.
  unfold s_queue, s_nwrote, s_fatal, s_ok. destruct (s_direct c); [|discriminate].
  destruct (effective c k); try discriminate. intros ->. auto.
Qed.

Lemma s_indirect c d k : s_direct c = false ->
  s_nwrote c d k = 0 /\ s_fatal c k = false /\ s_ok c k = false.
Proof. unfold s_nwrote, s_fatal, s_ok. intros ->. auto. Qed.

Lemma s_outb_or c d k : outb c = [] \/ s_nwrote c d k = 0.
Proof.
  destruct (s_direct c) eqn:E.
  - left. apply s_direct_true, E.
  - right. apply s_indirect, E.
Qed.

Lemma s_noqueue_skipn c d k : s_fatal c k = false -> s_queue c d k = false ->
  skipn (s_nwrote c d k) d = [].
Proof.
  unfold s_queue, s_rem. intros -> H. cbn [negb andb] in H. apply Nat.ltb_ge in H.
  apply skipn_all2. lia.
Qed.

Lemma s_queue_skipn c d k : s_queue c d k = true -> skipn (s_nwrote c d k) d <> [].
Proof.
  unfold s_queue, s_rem. intros H. apply andb_prop in H as [_ H]. apply Nat.ltb_lt in H.
  intros E. apply (f_equal (@length byte)) in E. rewrite skipn_length in E. cbn in E. lia.
Qed.

Lemma s_queue_len c d k : s_queue c d k = true ->
  length (outb c ++ skipn (s_nwrote c d k) d) = length (outb c) + s_rem c d k /\ 0 < s_rem c d k.
Proof.
  unfold s_queue. intros H. apply andb_prop in H as [_ H]. apply Nat.ltb_lt in H.
  rewrite app_length, skipn_length. unfold s_rem in *. lia.
Qed.

Lemma s_outb_nf c d k : s_fatal c k = false ->
  (if s_queue c d k then outb c ++ skipn (s_nwrote c d k) d else outb c)
  = outb c ++ skipn (s_nwrote c d k) d.
Proof.
  intros Hf. destruct (s_queue c d k) eqn:Eq; [reflexivity|].
  rewrite (s_noqueue_skipn c d k Hf Eq), app_nil_r. reflexivity.
Qed.

Lemma s_fin c d k : fin c = true -> s_nwrote c d k = 0 /\ (s_direct c = true -> s_fatal c k = true).
Proof.
  unfold s_nwrote, s_fatal, effective. intros ->. destruct (s_direct c); auto.
Qed.

Lemma s_fin_inv c d k : Inv c -> up c -> fin c = true ->
  s_fatal c k = true /\ s_nwrote c d k = 0 /\ s_queue c d k = false /\ s_ok c k = false.
Proof.
  intros HI Hup Hf. destruct (i_fin c HI Hf) as [_ Ho]. specialize (Ho Hup).
  assert (Hd : s_direct c = true).
  { unfold s_direct. rewrite (inv_up_writing_false c HI Hup Ho), Ho. reflexivity. }
  destruct (s_fin c d k Hf) as [_ H]. specialize (H Hd).
  destruct (s_fatal_true c d k H) as (? & ? & ? & ?). auto.
Qed.

Lemma stream_step (w o a d : list byte) nw : w ++ o = a -> (o = [] \/ nw = 0) ->
  (w ++ firstn nw d) ++ (o ++ skipn nw d) = a ++ d.
Proof.
  intros <- [-> | ->]; cbn [firstn skipn app]; rewrite ?app_nil_r.
  - rewrite <- app_assoc, firstn_skipn. reflexivity.
  - rewrite app_assoc. reflexivity.
Qed.

Lemma s_q_sends c d k : sends_of (s_q c d k) = [].
Proof. unfold s_q. destruct (s_wc c d k), (s_hw c d k); reflexivity. Qed.

Lemma s_q_destroys c d k : destroys (s_q c d k) = 0.
Proof. unfold s_q. destruct (s_wc c d k), (s_hw c d k); reflexivity. Qed.

Lemma s_q_in c d k f : In f (s_q c d k) -> f = FWriteComplete \/ exists n, f = FHighWater n.
Proof.
  unfold s_q. destruct (s_wc c d k), (s_hw c d k); cbn; intros H;
    repeat (destruct H as [H|H]; [subst; eauto|]); contradiction.
Qed.

(* ---- the invariant is preserved by every sub-function ------------------------------- *)
Lemma sendInLoop_inv c d k : Inv c -> up c -> Inv (fst (sendInLoop c d k)).
Proof.
  intros HI Hup. destruct (up_cases c Hup) as [Hd Hc].
  rewrite (sendInLoop_nf c d k Hd).
  pose proof (s_fin_inv c d k HI Hup) as Hfi.
  destruct HI as [Hs Hi Hid Hfr Hin Hff Hfin Hud Hreg Hde Hsh].
  constructor; unfold up in *; projs.
  - destruct (s_fatal c k) eqn:Ef.
    + destruct (s_fatal_true c d k Ef) as (-> & -> & _). cbn [firstn]. rewrite app_nil_r. exact Hs.
    + rewrite (s_outb_nf c d k Ef). apply stream_step; [exact Hs|apply s_outb_or].
  - intros _. destruct (s_queue c d k) eqn:Eq; [|auto].
    pose proof (s_queue_skipn c d k Eq) as Hn.
    destruct (outb c ++ skipn (s_nwrote c d k) d) eqn:E; [|reflexivity].
    apply app_eq_nil in E as [_ E]. contradiction.
  - intros Hn. contradiction.
  - intros Hcg. destruct Hup; congruence.
  - exact Hin.
  - rewrite sends_of_app, s_q_sends, app_nil_r. exact Hff.
  - intros Hf. destruct (Hfi Hf) as (_ & _ & -> & _). auto.
  - exact Hud.
  - exact Hreg.
  - rewrite destroys_app, s_q_destroys, Nat.add_0_r. exact Hde.
  - intros H. apply in_app_or in H as [H|H]; [auto|].
    apply s_q_in in H as [H|[n H]]; discriminate.
Qed.

Lemma sendInLoop_inv_any c d k : Inv c -> st c <> Connecting -> Inv (fst (sendInLoop c d k)).
Proof.
  intros HI Hc. destruct (cstate_eqb (st c) Disconnected) eqn:E.
  - rewrite sendInLoop_down by exact E. exact HI.
  - apply sendInLoop_inv; [exact HI|]. apply up_of; [exact Hc|]. apply cstate_eqb_false, E.
Qed.

Lemma h_n_le c k : h_n c k <= length (outb c).
Proof.
  unfold h_n. destruct (effective c k) as [n| |e]; cbn [taken]; lia.
Qed.

Lemma h_fin_noact c k : fin c = true -> h_act c k = false.
Proof.
  unfold h_act, h_n, effective. intros ->. cbn. apply andb_false_r.
Qed.

Lemma handleWrite_inv c k : Inv c -> Inv (fst (handleWrite c k)).
Proof.
  intros HI. rewrite handleWrite_nf. destruct (h_act c k) eqn:Ea; [|exact HI].
  assert (Hw : writing c = true) by (unfold h_act in Ea; apply andb_prop in Ea; tauto).
  pose proof (inv_writing_up c HI Hw) as Hup.
  assert (Hf : fin c = false).
  { destruct (fin c) eqn:Ef; [|reflexivity]. rewrite (h_fin_noact c k Ef) in Ea. discriminate. }
  destruct HI as [Hs Hi Hid Hfr Hin Hff Hfin Hud Hreg Hde Hsh].
  assert (Hq : forall b : bool, sends_of (if b then [FWriteComplete] else []) = [] /\
                         destroys (if b then [FWriteComplete] else []) = 0 /\
                         ~ In FShutdown (if b then [FWriteComplete] else [])).
  { intros [|]; cbn; repeat split; try tauto. intros [H|H]; [discriminate|contradiction]. }
  constructor; unfold up in *; projs.
  - rewrite <- app_assoc, firstn_skipn. exact Hs.
  - intros _. reflexivity.
  - intros Hn. contradiction.
  - intros Hcg. destruct Hup; congruence.
  - exact Hin.
  - rewrite sends_of_app. destruct (Hq (h_empty c k && has_wc c)) as (-> & _). rewrite app_nil_r. exact Hff.
  - rewrite Hf. intros H. destruct (h_fin c k) eqn:E; [|discriminate].
    unfold h_fin in E. apply andb_prop in E as [E1 E2]. apply cstate_eqb_true in E2.
    split; [congruence|]. intros _. apply length_zero_iff. exact E1.
  - exact Hud.
  - exact Hreg.
  - rewrite destroys_app. destruct (Hq (h_empty c k && has_wc c)) as (_ & -> & _).
    rewrite Nat.add_0_r. exact Hde.
  - intros H. apply in_app_or in H as [H|H]; [auto|].
    destruct (Hq (h_empty c k && has_wc c)) as (_ & _ & Hn). contradiction.
Qed.

Lemma set_st_disc_inv c : Inv c -> up c -> Inv (set_st c Disconnecting).
Proof.
  intros HI Hup.
  pose proof (inv_up_nodestroy c HI Hup) as Hnd.
  destruct HI as [Hs Hi Hid Hfr Hin Hff Hfin Hud Hreg Hde Hsh].
  constructor; unfold up in *; projs; triv.
  - intros Hf. destruct (Hfin Hf) as [_ H]. split; [discriminate|]. auto.
  - destruct Hup as [E|E]; rewrite E in Hud; exact Hud.
  - rewrite Hnd. exact I.
Qed.

Lemma shutdownInLoop_inv c : Inv c -> st c <> Connected -> st c <> Connecting ->
  Inv (fst (shutdownInLoop c)).
Proof.
  intros HI Hc Hcg. unfold shutdownInLoop. destruct (writing c) eqn:Ew; [exact HI|].
  destruct HI as [Hs Hi Hid Hfr Hin Hff Hfin Hud Hreg Hde Hsh].
  constructor; unfold up in *; projs; triv.
  - rewrite <- Ew. exact Hi.
  - intros Hn. destruct (Hid Hn) as [_ H]. auto.
  - intros _. split; [exact Hc|]. intros Hup. specialize (Hi Hup). rewrite Ew in Hi.
    symmetry in Hi. apply negb_false_iff in Hi. apply length_zero_iff. exact Hi.
Qed.

Lemma handleClose_inv c : Inv c -> up c -> Inv (fst (handleClose c)).
Proof.
  intros HI Hup.
  pose proof (inv_up_nodestroy c HI Hup) as Hnd.
  destruct HI as [Hs Hi Hid Hfr Hin Hff Hfin Hud Hreg Hde Hsh].
  unfold handleClose. constructor; unfold up in *; projs; triv.
  - rewrite sends_of_app. cbn. rewrite app_nil_r. exact Hff.
  - destruct Hup as [E|E]; rewrite E in Hud; destruct Hud as [-> ->]; auto.
  - rewrite destroys_app, Hnd. cbn. auto.
Qed.

Lemma forceCloseInLoop_inv c : Inv c -> Inv (fst (forceCloseInLoop c)).
Proof.
  intros HI. unfold forceCloseInLoop. destruct (closable c) eqn:E; [|exact HI].
  apply handleClose_inv; [exact HI|]. apply closable_up, E.
Qed.

Lemma forceClose_inv c : Inv c -> Inv (forceClose c).
Proof.
  intros HI. unfold forceClose. destruct (closable c) eqn:E; [|exact HI].
  apply closable_up in E.
  pose proof (set_st_disc_inv c HI E) as H1.
  destruct H1 as [Hs Hi Hid Hfr Hin Hff Hfin Hud Hreg Hde Hsh].
  constructor; unfold up in *; projs; triv.
  - rewrite sends_of_app. cbn. rewrite app_nil_r. exact Hff.
  - rewrite destroys_app. cbn. rewrite Nat.add_0_r. exact Hde.
Qed.

Lemma connectDestroyed_inv c : Inv c -> registered c = true -> destroys (pending c) = 0 ->
  exists c' e, connectDestroyed c = Ok (c', e) /\ Inv c'.
Proof.
  intros HI Hr Hnd. rewrite connectDestroyed_nf, Hr. cbn [negb].
  destruct (closable c) eqn:E.
  - apply closable_up in E. eexists _, _. split; [reflexivity|].
    destruct HI as [Hs Hi Hid Hfr Hin Hff Hfin Hud Hreg Hde Hsh].
    constructor; unfold up in *; projs; triv.
    + destruct E as [E|E]; rewrite E in Hud; destruct Hud as [-> ->]; auto.
    + rewrite Hnd. exact I.
  - apply closable_false in E.
    destruct (i_idle c HI) as [Hw Hrd]; [apply not_up, E|].
    rewrite Hw, Hrd. cbn [orb]. eexists _, _. split; [reflexivity|].
    assert (Ed : st c = Disconnected).
    { destruct E as [E|E]; [|exact E]. destruct (i_fresh c HI E) as (_ & _ & H & _). congruence. }
    destruct HI as [Hs Hi Hid Hfr Hin Hff Hfin Hud Hreg Hde Hsh].
    constructor; unfold up in *; projs; triv.
    rewrite Hnd. exact I.
Qed.

Lemma startReadInLoop_inv c : Inv c -> st c <> Connecting -> Inv (startReadInLoop c).
Proof.
  intros HI Hc. unfold startReadInLoop.
  destruct (negb (cstate_eqb (st c) Disconnected) && (negb (rd_flag c) || negb (rd_chan c))) eqn:E;
    [|exact HI].
  apply andb_prop in E as [E _]. apply negb_true_iff, cstate_eqb_false in E.
  pose proof (up_of c Hc E) as Hup. pose proof (inv_up_nodestroy c HI Hup) as Hnd.
  destruct HI as [Hs Hi Hid Hfr Hin Hff Hfin Hud Hreg Hde Hsh].
  constructor; unfold up in *; projs; triv.
  rewrite Hnd. exact I.
Qed.

Lemma stopReadInLoop_inv c : Inv c -> st c <> Connecting -> Inv (stopReadInLoop c).
Proof.
  intros HI Hc. unfold stopReadInLoop.
  destruct (negb (cstate_eqb (st c) Disconnected) && (rd_flag c || rd_chan c)) eqn:E;
    [|exact HI].
  apply andb_prop in E as [E _]. apply negb_true_iff, cstate_eqb_false in E.
  pose proof (up_of c Hc E) as Hup. pose proof (inv_up_nodestroy c HI Hup) as Hnd.
  destruct HI as [Hs Hi Hid Hfr Hin Hff Hfin Hud Hreg Hde Hsh].
  constructor; unfold up in *; projs; triv.
  rewrite Hnd. exact I.
Qed.

Definition set_aux (c : conn) (ch : list (nat * bool)) (n : nat) : conn :=
  mkConn (st c) (outb c) (inb c) (writing c) (rd_chan c) (rd_flag c) (registered c) (hwm c) (has_wc c)
         (has_hwm c) (wire c) (fin c) (pending c) ch n (accepted c) (consumed c) (delivered c)
         (enq c) (ran c) (ups c) (downs c).

Lemma set_aux_inv c ch n : Inv c -> Inv (set_aux c ch n).
Proof.
  intros [Hs Hi Hid Hfr Hin Hff Hfin Hud Hreg Hde Hsh].
  constructor; unfold up in *; projs; triv.
Qed.

Lemma set_pending_inv c p : Inv c -> st c <> Connecting ->
  sends_of p = sends_of (pending c) ->
  (destroys p = destroys (pending c) \/ destroys p = 0) ->
  (In FShutdown p -> st c <> Connected) ->
  Inv (set_pending c p).
Proof.
  intros [Hs Hi Hid Hfr Hin Hff Hfin Hud Hreg Hde Hsh] Hc Hsd Hds Hin'.
  constructor; unfold up in *; projs; triv.
  destruct Hds as [-> | ->]; [exact Hde|exact I].
Qed.

Lemma sendInLoop_add_ran c t d d' k :
  sendInLoop (add_ran c t d') d k = (add_ran (fst (sendInLoop c d k)) t d', snd (sendInLoop c d k)).
Proof.
  destruct (cstate_eqb (st c) Disconnected) eqn:E.
  - rewrite (sendInLoop_down c), (sendInLoop_down (add_ran c t d')) by exact E. reflexivity.
  - rewrite (sendInLoop_nf c), (sendInLoop_nf (add_ran c t d')) by exact E. reflexivity.
Qed.

Lemma ok_inv (x : conn * list event) : Inv (fst x) ->
  match Ok x with Ok (c', _) => Inv c' | Rejected => True | Fault => False end.
Proof. destruct x. auto. Qed.

Lemma step_ok_inv c o : Inv c ->
  match step c o with Ok (c', _) => Inv c' | Rejected => True | Fault => False end.
Proof.
  intros HI. unfold step.
  destruct (user_op o && cstate_eqb (st c) Connecting) eqn:Eu; [exact I|].
  destruct o; cbn [user_op andb] in Eu; try (apply cstate_eqb_false in Eu); unfold ok.
  - (* Establish *)
    destruct (cstate_eqb (st c) Connecting) eqn:E; [|exact I].
    apply cstate_eqb_true in E.
    destruct (i_idle c HI) as [Hw _]; [apply not_up; auto|].
    destruct (i_fresh c HI E) as (Ho & Hp & Hr & Hf & Hwi).
    destruct HI as [Hs Hi Hid Hfr Hin Hff Hfin Hud Hreg Hde Hsh].
    rewrite E in Hud. destruct Hud as [Hu Hdn].
    constructor; unfold up in *; projs; triv.
    + intros _. rewrite Hw, Ho. reflexivity.
    + rewrite Hp. exact I.
    + rewrite Hp. intros [].
  - (* Send *)
    destruct (cstate_eqb (st c) Connected) eqn:E; [|exact HI].
    apply ok_inv. apply sendInLoop_inv; [exact HI|]. left. apply cstate_eqb_true, E.
  - (* FSendCheck *)
    apply (set_aux_inv c _ (delayed c) HI).
  - (* FSendEnq *)
    destruct (lookup t (chk c)); [|exact HI].
    apply (set_aux_inv (mkConn (st c) (outb c) (inb c) (writing c) (rd_chan c) (rd_flag c) (registered c) (hwm c)
       (has_wc c) (has_hwm c) (wire c) (fin c) (pending c ++ [FSend t d]) (chk c) (delayed c)
       (accepted c) (consumed c) (delivered c) (enq c ++ [(t, d)]) (ran c) (ups c) (downs c))
       ((t, false) :: chk c) (delayed c)).
    destruct HI as [Hs Hi Hid Hfr Hin Hff Hfin Hud Hreg Hde Hsh].
    constructor; unfold up in *; projs; triv.
    + rewrite sends_of_app. cbn. rewrite app_assoc, Hff. reflexivity.
    + rewrite destroys_app. cbn. rewrite Nat.add_0_r. exact Hde.
    + intros H. apply in_app_or in H as [H|[H|[]]]; [auto|discriminate].
  - (* RunOne *)
    destruct (pending c) as [|f rest] eqn:Ep; [exact HI|].
    assert (Hc : st c <> Connecting) by (apply inv_pending_not_connecting; [exact HI|congruence]).
    pose proof (i_destroy c HI) as Hde. pose proof (i_shut c HI) as Hsh. pose proof (i_fifo c HI) as Hff.
    rewrite Ep in Hde, Hsh, Hff.
    destruct f; [rewrite run_functor_send|unfold run_functor, ok ..].
    + (* FSend *)
      cbn [fst].
      pose proof (sendInLoop_add_ran (set_pending c rest) t d d k) as Hcomm.
      apply (f_equal fst) in Hcomm. cbn [fst] in Hcomm. rewrite <- Hcomm.
      apply sendInLoop_inv_any; [|exact Hc].
      destruct HI as [Hs Hi Hid Hfr Hin Hff' Hfin Hud Hreg Hde' Hsh'].
      constructor; unfold up in *; unfold add_ran; projs; triv.
      * rewrite <- Hff. cbn. rewrite <- app_assoc. reflexivity.
      * intros H. apply Hsh. right. exact H.
    + (* FShutdown *)
      apply ok_inv. apply shutdownInLoop_inv; [|apply Hsh; left; reflexivity|exact Hc].
      apply set_pending_inv; [exact HI|exact Hc|rewrite Ep; reflexivity|left; rewrite Ep; reflexivity|].
      intros _. apply Hsh. left. reflexivity.
    + (* FForceClose *)
      apply ok_inv. apply forceCloseInLoop_inv.
      apply set_pending_inv; [exact HI|exact Hc|rewrite Ep; reflexivity|left; rewrite Ep; reflexivity|].
      intros H. apply Hsh. right. exact H.
    + apply startReadInLoop_inv; [|exact Hc].
      apply set_pending_inv; [exact HI|exact Hc|rewrite Ep; reflexivity|left; rewrite Ep; reflexivity|].
      intros H. apply Hsh. right. exact H.
    + apply stopReadInLoop_inv; [|exact Hc].
      apply set_pending_inv; [exact HI|exact Hc|rewrite Ep; reflexivity|left; rewrite Ep; reflexivity|].
      intros H. apply Hsh. right. exact H.
    + apply set_pending_inv; [exact HI|exact Hc|rewrite Ep; reflexivity|left; rewrite Ep; reflexivity|].
      intros H. apply Hsh. right. exact H.
    + apply set_pending_inv; [exact HI|exact Hc|rewrite Ep; reflexivity|left; rewrite Ep; reflexivity|].
      intros H. apply Hsh. right. exact H.
    + (* FDestroy *)
      unfold destroys in Hde. cbn [filter is_destroy length] in Hde. fold (destroys rest) in Hde.
      destruct (destroys rest) eqn:Er; [|contradiction]. destruct Hde as [Hd Hr].
      destruct (connectDestroyed_inv (set_pending c rest)) as (c' & e & -> & HI').
      * apply set_pending_inv; [exact HI|exact Hc|rewrite Ep; reflexivity|right; exact Er|].
        intros H. apply Hsh. right. exact H.
      * exact Hr.
      * exact Er.
      * exact HI'.
  - (* EvWritable *)
    destruct (registered c); [|exact I]. apply ok_inv, handleWrite_inv, HI.
  - (* EvReadData *)
    destruct (rd_chan c && registered c && (0 <? length d)); [|exact I].
    destruct HI as [Hs Hi Hid Hfr Hin Hff Hfin Hud Hreg Hde Hsh].
    constructor; unfold up in *; projs; triv.
    rewrite app_assoc, Hin. reflexivity.
  - (* EvReadEOF *)
    destruct (rd_chan c && registered c) eqn:E; [|exact I].
    apply andb_prop in E as [E _]. pose proof (inv_rd_up c HI E) as Hup.
    unfold handleCloseChecked. rewrite (proj2 (closable_up c) Hup).
    apply ok_inv, handleClose_inv; assumption.
  - (* EvReadErr *)
    destruct (rd_chan c && registered c); [exact HI|exact I].
  - (* EvHup *)
    destruct ((rd_chan c || writing c) && registered c) eqn:E; [|exact I].
    apply andb_prop in E as [E _].
    assert (Hup : up c).
    { apply orb_prop in E as [E|E]; [apply inv_rd_up|apply inv_writing_up]; assumption. }
    unfold handleCloseChecked. rewrite (proj2 (closable_up c) Hup).
    apply ok_inv, handleClose_inv; assumption.
  - (* EvError *)
    destruct ((rd_chan c || writing c) && registered c); [exact HI|exact I].
  - (* Retrieve *)
    destruct (n <=? length (inb c)); [|exact I].
    destruct HI as [Hs Hi Hid Hfr Hin Hff Hfin Hud Hreg Hde Hsh].
    constructor; unfold up in *; projs; triv.
    rewrite <- app_assoc, firstn_skipn. exact Hin.
  - (* Shutdown *)
    destruct (cstate_eqb (st c) Connected) eqn:E; [|exact HI].
    apply cstate_eqb_true in E.
    apply ok_inv, shutdownInLoop_inv; [apply set_st_disc_inv; [exact HI|left; exact E]| |];
      cbn [set_st st]; discriminate.
  - (* XShutdown *)
    destruct (cstate_eqb (st c) Connected) eqn:E; [|exact HI].
    apply cstate_eqb_true in E.
    change (Inv (set_pending (set_st c Disconnecting) (pending (set_st c Disconnecting) ++ [FShutdown]))).
    apply set_pending_inv; [apply set_st_disc_inv; [exact HI|left; exact E]| | | |];
      cbn [set_st st pending]; try discriminate.
    + rewrite sends_of_app. cbn. apply app_nil_r.
    + left. rewrite destroys_app. cbn. apply Nat.add_0_r.
  - (* ForceClose *)
    apply forceClose_inv, HI.
  - (* ForceCloseDelay *)
    destruct (closable c) eqn:E; [|exact HI].
    apply (set_aux_inv (set_st c Disconnecting) (chk c) (S (delayed c))).
    apply set_st_disc_inv; [exact HI|apply closable_up, E].
  - (* DelayFire *)
    destruct (delayed c) as [|n]; [exact I|].
    apply (set_aux_inv (forceClose c) (chk (forceClose c)) n). apply forceClose_inv, HI.
  - destruct (registered c); [|exact I]. apply startReadInLoop_inv; assumption.
  - destruct (registered c); [|exact I]. apply stopReadInLoop_inv; assumption.
  - apply set_pending_inv; [exact HI|exact Eu| | |].
    + rewrite sends_of_app. cbn. apply app_nil_r.
    + left. rewrite destroys_app. cbn. apply Nat.add_0_r.
    + intros H. apply in_app_or in H as [H|[H|[]]]; [apply (i_shut c HI H)|discriminate].
  - apply set_pending_inv; [exact HI|exact Eu| | |].
    + rewrite sends_of_app. cbn. apply app_nil_r.
    + left. rewrite destroys_app. cbn. apply Nat.add_0_r.
    + intros H. apply in_app_or in H as [H|[H|[]]]; [apply (i_shut c HI H)|discriminate].
  - (* OwnerDestroy *)
    destruct (registered c && negb (existsb is_destroy (pending c))) eqn:E; [|exact I].
    apply andb_prop in E as [Er En]. apply negb_true_iff in En.
    destruct (connectDestroyed_inv c HI Er (existsb_destroy _ En)) as (c' & e & -> & HI').
    exact HI'.
Qed.

Theorem step_inv c o c' e : Inv c -> step c o = Ok (c', e) -> Inv c'.
Proof. intros HI H. pose proof (step_ok_inv c o HI) as H'. rewrite H in H'. exact H'. Qed.

Theorem no_fault c o : Inv c -> step c o <> Fault.
Proof. intros HI H. pose proof (step_ok_inv c o HI) as H'. rewrite H in H'. exact H'. Qed.

(* ---- reachability ------------------------------------------------------------------- *)
Inductive reach : conn -> Prop :=
| reach_init mark wc hw : reach (init mark wc hw)
| reach_step c o c' e : reach c -> step c o = Ok (c', e) -> reach c'.

Lemma reach_inv c : reach c -> Inv c.
Proof. induction 1 as [| c o c' e _ IH H]; [apply init_inv|exact (step_inv c o c' e IH H)]. Qed.

Lemma run_reach ops : forall c c' e, reach c -> run c ops = Ok (c', e) -> reach c'.
Proof.
  induction ops as [|o ops IH]; intros c c' e Hr H; cbn [run] in H.
  - injection H as <- _. exact Hr.
  - destruct (step c o) as [[c1 e1]| |] eqn:E1; try discriminate.
    destruct (run c1 ops) as [[c2 e2]| |] eqn:E2; try discriminate.
    injection H as <- _. eapply IH; [|exact E2]. eapply reach_step; eassumption.
Qed.

Lemma run_inv ops : forall c c' e, Inv c -> run c ops = Ok (c', e) -> Inv c'.
Proof.
  induction ops as [|o ops IH]; intros c c' e Hr H; cbn [run] in H.
  - injection H as <- _. exact Hr.
  - destruct (step c o) as [[c1 e1]| |] eqn:E1; try discriminate.
    destruct (run c1 ops) as [[c2 e2]| |] eqn:E2; try discriminate.
    injection H as <- _. eapply IH; [|exact E2]. eapply step_inv; eassumption.
Qed.

Lemma run_no_fault ops : forall c, Inv c -> run c ops <> Fault.
Proof.
  induction ops as [|o ops IH]; intros c HI H; cbn [run] in H; [discriminate|].
  destruct (step c o) as [[c1 e1]| |] eqn:E1; try discriminate.
  - destruct (run c1 ops) as [[c2 e2]| |] eqn:E2; try discriminate.
    apply (IH c1); [eapply step_inv; eassumption|exact E2].
  - exact (no_fault c o HI E1).
Qed.

(* [run] as a relation, for inductions over a whole trace *)
Lemma run_cons c o ops c' e : run c (o :: ops) = Ok (c', e) ->
  exists c1 e1 e2, step c o = Ok (c1, e1) /\ run c1 ops = Ok (c', e2) /\ e = e1 ++ e2.
Proof.
  cbn [run]. destruct (step c o) as [[c1 e1]| |] eqn:E1; try discriminate.
  destruct (run c1 ops) as [[c2 e2]| |] eqn:E2; try discriminate.
  intros H. injection H as <- <-. eauto 7.
Qed.

(* ---- unconditional normal forms, and the case analysis of [step] -------------------- *)
(* result of a sendInLoop that runs on a connection that is not Disconnected; [p] is the
   functor queue it starts from *)
Definition send_res (c : conn) (d : list byte) (k : kres) (p : list functor) : conn :=
  mkConn (st c)
         (if s_queue c d k then outb c ++ skipn (s_nwrote c d k) d else outb c)
         (inb c)
         (if s_queue c d k then true else writing c)
         (rd_chan c) (rd_flag c) (registered c) (hwm c) (has_wc c) (has_hwm c)
         (wire c ++ firstn (s_nwrote c d k) d) (fin c) (p ++ s_q c d k) (chk c) (delayed c)
         (if s_fatal c k then accepted c else accepted c ++ d)
         (consumed c) (delivered c) (enq c) (ran c) (ups c) (downs c).

Lemma sendInLoop_nf' c d k : sendInLoop c d k =
  if cstate_eqb (st c) Disconnected then (c, [EvGiveUp]) else (send_res c d k (pending c), s_evs c k).
Proof.
  destruct (cstate_eqb (st c) Disconnected) eqn:E.
  - apply sendInLoop_down, E.
  - apply sendInLoop_nf, E.
Qed.

Lemma runone_send_nf c rest t d k : run_functor (set_pending c rest) (FSend t d) k =
  if cstate_eqb (st c) Disconnected then Ok (add_ran (set_pending c rest) t d, [EvGiveUp])
  else Ok (add_ran (send_res c d k rest) t d, s_evs c k).
Proof.
  rewrite run_functor_send, sendInLoop_nf'. cbn [set_pending st].
  destruct (cstate_eqb (st c) Disconnected); reflexivity.
Qed.

Lemma step_DelayFire c : step c DelayFire =
  match delayed c with
  | O => Rejected
  | S n => Ok (set_aux (forceClose c) (chk c) n, [])
  end.
Proof.
  unfold step. cbn [user_op andb]. destruct (delayed c); [reflexivity|].
  unfold forceClose. destruct (closable c); reflexivity.
Qed.

Ltac projs' :=
  cbn [st outb inb writing rd_chan rd_flag registered hwm has_wc has_hwm wire fin pending chk
       delayed accepted consumed delivered enq ran ups downs fst snd set_pending set_st set_reading
       send_res add_ran set_aux] in *.

Ltac brk H :=
  repeat match type of H with
    | (if ?b then _ else _) = _ => destruct b eqn:?
    | Ok (if ?b then _ else _) = _ => destruct b eqn:?
    | Ok ((if ?b then _ else _), _) = _ => destruct b eqn:?
    | Ok (set_aux (if ?b then _ else _) _ _, _) = _ => destruct b eqn:?
    | (match ?x with _ => _ end) = _ => destruct x eqn:?
    end;
  try discriminate H.

(* explode [H : step c o = Ok (c', e)] into one goal per control path of the model, with c' and
   e replaced by their explicit values (the ifs inside record fields are left alone) *)
Ltac step_cases H :=
  match type of H with
  | step ?c ?o = _ =>
    destruct o;
    try rewrite step_DelayFire in H;
    unfold step in H; cbn [user_op andb] in H;
    try match type of H with
      | (match pending c with _ => _ end) = _ =>
          let f := fresh "f" in let rest := fresh "rest" in
          destruct (pending c) as [|f rest] eqn:Epend;
          [| destruct f; [rewrite runone_send_nf in H | unfold run_functor in H ..]]
      end;
    unfold ok, handleCloseChecked, forceCloseInLoop in H;
    rewrite ?sendInLoop_nf', ?handleWrite_nf, ?connectDestroyed_nf in H;
    unfold shutdownInLoop, forceClose, handleClose, startReadInLoop, stopReadInLoop in H;
    cbv zeta in H; projs'; brk H; injection H as <- <-; projs'
  end.

Ltac st_norm :=
  repeat match goal with
  | H : cstate_eqb _ _ = true |- _ => apply cstate_eqb_true in H
  | H : cstate_eqb _ _ = false |- _ => apply cstate_eqb_false in H
  end.

Ltac rw_conds :=
  repeat match goal with
  | H : ?b = true |- context [?b] => rewrite H
  | H : ?b = false |- context [?b] => rewrite H
  | H : pending ?c = _ |- context [pending ?c] => rewrite H
  end.

Lemma step_const c o c' e : step c o = Ok (c', e) ->
  hwm c' = hwm c /\ has_wc c' = has_wc c /\ has_hwm c' = has_hwm c.
Proof. intros H. step_cases H. all: auto. Qed.

(* ---- which sendInLoop a step executes ---------------------------------------------- *)
(* the block, the scripted kernel answer and the functor queue the call starts from *)
Definition send_of (c : conn) (o : op) : option (list byte * kres * list functor) :=
  match o with
  | Send d k => if cstate_eqb (st c) Connected then Some (d, k, pending c) else None
  | RunOne k =>
      match pending c with
      | FSend _ d :: rest => if cstate_eqb (st c) Disconnected then None else Some (d, k, rest)
      | _ => None
      end
  | _ => None
  end.

(* the direct write was attempted and failed with EPIPE / ECONNRESET (which is also what the
   kernel answers once the write side is shut down): the only way sendInLoop drops a block *)
Definition send_fatal (c : conn) (k : kres) : bool :=
  negb (writing c) && (length (outb c) =? 0) &&
  match effective c k with Err e => is_fatal e | _ => false end.

Lemma send_fatal_eq c k : send_fatal c k = s_fatal c k.
Proof. unfold send_fatal, s_fatal, s_direct. destruct (negb (writing c) && (length (outb c) =? 0)); reflexivity. Qed.

Definition block_taken (c : conn) (o : op) : list byte :=
  match send_of c o with
  | Some (d, k, _) => if send_fatal c k then [] else d
  | None => []
  end.

Lemma step_accepted c o c' e : step c o = Ok (c', e) -> accepted c' = accepted c ++ block_taken c o.
Proof.
  intros H. unfold block_taken, send_of. step_cases H; rw_conds; cbv beta iota;
    rewrite <- ?send_fatal_eq, ?app_nil_r; try reflexivity.
  all: st_norm; try congruence.
  all: try (destruct (send_fatal c k); rewrite ?app_nil_r; reflexivity).
Qed.

Lemma send_fatal_iff c k : send_fatal c k = true <->
  writing c = false /\ outb c = [] /\ exists e, effective c k = Err e /\ is_fatal e = true.
Proof.
  unfold send_fatal. split.
  - intros H. apply andb_prop in H as [H H3]. apply andb_prop in H as [H1 H2].
    apply negb_true_iff in H1. apply length_zero_iff in H2.
    destruct (effective c k); try discriminate. eauto.
  - intros (-> & -> & e & -> & ->). reflexivity.
Qed.

(* ---- wire ---------------------------------------------------------------------------- *)
Lemma step_wire c o c' e : step c o = Ok (c', e) -> exists w, wire c' = wire c ++ w.
Proof.
  intros H. step_cases H.
  all: first [ exists []; rewrite app_nil_r; reflexivity | eexists; reflexivity ].
Qed.

Lemma step_fin_wire c o c' e : step c o = Ok (c', e) -> fin c = true -> wire c' = wire c /\ fin c' = true.
Proof.
  intros H Hf. step_cases H; auto.
  all: try (rewrite (proj1 (s_fin c d k Hf)); cbn [firstn]; rewrite app_nil_r; auto).
  all: try (rewrite (h_fin_noact c k Hf) in *; discriminate).
Qed.

Lemma send_of_up c o d k p : Inv c -> send_of c o = Some (d, k, p) -> up c.
Proof.
  intros HI. unfold send_of. destruct o; try discriminate.
  - destruct (cstate_eqb (st c) Connected) eqn:E; [|discriminate]. intros _. left. apply cstate_eqb_true, E.
  - destruct (pending c) as [|[] rest] eqn:Ep; try discriminate.
    destruct (cstate_eqb (st c) Disconnected) eqn:E; [discriminate|]. intros _.
    apply up_of; [|apply cstate_eqb_false, E]. apply inv_pending_not_connecting; [exact HI|congruence].
Qed.

Lemma step_fin_accepted c o c' e : Inv c -> step c o = Ok (c', e) -> fin c = true ->
  accepted c' = accepted c.
Proof.
  intros HI H Hf. rewrite (step_accepted c o c' e H). unfold block_taken.
  destruct (send_of c o) as [[[d k] p]|] eqn:Es; [|apply app_nil_r].
  pose proof (send_of_up c o d k p HI Es) as Hup.
  destruct (s_fin_inv c d k HI Hup Hf) as (Hft & _). rewrite send_fatal_eq, Hft. apply app_nil_r.
Qed.

(* ---- foreign sends ------------------------------------------------------------------- *)
Definition enq_of (c : conn) (o : op) : list (nat * list byte) :=
  match o with
  | FSendEnq t d => if lookup t (chk c) then [(t, d)] else []
  | _ => []
  end.

Definition ran_of (c : conn) (o : op) : list (nat * list byte) :=
  match o with
  | RunOne _ => match pending c with FSend t d :: _ => [(t, d)] | _ => [] end
  | _ => []
  end.

Lemma step_enq_ran c o c' e : step c o = Ok (c', e) ->
  enq c' = enq c ++ enq_of c o /\ ran c' = ran c ++ ran_of c o.
Proof.
  intros H. unfold enq_of, ran_of. step_cases H; rw_conds; rewrite ?app_nil_r; auto.
Qed.

(* ---- inbound ------------------------------------------------------------------------- *)
Definition is_msg (ev : event) : bool := match ev with EvMsg _ => true | _ => false end.

Lemma s_evs_in c k ev : In ev (s_evs c k) -> ev = EvErrorLogged.
Proof.
  unfold s_evs. destruct (s_direct c); [|intros []].
  destruct (effective c k) as [| |[]]; cbn; intuition.
Qed.

Lemma filter_id {A} (f : A -> bool) l : (forall x, In x l -> f x = true) -> filter f l = l.
Proof.
  induction l as [|a l IH]; intros H; cbn; [reflexivity|].
  rewrite (H a (or_introl eq_refl)), IH; [reflexivity|]. intros x Hx. apply H. right. exact Hx.
Qed.

Lemma step_inbound c o c' e : step c o = Ok (c', e) ->
  delivered c' = delivered c ++ (match o with EvReadData d => d | _ => [] end) /\
  consumed c' = consumed c ++ (match o with Retrieve n => firstn n (inb c) | _ => [] end) /\
  inb c' = (match o with EvReadData d => inb c ++ d | Retrieve n => skipn n (inb c) | _ => inb c end) /\
  e = (match o with EvReadData d => [EvMsg (length (inb c'))] | _ => filter (fun x => negb (is_msg x)) e end).
Proof.
  intros H. step_cases H; rewrite ?app_nil_r; repeat split; try reflexivity.
  all: try (destruct (h_fin c k); reflexivity).
  all: try (destruct (writing c); reflexivity).
  all: symmetry; apply filter_id; intros x Hx; apply s_evs_in in Hx; subst x; reflexivity.
Qed.

(* ---- life cycle counters and events -------------------------------------------------- *)
Definition is_up (ev : event) : bool := match ev with EvUp => true | _ => false end.
Definition is_down (ev : event) : bool := match ev with EvDown => true | _ => false end.
Definition count (f : event -> bool) (e : list event) : nat := length (filter f e).

Lemma s_evs_count c k f : f EvErrorLogged = false -> count f (s_evs c k) = 0.
Proof.
  intros Hf. unfold count, s_evs. destruct (s_direct c); [|reflexivity].
  destruct (effective c k) as [| |[]]; cbn; rewrite ?Hf; reflexivity.
Qed.

Lemma step_updown c o c' e : step c o = Ok (c', e) ->
  ups c' = ups c + count is_up e /\ downs c' = downs c + count is_down e.
Proof.
  intros H. step_cases H; rewrite ?s_evs_count by reflexivity;
    try (destruct (h_fin c k)); try (destruct (writing c)); cbn; lia.
Qed.

Lemma step_not_connecting c o c' e : step c o = Ok (c', e) -> st c <> Connecting -> st c' <> Connecting.
Proof. intros H Hc. step_cases H; auto; discriminate. Qed.

Lemma step_fin_event c o c' e : step c o = Ok (c', e) ->
  (In EvFin e -> fin c' = true) /\ (fin c = false -> fin c' = true -> In EvFin e).
Proof.
  intros H. step_cases H; split; cbn; auto; try tauto; try congruence.
  all: try (intros Hx; apply s_evs_in in Hx; discriminate).
  all: try (destruct (h_fin c k); cbn; auto; try tauto; congruence).
  all: try (destruct (writing c); cbn; intuition discriminate).
Qed.

(* ---- callbacks ----------------------------------------------------------------------- *)
Definition is_cb (f : functor) : bool :=
  match f with FWriteComplete | FHighWater _ => true | _ => false end.
Definition cbs (l : list functor) : list functor := filter is_cb l.
(* the queue a step starts from: RunOne first removes the functor it runs *)
Definition base (c : conn) (o : op) : list functor :=
  match o with RunOne _ => tl (pending c) | _ => pending c end.

Lemma cbs_app l1 l2 : cbs (l1 ++ l2) = cbs l1 ++ cbs l2.
Proof. apply filter_app. Qed.

Ltac rw_in Hs :=
  repeat match goal with
  | H : ?b = true |- _ =>
      lazymatch b with true => fail | false => fail | _ => idtac end;
      match type of Hs with context [b] => rewrite H in Hs end
  | H : ?b = false |- _ =>
      lazymatch b with true => fail | false => fail | _ => idtac end;
      match type of Hs with context [b] => rewrite H in Hs end
  | H : pending ?c = _ |- _ => match type of Hs with context [pending c] => rewrite H in Hs end
  end.

Lemma step_cbs_frame c o c' e : step c o = Ok (c', e) ->
  send_of c o = None -> (forall k, o <> EvWritable k) -> cbs (pending c') = cbs (base c o).
Proof.
  intros H Hs Hw. unfold send_of in Hs. unfold base.
  step_cases H; rw_in Hs; try discriminate Hs; rw_conds; cbn [tl]; rewrite ?cbs_app; cbn [cbs filter is_cb];
    rewrite ?app_nil_r; try reflexivity.
  all: try (exfalso; eapply Hw; reflexivity).
  all: st_norm; congruence.
Qed.

Definition cb_of (ev : event) : option functor :=
  match ev with EvWC => Some FWriteComplete | EvHWM n => Some (FHighWater n) | _ => None end.

Lemma step_cb_events c o c' e ev f : step c o = Ok (c', e) -> In ev e -> cb_of ev = Some f ->
  exists k rest, o = RunOne k /\ pending c = f :: rest /\ c' = set_pending c rest /\ e = [ev].
Proof.
  intros H Hin Hcb. step_cases H.
  all: try (apply s_evs_in in Hin; subst ev; discriminate).
  all: try (destruct (h_fin c k)); try (destruct (writing c)).
  all: cbn in Hin; repeat (destruct Hin as [Hin|Hin]; [subst ev; try discriminate|]); try contradiction.
  all: injection Hcb as <-; eexists _, _; repeat split; reflexivity.
Qed.

Lemma runone_wc c k rest : pending c = FWriteComplete :: rest ->
  step c (RunOne k) = Ok (set_pending c rest, [EvWC]).
Proof. intros Hp. unfold step. cbn [user_op andb]. rewrite Hp. reflexivity. Qed.

Lemma runone_hwm c k n rest : pending c = FHighWater n :: rest ->
  step c (RunOne k) = Ok (set_pending c rest, [EvHWM n]).
Proof. intros Hp. unfold step. cbn [user_op andb]. rewrite Hp. reflexivity. Qed.

(* ---- the unsynchronised state test of a foreign send --------------------------------- *)
Lemma step_lookup c o c' e t : step c o = Ok (c', e) -> o <> FSendCheck t ->
  lookup t (chk c) = false -> lookup t (chk c') = false.
Proof.
  intros H Ho Hl. step_cases H; auto.
  - cbn [lookup]. destruct (t =? t0) eqn:E; [|exact Hl]. apply Nat.eqb_eq in E. subst. congruence.
  - cbn [lookup]. destruct (t =? t0); auto.
Qed.

Lemma run_lookup ops : forall c c' e t, run c ops = Ok (c', e) -> ~ In (FSendCheck t) ops ->
  lookup t (chk c) = false -> lookup t (chk c') = false.
Proof.
  induction ops as [|o ops IH]; intros c c' e t H Hn Hl.
  - cbn in H. injection H as <- _. exact Hl.
  - apply run_cons in H as (c1 & e1 & e2 & H1 & H2 & _).
    apply (IH c1 c' e2 t H2); [intros Hx; apply Hn; right; exact Hx|].
    apply (step_lookup c o c1 e1 t H1); [intros ->; apply Hn; left; reflexivity|exact Hl].
Qed.

Lemma run_not_connecting ops : forall c c' e, run c ops = Ok (c', e) -> st c <> Connecting -> st c' <> Connecting.
Proof.
  induction ops as [|o ops IH]; intros c c' e H Hc.
  - cbn in H. injection H as <- _. exact Hc.
  - apply run_cons in H as (c1 & e1 & e2 & H1 & H2 & _).
    apply (IH c1 c' e2 H2). exact (step_not_connecting c o c1 e1 H1 Hc).
Qed.

(* ---- C13: what sendInLoop and handleWrite queue --------------------------------------- *)
Lemma s_wc_iff c d k : s_wc c d k = true <->
  has_wc c = true /\ outb c = [] /\ writing c = false /\
  taken (effective c k) (length d) = Some (length d).
Proof.
  unfold s_wc, s_ok, s_rem, s_nwrote. split.
  - intros H. apply andb_prop in H as [H Hwc]. apply andb_prop in H as [Hok Hr].
    destruct (s_direct c) eqn:Ed; [|discriminate]. destruct (s_direct_true c Ed) as [Hw Ho].
    apply Nat.eqb_eq in Hr.
    destruct (effective c k) as [n| |er]; try discriminate; cbn [taken] in *; repeat split; auto.
    f_equal. lia.
  - intros (Hwc & Ho & Hw & Ht).
    assert (Ed : s_direct c = true) by (unfold s_direct; rewrite Hw, Ho; reflexivity).
    rewrite Ed, Hwc. destruct (effective c k) as [n| |er]; cbn [taken] in *; try discriminate.
    + injection Ht as Ht. rewrite Ht, Nat.sub_diag. reflexivity.
    + rewrite Nat.sub_diag. reflexivity.
Qed.

Lemma s_hw_iff c d k : s_hw c d k = true <->
  has_hwm c = true /\
  (N.of_nat (length (outb c)) < hwm c)%N /\
  (hwm c <= N.of_nat (length (if s_queue c d k then outb c ++ skipn (s_nwrote c d k) d else outb c)))%N.
Proof.
  unfold s_hw. split.
  - intros H. apply andb_prop in H as [H Hh]. apply andb_prop in H as [H Hlt].
    apply andb_prop in H as [Hq Hle]. apply N.ltb_lt in Hlt. apply N.leb_le in Hle.
    rewrite Hq. destruct (s_queue_len c d k Hq) as [-> _]. auto.
  - intros (Hh & Hlt & Hle). destruct (s_queue c d k) eqn:Hq; [|lia].
    destruct (s_queue_len c d k Hq) as [Hl _]. rewrite Hl in Hle.
    rewrite Hh. apply N.ltb_lt in Hlt. apply N.leb_le in Hle. rewrite Hlt, Hle. reflexivity.
Qed.

Lemma s_wc_hw_excl c d k : s_wc c d k = true -> s_hw c d k = true -> False.
Proof.
  unfold s_wc, s_hw, s_queue. intros H1 H2.
  apply andb_prop in H1 as [H1 _]. apply andb_prop in H1 as [_ H1]. apply Nat.eqb_eq in H1.
  apply andb_prop in H2 as [H2 _]. apply andb_prop in H2 as [H2 _]. apply andb_prop in H2 as [H2 _].
  apply andb_prop in H2 as [_ H2]. apply Nat.ltb_lt in H2. lia.
Qed.

Lemma step_send c o c' e d k p : step c o = Ok (c', e) -> send_of c o = Some (d, k, p) ->
  pending c' = p ++ s_q c d k /\
  outb c' = (if s_queue c d k then outb c ++ skipn (s_nwrote c d k) d else outb c) /\
  wire c' = wire c ++ firstn (s_nwrote c d k) d /\ st c' = st c /\ fin c' = fin c.
Proof.
  intros H Hs. unfold send_of in Hs.
  step_cases H; rw_in Hs; try discriminate Hs; injection Hs as <- <- <-; auto.
  st_norm. congruence.
Qed.

Lemma step_send_writing c o c' e d k p : step c o = Ok (c', e) -> send_of c o = Some (d, k, p) ->
  writing c' = (if s_queue c d k then true else writing c).
Proof.
  intros H Hs. unfold send_of in Hs.
  step_cases H; rw_in Hs; try discriminate Hs; injection Hs as <- <- <-; auto.
  st_norm. congruence.
Qed.

Lemma app_tail_inj {A} (p : list A) x y : p ++ x = p ++ y -> x = y.
Proof. apply app_inv_head. Qed.

(* the exact statement used by Properties_C13 *)
Lemma send_queues c o c' e d k p : step c o = Ok (c', e) -> send_of c o = Some (d, k, p) ->
  (pending c' = p \/ pending c' = p ++ [FWriteComplete] \/ exists n, pending c' = p ++ [FHighWater n]) /\
  (pending c' = p ++ [FWriteComplete] <->
     has_wc c = true /\ outb c = [] /\ writing c = false /\
     taken (effective c k) (length d) = Some (length d)) /\
  (forall n, pending c' = p ++ [FHighWater n] <->
     has_hwm c = true /\ (N.of_nat (length (outb c)) < hwm c <= N.of_nat (length (outb c')))%N /\
     n = length (outb c')).
Proof.
  intros H Hs. destruct (step_send c o c' e d k p H Hs) as (Hp & Ho & _).
  rewrite Hp, Ho. unfold s_q.
  pose proof (s_wc_iff c d k) as Hwc. pose proof (s_hw_iff c d k) as Hhw.
  pose proof (s_wc_hw_excl c d k) as Hex.
  destruct (s_wc c d k) eqn:Ewc; destruct (s_hw c d k) eqn:Ehw; cbn [app].
  - exfalso. auto.
  - split; [auto|]. split; [tauto|]. intros n. split.
    + intros Hx. apply app_inv_head in Hx. discriminate.
    + intros (H1 & H2 & _). assert (false = true) by (apply Hhw; tauto). discriminate.
  - assert (Hl : length (if s_queue c d k then outb c ++ skipn (s_nwrote c d k) d else outb c)
                 = length (outb c) + s_rem c d k).
    { unfold s_hw in Ehw. apply andb_prop in Ehw as [Ehw _]. apply andb_prop in Ehw as [Ehw _].
      apply andb_prop in Ehw as [Ehw _]. rewrite Ehw. apply s_queue_len, Ehw. }
    split; [eauto|]. split.
    + split.
      * intros Hx. apply app_inv_head in Hx. discriminate.
      * intros Hx. assert (false = true) by (apply Hwc; exact Hx). discriminate.
    + intros n. rewrite Hl. split.
      * intros Hx. apply app_inv_head in Hx. injection Hx as <-.
        destruct (proj1 Hhw eq_refl) as (H1 & H2 & H3). rewrite Hl in H3. auto.
      * intros (_ & _ & ->). reflexivity.
  - rewrite app_nil_r. split; [auto|]. split.
    + split.
      * intros Hx. symmetry in Hx. apply app_one_neq in Hx. contradiction.
      * intros Hx. assert (false = true) by (apply Hwc; exact Hx). discriminate.
    + intros n. split.
      * intros Hx. symmetry in Hx. apply app_one_neq in Hx. contradiction.
      * intros (H1 & H2 & _). assert (false = true) by (apply Hhw; tauto). discriminate.
Qed.

Lemma drain_queues c k c' e : step c (EvWritable k) = Ok (c', e) ->
  (pending c' = pending c \/ pending c' = pending c ++ [FWriteComplete]) /\
  (pending c' = pending c ++ [FWriteComplete] <->
     has_wc c = true /\ writing c = true /\ outb c <> [] /\ outb c' = []).
Proof.
  intros H. unfold step in H. cbn [user_op andb] in H.
  destruct (registered c); [|discriminate]. unfold ok in H. rewrite handleWrite_nf in H.
  destruct (h_act c k) eqn:Ea; injection H as <- <-; projs.
  - unfold h_act in Ea. apply andb_prop in Ea as [Hw Hn]. apply Nat.ltb_lt in Hn.
    pose proof (h_n_le c k) as Hle.
    assert (Hne : outb c <> []) by (intros E; rewrite E in Hle; cbn in Hle; lia).
    unfold h_empty. destruct (length (skipn (h_n c k) (outb c)) =? 0) eqn:Ee; cbn [andb].
    + apply length_zero_iff in Ee. destruct (has_wc c); cbn [app].
      * split; [auto|]. tauto.
      * rewrite app_nil_r. split; [auto|]. split; [|intros (Hx & _); discriminate].
        intros Hx. symmetry in Hx. apply app_one_neq in Hx. contradiction.
    + apply length_zero_false in Ee. rewrite app_nil_r. split; [auto|]. split; [|tauto].
      intros Hx. symmetry in Hx. apply app_one_neq in Hx. contradiction.
  - split; [auto|]. split.
    + intros Hx. symmetry in Hx. apply app_one_neq in Hx. contradiction.
    + intros (_ & _ & H1 & H2). contradiction.
Qed.

Lemma run_hwm ops : forall c c' e, run c ops = Ok (c', e) -> hwm c' = hwm c.
Proof.
  induction ops as [|o ops IH]; intros c c' e H.
  - cbn in H. injection H as <- _. reflexivity.
  - apply run_cons in H as (c1 & e1 & e2 & H1 & H2 & _).
    rewrite (IH c1 c' e2 H2). apply (step_const c o c1 e1 H1).
Qed.

(* ---- C01: pausing and resuming reading ------------------------------------------------ *)
Definition pause_op (c : conn) (o : op) : bool :=
  match o with
  | StartRead | StopRead | XStartRead | XStopRead => true
  | RunOne _ => match pending c with (FStartRead | FStopRead) :: _ => true | _ => false end
  | _ => false
  end.

Lemma pause_preserves c o c' e : step c o = Ok (c', e) -> pause_op c o = true ->
  inb c' = inb c /\ consumed c' = consumed c /\ delivered c' = delivered c /\
  wire c' = wire c /\ outb c' = outb c /\ accepted c' = accepted c /\ st c' = st c /\
  writing c' = writing c /\ fin c' = fin c /\ enq c' = enq c /\ ran c' = ran c /\ e = [].
Proof.
  intros H Hp. unfold pause_op in Hp. step_cases H; rw_in Hp; try discriminate Hp.
  all: repeat split; reflexivity.
Qed.

(* ---- C03 ----------------------------------------------------------------------------- *)
Definition shut_op (c : conn) (o : op) : bool :=
  match o with
  | Shutdown | XShutdown => true
  | RunOne _ => match pending c with FShutdown :: _ => true | _ => false end
  | _ => false
  end.

Lemma shutdown_read_side c o c' e : step c o = Ok (c', e) -> shut_op c o = true ->
  rd_chan c' = rd_chan c /\ rd_flag c' = rd_flag c /\ registered c' = registered c /\
  inb c' = inb c /\ consumed c' = consumed c /\ delivered c' = delivered c /\
  ups c' = ups c /\ downs c' = downs c.
Proof.
  intros H Hp. unfold shut_op in Hp. step_cases H; rw_in Hp; try discriminate Hp.
  all: repeat split; reflexivity.
Qed.

Lemma read_data_accepted c d : rd_chan c = true -> registered c = true -> d <> [] ->
  exists c', step c (EvReadData d) = Ok (c', [EvMsg (length (inb c ++ d))]) /\
    inb c' = inb c ++ d /\ delivered c' = delivered c ++ d /\ consumed c' = consumed c /\
    st c' = st c /\ rd_chan c' = true.
Proof.
  intros Hr Hg Hd. unfold step. cbn [user_op andb]. rewrite Hr, Hg.
  destruct d as [|b d]; [contradiction|]. cbn [length Nat.ltb Nat.leb andb]. unfold ok.
  eexists. split; [reflexivity|]. projs. auto.
Qed.

Lemma fin_after_backlog c o c' e : Inv c -> step c o = Ok (c', e) ->
  fin c = false -> fin c' = true ->
  In EvFin e /\ (up c' -> outb c' = [] /\ writing c' = false /\ wire c' = accepted c').
Proof.
  intros HI H Hf Hf'. split; [apply (step_fin_event c o c' e H); assumption|].
  intros Hup. pose proof (step_inv c o c' e HI H) as HI'.
  destruct (i_fin c' HI' Hf') as [_ Ho]. specialize (Ho Hup).
  split; [exact Ho|]. split; [apply inv_up_writing_false; assumption|].
  rewrite <- (i_stream c' HI'), Ho, app_nil_r. reflexivity.
Qed.

Lemma run_after_fin ops : forall c c' e, Inv c -> run c ops = Ok (c', e) -> fin c = true ->
  wire c' = wire c /\ accepted c' = accepted c /\ fin c' = true.
Proof.
  induction ops as [|o ops IH]; intros c c' e HI H Hf.
  - cbn in H. injection H as <- _. auto.
  - apply run_cons in H as (c1 & e1 & e2 & H1 & H2 & _).
    destruct (step_fin_wire c o c1 e1 H1 Hf) as [Hw Hf1].
    pose proof (step_fin_accepted c o c1 e1 HI H1 Hf) as Ha.
    destruct (IH c1 c' e2 (step_inv c o c1 e1 HI H1) H2 Hf1) as (-> & -> & ->). auto.
Qed.

Lemma run_accepted ops : forall c c' e, run c ops = Ok (c', e) ->
  exists s, accepted c' = accepted c ++ s.
Proof.
  induction ops as [|o ops IH]; intros c c' e H.
  - cbn in H. injection H as <- _. exists []. symmetry. apply app_nil_r.
  - apply run_cons in H as (c1 & e1 & e2 & H1 & H2 & _).
    destruct (IH c1 c' e2 H2) as [s Hs]. rewrite Hs, (step_accepted c o c1 e1 H1), <- app_assoc. eauto.
Qed.

Lemma run_wire ops : forall c c' e, run c ops = Ok (c', e) -> exists w, wire c' = wire c ++ w.
Proof.
  induction ops as [|o ops IH]; intros c c' e H.
  - cbn in H. injection H as <- _. exists []. symmetry. apply app_nil_r.
  - apply run_cons in H as (c1 & e1 & e2 & H1 & H2 & _).
    destruct (IH c1 c' e2 H2) as [s Hs]. destruct (step_wire c o c1 e1 H1) as [w Hw].
    rewrite Hs, Hw, <- app_assoc. eauto.
Qed.

Definition nonfatal (k : kres) : Prop :=
  match k with Err e => is_fatal e = false | _ => True end.

Lemma send_fatal_nonfatal c k : fin c = false -> nonfatal k -> send_fatal c k = false.
Proof.
  unfold send_fatal, effective, nonfatal. intros -> H.
  destruct k; rewrite ?H; apply andb_false_r.
Qed.

Lemma loop_send_accepted c d k c' e : Inv c -> step c (Send d k) = Ok (c', e) ->
  st c = Connected -> nonfatal k -> accepted c' = accepted c ++ d.
Proof.
  intros HI H Hs Hk. rewrite (step_accepted _ _ _ _ H). unfold block_taken, send_of. rewrite Hs. cbn.
  assert (Hf : fin c = false).
  { destruct (fin c) eqn:E; [|reflexivity]. destruct (i_fin c HI E) as [Hx _]. contradiction. }
  rewrite (send_fatal_nonfatal c k Hf Hk). reflexivity.
Qed.

Lemma foreign_send_accepted c k t d rest c' e : step c (RunOne k) = Ok (c', e) ->
  pending c = FSend t d :: rest -> st c <> Disconnected -> fin c = false -> nonfatal k ->
  accepted c' = accepted c ++ d /\ ran c' = ran c ++ [(t, d)].
Proof.
  intros H Hp Hs Hf Hk. destruct (step_enq_ran _ _ _ _ H) as [_ Hr].
  rewrite (step_accepted _ _ _ _ H), Hr. unfold block_taken, send_of, ran_of. rewrite Hp.
  apply cstate_eqb_false in Hs. rewrite Hs, (send_fatal_nonfatal c k Hf Hk). auto.
Qed.

Lemma foreign_send_dropped c k t d rest c' e : Inv c -> step c (RunOne k) = Ok (c', e) ->
  pending c = FSend t d :: rest -> fin c = true \/ st c = Disconnected ->
  accepted c' = accepted c /\ wire c' = wire c /\ outb c' = outb c /\ ran c' = ran c ++ [(t, d)].
Proof.
  intros HI H Hp Hc. destruct (step_enq_ran _ _ _ _ H) as [_ Hr]. rewrite Hr. unfold ran_of. rewrite Hp.
  assert (Hcg : st c <> Connecting) by (apply inv_pending_not_connecting; [exact HI|congruence]).
  unfold step in H. cbn [user_op andb] in H. rewrite Hp, runone_send_nf in H.
  destruct (cstate_eqb (st c) Disconnected) eqn:Ed; injection H as <- <-; projs'; [auto|].
  destruct Hc as [Hf|Hd]; [|apply cstate_eqb_false in Ed; contradiction].
  apply cstate_eqb_false in Ed.
  destruct (s_fin_inv c d k HI (up_of c Hcg Ed) Hf) as (-> & -> & -> & _).
  cbn [firstn]. rewrite app_nil_r. auto.
Qed.

(* force close *)
Lemma force_close_up c : up c ->
  step c ForceClose = Ok (set_pending (set_st c Disconnecting) (pending c ++ [FForceClose]), []).
Proof.
  intros Hup. unfold step. cbn [user_op andb]. destruct (up_cases c Hup) as [_ ->].
  unfold forceClose, ok. rewrite (proj2 (closable_up c) Hup). reflexivity.
Qed.

Lemma force_close_down c : st c = Disconnected -> step c ForceClose = Ok (c, []).
Proof. intros Hs. unfold step, forceClose, closable. rewrite Hs. reflexivity. Qed.

Lemma delay_fire_down c n : st c = Disconnected -> delayed c = S n ->
  step c DelayFire = Ok (set_aux c (chk c) n, []).
Proof.
  intros Hs Hd. rewrite step_DelayFire, Hd. unfold forceClose, closable. rewrite Hs. reflexivity.
Qed.

Lemma delay_fire_up c n : up c -> delayed c = S n ->
  step c DelayFire =
  Ok (set_aux (set_pending (set_st c Disconnecting) (pending c ++ [FForceClose])) (chk c) n, []).
Proof.
  intros Hup Hd. rewrite step_DelayFire, Hd. unfold forceClose.
  rewrite (proj2 (closable_up c) Hup). reflexivity.
Qed.

Lemma force_close_runs c k rest : Inv c -> pending c = FForceClose :: rest -> up c ->
  exists c', step c (RunOne k) = Ok (c', [EvDown]) /\
    st c' = Disconnected /\ downs c' = 1 /\ ups c' = 1 /\ writing c' = false /\ rd_chan c' = false /\
    pending c' = rest ++ [FDestroy] /\
    wire c' = wire c /\ outb c' = outb c /\ inb c' = inb c /\ fin c' = fin c.
Proof.
  intros HI Hp Hup. unfold step. cbn [user_op andb]. rewrite Hp. unfold run_functor, forceCloseInLoop.
  assert (Hcl : closable (set_pending c rest) = true) by (apply closable_up; exact Hup).
  rewrite Hcl. unfold ok, handleClose. eexists. split; [reflexivity|]. projs.
  pose proof (i_updown c HI) as Hud.
  destruct Hup as [E|E]; rewrite E in Hud; destruct Hud as [-> ->]; repeat split; reflexivity.
Qed.

Lemma force_close_late c k rest : pending c = FForceClose :: rest -> st c = Disconnected ->
  step c (RunOne k) = Ok (set_pending c rest, []).
Proof.
  intros Hp Hs. unfold step. cbn [user_op andb]. rewrite Hp. unfold run_functor, forceCloseInLoop, closable.
  cbn [set_pending st]. rewrite Hs. reflexivity.
Qed.

(* send after close *)
Lemma send_not_connected c d k : st c = Disconnecting \/ st c = Disconnected ->
  step c (Send d k) = Ok (c, []).
Proof. intros [Hs|Hs]; unfold step; rewrite Hs; reflexivity. Qed.

Lemma foreign_send_late c t c1 e1 ops c2 e2 d :
  step c (FSendCheck t) = Ok (c1, e1) -> st c <> Connected ->
  run c1 ops = Ok (c2, e2) -> ~ In (FSendCheck t) ops ->
  step c2 (FSendEnq t d) = Ok (c2, []).
Proof.
  intros H1 Hs H2 Hn.
  assert (Hc : st c <> Connecting).
  { intros E. unfold step in H1. rewrite E in H1. discriminate. }
  assert (Hl : lookup t (chk c1) = false).
  { unfold step in H1. cbn [user_op andb] in H1. apply cstate_eqb_false in Hc. rewrite Hc in H1.
    injection H1 as <- _. projs. cbn [lookup]. rewrite Nat.eqb_refl. apply cstate_eqb_false, Hs. }
  pose proof (run_lookup ops c1 c2 e2 t H2 Hn Hl) as Hl2.
  pose proof (run_not_connecting ops c1 c2 e2 H2 (step_not_connecting _ _ _ _ H1 Hc)) as Hc2.
  unfold step. cbn [user_op andb]. apply cstate_eqb_false in Hc2. rewrite Hc2, Hl2. reflexivity.
Qed.

(* ======================================================================================== *)
(* Statements used by Properties_C01                                                        *)
(* ======================================================================================== *)
Lemma P01_outbound_stream : forall c, reach c ->
  wire c ++ outb c = accepted c /\
  forall o c' e, step c o = Ok (c', e) ->
    accepted c' = accepted c ++ block_taken c o /\ exists w, wire c' = wire c ++ w.
Proof.
  intros c Hr. split; [apply i_stream, reach_inv, Hr|].
  intros o c' e H. split; [eapply step_accepted, H|eapply step_wire, H].
Qed.

Lemma P01_foreign_fifo : forall c, reach c ->
  ran c ++ sends_of (pending c) = enq c /\
  (forall t, exists later, filter (fun x => fst x =? t) (enq c)
                           = filter (fun x => fst x =? t) (ran c) ++ later) /\
  forall o c' e, step c o = Ok (c', e) ->
    enq c' = enq c ++ enq_of c o /\ ran c' = ran c ++ ran_of c o.
Proof.
  intros c Hr. pose proof (i_fifo c (reach_inv c Hr)) as Hf. split; [exact Hf|]. split.
  - intros t. rewrite <- Hf, filter_app. eauto.
  - intros o c' e H. eapply step_enq_ran, H.
Qed.

Lemma P01_block_contiguous : forall c o c1 e1 ops c2 e2,
  reach c -> step c o = Ok (c1, e1) -> run c1 ops = Ok (c2, e2) ->
  exists post, wire c2 ++ outb c2 = (wire c ++ outb c) ++ block_taken c o ++ post.
Proof.
  intros c o c1 e1 ops c2 e2 Hr H1 H2.
  pose proof (reach_step c o c1 e1 Hr H1) as Hr1.
  pose proof (run_reach ops c1 c2 e2 Hr1 H2) as Hr2.
  rewrite (i_stream c2 (reach_inv c2 Hr2)), (i_stream c (reach_inv c Hr)).
  destruct (run_accepted ops c1 c2 e2 H2) as [s Hs]. exists s.
  rewrite Hs, (step_accepted c o c1 e1 H1), <- app_assoc. reflexivity.
Qed.

Lemma P01_write_interest : forall c, reach c -> up c -> (writing c = true <-> outb c <> []).
Proof.
  intros c Hr Hup. rewrite (i_interest c (reach_inv c Hr) Hup).
  rewrite negb_true_iff. apply length_zero_false.
Qed.

Lemma P01_inbound_stream : forall c, reach c ->
  consumed c ++ inb c = delivered c /\
  forall o c' e, step c o = Ok (c', e) ->
    delivered c' = delivered c ++ (match o with EvReadData d => d | _ => [] end) /\
    consumed c' = consumed c ++ (match o with Retrieve n => firstn n (inb c) | _ => [] end) /\
    inb c' = (match o with
              | EvReadData d => inb c ++ d
              | Retrieve n => skipn n (inb c)
              | _ => inb c
              end) /\
    (match o with
     | EvReadData d => e = [EvMsg (length (inb c'))]
     | _ => forall n, ~ In (EvMsg n) e
     end).
Proof.
  intros c Hr. split; [apply i_inbound, reach_inv, Hr|].
  intros o c' e H. destruct (step_inbound c o c' e H) as (H1 & H2 & H3 & H4).
  split; [exact H1|]. split; [exact H2|]. split; [exact H3|].
  destruct o; try exact H4;
    (intros m Hn; rewrite H4 in Hn; apply filter_In in Hn as [_ Hn]; discriminate).
Qed.

Definition f6_ops (d : list byte) : list op :=
  [Establish; FSendCheck 1; FSendEnq 1 d; Shutdown; RunOne AcceptAll].

Lemma P01_f6_witness :
  exists c e, run (init 1024%N true true) (f6_ops [x61; x62; x63]) = Ok (c, e) /\
    enq c = [(1, [x61; x62; x63])] /\ ran c = [(1, [x61; x62; x63])] /\
    wire c = [] /\ outb c = [] /\ accepted c = [] /\ fin c = true /\ st c = Disconnecting /\
    e = [EvUp; EvFin; EvErrorLogged].
Proof. vm_compute. eexists _, _. repeat split. Qed.

(* the property text read naively: a block whose send() passed the state test while the
   connection was Connected and whose functor has run is in the outbound stream *)
Lemma P01_accepted_delivered_refuted :
  ~ (forall c, reach c -> forall t d, In (t, d) (enq c) -> In (t, d) (ran c) ->
       exists pre post, wire c ++ outb c = pre ++ d ++ post).
Proof.
  intros Hall. destruct P01_f6_witness as (c & e & Hrun & He & Hr & Hw & Ho & _).
  assert (Hreach : reach c) by (eapply run_reach; [apply reach_init|exact Hrun]).
  destruct (Hall c Hreach 1 [x61; x62; x63]) as (pre & post & Heq).
  - rewrite He. left. reflexivity.
  - rewrite Hr. left. reflexivity.
  - rewrite Hw, Ho in Heq. destruct pre; discriminate.
Qed.

Lemma P01_accepted_delivered_partial : forall c, reach c ->
  (forall d k c' e, step c (Send d k) = Ok (c', e) -> st c = Connected -> nonfatal k ->
     accepted c' = accepted c ++ d) /\
  (forall k t d rest c' e, step c (RunOne k) = Ok (c', e) -> pending c = FSend t d :: rest ->
     st c <> Disconnected -> fin c = false -> nonfatal k ->
     accepted c' = accepted c ++ d /\ ran c' = ran c ++ [(t, d)]) /\
  (forall k t d rest c' e, step c (RunOne k) = Ok (c', e) -> pending c = FSend t d :: rest ->
     fin c = true \/ st c = Disconnected ->
     accepted c' = accepted c /\ wire c' = wire c /\ outb c' = outb c /\ ran c' = ran c ++ [(t, d)]).
Proof.
  intros c Hr. pose proof (reach_inv c Hr) as HI. split; [|split].
  - intros d k c' e H Hs Hk. eapply loop_send_accepted; eassumption.
  - intros k t d rest c' e H Hp Hs Hf Hk. eapply foreign_send_accepted; eassumption.
  - intros k t d rest c' e H Hp Hc. eapply foreign_send_dropped; eassumption.
Qed.

(* ======================================================================================== *)
(* Statements used by Properties_C03                                                        *)
(* ======================================================================================== *)
Lemma fin_set_by c o c' e : step c o = Ok (c', e) -> fin c = false -> fin c' = true ->
  shut_op c o = true \/ exists k, o = EvWritable k.
Proof.
  intros H Hf Hf'. unfold shut_op. step_cases H; rw_conds; eauto; congruence.
Qed.

Lemma P03_fin_after_backlog : forall c o c' e, reach c -> step c o = Ok (c', e) ->
  fin c = false -> fin c' = true ->
  In EvFin e /\
  (shut_op c o = true \/ exists k, o = EvWritable k) /\
  (st c' = Connected \/ st c' = Disconnecting ->
   outb c' = [] /\ writing c' = false /\ wire c' = accepted c').
Proof.
  intros c o c' e Hr H Hf Hf'.
  destruct (fin_after_backlog c o c' e (reach_inv c Hr) H Hf Hf') as [H1 H2].
  split; [exact H1|]. split; [eapply fin_set_by; eassumption|exact H2].
Qed.

Lemma P03_no_write_after_fin : forall c, reach c -> fin c = true ->
  st c <> Connected /\
  (forall o c' e, step c o = Ok (c', e) ->
     wire c' = wire c /\ accepted c' = accepted c /\ fin c' = true) /\
  (forall ops c' e, run c ops = Ok (c', e) ->
     wire c' = wire c /\ accepted c' = accepted c /\ fin c' = true).
Proof.
  intros c Hr Hf. pose proof (reach_inv c Hr) as HI. split; [apply (i_fin c HI Hf)|]. split.
  - intros o c' e H. destruct (step_fin_wire c o c' e H Hf) as [H1 H2].
    split; [exact H1|]. split; [eapply step_fin_accepted; eassumption|exact H2].
  - intros ops c' e H. eapply run_after_fin; eassumption.
Qed.

Lemma peer_close_down c : Inv c -> up c -> rd_chan c = true ->
  exists c', step c EvReadEOF = Ok (c', [EvDown]) /\ st c' = Disconnected /\ downs c' = 1 /\ ups c' = 1.
Proof.
  intros HI Hup Hr. unfold step. cbn [user_op andb]. rewrite Hr, (i_reg c HI Hup). cbn [andb].
  unfold handleCloseChecked. rewrite (proj2 (closable_up c) Hup). unfold handleClose.
  eexists. split; [reflexivity|]. projs.
  pose proof (i_updown c HI) as Hud.
  destruct Hup as [E|E]; rewrite E in Hud; destruct Hud as [-> ->]; repeat split; reflexivity.
Qed.

Lemma P03_keeps_receiving : forall c, reach c ->
  (forall o c' e, step c o = Ok (c', e) -> shut_op c o = true ->
     rd_chan c' = rd_chan c /\ rd_flag c' = rd_flag c /\ registered c' = registered c /\
     inb c' = inb c /\ consumed c' = consumed c /\ delivered c' = delivered c /\
     ups c' = ups c /\ downs c' = downs c) /\
  (forall d, st c = Disconnecting -> rd_chan c = true -> d <> [] ->
     exists c', step c (EvReadData d) = Ok (c', [EvMsg (length (inb c ++ d))]) /\
       inb c' = inb c ++ d /\ delivered c' = delivered c ++ d /\ consumed c' = consumed c /\
       st c' = Disconnecting /\ rd_chan c' = true) /\
  (st c = Disconnecting -> rd_chan c = true ->
     exists c', step c EvReadEOF = Ok (c', [EvDown]) /\ st c' = Disconnected /\ downs c' = 1 /\ ups c' = 1).
Proof.
  intros c Hr. pose proof (reach_inv c Hr) as HI. split; [|split].
  - intros o c' e H Hs. eapply shutdown_read_side; eassumption.
  - intros d Hs Hrd Hd.
    assert (Hup : up c) by (right; exact Hs).
    destruct (read_data_accepted c d Hrd (i_reg c HI Hup) Hd) as (c' & H1 & H2 & H3 & H4 & H5 & H6).
    exists c'. rewrite H5. auto 10.
  - intros Hs Hrd. apply peer_close_down; [exact HI|right; exact Hs|exact Hrd].
Qed.

Lemma count_app f e1 e2 : count f (e1 ++ e2) = count f e1 + count f e2.
Proof. unfold count. rewrite filter_app, app_length. reflexivity. Qed.

Lemma run_updown ops : forall c c' e, run c ops = Ok (c', e) ->
  ups c' = ups c + count is_up e /\ downs c' = downs c + count is_down e.
Proof.
  induction ops as [|o ops IH]; intros c c' e H.
  - cbn in H. injection H as <- <-. cbn. lia.
  - apply run_cons in H as (c1 & e1 & e2 & H1 & H2 & ->).
    destruct (IH c1 c' e2 H2) as [Hu Hd]. destruct (step_updown c o c1 e1 H1) as [Hu1 Hd1].
    rewrite !count_app. lia.
Qed.

Lemma P03_up_down_counts : forall c, reach c ->
  ups c <= 1 /\ downs c <= ups c /\
  (ups c = 0 <-> st c = Connecting) /\ (downs c = 1 <-> st c = Disconnected) /\
  forall o c' e, step c o = Ok (c', e) ->
    ups c' = ups c + count is_up e /\ downs c' = downs c + count is_down e.
Proof.
  intros c Hr. pose proof (i_updown c (reach_inv c Hr)) as Hud.
  split; [|split; [|split; [|split]]].
  - destruct (st c); lia.
  - destruct (st c); lia.
  - destruct (st c); split; intros; try lia; try discriminate; reflexivity.
  - destruct (st c); split; intros; try lia; try discriminate; reflexivity.
  - intros o c' e H. eapply step_updown, H.
Qed.

Lemma P03_down_at_most_once : forall mark wc hw ops c e,
  run (init mark wc hw) ops = Ok (c, e) ->
  count is_up e = ups c /\ count is_down e = downs c /\
  count is_up e <= 1 /\ count is_down e <= count is_up e /\
  (count is_down e = 1 <-> st c = Disconnected).
Proof.
  intros mark wc hw ops c e H.
  destruct (run_updown ops _ _ _ H) as [Hu Hd]. cbn [init ups downs] in Hu, Hd.
  assert (Hr : reach c) by (eapply run_reach; [apply reach_init|exact H]).
  destruct (P03_up_down_counts c Hr) as (H1 & H2 & _ & H4 & _).
  cbn in Hu, Hd. rewrite <- Hu, <- Hd. auto.
Qed.

Lemma force_close_stays c o c' e : step c o = Ok (c', e) -> In FForceClose (pending c) ->
  In FForceClose (pending c') \/ exists k rest, o = RunOne k /\ pending c = FForceClose :: rest.
Proof.
  intros H Hin. step_cases H; auto.
  all: try (left; apply in_or_app; left; exact Hin).
  all: try contradiction.
  all: try (destruct Hin as [Hin|Hin]; [discriminate|]; left;
            try (apply in_or_app; left); exact Hin).
  all: eauto.
Qed.

Lemma P03_force_close_once : forall c, reach c -> st c = Connected \/ st c = Disconnecting ->
  step c ForceClose = Ok (set_pending (set_st c Disconnecting) (pending c ++ [FForceClose]), []) /\
  (forall n, delayed c = S n ->
     step c DelayFire =
     Ok (set_aux (set_pending (set_st c Disconnecting) (pending c ++ [FForceClose])) (chk c) n, [])) /\
  (forall k rest, pending c = FForceClose :: rest ->
     exists c', step c (RunOne k) = Ok (c', [EvDown]) /\
       st c' = Disconnected /\ downs c' = 1 /\ ups c' = 1 /\ writing c' = false /\ rd_chan c' = false /\
       pending c' = rest ++ [FDestroy] /\
       wire c' = wire c /\ outb c' = outb c /\ inb c' = inb c /\ fin c' = fin c).
Proof.
  intros c Hr Hup. split; [apply force_close_up, Hup|]. split.
  - intros n Hd. apply delay_fire_up; assumption.
  - intros k rest Hp. apply force_close_runs; [apply reach_inv, Hr|exact Hp|exact Hup].
Qed.

Lemma P03_force_close_pending : forall c o c' e, step c o = Ok (c', e) ->
  In FForceClose (pending c) ->
  In FForceClose (pending c') \/ exists k rest, o = RunOne k /\ pending c = FForceClose :: rest.
Proof. exact force_close_stays. Qed.

Lemma P03_force_close_late : forall c k rest, pending c = FForceClose :: rest -> st c = Disconnected ->
  step c (RunOne k) = Ok (set_pending c rest, []).
Proof. exact force_close_late. Qed.

Lemma P03_force_close_noop_when_down : forall c, st c = Disconnected ->
  step c ForceClose = Ok (c, []) /\
  step c ForceCloseDelay = Ok (c, []) /\
  forall n, delayed c = S n -> step c DelayFire = Ok (set_aux c (chk c) n, []).
Proof.
  intros c Hs. split; [apply force_close_down, Hs|]. split.
  - unfold step, closable. rewrite Hs. reflexivity.
  - intros n Hd. apply delay_fire_down; assumption.
Qed.

Lemma P03_send_after_close_discarded :
  (forall c d k, st c = Disconnecting \/ st c = Disconnected -> step c (Send d k) = Ok (c, [])) /\
  (forall c t c1 e1 ops c2 e2 d,
     step c (FSendCheck t) = Ok (c1, e1) -> st c <> Connected ->
     run c1 ops = Ok (c2, e2) -> ~ In (FSendCheck t) ops ->
     step c2 (FSendEnq t d) = Ok (c2, [])).
Proof. split; [exact send_not_connected|exact foreign_send_late]. Qed.

(* C03's first sentence read naively: at the half-close every block that a send() which
   returned before took (it is in [enq]: state test passed, functor queued) is on the wire *)
Lemma P03_flush_all_accepted_refuted :
  ~ (forall c o c' e, reach c -> step c o = Ok (c', e) -> fin c = false -> fin c' = true ->
       forall t d, In (t, d) (enq c') -> exists pre post, wire c' = pre ++ d ++ post).
Proof.
  intros Hall.
  destruct (run (init 1024%N true true) [Establish; FSendCheck 1; FSendEnq 1 [x61; x62; x63]])
    as [[c e]| |] eqn:E; try (vm_compute in E; discriminate).
  assert (Hr : reach c) by (eapply run_reach; [apply reach_init|exact E]).
  vm_compute in E. injection E as <- _.
  match type of Hr with reach ?c0 => set (c := c0) in * end.
  destruct (step c Shutdown) as [[c' e']| |] eqn:E'; try (vm_compute in E'; discriminate).
  pose proof (Hall c Shutdown c' e' Hr E') as Hx.
  vm_compute in E'. injection E' as <- _.
  destruct (Hx eq_refl eq_refl 1 [x61; x62; x63]) as (pre & post & Heq).
  - left. reflexivity.
  - cbn in Heq. destruct pre; discriminate.
Qed.

Lemma P03_flush_partial : forall c o c' e, reach c -> step c o = Ok (c', e) ->
  fin c = false -> fin c' = true -> st c' = Connected \/ st c' = Disconnecting ->
  wire c' = accepted c' /\ outb c' = [] /\
  (forall ops c2 e2, run c' ops = Ok (c2, e2) ->
     wire c2 = wire c' /\ accepted c2 = accepted c' /\ fin c2 = true).
Proof.
  intros c o c' e Hr H Hf Hf' Hup.
  pose proof (reach_inv c Hr) as HI.
  destruct (fin_after_backlog c o c' e HI H Hf Hf') as [_ Hx]. destruct (Hx Hup) as (Ho & _ & Hw).
  split; [exact Hw|]. split; [exact Ho|].
  intros ops c2 e2 H2. eapply run_after_fin; [eapply step_inv; eassumption|exact H2|exact Hf'].
Qed.

(* ======================================================================================== *)
(* Statements used by Properties_C13                                                        *)
(* ======================================================================================== *)
Lemma send_wc_emptied c o c' e d k p : step c o = Ok (c', e) -> send_of c o = Some (d, k, p) ->
  pending c' = p ++ [FWriteComplete] -> outb c' = [] /\ wire c' = wire c ++ d.
Proof.
  intros H Hs Hp. destruct (send_queues c o c' e d k p H Hs) as (_ & Hwc & _).
  destruct (proj1 Hwc Hp) as (Hh & Ho & Hw & Ht).
  destruct (step_send c o c' e d k p H Hs) as (_ & Ho' & Hw' & _).
  assert (Hwcb : s_wc c d k = true) by (apply s_wc_iff; auto).
  unfold s_wc in Hwcb. apply andb_prop in Hwcb as [Hx _]. apply andb_prop in Hx as [_ Hr].
  apply Nat.eqb_eq in Hr.
  assert (Hq : s_queue c d k = false).
  { unfold s_queue. rewrite Hr. apply andb_false_r. }
  rewrite Hq in Ho'. split; [congruence|].
  rewrite Hw'. f_equal. apply firstn_all2. unfold s_rem in Hr. lia.
Qed.

Lemma P13_wc_iff_emptied : forall c o c' e, step c o = Ok (c', e) ->
  (forall d k p, send_of c o = Some (d, k, p) ->
     (pending c' = p \/ pending c' = p ++ [FWriteComplete] \/
      exists n, pending c' = p ++ [FHighWater n]) /\
     (pending c' = p ++ [FWriteComplete] <->
        has_wc c = true /\ outb c = [] /\ writing c = false /\
        taken (effective c k) (length d) = Some (length d)) /\
     (pending c' = p ++ [FWriteComplete] -> outb c' = [] /\ wire c' = wire c ++ d)) /\
  (forall k, o = EvWritable k ->
     (pending c' = pending c \/ pending c' = pending c ++ [FWriteComplete]) /\
     (pending c' = pending c ++ [FWriteComplete] <->
        has_wc c = true /\ writing c = true /\ outb c <> [] /\ outb c' = [])).
Proof.
  intros c o c' e H. split.
  - intros d k p Hs. destruct (send_queues c o c' e d k p H Hs) as (H1 & H2 & _).
    split; [exact H1|]. split; [exact H2|]. eapply send_wc_emptied; eassumption.
  - intros k ->. apply drain_queues with (k := k) (e := e). exact H.
Qed.

Lemma P13_hwm_iff_crossing : forall c o c' e, step c o = Ok (c', e) ->
  (forall d k p, send_of c o = Some (d, k, p) ->
     (forall n, pending c' = p ++ [FHighWater n] <->
        has_hwm c = true /\
        (N.of_nat (length (outb c)) < hwm c <= N.of_nat (length (outb c')))%N /\
        n = length (outb c')) /\
     (hwm c = 0%N \/ (hwm c <= N.of_nat (length (outb c)))%N ->
        forall n, pending c' <> p ++ [FHighWater n])) /\
  (forall k n, o = EvWritable k -> pending c' <> pending c ++ [FHighWater n]).
Proof.
  intros c o c' e H. split.
  - intros d k p Hs. destruct (send_queues c o c' e d k p H Hs) as (_ & _ & H3).
    split; [exact H3|]. intros Hz n Hp. apply H3 in Hp as (_ & Hlt & _). lia.
  - intros k n -> Hp. destruct (drain_queues c k c' e H) as ([Hx|Hx] & _); rewrite Hx in Hp.
    + symmetry in Hp. apply app_one_neq in Hp. exact Hp.
    + apply app_inv_head in Hp. discriminate.
Qed.

Lemma P13_only_sends_and_drains : forall c o c' e, step c o = Ok (c', e) ->
  send_of c o = None -> (forall k, o <> EvWritable k) ->
  cbs (pending c') = cbs (match o with RunOne _ => tl (pending c) | _ => pending c end).
Proof. exact step_cbs_frame. Qed.

Lemma P13_on_loop_thread :
  (forall c o c' e ev f, step c o = Ok (c', e) -> In ev e -> cb_of ev = Some f ->
     exists k rest, o = RunOne k /\ pending c = f :: rest /\ c' = set_pending c rest /\ e = [ev]) /\
  (forall c k rest, pending c = FWriteComplete :: rest ->
     step c (RunOne k) = Ok (set_pending c rest, [EvWC])) /\
  (forall c k n rest, pending c = FHighWater n :: rest ->
     step c (RunOne k) = Ok (set_pending c rest, [EvHWM n])).
Proof. split; [exact step_cb_events|]. split; [exact runone_wc|exact runone_hwm]. Qed.

Lemma P13_no_repeat_until_below :
  forall c1 o1 c1' e1 d1 k1 p1 n1 ops c2 e o2 c2' e2 d2 k2 p2 n2,
  step c1 o1 = Ok (c1', e1) -> send_of c1 o1 = Some (d1, k1, p1) ->
  pending c1' = p1 ++ [FHighWater n1] ->
  run c1' ops = Ok (c2, e) ->
  step c2 o2 = Ok (c2', e2) -> send_of c2 o2 = Some (d2, k2, p2) ->
  pending c2' = p2 ++ [FHighWater n2] ->
  (hwm c1' <= N.of_nat (length (outb c1')))%N /\ hwm c2 = hwm c1' /\
  (N.of_nat (length (outb c2)) < hwm c2)%N.
Proof.
  intros c1 o1 c1' e1 d1 k1 p1 n1 ops c2 e o2 c2' e2 d2 k2 p2 n2 H1 Hs1 Hp1 Hrun H2 Hs2 Hp2.
  destruct (send_queues _ _ _ _ _ _ _ H1 Hs1) as (_ & _ & Hq1).
  destruct (send_queues _ _ _ _ _ _ _ H2 Hs2) as (_ & _ & Hq2).
  apply Hq1 in Hp1 as (_ & Hc1 & _). apply Hq2 in Hp2 as (_ & Hc2 & _).
  destruct (step_const _ _ _ _ H1) as (Hh & _).
  pose proof (run_hwm ops _ _ _ Hrun) as Hh2. lia.
Qed.
