(* C06_Proofs: invariants of the TimerModel (shared by C06 and C07). *)
From Coq Require Import List ZArith Bool Lia Sorted Arith Permutation.
From Muduo Require Import Gen_Consts Gen_C06 C06_Model.
Import ListNotations.
Local Open Scope Z_scope.

(* ------------------------------------------------------------------ generated facts *)
Lemma gen_floor_val_pos : 0 < TimerQueue_floor_val. Proof. now vm_compute. Qed.
Lemma gen_floor_cmp_pos : 0 < TimerQueue_floor_cmp. Proof. now vm_compute. Qed.
Lemma gen_floor_is_lt : TimerQueue_floor_is_lt = true. Proof. reflexivity. Qed.
Lemma gen_sentry_is_now : TimerQueue_getExpired_sentry_is_now = true. Proof. reflexivity. Qed.
Lemma gen_K_pos : 0 < K. Proof. now vm_compute. Qed.

Ltac splits := repeat match goal with |- _ /\ _ => split end.

(* ------------------------------------------------------------------ keys *)
Lemma keq_iff : forall x y, keq x y = true <-> x = y.
Proof.
  intros [a b] [c d]; unfold keq; cbn [fst snd]. rewrite andb_true_iff, !Z.eqb_eq.
  split; [intros [-> ->]; reflexivity | intros H; inversion H; auto].
Qed.
Lemma keq_false : forall x y, keq x y = false <-> x <> y.
Proof. intros x y. rewrite <- keq_iff. destruct (keq x y); split; congruence. Qed.
Lemma klt_iff : forall x y, klt x y = true <-> (fst x < fst y \/ (fst x = fst y /\ snd x < snd y)).
Proof.
  intros [a b] [c d]; unfold klt; cbn [fst snd].
  rewrite orb_true_iff, andb_true_iff, !Z.ltb_lt, Z.eqb_eq. tauto.
Qed.
Lemma klt_false : forall x y, klt x y = false <-> ~ (fst x < fst y \/ (fst x = fst y /\ snd x < snd y)).
Proof. intros x y. rewrite <- klt_iff. destruct (klt x y); split; congruence. Qed.
Lemma klt_irrefl : forall x, klt x x = false.
Proof. intros x. apply klt_false. lia. Qed.
Lemma klt_trans : forall x y z, klt x y = true -> klt y z = true -> klt x z = true.
Proof. intros x y z. rewrite !klt_iff. lia. Qed.
Lemma klt_total : forall x y, klt x y = false -> x <> y -> klt y x = true.
Proof.
  intros [a b] [c d]. rewrite klt_false, klt_iff. cbn [fst snd]. intros H N.
  assert (~ (a = c /\ b = d)) by (intros [-> ->]; congruence). lia.
Qed.

Definition kltP (x y : key) : Prop := klt x y = true.
Definition Srt (l : list key) : Prop := StronglySorted kltP l.

Lemma Srt_inv : forall x l, Srt (x :: l) -> Srt l /\ Forall (kltP x) l.
Proof. intros x l H. inversion H; auto. Qed.
Lemma Srt_head_notin : forall x l, Srt (x :: l) -> ~ In x l.
Proof.
  intros x l H I. apply Srt_inv in H as [_ F]. rewrite Forall_forall in F.
  specialize (F _ I). unfold kltP in F. rewrite klt_irrefl in F. discriminate.
Qed.
Lemma Srt_NoDup : forall l, Srt l -> NoDup l.
Proof.
  induction l as [|x l IH]; intros H; constructor.
  - apply Srt_head_notin; auto.
  - apply IH. apply Srt_inv in H. tauto.
Qed.

Lemma kmem_iff : forall x l, kmem x l = true <-> In x l.
Proof.
  intros x l. unfold kmem. rewrite existsb_exists. split.
  - intros [y [I E]]. apply keq_iff in E. subst; auto.
  - intros I. exists x. split; auto. apply keq_iff; auto.
Qed.
Lemma kmem_false : forall x l, kmem x l = false <-> ~ In x l.
Proof. intros x l. rewrite <- kmem_iff. destruct (kmem x l); split; congruence. Qed.

Lemma kinsert_spec : forall x l, Srt l ->
  match kinsert x l with
  | Some l' => Srt l' /\ (forall y, In y l' <-> y = x \/ In y l) /\ length l' = S (length l) /\ ~ In x l
  | None => In x l
  end.
Proof.
  intros x l. induction l as [|y r IH]; intros HS; cbn [kinsert].
  - splits.
    + constructor; constructor.
    + intros z; cbn [In]; intuition congruence.
    + reflexivity.
    + intros [].
  - pose proof (Srt_inv _ _ HS) as [Sr F]. destruct (klt x y) eqn:L.
    + splits.
      * constructor; auto. constructor; auto.
        eapply Forall_impl; [|exact F]. intros z Hz. eapply klt_trans; eauto.
      * intros z; cbn [In]; intuition congruence.
      * reflexivity.
      * intros [E|I]; [subst; rewrite klt_irrefl in L; discriminate|].
        rewrite Forall_forall in F. specialize (F _ I).
        unfold kltP in F. pose proof (klt_trans _ _ _ L F) as T. rewrite klt_irrefl in T. discriminate.
    + destruct (keq x y) eqn:E.
      * apply keq_iff in E. subst. left; auto.
      * apply keq_false in E. specialize (IH Sr).
        destruct (kinsert x r) as [r'|].
        -- destruct IH as (S' & M & Ln & NI). splits.
           ++ constructor; auto. rewrite Forall_forall. intros z Iz. apply M in Iz as [->|Iz].
              ** apply klt_total; auto.
              ** rewrite Forall_forall in F; auto.
           ++ intros z; cbn [In]; rewrite M; intuition congruence.
           ++ cbn [length]; lia.
           ++ cbn [In]. intros [->|I]; [congruence | tauto].
        -- right; auto.
Qed.

Lemma kinsert_some : forall x l, Srt l -> ~ In x l -> exists l', kinsert x l = Some l'.
Proof.
  intros x l S N. pose proof (kinsert_spec x l S) as H. destruct (kinsert x l); eauto. tauto.
Qed.

Lemma kerase_spec : forall x l, Srt l ->
  match kerase x l with
  | Some l' => Srt l' /\ (forall y, In y l' <-> In y l /\ y <> x) /\ length l = S (length l') /\ In x l
  | None => ~ In x l
  end.
Proof.
  intros x l. induction l as [|y r IH]; intros HS; cbn [kerase].
  - auto.
  - pose proof (Srt_inv _ _ HS) as [Sr F]. destruct (keq x y) eqn:E.
    + apply keq_iff in E. subst y. splits; auto.
      * intros z; cbn [In]. split.
        -- intros I. split; auto. intros ->. eapply Srt_head_notin; eauto.
        -- intros [[->|I] N]; [congruence|auto].
      * left; auto.
    + apply keq_false in E. specialize (IH Sr). destruct (kerase x r) as [r'|].
      * destruct IH as (S' & M & Ln & I). splits.
        -- constructor; auto. rewrite Forall_forall in *. intros z Iz. apply M in Iz. apply F; tauto.
        -- intros z; cbn [In]; rewrite M; intuition congruence.
        -- cbn [length]; lia.
        -- right; auto.
      * cbn [In]. intros [->|I]; [congruence|tauto].
Qed.

Lemma kerase_some : forall x l, Srt l -> In x l -> exists l', kerase x l = Some l'.
Proof.
  intros x l S I. pose proof (kerase_spec x l S) as H. destruct (kerase x l); eauto. tauto.
Qed.

(* head facts, for the arming invariant *)
Definition hd_dl (l : list key) : option Z := match l with [] => None | (d, _) :: _ => Some d end.

Lemma kinsert_head : forall d a l l', kinsert (d, a) l = Some l' ->
  match l with
  | [] => hd_dl l' = Some d
  | (d0, _) :: _ => if d <? d0 then hd_dl l' = Some d else hd_dl l' = Some d0
  end.
Proof.
  intros d a l l' H. destruct l as [|[d0 a0] r]; cbn [kinsert] in H.
  - inversion H; reflexivity.
  - destruct (klt (d, a) (d0, a0)) eqn:L.
    + inversion H; subst. cbn [hd_dl]. apply klt_iff in L. cbn [fst snd] in L.
      destruct (Z.ltb_spec d d0); auto. f_equal; lia.
    + destruct (keq (d, a) (d0, a0)); [discriminate|].
      destruct (kinsert (d, a) r); [|discriminate]. inversion H; subst. cbn [hd_dl].
      apply klt_false in L. cbn [fst snd] in L. destruct (Z.ltb_spec d d0); auto. lia.
Qed.

Lemma Srt_head_le : forall d a l y, Srt ((d, a) :: l) -> In y ((d, a) :: l) -> d <= fst y.
Proof.
  intros d a l y S [<-|I]; [cbn; lia|].
  apply Srt_inv in S as [_ F]. rewrite Forall_forall in F. specialize (F _ I).
  apply klt_iff in F. cbn [fst snd] in F. lia.
Qed.

Lemma ksplit_spec : forall s l a b, Srt l -> ksplit s l = (a, b) ->
  l = a ++ b /\ Forall (fun y => klt y s = true) a /\
  match b with [] => True | y :: _ => klt y s = false end.
Proof.
  intros s l. induction l as [|y r IH]; intros a b S H; cbn [ksplit] in H.
  - inversion H; subst. auto.
  - destruct (klt y s) eqn:L.
    + destruct (ksplit s r) as [a' b'] eqn:E. inversion H; subst.
      apply Srt_inv in S as [Sr _]. destruct (IH a' b Sr eq_refl) as (E1 & F & R).
      subst r. splits; auto.
    + inversion H; subst. splits; auto.
Qed.

(* ------------------------------------------------------------------ heap *)
Lemma hget_hdel_same : forall a h, hget a (hdel a h) = None.
Proof.
  intros a h. induction h as [|[b o] r IH]; cbn [hdel hget]; auto.
  destruct (Z.eqb_spec a b); auto. cbn [hget]. destruct (Z.eqb_spec a b); [contradiction|auto].
Qed.
Lemma hget_hdel_other : forall a b h, a <> b -> hget b (hdel a h) = hget b h.
Proof.
  intros a b h N. induction h as [|[c o] r IH]; cbn [hdel hget]; auto.
  destruct (Z.eqb_spec a c); subst.
  - destruct (Z.eqb_spec b c); [congruence|auto].
  - cbn [hget]. destruct (Z.eqb_spec b c); auto.
Qed.
Lemma hget_hput_same : forall a o h, hget a (hput a o h) = Some o.
Proof. intros. unfold hput. cbn [hget]. rewrite Z.eqb_refl. reflexivity. Qed.
Lemma hget_hput_other : forall a b o h, a <> b -> hget b (hput a o h) = hget b h.
Proof.
  intros. unfold hput. cbn [hget]. destruct (Z.eqb_spec b a); [congruence|].
  apply hget_hdel_other; auto.
Qed.
Lemma hget_cons_same : forall a o h, hget a ((a, o) :: h) = Some o.
Proof. intros. cbn [hget]. rewrite Z.eqb_refl. reflexivity. Qed.
Lemma hget_cons_other : forall a b o h, a <> b -> hget b ((a, o) :: h) = hget b h.
Proof. intros. cbn [hget]. destruct (Z.eqb_spec b a); [congruence|auto]. Qed.

(* ------------------------------------------------------------------ Hoare-style results *)
Definition good {A} (r : result A) (P : A -> Prop) : Prop :=
  match r with Ok a => P a | Rejected => True | Fault => False end.
Lemma good_bind : forall A B (r : result A) (f : A -> result B) (P : A -> Prop) (Q : B -> Prop),
  good r P -> (forall a, P a -> good (f a) Q) -> good (bind r f) Q.
Proof. intros A B [a| |] f P Q H K; cbn in *; auto. Qed.
Lemma good_weaken : forall A (r : result A) (P Q : A -> Prop),
  good r P -> (forall a, P a -> Q a) -> good r Q.
Proof. intros A [a| |] P Q H K; cbn in *; auto. Qed.
Lemma good_ok : forall A (r : result A) (P : A -> Prop) a, good r P -> r = Ok a -> P a.
Proof. intros. subst. auto. Qed.
Lemma good_nofault : forall A (r : result A) (P : A -> Prop), good r P -> r <> Fault.
Proof. intros A r P H E. subst. auto. Qed.
Lemma good_assert : forall b (Q : unit -> Prop), b = true -> Q tt -> good (assert b) Q.
Proof. intros b Q -> H. exact H. Qed.

(* ------------------------------------------------------------------ the invariant *)
Record InvC (h : heap_t) (ts act : list key) (n : Z) : Prop := {
  i_st : Srt ts;
  i_sa : Srt act;
  i_len : length ts = length act;
  i_ta : forall d a, In (d, a) ts -> exists o, hget a h = Some o /\ o_exp o = d /\ In (a, o_seq o) act;
  i_at : forall a s, In (a, s) act -> exists o, hget a h = Some o /\ o_seq o = s /\ In (o_exp o, a) ts;
  i_hp : forall a o, hget a h = Some o -> 0 < a < PTR_MAX /\ 0 < o_seq o <= n;
  i_sq : forall a b o p, hget a h = Some o -> hget b h = Some p -> o_seq o = o_seq p -> a = b;
  i_pos : forall d a, In (d, a) ts -> 0 < d;
  i_n : 0 <= n }.
Definition Inv (st : state) : Prop := InvC (heap st) (timers st) (active st) (next_seq st).
Definition detc (h : heap_t) (ts : list key) (a : Z) : Prop :=
  (exists o, hget a h = Some o /\ 0 < o_exp o) /\ forall d, ~ In (d, a) ts.
Definition det (st : state) (a : Z) : Prop := detc (heap st) (timers st) a.
Definition DInvC (h : heap_t) (ts : list key) (Y : list Z) : Prop := NoDup Y /\ forall a, In a Y -> detc h ts a.
Definition DInv (st : state) (Y : list Z) : Prop := DInvC (heap st) (timers st) Y.
(* a sequence number that was issued and whose Timer object is dead *)
Definition gonec (h : heap_t) (n s : Z) : Prop := s <= n /\ forall a o, hget a h = Some o -> o_seq o <> s.
Definition gone (st : state) (s : Z) : Prop := gonec (heap st) (next_seq st) s.

Lemma DInvC_perm : forall h ts Y Y', Permutation Y Y' -> DInvC h ts Y -> DInvC h ts Y'.
Proof.
  intros h ts Y Y' P [N D]. split; [eapply Permutation_NoDup; eauto|].
  intros a Ha. apply D. eapply Permutation_in; [apply Permutation_sym|]; eauto.
Qed.
Lemma DInvC_sub : forall h ts ts' Y, DInvC h ts Y -> (forall k, In k ts' -> In k ts) -> DInvC h ts' Y.
Proof.
  intros h ts ts' Y [N D] Sub. split; auto. intros a Ha. destruct (D _ Ha) as [G ND]. split; auto.
  intros d Hd. eapply ND; eauto.
Qed.

Lemma inv_init : forall c, Inv (init c).
Proof.
  intros c. constructor; cbn; try (constructor; fail); try reflexivity; try lia; intros; try contradiction; discriminate.
Qed.

Lemma inv_insert : forall h ts act n a o, InvC h ts act n -> hget a h = Some o ->
  (forall d, ~ In (d, a) ts) -> 0 < o_exp o ->
  exists ts' act', kinsert (o_exp o, a) ts = Some ts' /\ kinsert (a, o_seq o) act = Some act' /\
    InvC h ts' act' n /\ (forall k, In k ts' <-> k = (o_exp o, a) \/ In k ts).
Proof.
  intros h ts act n a o I G ND P. destruct I.
  assert (NA : ~ In (a, o_seq o) act).
  { intros HI. apply i_at0 in HI as (o' & G' & _ & HI). eapply ND; eauto. }
  pose proof (kinsert_spec (o_exp o, a) ts i_st0) as K1.
  pose proof (kinsert_spec (a, o_seq o) act i_sa0) as K2.
  destruct (kinsert (o_exp o, a) ts) as [ts'|]; [|exfalso; eapply ND; eauto].
  destruct (kinsert (a, o_seq o) act) as [act'|]; [|contradiction].
  destruct K1 as (S1 & M1 & L1 & _). destruct K2 as (S2 & M2 & L2 & _).
  exists ts', act'. splits; auto. constructor; auto.
  - lia.
  - intros d b HI. apply M1 in HI as [E|HI].
    + inversion E; subst. exists o. splits; auto. apply M2; auto.
    + apply i_ta0 in HI as (o' & ? & ? & ?). exists o'. splits; auto. apply M2; auto.
  - intros b s HI. apply M2 in HI as [E|HI].
    + inversion E; subst. exists o. splits; auto. apply M1; auto.
    + apply i_at0 in HI as (o' & ? & ? & ?). exists o'. splits; auto. apply M1; auto.
  - intros d b HI. apply M1 in HI as [E|HI]; [inversion E; subst; auto | eauto].
Qed.

Lemma inv_erase : forall h ts act n a s, InvC h ts act n -> In (a, s) act ->
  exists o ts' act', hget a h = Some o /\ kerase (o_exp o, a) ts = Some ts' /\ kerase (a, s) act = Some act' /\
    InvC (hdel a h) ts' act' n /\ (forall k, In k ts' <-> In k ts /\ k <> (o_exp o, a)) /\ In (o_exp o, a) ts.
Proof.
  intros h ts act n a s I HA. destruct I.
  destruct (i_at0 _ _ HA) as (o & G & Sq & HT).
  pose proof (kerase_spec (o_exp o, a) ts i_st0) as K1.
  pose proof (kerase_spec (a, s) act i_sa0) as K2.
  destruct (kerase (o_exp o, a) ts) as [ts'|] eqn:E1; [|contradiction].
  destruct (kerase (a, s) act) as [act'|] eqn:E2; [|contradiction].
  destruct K1 as (S1 & M1 & L1 & _). destruct K2 as (S2 & M2 & L2 & _).
  exists o, ts', act'. splits; auto. constructor; auto.
  - lia.
  - intros d b HI. apply M1 in HI as [HI NE].
    destruct (i_ta0 _ _ HI) as (o' & G' & E' & HA').
    assert (b <> a) by (intros ->; rewrite G in G'; inversion G'; subst; congruence).
    exists o'. splits; auto. rewrite hget_hdel_other; auto. apply M2. split; auto. congruence.
  - intros b s' HI. apply M2 in HI as [HI NE].
    destruct (i_at0 _ _ HI) as (o' & G' & E' & HT').
    assert (b <> a) by (intros ->; rewrite G in G'; inversion G'; subst; congruence).
    exists o'. splits; auto. rewrite hget_hdel_other; auto. apply M1. split; auto. congruence.
  - intros b o' G'. destruct (Z.eq_dec a b) as [->|N]; [rewrite hget_hdel_same in G'; discriminate|].
    rewrite hget_hdel_other in G'; eauto.
  - intros b c o' p G1 G2. destruct (Z.eq_dec a b) as [->|N1]; [rewrite hget_hdel_same in G1; discriminate|].
    destruct (Z.eq_dec a c) as [->|N2]; [rewrite hget_hdel_same in G2; discriminate|].
    rewrite hget_hdel_other in G1, G2; eauto.
  - intros d b HI. apply M1 in HI as [HI _]. eauto.
Qed.

Lemma inv_hdel_det : forall h ts act n a, InvC h ts act n -> (forall d, ~ In (d, a) ts) ->
  InvC (hdel a h) ts act n.
Proof.
  intros h ts act n a I ND. destruct I. constructor; auto.
  - intros d b HI. destruct (i_ta0 _ _ HI) as (o' & G' & E' & HA').
    assert (b <> a) by (intros ->; eapply ND; eauto).
    exists o'. splits; auto. rewrite hget_hdel_other; auto.
  - intros b s HI. destruct (i_at0 _ _ HI) as (o' & G' & E' & HT').
    assert (b <> a) by (intros ->; eapply ND; eauto).
    exists o'. splits; auto. rewrite hget_hdel_other; auto.
  - intros b o' G'. destruct (Z.eq_dec a b) as [->|N]; [rewrite hget_hdel_same in G'; discriminate|].
    rewrite hget_hdel_other in G'; eauto.
  - intros b c o' p G1 G2. destruct (Z.eq_dec a b) as [->|N1]; [rewrite hget_hdel_same in G1; discriminate|].
    destruct (Z.eq_dec a c) as [->|N2]; [rewrite hget_hdel_same in G2; discriminate|].
    rewrite hget_hdel_other in G1, G2; eauto.
Qed.

Lemma inv_hput_det : forall h ts act n a o e, InvC h ts act n -> hget a h = Some o ->
  (forall d, ~ In (d, a) ts) -> InvC (hput a (mkT (o_seq o) e (o_iv o)) h) ts act n.
Proof.
  intros h ts act n a o e I G ND. destruct I. constructor; auto.
  - intros d b HI. destruct (i_ta0 _ _ HI) as (o' & G' & E' & HA').
    assert (a <> b) by (intros ->; eapply ND; eauto).
    exists o'. splits; auto. rewrite hget_hput_other; auto.
  - intros b s HI. destruct (i_at0 _ _ HI) as (o' & G' & E' & HT').
    assert (a <> b) by (intros ->; eapply ND; eauto).
    exists o'. splits; auto. rewrite hget_hput_other; auto.
  - intros b o' G'. destruct (Z.eq_dec a b) as [->|N].
    + rewrite hget_hput_same in G'. inversion G'; subst. cbn [o_seq]. eauto.
    + rewrite hget_hput_other in G'; eauto.
  - intros b c o' p G1 G2 E.
    destruct (Z.eq_dec a b) as [->|N1]; destruct (Z.eq_dec b c) as [->|N2]; auto.
    + rewrite hget_hput_same in G1. inversion G1; subst. cbn [o_seq] in E.
      rewrite hget_hput_other in G2; eauto.
    + subst. destruct (Z.eq_dec a c) as [->|N3].
      * rewrite hget_hput_same in G2. inversion G2; subst. cbn [o_seq] in E.
        rewrite hget_hput_other in G1 by auto. symmetry; eauto.
      * rewrite hget_hput_other in G1, G2; eauto.
Qed.

Lemma inv_alloc : forall h ts act n a w iv, InvC h ts act n -> hget a h = None -> 0 < a < PTR_MAX ->
  InvC ((a, mkT (n + 1) w iv) :: h) ts act (n + 1).
Proof.
  intros h ts act n a w iv I G R. destruct I. constructor; auto; try lia.
  - intros d b HI. destruct (i_ta0 _ _ HI) as (o' & G' & E' & HA').
    assert (a <> b) by (intros ->; congruence).
    exists o'. splits; auto. rewrite hget_cons_other; auto.
  - intros b s HI. destruct (i_at0 _ _ HI) as (o' & G' & E' & HT').
    assert (a <> b) by (intros ->; congruence).
    exists o'. splits; auto. rewrite hget_cons_other; auto.
  - intros b o' G'. destruct (Z.eq_dec a b) as [->|N].
    + rewrite hget_cons_same in G'. inversion G'; subst. cbn [o_seq]. lia.
    + rewrite hget_cons_other in G'; auto. apply i_hp0 in G'. lia.
  - intros b c o' p G1 G2 E.
    destruct (Z.eq_dec a b) as [E1|N1]; destruct (Z.eq_dec a c) as [E2|N2]; try congruence.
    + subst b. rewrite hget_cons_same in G1. inversion G1; subst o'. cbn [o_seq] in E.
      rewrite hget_cons_other in G2 by auto. apply i_hp0 in G2. lia.
    + subst c. rewrite hget_cons_same in G2. inversion G2; subst p. cbn [o_seq] in E.
      rewrite hget_cons_other in G1 by auto. apply i_hp0 in G1. lia.
    + rewrite hget_cons_other in G1, G2 by auto. eauto.
Qed.

Lemma inv_pop : forall h d a ts act n, InvC h ((d, a) :: ts) act n ->
  exists o act', hget a h = Some o /\ o_exp o = d /\ kerase (a, o_seq o) act = Some act' /\
    InvC h ts act' n /\ (forall d', ~ In (d', a) ts).
Proof.
  intros h d a ts act n I. destruct I.
  destruct (i_ta0 d a (or_introl eq_refl)) as (o & G & E & HA).
  pose proof (kerase_spec (a, o_seq o) act i_sa0) as K2.
  destruct (kerase (a, o_seq o) act) as [act'|] eqn:E2; [|contradiction].
  destruct K2 as (S2 & M2 & L2 & _).
  assert (ND : forall d', ~ In (d', a) ts).
  { intros d' HI. destruct (i_ta0 d' a (or_intror HI)) as (o' & G' & E' & _).
    rewrite G in G'. inversion G'; subst o'. subst. eapply Srt_head_notin; eauto. }
  exists o, act'. splits; auto. pose proof (Srt_inv _ _ i_st0) as [St _]. constructor; auto.
  - cbn [length] in i_len0. lia.
  - intros d' b HI. destruct (i_ta0 d' b (or_intror HI)) as (o' & G' & E' & HA').
    exists o'. splits; auto. apply M2. split; auto. intros Eq. inversion Eq; subst. eapply ND; eauto.
  - intros b s HI. apply M2 in HI as [HI NE].
    destruct (i_at0 _ _ HI) as (o' & G' & E' & [Eq|HT']).
    + inversion Eq; subst. rewrite G in G'. inversion G'; subst. congruence.
    + exists o'. splits; auto.
  - intros d' b HI. eapply i_pos0. right; eauto.
Qed.

(* frames for detached addresses and for dead sequence numbers *)
Lemma detc_hdel : forall h ts ts' a b, detc h ts b -> a <> b -> (forall k, In k ts' -> In k ts) -> detc (hdel a h) ts' b.
Proof.
  intros h ts ts' a b [[o [G P]] ND] N Sub. split; [exists o; rewrite hget_hdel_other; auto|].
  intros d HI. eapply ND; eauto.
Qed.
Lemma gonec_hdel : forall h n s a, gonec h n s -> gonec (hdel a h) n s.
Proof.
  intros h n s a [L G]. split; auto. intros b o Gb.
  destruct (Z.eq_dec a b) as [->|N]; [rewrite hget_hdel_same in Gb; discriminate|].
  rewrite hget_hdel_other in Gb; eauto.
Qed.

(* ------------------------------------------------------------------ arming *)
Definition armed_okc (ts : list key) (ar : option Z) (at_ : Z) : Prop :=
  forall d, hd_dl ts = Some d -> exists a, ar = Some a /\ a <= Z.max d (at_ + TimerQueue_floor_val).
Definition armed_ok (st : state) : Prop := armed_okc (timers st) (armed st) (arm_at st).

Lemma how_much_eq : forall st w,
  how_much st w = if w - clk st <? TimerQueue_floor_cmp then TimerQueue_floor_val else w - clk st.
Proof.
  intros st w. unfold how_much. set (us := if w - clk st <? TimerQueue_floor_cmp then _ else _).
  rewrite Z.quot_mul by lia. pose proof (Z.quot_rem' us K). lia.
Qed.

Lemma reset_timerfd_spec : forall st w, exists a,
  fst (reset_timerfd st w) = set_arm st (Some a) (clk st) /\ a <= Z.max w (clk st + TimerQueue_floor_val).
Proof.
  intros st w. unfold reset_timerfd. cbn [fst]. rewrite how_much_eq.
  pose proof gen_floor_val_pos. pose proof gen_floor_cmp_pos. unfold settime.
  destruct (Z.ltb_spec (w - clk st) TimerQueue_floor_cmp).
  - destruct (Z.eqb_spec TimerQueue_floor_val 0); [lia|]. destruct (Z.ltb_spec TimerQueue_floor_val 0); [lia|].
    eexists. split; [reflexivity|]. lia.
  - destruct (Z.eqb_spec (w - clk st) 0); [lia|]. destruct (Z.ltb_spec (w - clk st) 0); [lia|].
    eexists. split; [reflexivity|]. lia.
Qed.

Lemma kerase_head : forall x l l', Srt l -> kerase x l = Some l' ->
  forall d', hd_dl l' = Some d' -> exists d, hd_dl l = Some d /\ d <= d'.
Proof.
  intros x l l' HS E d' H. pose proof (kerase_spec x l HS) as K. rewrite E in K.
  destruct K as (_ & M & _ & _). destruct l' as [|[d1 a1] r]; [discriminate|]. cbn [hd_dl] in H. inversion H; subst.
  assert (I : In (d', a1) l) by (apply M; left; auto).
  destruct l as [|[d a] l0]; [contradiction|]. exists d. split; auto.
  apply (Srt_head_le d a l0 (d', a1) HS I).
Qed.

(* ------------------------------------------------------------------ pending adds *)
Fixpoint padds (l : list pfun) : list Z :=
  match l with [] => [] | PAdd a :: r => a :: padds r | PCancel _ _ :: r => padds r | PUser _ :: r => padds r end.
Lemma padds_app : forall l1 l2, padds (l1 ++ l2) = padds l1 ++ padds l2.
Proof. induction l1 as [|[a|a s|cs] r IH]; intros; cbn [padds app]; rewrite ?IH; auto. Qed.
(* the Timer objects that are alive but in neither set: queued adds, and adds still in flight *)
Definition detq (st : state) : list Z := padds (pending st) ++ inflight st.
Lemma zmem_iff : forall a l, zmem a l = true <-> In a l.
Proof.
  intros a l. induction l as [|b r IH]; cbn [zmem In]; [split; [discriminate|tauto]|].
  rewrite orb_true_iff, Z.eqb_eq, IH. intuition congruence.
Qed.
Lemma zremove_perm : forall a l, In a l -> Permutation l (a :: zremove a l).
Proof.
  intros a l. induction l as [|b r IH]; intros H; [contradiction|]. cbn [zremove].
  destruct (Z.eqb_spec a b) as [->|N]; [apply Permutation_refl|].
  destruct H as [E|H]; [congruence|]. eapply Permutation_trans; [apply perm_skip; apply IH; auto|]. apply perm_swap.
Qed.
Lemma NoDup_snoc : forall (l : list Z) a, NoDup l -> ~ In a l -> NoDup (l ++ [a]).
Proof.
  induction l as [|x l IH]; intros a N I; cbn [app].
  - constructor; auto.
  - inversion N; subst. constructor.
    + rewrite in_app_iff. cbn [In]. intros [H|[H|[]]]; [auto | subst; apply I; left; auto].
    + apply IH; auto. intros H; apply I; right; auto.
Qed.

(* ------------------------------------------------------------------ members *)
Lemma sizes_agree_inv : forall st, Inv st -> sizes_agree st = true.
Proof. intros st I. unfold sizes_agree. rewrite (i_len _ _ _ _ I). apply Nat.eqb_refl. Qed.

Lemma insert_shape : forall st a o, Inv st -> hget a (heap st) = Some o ->
  (forall d, ~ In (d, a) (timers st)) -> 0 < o_exp o ->
  exists t' a', insert st a = Ok (set_sets st t' a', match timers st with [] => true | (d, _) :: _ => o_exp o <? d end) /\
    InvC (heap st) t' a' (next_seq st) /\ (forall k, In k t' <-> k = (o_exp o, a) \/ In k (timers st)) /\
    kinsert (o_exp o, a) (timers st) = Some t'.
Proof.
  intros st a o I G ND P. destruct (inv_insert _ _ _ _ _ _ I G ND P) as (t' & a' & K1 & K2 & I' & M).
  exists t', a'. unfold insert. rewrite (sizes_agree_inv _ I). cbn [assert bind]. unfold deref. rewrite G. cbn [bind].
  rewrite K1, K2. auto.
Qed.

Definition frame (st st' : state) : Prop :=
  calling st' = calling st /\ pending st' = pending st /\ next_seq st' = next_seq st /\ clk st' = clk st /\
  inflight st' = inflight st.

Lemma add_in_loop_good : forall st a o Y, Inv st -> hget a (heap st) = Some o ->
  (forall d, ~ In (d, a) (timers st)) -> 0 < o_exp o -> DInv st Y -> ~ In a Y ->
  good (add_in_loop st a) (fun r => Inv (fst r) /\ DInv (fst r) Y /\ (armed_ok st -> armed_ok (fst r)) /\
                                    frame st (fst r) /\ heap (fst r) = heap st /\ canceling (fst r) = canceling st).
Proof.
  intros st a o Y I G ND P [NY DY] NI.
  destruct (insert_shape _ _ _ I G ND P) as (t' & a' & E & I' & M & KI).
  unfold add_in_loop. rewrite E. cbn [bind].
  assert (D' : DInvC (heap st) t' Y).
  { split; auto. intros b Hb. destruct (DY _ Hb) as [Gb NDb]. split; auto.
    intros d Hd. apply M in Hd as [Eq|Hd]; [inversion Eq; subst; auto | eapply NDb; eauto]. }
  pose proof (kinsert_head _ _ _ _ KI) as HD.
  destruct (timers st) as [|[d0 a0] r] eqn:ET.
  - unfold deref. cbn [set_sets heap]. rewrite G. cbn [bind good].
    destruct (reset_timerfd_spec (set_sets st t' a') (o_exp o)) as (x & Ex & Lx).
    rewrite Ex. cbn. splits; auto; try (unfold frame; cbn; auto; fail).
    unfold armed_ok, armed_okc. cbn. intros _ d Hd. rewrite HD in Hd. inversion Hd; subst. eauto.
  - destruct (Z.ltb_spec (o_exp o) d0).
    + unfold deref. cbn [set_sets heap]. rewrite G. cbn [bind good].
      destruct (reset_timerfd_spec (set_sets st t' a') (o_exp o)) as (x & Ex & Lx).
      rewrite Ex. cbn. splits; auto; try (unfold frame; cbn; auto; fail).
      unfold armed_ok, armed_okc. cbn. intros _ d Hd. rewrite HD in Hd. inversion Hd; subst. eauto.
    + cbn. splits; auto; try (unfold frame; cbn; auto; fail).
      unfold armed_ok, armed_okc. cbn. rewrite ET. intros A d Hd. rewrite HD in Hd. inversion Hd; subst.
      apply A. reflexivity.
Qed.

Lemma cancel_good : forall st a s Y, Inv st -> DInv st Y ->
  good (cancel_in_loop st a s) (fun st' => Inv st' /\ DInv st' Y /\ (armed_ok st -> armed_ok st') /\ frame st st').
Proof.
  intros st a s Y I [NY DY]. unfold cancel_in_loop. rewrite (sizes_agree_inv _ I). cbn [assert bind].
  destruct (kmem (a, s) (active st)) eqn:KM.
  - apply kmem_iff in KM. destruct (inv_erase _ _ _ _ _ _ I KM) as (o & t' & a' & G & K1 & K2 & I' & M & HT).
    unfold deref. rewrite G. cbn [bind]. rewrite K1, K2. cbn. splits; auto.
    + split; auto. intros b Hb. destruct (DY _ Hb) as [Gb NDb].
      assert (a <> b) by (intros ->; eapply NDb; eauto).
      cbn. apply detc_hdel with (ts := timers st); [split; auto | auto | intros k Hk; apply M in Hk; tauto].
    + unfold armed_ok, armed_okc. cbn. intros A d' Hd'.
      destruct (kerase_head _ _ _ (i_st _ _ _ _ I) K1 _ Hd') as (d & Hd & Le).
      destruct (A _ Hd) as (x & Ex & Lx). exists x. split; auto. lia.
    + unfold frame; cbn; auto.
  - destruct (calling st); cbn; splits; auto; try (split; auto; fail); unfold frame; cbn; auto.
Qed.

Lemma alloc_ok : forall st w iv a st' s Y, Inv st -> DInv st Y -> alloc st w iv a = Ok (st', s) ->
  Inv st' /\ hget a (heap st') = Some (mkT s w iv) /\ (forall d, ~ In (d, a) (timers st')) /\ 0 < w /\
  DInv st' Y /\ ~ In a Y /\ timers st' = timers st /\ armed st' = armed st /\ arm_at st' = arm_at st /\
  calling st' = calling st /\ pending st' = pending st /\ s = next_seq st + 1 /\ next_seq st' = s /\ clk st' = clk st /\
  canceling st' = canceling st /\ hget a (heap st) = None /\ inflight st' = inflight st.
Proof.
  intros st w iv a st' s Y I [NY DY] H. unfold alloc in H.
  destruct (0 <? a) eqn:E1; [|discriminate]. destruct (a <? PTR_MAX) eqn:E2; [|discriminate].
  destruct (0 <? w) eqn:E3; [|discriminate]. destruct (hget a (heap st)) eqn:G; [discriminate|].
  cbn [andb] in H. inversion H; subst; clear H. apply Z.ltb_lt in E1, E2, E3.
  cbn. splits; auto.
  - apply inv_alloc; auto.
  - rewrite Z.eqb_refl; auto.
  - intros d Hd. destruct (i_ta _ _ _ _ I _ _ Hd) as (o & Go & _). congruence.
  - split; auto. intros b Hb. destruct (DY _ Hb) as [[o [Gb Pb]] NDb]. split; auto.
    exists o. cbn [heap set_seq set_heap]. rewrite hget_cons_other; auto. intros ->; congruence.
  - intros Hb. destruct (DY _ Hb) as [[o [Gb _]] _]. congruence.
Qed.

Lemma alloc_nofault : forall st w iv a, alloc st w iv a <> Fault.
Proof. intros. unfold alloc. destruct (_ && _); discriminate. Qed.

Definition cbpost (X : list Z) (st : state) (r : state * list event) : Prop :=
  Inv (fst r) /\ DInv (fst r) (X ++ detq (fst r)) /\ (armed_ok st -> armed_ok (fst r)) /\
  calling (fst r) = calling st.

Lemma cb_step_good : forall st c X, Inv st -> DInv st (X ++ detq st) ->
  good (cb_step st c) (cbpost X st).
Proof.
  intros st c X I D. unfold cbpost. destruct c as [d|w iv a|a s|w iv a|a s|w iv a|a|cs]; cbn [cb_step].
  - destruct (d <? 0); cbn; auto; splits; auto.
  - destruct (alloc st w iv a) as [[st1 s]| |] eqn:EA; cbn [bind good]; auto; [|eapply alloc_nofault; eauto].
    destruct (alloc_ok _ _ _ _ _ _ _ I D EA) as (I1 & G1 & ND1 & Pw & D1 & NI & ET & EAr & EAt & EC & EP & Es & _ & _ & _ & _ & EI).
    pose proof (add_in_loop_good st1 a _ _ I1 G1 ND1 Pw D1 NI) as GA.
    destruct (add_in_loop st1 a) as [[st2 ev]| |]; cbn [bind good] in *; auto.
    destruct GA as (I2 & D2 & A2 & (F1 & F2 & F3 & F4 & F5) & _). cbn [fst] in *. splits; auto.
    + unfold detq in *. rewrite F2, F5, EP, EI; auto.
    + intros A. apply A2. unfold armed_ok in *. rewrite ET, EAr, EAt. auto.
    + congruence.
  - pose proof (cancel_good st a s _ I D) as GC.
    destruct (cancel_in_loop st a s) as [st1| |]; cbn [bind good] in *; auto.
    destruct GC as (I1 & D1 & A1 & (F1 & F2 & F3 & F4 & F5)). cbn [fst]. splits; auto. unfold detq in *. rewrite F2, F5; auto.
  - destruct (alloc st w iv a) as [[st1 s]| |] eqn:EA; cbn [bind good]; auto; [|eapply alloc_nofault; eauto].
    destruct (alloc_ok _ _ _ _ _ _ _ I D EA) as (I1 & G1 & ND1 & Pw & D1 & NI & ET & EAr & EAt & EC & EP & Es & _ & _ & _ & _ & EI).
    cbn. splits; auto.
    + unfold detq in *. cbn [pending inflight set_pending]. rewrite EP, EI.
      apply DInvC_perm with (Y := (X ++ padds (pending st) ++ inflight st) ++ [a]).
      * rewrite padds_app. cbn [padds]. rewrite <- !app_assoc. apply Permutation_app_head. apply Permutation_app_head.
        apply Permutation_app_comm.
      * destruct D1 as [N1 Dt1]. split.
        -- apply NoDup_snoc; auto.
        -- intros b Hb. apply in_app_iff in Hb as [Hb|[<-|[]]]; auto. split; auto. eexists; split; eauto.
    + unfold armed_ok in *. cbn. rewrite ET, EAr, EAt. auto.
  - cbn. splits; auto. unfold detq in *. cbn [pending inflight set_pending]. rewrite padds_app. cbn [padds]. rewrite app_nil_r. auto.
  - (* CFNew: new Timer by a foreign thread, not yet handed off *)
    destruct (alloc st w iv a) as [[st1 s]| |] eqn:EA; cbn [bind good]; auto; [|eapply alloc_nofault; eauto].
    destruct (alloc_ok _ _ _ _ _ _ _ I D EA) as (I1 & G1 & ND1 & Pw & D1 & NI & ET & EAr & EAt & EC & EP & Es & _ & _ & _ & _ & EI).
    cbn. splits; auto.
    + unfold detq in *. cbn [pending inflight set_inflight]. rewrite EP, EI.
      replace (X ++ padds (pending st) ++ inflight st ++ [a]) with ((X ++ padds (pending st) ++ inflight st) ++ [a])
        by (rewrite <- !app_assoc; reflexivity).
      destruct D1 as [N1 Dt1]. split.
      * apply NoDup_snoc; auto.
      * intros b Hb. apply in_app_iff in Hb as [Hb|[<-|[]]]; auto. split; auto. eexists; split; eauto.
    + unfold armed_ok in *. cbn. rewrite ET, EAr, EAt. auto.
  - (* CFEnq: the hand-off *)
    destruct (zmem a (inflight st)) eqn:ZM; cbn [good]; auto. apply zmem_iff in ZM.
    cbn. splits; auto. unfold detq in *. cbn [pending inflight set_pending set_inflight].
    eapply DInvC_perm; [|exact D]. apply Permutation_app_head. rewrite padds_app. cbn [padds]. rewrite <- app_assoc.
    apply Permutation_app_head. cbn [app]. apply zremove_perm; auto.
  - cbn. splits; auto. unfold detq in *. cbn [pending inflight set_pending]. rewrite padds_app. cbn [padds]. rewrite app_nil_r. auto.
Qed.

Lemma cbpost_trans : forall X st st1 e1 r, cbpost X st (st1, e1) -> cbpost X st1 r -> forall e, cbpost X st (fst r, e).
Proof.
  unfold cbpost. intros X st st1 e1 r (I1 & D1 & A1 & C1) (I2 & D2 & A2 & C2) e. cbn [fst] in *.
  splits; auto. congruence.
Qed.

Lemma cb_run_good : forall cs st X, Inv st -> DInv st (X ++ detq st) ->
  good (cb_run st cs) (cbpost X st).
Proof.
  induction cs as [|c r IH]; intros st X I D; cbn [cb_run].
  - cbn. unfold cbpost. cbn. splits; auto.
  - pose proof (cb_step_good st c X I D) as G1.
    destruct (cb_step st c) as [[st1 e1]| |]; cbn [good] in G1; [| |contradiction].
    + pose proof G1 as (I1 & D1 & _). cbn [fst] in *. specialize (IH st1 X I1 D1).
      destruct (cb_run st1 r) as [[st2 e2]| |]; cbn [bind good] in *; auto.
      eapply (cbpost_trans X st st1 e1 (st2, e2)); eauto.
    + specialize (IH st X I D).
      destruct (cb_run st r) as [[st2 e2]| |]; cbn [bind good] in *; auto.
Qed.

(* ------------------------------------------------------------------ handleRead *)
Lemma unactivate_good : forall ex st rest act n P, InvC (heap st) (ex ++ rest) act n ->
  DInvC (heap st) (ex ++ rest) P ->
  good (unactivate st ex act) (fun act' => InvC (heap st) rest act' n /\ DInvC (heap st) rest (P ++ map snd ex)).
Proof.
  induction ex as [|[d a] ex IH]; intros st rest act n P I D; cbn [unactivate].
  - cbn. rewrite app_nil_r. auto.
  - cbn [app] in I, D. destruct (inv_pop _ _ _ _ _ _ I) as (o & act1 & G & Ed & K & I1 & ND).
    unfold deref. rewrite G. cbn [bind]. rewrite K.
    assert (D1 : DInvC (heap st) (ex ++ rest) (P ++ [a])).
    { destruct D as [N Dt]. split.
      - apply NoDup_snoc; auto. intros Ha. destruct (Dt _ Ha) as [_ NDa]. eapply NDa. left; eauto.
      - intros b Hb. apply in_app_iff in Hb as [Hb|[<-|[]]].
        + destruct (Dt _ Hb) as [Gb NDb]. split; auto. intros d' Hd'. eapply NDb. right; eauto.
        + split; auto. exists o. split; auto. rewrite Ed. eapply (i_pos _ _ _ _ I). left; eauto. }
    specialize (IH st rest act1 n (P ++ [a]) I1 D1).
    eapply good_weaken; [exact IH|]. cbn beta. intros act' [I2 D2]. split; auto.
    cbn [map snd]. rewrite <- app_assoc in D2. exact D2.
Qed.

Lemma run_cbs_good : forall ex st script now X, Inv st -> DInv st (X ++ detq st) ->
  incl (map snd ex) X ->
  good (run_cbs st ex script now) (fun r => Inv (fst r) /\ DInv (fst r) (X ++ detq (fst r)) /\
                                            calling (fst r) = calling st).
Proof.
  induction ex as [|[d a] ex IH]; intros st script now X I D Sub; cbn [run_cbs].
  - cbn. auto.
  - assert (Ha : In a (X ++ detq st)) by (apply in_or_app; left; apply Sub; left; auto).
    destruct D as [N Dt]. destruct (Dt _ Ha) as [[o [G _]] _].
    unfold deref. rewrite G. cbn [bind].
    pose proof (cb_run_good (hd [] script) st X I (conj N Dt)) as G1.
    destruct (cb_run st (hd [] script)) as [[st1 e1]| |]; cbn [bind good] in *; auto.
    destruct G1 as (I1 & D1 & _ & C1). cbn [fst] in *.
    assert (Sub' : incl (map snd ex) X) by (intros x Hx; apply Sub; right; auto).
    specialize (IH st1 (tl script) now X I1 D1 Sub').
    destruct (run_cbs st1 ex (tl script) now) as [[st2 e2]| |]; cbn [bind good] in *; auto.
    destruct IH as (I2 & D2 & C2). cbn [fst] in *. splits; auto. congruence.
Qed.

Lemma frame_refl : forall st, frame st st. Proof. intros; unfold frame; auto 10. Qed.
Lemma frame_trans : forall a b c, frame a b -> frame b c -> frame a c.
Proof. unfold frame. intros a b c (A1 & A2 & A3 & A4 & A5) (B1 & B2 & B3 & B4 & B5). splits; congruence. Qed.

Lemma reset_loop_good : forall ex st now P, Inv st -> DInv st (map snd ex ++ P) -> (ex <> [] -> 0 < now) ->
  good (reset_loop st ex now) (fun st' => Inv st' /\ DInv st' P /\ frame st st').
Proof.
  induction ex as [|[d a] ex IH]; intros st now P I D Pn; cbn [reset_loop].
  - cbn. splits; auto. apply frame_refl.
  - cbn [map snd app] in D. destruct D as [N Dt]. inversion N as [|x l NIa N']; subst.
    destruct (Dt a (or_introl eq_refl)) as [[o [G Po]] ND].
    assert (Pnow : 0 < now) by (apply Pn; discriminate).
    unfold deref. rewrite G. cbn [bind].
    destruct (o_repeat o && negb (kmem (a, o_seq o) (canceling st))) eqn:Br.
    + apply andb_true_iff in Br as [Rp _]. unfold o_repeat in Rp. apply Z.leb_le in Rp.
      set (o' := mkT (o_seq o) (now + o_iv o) (o_iv o)).
      set (st1 := set_heap st (hput a o' (heap st))).
      assert (I1 : Inv st1) by (apply inv_hput_det; auto).
      assert (G1 : hget a (heap st1) = Some o') by (apply hget_hput_same).
      assert (P1 : 0 < o_exp o') by (cbn; lia).
      destruct (insert_shape st1 a o' I1 G1 ND P1) as (t' & a' & E & I2 & M & _).
      rewrite E. cbn [bind].
      assert (D2 : DInv (set_sets st1 t' a') (map snd ex ++ P)).
      { split; auto. intros b Hb. assert (a <> b) by (intros ->; auto).
        destruct (Dt b (or_intror Hb)) as [[ob [Gb Pb]] NDb]. split.
        - exists ob. unfold st1. cbn [heap set_sets set_heap]. rewrite hget_hput_other; auto.
        - intros d' Hd'. cbn in Hd'. apply M in Hd' as [Eq|Hd']; [inversion Eq; congruence| eapply NDb; eauto]. }
      specialize (IH (set_sets st1 t' a') now P I2 D2 (fun _ => Pnow)).
      eapply good_weaken; [exact IH|]. cbn beta. intros st' (I3 & D3 & F3). splits; auto.
    + set (st1 := set_heap st (hdel a (heap st))).
      assert (I1 : Inv st1) by (apply inv_hdel_det; auto).
      assert (D1 : DInv st1 (map snd ex ++ P)).
      { split; auto. intros b Hb. assert (a <> b) by (intros ->; auto).
        cbn. apply detc_hdel with (ts := timers st); auto. apply Dt. right; auto. }
      specialize (IH st1 now P I1 D1 (fun _ => Pnow)).
      eapply good_weaken; [exact IH|]. cbn beta. intros st' (I3 & D3 & F3). splits; auto.
Qed.

Definition Top (st : state) : Prop :=
  Inv st /\ DInv st (detq st) /\ calling st = false /\ armed_ok st.

Lemma Top_init : forall c, Top (init c).
Proof.
  intros c. unfold Top. splits; [apply inv_init | split; [constructor|intros a []] | reflexivity |].
  unfold armed_ok, armed_okc. cbn. discriminate.
Qed.

Lemma consume_same : forall st, heap (consume st) = heap st /\ timers (consume st) = timers st /\
  active (consume st) = active st /\ next_seq (consume st) = next_seq st /\ pending (consume st) = pending st /\
  clk (consume st) = clk st /\ inflight (consume st) = inflight st.
Proof. intros st. unfold consume. destruct (armed st) as [a|]; [destruct (a <=? clk st)|]; cbn; auto 10. Qed.

Lemma ksplit_le : forall now ex, Forall (fun y => klt y (now, PTR_MAX) = true) ex -> forall d a, In (d, a) ex -> d <= now.
Proof.
  intros now ex F d a HI. rewrite Forall_forall in F. specialize (F _ HI). apply klt_iff in F. cbn [fst snd] in F. lia.
Qed.

Lemma fire_good : forall st script, Top st ->
  good (fire st script) (fun r => Top (fst r)).
Proof.
  intros st script (I & D & C & _). unfold fire.
  destruct (consume_same st) as (Eh & Et & Ea & En & Ep & Ec & Ei).
  set (st0 := consume st) in *.
  assert (I0 : Inv st0) by (unfold Inv; rewrite Eh, Et, Ea, En; auto).
  rewrite (sizes_agree_inv _ I0). cbn [assert bind].
  destruct (ksplit (clk st, PTR_MAX) (timers st0)) as [ex rest] eqn:KS.
  destruct (ksplit_spec _ _ _ _ (i_st _ _ _ _ I0) KS) as (Eapp & Fex & Hrest).
  assert (A1 : match rest with [] => true | (d, _) :: _ => clk st <? d end = true).
  { destruct rest as [|[d a0] r]; auto. apply klt_false in Hrest. cbn [fst snd] in Hrest.
    destruct (i_ta _ _ _ _ I0 d a0) as (o & G & _); [rewrite Eapp; apply in_or_app; right; left; auto|].
    apply (i_hp _ _ _ _ I0) in G. apply Z.ltb_lt. lia. }
  rewrite A1. cbn [assert bind].
  assert (D0 : DInvC (heap st0) (ex ++ rest) (detq st)).
  { rewrite <- Eapp. unfold DInv in D. rewrite Eh, Et. exact D. }
  unfold Inv in I0. rewrite Eapp in I0.
  pose proof (unactivate_good ex st0 rest (active st0) (next_seq st0) _ I0 D0) as GU.
  destruct (unactivate st0 ex (active st0)) as [act| |]; cbn [bind good] in *; auto.
  destruct GU as [I1 D1].
  set (st2 := set_sets st0 rest act).
  assert (I2 : Inv st2) by exact I1.
  rewrite (sizes_agree_inv _ I2). cbn [assert bind].
  set (st3 := set_canceling (set_calling st2 true) []).
  assert (I3 : Inv st3) by exact I1.
  assert (D3 : DInv st3 (map snd ex ++ detq st3)).
  { unfold DInv, detq. cbn. rewrite Ep, Ei. fold (detq st). eapply DInvC_perm; [apply Permutation_app_comm|]. exact D1. }
  pose proof (run_cbs_good ex st3 script (clk st) (map snd ex) I3 D3 (incl_refl _)) as GR.
  destruct (run_cbs st3 ex script (clk st)) as [[st4 evs]| |]; cbn [bind good] in *; auto.
  destruct GR as (I4 & D4 & C4). cbn [fst] in *.
  set (st5 := set_calling st4 false).
  assert (Pn : ex <> [] -> 0 < clk st).
  { destruct ex as [|[d a] ex']; [congruence|]. intros _.
    assert (0 < d) by (eapply (i_pos _ _ _ _ I0); left; eauto).
    pose proof (ksplit_le _ _ Fex d a (or_introl eq_refl)). lia. }
  pose proof (reset_loop_good ex st5 (clk st) (detq st4) I4 D4 Pn) as GL.
  destruct (reset_loop st5 ex (clk st)) as [st6| |]; cbn [bind good] in *; auto.
  destruct GL as (I6 & D6 & (F1 & F2 & F3 & F4 & F5)). cbn in F1, F2, F5.
  assert (D6' : DInv st6 (detq st6)) by (unfold detq in *; rewrite F2, F5; exact D6).
  destruct (timers st6) as [|[d a] r] eqn:ET6.
  - cbn. unfold Top. splits; auto. unfold armed_ok, armed_okc. rewrite ET6. cbn. discriminate.
  - destruct (i_ta _ _ _ _ I6 d a) as (o & G & Eo & _); [rewrite ET6; left; auto|].
    assert (0 < d) by (eapply (i_pos _ _ _ _ I6); rewrite ET6; left; eauto).
    unfold deref. rewrite G. cbn [bind]. subst d. destruct (Z.ltb_spec 0 (o_exp o)); [|lia].
    destruct (reset_timerfd_spec st6 (o_exp o)) as (x & Ex & Lx).
    destruct (reset_timerfd st6 (o_exp o)) as [st7 e7]. cbn [fst] in Ex. subst st7. cbn.
    unfold Top. splits; auto.
    unfold armed_ok, armed_okc. cbn. rewrite ET6. cbn. intros d Hd. inversion Hd; subst. eauto.
Qed.

Lemma detq_frame : forall st st', frame st st' -> detq st' = detq st.
Proof. intros st st' (_ & F2 & _ & _ & F5). unfold detq. rewrite F2, F5. reflexivity. Qed.

Lemma run_functors_good : forall fs st, Inv st -> DInv st (padds fs ++ detq st) ->
  good (run_functors st fs) (fun r => Inv (fst r) /\ DInv (fst r) (detq (fst r)) /\
                                      (armed_ok st -> armed_ok (fst r)) /\ calling (fst r) = calling st).
Proof.
  induction fs as [|[a|a s|cs] r IH]; intros st I D; cbn [run_functors].
  - cbn. splits; auto.
  - cbn [padds app] in D. destruct D as [N Dt]. inversion N as [|x l NIa N']; subst.
    destruct (Dt a (or_introl eq_refl)) as [[o [G Po]] ND].
    assert (D' : DInv st (padds r ++ detq st)) by (split; auto; intros b Hb; apply Dt; right; auto).
    pose proof (add_in_loop_good st a o _ I G ND Po D' NIa) as GA.
    destruct (add_in_loop st a) as [[st1 e1]| |]; cbn [bind good] in *; auto.
    destruct GA as (I1 & D1 & A1 & F1 & _). cbn [fst] in *.
    rewrite <- (detq_frame _ _ F1) in D1. specialize (IH st1 I1 D1).
    destruct (run_functors st1 r) as [[st2 e2]| |]; cbn [bind good] in *; auto.
    destruct IH as (I2 & D2 & A2 & C2). cbn [fst] in *. destruct F1 as (F1 & _). splits; auto. congruence.
  - cbn [padds] in D.
    pose proof (cancel_good st a s _ I D) as GC.
    destruct (cancel_in_loop st a s) as [st1| |]; cbn [bind good] in *; auto.
    destruct GC as (I1 & D1 & A1 & F1).
    rewrite <- (detq_frame _ _ F1) in D1. specialize (IH st1 I1 D1).
    destruct (run_functors st1 r) as [[st2 e2]| |]; cbn [good] in *; auto.
    destruct IH as (I2 & D2 & A2 & C2). cbn [fst] in *. destruct F1 as (F1 & _). splits; auto. congruence.
  - cbn [padds] in D.
    pose proof (cb_run_good cs st (padds r) I D) as GC.
    destruct (cb_run st cs) as [[st1 e1]| |]; cbn [bind good] in *; auto.
    destruct GC as (I1 & D1 & A1 & C1). cbn [fst] in *. specialize (IH st1 I1 D1).
    destruct (run_functors st1 r) as [[st2 e2]| |]; cbn [bind good] in *; auto.
    destruct IH as (I2 & D2 & A2 & C2). cbn [fst] in *. splits; auto. congruence.
Qed.

Lemma step_good : forall st o, Top st -> good (step st o) (fun r => Top (fst r)).
Proof.
  intros st o T. destruct o as [c|script|]; cbn [step].
  - destruct T as (I & D & C & A).
    pose proof (cb_step_good st c [] I D) as G. eapply good_weaken; [exact G|].
    intros r (I1 & D1 & A1 & C1). cbn [app] in D1. unfold Top. splits; auto. congruence.
  - apply fire_good; auto.
  - destruct T as (I & D & C & A).
    pose proof (run_functors_good (pending st) (set_pending st []) I D) as G.
    eapply good_weaken; [exact G|]. intros r (I1 & D1 & A1 & C1). cbn in C1.
    unfold Top. splits; auto. congruence.
Qed.

Lemma run_good : forall ops st, Top st -> good (run st ops) (fun r => Top (fst r)).
Proof.
  induction ops as [|o r IH]; intros st T; cbn [run].
  - cbn. auto.
  - pose proof (step_good st o T) as G.
    destruct (step st o) as [[st1 e1]| |]; cbn [bind good] in *; auto.
    specialize (IH st1 G). destruct (run st1 r) as [[st2 e2]| |]; cbn [bind good] in *; auto.
Qed.

(* ------------------------------------------------------------------ events: never early *)
Definition ev_ok (e : event) : Prop := match e with ERun _ dl now _ => dl <= now | _ => True end.

Lemma ksplit_all_lt : forall s l a b, ksplit s l = (a, b) -> Forall (fun y => klt y s = true) a.
Proof.
  intros s l. induction l as [|y r IH]; intros a b H; cbn [ksplit] in H.
  - inversion H; constructor.
  - destruct (klt y s) eqn:L; [|inversion H; constructor].
    destruct (ksplit s r) as [a' b']. inversion H; subst. constructor; eauto.
Qed.

Lemma add_in_loop_ev : forall st a st' ev, add_in_loop st a = Ok (st', ev) -> Forall ev_ok ev.
Proof.
  intros st a st' ev H. unfold add_in_loop in H.
  destruct (insert st a) as [[st1 e]| |]; cbn [bind] in H; try discriminate.
  destruct e.
  - destruct (deref st1 a); cbn [bind] in H; try discriminate. unfold reset_timerfd in H. inversion H; subst.
    repeat constructor.
  - inversion H; constructor.
Qed.

Lemma cb_step_ev : forall st c st' ev, cb_step st c = Ok (st', ev) -> Forall ev_ok ev.
Proof.
  intros st c st' ev H. destruct c as [d|w iv a|a s|w iv a|a s|w iv a|a|cs]; cbn [cb_step] in H.
  - destruct (d <? 0); inversion H; constructor.
  - destruct (alloc st w iv a) as [[st1 s]| |]; cbn [bind] in H; try discriminate.
    destruct (add_in_loop st1 a) as [[st2 e]| |] eqn:EA; cbn [bind] in H; try discriminate.
    inversion H; subst. apply Forall_app. split; [eapply add_in_loop_ev; eauto|repeat constructor].
  - destruct (cancel_in_loop st a s); cbn [bind] in H; try discriminate. inversion H; constructor.
  - destruct (alloc st w iv a) as [[st1 s]| |]; cbn [bind] in H; try discriminate. inversion H; repeat constructor.
  - inversion H; constructor.
  - destruct (alloc st w iv a) as [[st1 s]| |]; cbn [bind] in H; try discriminate. inversion H; repeat constructor.
  - destruct (zmem a (inflight st)); inversion H; constructor.
  - inversion H; constructor.
Qed.

Lemma cb_run_ev : forall cs st st' ev, cb_run st cs = Ok (st', ev) -> Forall ev_ok ev.
Proof.
  induction cs as [|c r IH]; intros st st' ev H; cbn [cb_run] in H.
  - inversion H; constructor.
  - destruct (cb_step st c) as [[st1 e1]| |] eqn:E1; try discriminate.
    + destruct (cb_run st1 r) as [[st2 e2]| |] eqn:E2; cbn [bind] in H; try discriminate.
      inversion H; subst. apply Forall_app. split; [eapply cb_step_ev; eauto | eapply IH; eauto].
    + destruct (cb_run st r) as [[st2 e2]| |] eqn:E2; cbn [bind] in H; try discriminate.
      inversion H; subst. constructor; [exact I | eapply IH; eauto].
Qed.

Lemma run_cbs_ev : forall ex st script now st' ev, Forall (fun y => fst y <= now) ex ->
  run_cbs st ex script now = Ok (st', ev) -> Forall ev_ok ev.
Proof.
  induction ex as [|[d a] ex IH]; intros st script now st' ev F H; cbn [run_cbs] in H.
  - inversion H; constructor.
  - inversion F; subst. destruct (deref st a); cbn [bind] in H; try discriminate.
    destruct (cb_run st (hd [] script)) as [[st1 e1]| |] eqn:E1; cbn [bind] in H; try discriminate.
    destruct (run_cbs st1 ex (tl script) now) as [[st2 e2]| |] eqn:E2; cbn [bind] in H; try discriminate.
    inversion H; subst. constructor; [cbn; auto|]. apply Forall_app. split; [eapply cb_run_ev; eauto | eapply IH; eauto].
Qed.

Lemma fire_ev : forall st script st' ev, fire st script = Ok (st', ev) -> Forall ev_ok ev.
Proof.
  intros st script st' ev H. unfold fire in H.
  destruct (assert (sizes_agree (consume st))); cbn [bind] in H; try discriminate.
  destruct (ksplit (clk st, PTR_MAX) (timers (consume st))) as [ex rest] eqn:KS.
  destruct (assert _); cbn [bind] in H; try discriminate.
  destruct (unactivate (consume st) ex (active (consume st))) as [act| |]; cbn [bind] in H; try discriminate.
  destruct (assert _); cbn [bind] in H; try discriminate.
  destruct (run_cbs _ ex script (clk st)) as [[st4 evs]| |] eqn:ER; cbn [bind] in H; try discriminate.
  assert (Fev : Forall ev_ok evs).
  { eapply run_cbs_ev; [|exact ER]. pose proof (ksplit_all_lt _ _ _ _ KS) as F.
    eapply Forall_impl; [|exact F]. intros y Hy. apply klt_iff in Hy. cbn [fst snd] in Hy. lia. }
  destruct (reset_loop _ ex (clk st)) as [st6| |]; cbn [bind] in H; try discriminate.
  destruct (timers st6) as [|[dq aq] r]; [inversion H; subst; auto|].
  destruct (deref st6 aq) as [o| |]; cbn [bind] in H; try discriminate.
  destruct (0 <? o_exp o); [|inversion H; subst; auto].
  unfold reset_timerfd in H. inversion H; subst. apply Forall_app. split; auto. repeat constructor.
Qed.

Lemma run_functors_ev : forall fs st st' ev, run_functors st fs = Ok (st', ev) -> Forall ev_ok ev.
Proof.
  induction fs as [|[a|a s|cs] r IH]; intros st st' ev H; cbn [run_functors] in H.
  - inversion H; constructor.
  - destruct (add_in_loop st a) as [[st1 e1]| |] eqn:E1; cbn [bind] in H; try discriminate.
    destruct (run_functors st1 r) as [[st2 e2]| |] eqn:E2; cbn [bind] in H; try discriminate.
    inversion H; subst. apply Forall_app. split; [eapply add_in_loop_ev; eauto | eapply IH; eauto].
  - destruct (cancel_in_loop st a s) as [st1| |]; cbn [bind] in H; try discriminate. eapply IH; eauto.
  - destruct (cb_run st cs) as [[st1 e1]| |] eqn:E1; cbn [bind] in H; try discriminate.
    destruct (run_functors st1 r) as [[st2 e2]| |] eqn:E2; cbn [bind] in H; try discriminate.
    inversion H; subst. apply Forall_app. split; [eapply cb_run_ev; eauto | eapply IH; eauto].
Qed.

Lemma run_ev : forall ops st st' ev, run st ops = Ok (st', ev) -> Forall ev_ok ev.
Proof.
  induction ops as [|o r IH]; intros st st' ev H; cbn [run] in H.
  - inversion H; constructor.
  - destruct (step st o) as [[st1 e1]| |] eqn:E1; cbn [bind] in H; try discriminate.
    destruct (run st1 r) as [[st2 e2]| |] eqn:E2; cbn [bind] in H; try discriminate.
    inversion H; subst. apply Forall_app. split; [|eapply IH; eauto].
    destruct o as [c|script|]; cbn [step] in E1;
      [eapply cb_step_ev | eapply fire_ev | eapply run_functors_ev]; eauto.
Qed.

(* ------------------------------------------------------------------ theorems in final form *)
Lemma never_early : forall c ops st evs, run (init c) ops = Ok (st, evs) ->
  forall s dl now t, In (ERun s dl now t) evs -> dl <= now.
Proof.
  intros c ops st evs H s dl now t HI. pose proof (run_ev _ _ _ _ H) as F.
  rewrite Forall_forall in F. exact (F _ HI).
Qed.

Lemma reach_top : forall c ops st evs, run (init c) ops = Ok (st, evs) -> Top st.
Proof.
  intros c ops st evs H. pose proof (run_good ops (init c) (Top_init c)) as G. rewrite H in G. exact G.
Qed.

Lemma no_fault : forall c ops, run (init c) ops <> Fault.
Proof. intros c ops. eapply good_nofault. apply run_good. apply Top_init. Qed.

Lemma destroy_loop_good : forall ts h act n, InvC h ts act n -> destroy_loop h ts = Ok (length ts).
Proof.
  induction ts as [|[d a] ts IH]; intros h act n I; cbn [destroy_loop length]; auto.
  destruct (inv_pop _ _ _ _ _ _ I) as (o & act1 & G & _ & _ & I1 & ND). rewrite G.
  rewrite (IH (hdel a h) act1 n); auto. apply inv_hdel_det; auto.
Qed.

Lemma destroy_ok : forall c ops st evs, run (init c) ops = Ok (st, evs) -> destroy st = Ok (length (timers st)).
Proof.
  intros c ops st evs H. destruct (reach_top _ _ _ _ H) as (I & _). eapply destroy_loop_good; eauto.
Qed.

Lemma sets_agree : forall c ops st evs, run (init c) ops = Ok (st, evs) ->
  length (timers st) = length (active st) /\ NoDup (timers st) /\ NoDup (active st) /\
  (forall a s, In (a, s) (active st) <->
               exists o, hget a (heap st) = Some o /\ o_seq o = s /\ In (o_exp o, a) (timers st)) /\
  (forall d a, In (d, a) (timers st) ->
               exists o, hget a (heap st) = Some o /\ o_exp o = d /\ In (a, o_seq o) (active st)).
Proof.
  intros c ops st evs H. destruct (reach_top _ _ _ _ H) as (I & _). destruct I. splits; auto.
  - apply Srt_NoDup; auto.
  - apply Srt_NoDup; auto.
  - intros a s. split; [apply i_at0|]. intros (o & G & Es & HT).
    destruct (i_ta0 _ _ HT) as (o' & G' & _ & HA). rewrite G in G'. inversion G'; subst. auto.
Qed.

Lemma armed_for_earliest : forall c ops st evs, run (init c) ops = Ok (st, evs) ->
  forall d a r, timers st = (d, a) :: r ->
  (forall k, In k (timers st) -> d <= fst k) /\
  exists x, armed st = Some x /\ x <= Z.max d (arm_at st + TimerQueue_floor_val).
Proof.
  intros c ops st evs H d a r E. destruct (reach_top _ _ _ _ H) as (I & _ & _ & A). split.
  - intros k Hk. rewrite E in Hk. eapply Srt_head_le; eauto. rewrite <- E. apply (i_st _ _ _ _ I).
  - apply A. rewrite E. reflexivity.
Qed.

Lemma seq_unique : forall c ops st evs, run (init c) ops = Ok (st, evs) ->
  (forall a b o p, hget a (heap st) = Some o -> hget b (heap st) = Some p -> o_seq o = o_seq p -> a = b) /\
  (forall a o, hget a (heap st) = Some o -> 0 < o_seq o <= next_seq st).
Proof.
  intros c ops st evs H. destruct (reach_top _ _ _ _ H) as (I & _). destruct I. split; auto.
  intros a o G. apply i_hp0 in G. tauto.
Qed.

(* a cancel whose (address, sequence) pair names no live Timer object is the identity, whatever
   lives at that address now *)
Lemma stale_cancel_noop : forall c ops st evs a s, run (init c) ops = Ok (st, evs) ->
  (forall o, hget a (heap st) = Some o -> o_seq o <> s) ->
  step st (Cb (CCancel a s)) = Ok (st, []).
Proof.
  intros c ops st evs a s H NS. destruct (reach_top _ _ _ _ H) as (I & _ & C & _).
  cbn [step cb_step]. unfold cancel_in_loop. rewrite (sizes_agree_inv _ I). cbn [assert bind].
  destruct (kmem (a, s) (active st)) eqn:KM.
  - apply kmem_iff in KM. destruct (i_at _ _ _ _ I _ _ KM) as (o & G & Es & _). exfalso. eapply NS; eauto.
  - rewrite C. reflexivity.
Qed.

(* cancelling a registered, not yet expired timer erases it from both sets and frees it; no live
   object carries its sequence number afterwards *)
Lemma cancel_active : forall c ops st evs a s, run (init c) ops = Ok (st, evs) -> In (a, s) (active st) ->
  exists st', step st (Cb (CCancel a s)) = Ok (st', []) /\ gone st' s /\ ~ In (a, s) (active st') /\
    (forall d, ~ In (d, a) (timers st')) /\ hget a (heap st') = None.
Proof.
  intros c ops st evs a s H HA. destruct (reach_top _ _ _ _ H) as (I & _ & C & _).
  cbn [step cb_step]. unfold cancel_in_loop. rewrite (sizes_agree_inv _ I). cbn [assert bind].
  pose proof HA as KM. apply kmem_iff in KM. rewrite KM.
  destruct (inv_erase _ _ _ _ _ _ I HA) as (o & t' & a' & G & K1 & K2 & I' & M & HT).
  unfold deref. rewrite G. cbn [bind]. rewrite K1, K2. cbn [bind]. eexists. split; [reflexivity|].
  destruct (i_at _ _ _ _ I _ _ HA) as (o2 & G2 & Es & _). rewrite G in G2. inversion G2; subst o2.
  cbn. splits.
  - unfold gone, gonec. cbn. split; [apply (i_hp _ _ _ _ I) in G; lia|]. intros b p Gb Eq.
    destruct (Z.eq_dec a b) as [->|N]; [rewrite hget_hdel_same in Gb; discriminate|].
    rewrite hget_hdel_other in Gb by auto. apply N. eapply (i_sq _ _ _ _ I); eauto. congruence.
  - pose proof (kerase_spec (a, s) (active st) (i_sa _ _ _ _ I)) as K. rewrite K2 in K.
    destruct K as (_ & Ma & _). intros HI. apply Ma in HI. tauto.
  - intros d HI. destruct (i_ta _ _ _ _ I' _ _ HI) as (o3 & G3 & _). rewrite hget_hdel_same in G3. discriminate.
  - apply hget_hdel_same.
Qed.

(* ------------------------------------------------------------------ dead sequence numbers stay dead *)
Definition norun (s : Z) (ev : list event) : Prop := forall dl now t, ~ In (ERun s dl now t) ev.
Lemma norun_app : forall s a b, norun s a -> norun s b -> norun s (a ++ b).
Proof. intros s a b A B dl now t HI. apply in_app_iff in HI as [HI|HI]; [eapply A|eapply B]; eauto. Qed.
Lemma norun_nil : forall s, norun s []. Proof. intros s dl now t []. Qed.

Lemma settime_hn : forall st r, heap (settime st r) = heap st /\ next_seq (settime st r) = next_seq st.
Proof. intros st r. unfold settime. destruct (r =? 0); [|destruct (r <? 0)]; cbn; auto. Qed.

Lemma insert_hn : forall st a st' e, insert st a = Ok (st', e) -> heap st' = heap st /\ next_seq st' = next_seq st.
Proof.
  intros st a st' e H. unfold insert in H. destruct (assert (sizes_agree st)); cbn [bind] in H; try discriminate.
  destruct (deref st a) as [o| |]; cbn [bind] in H; try discriminate.
  destruct (kinsert _ (timers st)); try discriminate. destruct (kinsert _ (active st)); try discriminate.
  inversion H; subst. cbn. auto.
Qed.

Lemma add_in_loop_gone : forall st a st' ev s, add_in_loop st a = Ok (st', ev) -> gone st s -> gone st' s /\ norun s ev.
Proof.
  intros st a st' ev s H G. unfold add_in_loop in H.
  destruct (insert st a) as [[st1 e]| |] eqn:EI; cbn [bind] in H; try discriminate.
  destruct (insert_hn _ _ _ _ EI) as [Eh En]. destruct e.
  - destruct (deref st1 a); cbn [bind] in H; try discriminate. unfold reset_timerfd in H. inversion H; subst.
    destruct (settime_hn st1 (how_much st1 (o_exp a0))) as [Eh2 En2]. split.
    + unfold gone in *. rewrite Eh2, En2, Eh, En. auto.
    + intros dl now t [HI|[]]. discriminate.
  - inversion H; subst. split; [unfold gone in *; rewrite Eh, En; auto | apply norun_nil].
Qed.

Lemma cancel_gone : forall st a s0 st' s, cancel_in_loop st a s0 = Ok st' -> gone st s -> gone st' s.
Proof.
  intros st a s0 st' s H G. unfold cancel_in_loop in H.
  destruct (assert (sizes_agree st)); cbn [bind] in H; try discriminate.
  destruct (kmem (a, s0) (active st)).
  - destruct (deref st a) as [o| |]; cbn [bind] in H; try discriminate.
    destruct (kerase _ (timers st)); try discriminate. destruct (kerase _ (active st)); try discriminate.
    inversion H; subst. unfold gone. cbn. apply gonec_hdel. exact G.
  - destruct (calling st); inversion H; subst; exact G.
Qed.

Lemma alloc_gone : forall st w iv a st' s1 s, alloc st w iv a = Ok (st', s1) -> gone st s -> gone st' s.
Proof.
  intros st w iv a st' s1 s H [L G]. unfold alloc in H. destruct (_ && _); try discriminate. inversion H; subst.
  unfold gone, gonec. cbn [heap next_seq set_seq set_heap]. split; [lia|]. intros b o Gb.
  destruct (Z.eq_dec a b) as [->|N].
  - rewrite hget_cons_same in Gb. inversion Gb; subst. cbn. lia.
  - rewrite hget_cons_other in Gb by auto. eauto.
Qed.

Lemma cb_step_gone : forall st c st' ev s, cb_step st c = Ok (st', ev) -> gone st s -> gone st' s /\ norun s ev.
Proof.
  intros st c st' ev s H G. destruct c as [d|w iv a|a s0|w iv a|a s0|w iv a|a|cs]; cbn [cb_step] in H.
  - destruct (d <? 0); inversion H; subst. split; [exact G | apply norun_nil].
  - destruct (alloc st w iv a) as [[st1 s1]| |] eqn:EA; cbn [bind] in H; try discriminate.
    destruct (add_in_loop st1 a) as [[st2 e]| |] eqn:EL; cbn [bind] in H; try discriminate.
    inversion H; subst. destruct (add_in_loop_gone _ _ _ _ s EL (alloc_gone _ _ _ _ _ _ _ EA G)) as [G2 N2].
    split; auto. apply norun_app; auto. intros dl now t [HI|[]]. discriminate.
  - destruct (cancel_in_loop st a s0) as [st1| |] eqn:EC; cbn [bind] in H; try discriminate.
    inversion H; subst. split; [eapply cancel_gone; eauto | apply norun_nil].
  - destruct (alloc st w iv a) as [[st1 s1]| |] eqn:EA; cbn [bind] in H; try discriminate.
    inversion H; subst. split; [exact (alloc_gone _ _ _ _ _ _ _ EA G)|]. intros dl now t [HI|[]]. discriminate.
  - inversion H; subst. split; [exact G | apply norun_nil].
  - destruct (alloc st w iv a) as [[st1 s1]| |] eqn:EA; cbn [bind] in H; try discriminate.
    inversion H; subst. split; [exact (alloc_gone _ _ _ _ _ _ _ EA G)|]. intros dl now t [HI|[]]. discriminate.
  - destruct (zmem a (inflight st)); inversion H; subst. split; [exact G | apply norun_nil].
  - inversion H; subst. split; [exact G | apply norun_nil].
Qed.

Lemma cb_run_gone : forall cs st st' ev s, cb_run st cs = Ok (st', ev) -> gone st s -> gone st' s /\ norun s ev.
Proof.
  induction cs as [|c r IH]; intros st st' ev s H G; cbn [cb_run] in H.
  - inversion H; subst. split; [exact G | apply norun_nil].
  - destruct (cb_step st c) as [[st1 e1]| |] eqn:E1; try discriminate.
    + destruct (cb_run st1 r) as [[st2 e2]| |] eqn:E2; cbn [bind] in H; try discriminate.
      inversion H; subst. destruct (cb_step_gone _ _ _ _ s E1 G) as [G1 N1].
      destruct (IH _ _ _ s E2 G1) as [G2 N2]. split; auto. apply norun_app; auto.
    + destruct (cb_run st r) as [[st2 e2]| |] eqn:E2; cbn [bind] in H; try discriminate.
      inversion H; subst. destruct (IH _ _ _ s E2 G) as [G2 N2]. split; auto.
      intros dl now t [HI|HI]; [discriminate | eapply N2; eauto].
Qed.

Lemma run_cbs_gone : forall ex st script now st' ev s, run_cbs st ex script now = Ok (st', ev) -> gone st s ->
  gone st' s /\ norun s ev.
Proof.
  induction ex as [|[d a] ex IH]; intros st script now st' ev s H G; cbn [run_cbs] in H.
  - inversion H; subst. split; [exact G | apply norun_nil].
  - unfold deref in H. destruct (hget a (heap st)) as [o|] eqn:Go; cbn [bind] in H; try discriminate.
    destruct (cb_run st (hd [] script)) as [[st1 e1]| |] eqn:E1; cbn [bind] in H; try discriminate.
    destruct (run_cbs st1 ex (tl script) now) as [[st2 e2]| |] eqn:E2; cbn [bind] in H; try discriminate.
    inversion H; subst. destruct (cb_run_gone _ _ _ _ s E1 G) as [G1 N1]. destruct (IH _ _ _ _ _ s E2 G1) as [G2 N2].
    split; auto. intros dl now' t [HI|HI].
    + inversion HI; subst. destruct G as [_ G]. eapply G; eauto.
    + revert HI. apply norun_app; auto.
Qed.

Lemma reset_loop_gone : forall ex st now st' s, reset_loop st ex now = Ok st' -> gone st s -> gone st' s.
Proof.
  induction ex as [|[d a] ex IH]; intros st now st' s H G; cbn [reset_loop] in H.
  - inversion H; subst; auto.
  - unfold deref in H. destruct (hget a (heap st)) as [o|] eqn:Go; cbn [bind] in H; try discriminate.
    destruct (o_repeat o && negb (kmem (a, o_seq o) (canceling st))).
    + destruct (insert _ a) as [[st2 e]| |] eqn:EI; cbn [bind] in H; try discriminate.
      destruct (insert_hn _ _ _ _ EI) as [Eh En]. eapply IH; [exact H|].
      unfold gone. rewrite Eh, En. cbn [heap next_seq set_heap]. destruct G as [L G]. split; auto.
      intros b p Gb. destruct (Z.eq_dec a b) as [->|N].
      * rewrite hget_hput_same in Gb. inversion Gb; subst. cbn. eauto.
      * rewrite hget_hput_other in Gb by auto. eauto.
    + eapply IH; [exact H|]. unfold gone. cbn. apply gonec_hdel. exact G.
Qed.

Lemma consume_hn : forall st, heap (consume st) = heap st /\ next_seq (consume st) = next_seq st.
Proof. intros st. destruct (consume_same st) as (A & _ & _ & B & _). auto. Qed.

Lemma fire_gone : forall st script st' ev s, fire st script = Ok (st', ev) -> gone st s -> gone st' s /\ norun s ev.
Proof.
  intros st script st' ev s H G. unfold fire in H.
  destruct (assert (sizes_agree (consume st))); cbn [bind] in H; try discriminate.
  destruct (ksplit (clk st, PTR_MAX) (timers (consume st))) as [ex rest] eqn:KS.
  destruct (assert _); cbn [bind] in H; try discriminate.
  destruct (unactivate (consume st) ex (active (consume st))) as [act| |]; cbn [bind] in H; try discriminate.
  destruct (assert _); cbn [bind] in H; try discriminate.
  destruct (run_cbs _ ex script (clk st)) as [[st4 evs]| |] eqn:ER; cbn [bind] in H; try discriminate.
  destruct (consume_hn st) as [Eh En].
  assert (G3 : gone (set_canceling (set_calling (set_sets (consume st) rest act) true) []) s)
    by (unfold gone in *; cbn; rewrite Eh, En; exact G).
  destruct (run_cbs_gone _ _ _ _ _ _ s ER G3) as [G4 N4].
  destruct (reset_loop _ ex (clk st)) as [st6| |] eqn:EL; cbn [bind] in H; try discriminate.
  assert (G6 : gone st6 s) by (eapply reset_loop_gone; [exact EL|]; exact G4).
  destruct (timers st6) as [|[dq aq] r]; [inversion H; subst; auto|].
  destruct (deref st6 aq) as [o| |]; cbn [bind] in H; try discriminate.
  destruct (0 <? o_exp o); [|inversion H; subst; auto].
  unfold reset_timerfd in H. inversion H; subst.
  destruct (settime_hn st6 (how_much st6 (o_exp o))) as [Eh2 En2]. split.
  - unfold gone in *. rewrite Eh2, En2. exact G6.
  - apply norun_app; auto. intros dl now t [HI|[]]. discriminate.
Qed.

Lemma run_functors_gone : forall fs st st' ev s, run_functors st fs = Ok (st', ev) -> gone st s -> gone st' s /\ norun s ev.
Proof.
  induction fs as [|[a|a s0|cs] r IH]; intros st st' ev s H G; cbn [run_functors] in H.
  - inversion H; subst. split; [exact G | apply norun_nil].
  - destruct (add_in_loop st a) as [[st1 e1]| |] eqn:E1; cbn [bind] in H; try discriminate.
    destruct (run_functors st1 r) as [[st2 e2]| |] eqn:E2; cbn [bind] in H; try discriminate.
    inversion H; subst. destruct (add_in_loop_gone _ _ _ _ s E1 G) as [G1 N1]. destruct (IH _ _ _ s E2 G1) as [G2 N2].
    split; auto. apply norun_app; auto.
  - destruct (cancel_in_loop st a s0) as [st1| |] eqn:E1; cbn [bind] in H; try discriminate.
    eapply IH; [exact H|]. eapply cancel_gone; eauto.
  - destruct (cb_run st cs) as [[st1 e1]| |] eqn:E1; cbn [bind] in H; try discriminate.
    destruct (run_functors st1 r) as [[st2 e2]| |] eqn:E2; cbn [bind] in H; try discriminate.
    inversion H; subst. destruct (cb_run_gone _ _ _ _ s E1 G) as [G1 N1]. destruct (IH _ _ _ s E2 G1) as [G2 N2].
    split; auto. apply norun_app; auto.
Qed.

Lemma run_gone : forall ops st st' ev s, run st ops = Ok (st', ev) -> gone st s -> gone st' s /\ norun s ev.
Proof.
  induction ops as [|o r IH]; intros st st' ev s H G; cbn [run] in H.
  - inversion H; subst. split; [exact G | apply norun_nil].
  - destruct (step st o) as [[st1 e1]| |] eqn:E1; cbn [bind] in H; try discriminate.
    destruct (run st1 r) as [[st2 e2]| |] eqn:E2; cbn [bind] in H; try discriminate.
    inversion H; subst.
    assert (S1 : gone st1 s /\ norun s e1).
    { destruct o as [c|script|]; cbn [step] in E1.
      - eapply cb_step_gone; eauto.
      - eapply fire_gone; eauto.
      - eapply run_functors_gone; [exact E1|]. exact G. }
    destruct S1 as [G1 N1]. destruct (IH _ _ _ s E2 G1) as [G2 N2]. split; auto. apply norun_app; auto.
Qed.

(* cancel of a registered timer stops it for good: whatever happens afterwards, it never runs again
   and its sequence number never comes back *)
Lemma cancel_stops : forall c ops st evs a s ops2 st2 evs2,
  run (init c) ops = Ok (st, evs) -> In (a, s) (active st) ->
  run st (Cb (CCancel a s) :: ops2) = Ok (st2, evs2) ->
  (forall dl now t, ~ In (ERun s dl now t) evs2) /\ gone st2 s.
Proof.
  intros c ops st evs a s ops2 st2 evs2 H HA H2.
  destruct (cancel_active _ _ _ _ _ _ H HA) as (st1 & E1 & G1 & _).
  cbn [run] in H2. rewrite E1 in H2. cbn [bind] in H2.
  destruct (run st1 ops2) as [[st3 e3]| |] eqn:E3; cbn [bind] in H2; try discriminate.
  inversion H2; subst. cbn [app]. destruct (run_gone _ _ _ _ s E3 G1) as [G3 N3]. split; auto.
Qed.
(* the same for any id that is already dead (ran, cancelled): it never runs again *)
Lemma dead_stays_dead : forall st s ops2 st2 evs2, gone st s -> run st ops2 = Ok (st2, evs2) ->
  (forall dl now t, ~ In (ERun s dl now t) evs2) /\ gone st2 s.
Proof. intros st s ops2 st2 evs2 G H. destruct (run_gone _ _ _ _ s H G); auto. Qed.
