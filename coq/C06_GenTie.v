(* C06_GenTie: the guards of TimerQueue.cc as they stand in /repo NOW, tied to the TimerModel.
   Gen_C06.v is regenerated on every run from the clang AST of the current sources: the condition
   under which TimerQueue::insert reports a new earliest timer, the condition under which
   TimerQueue::reset re-inserts an expired timer, Timestamp::valid() (the gate of the re-arm), the
   two tests of TimerQueue::cancelInLoop, plus structure facts about what the guarded branches do.
   This file re-assembles insert, reset's loop and cancelInLoop FROM THE GENERATED GUARDS and proves
   them equal to the model functions for all states.  Flipping `<` to `<=`, dropping `repeat()` or
   the cancelingTimers_ test, looking the id up by pointer only, ... changes Gen_C06.v and breaks
   these lemmas directly. *)
From Coq Require Import List ZArith Bool Lia.
From Muduo Require Import Gen_Consts Gen_C06 C06_Model.
Import ListNotations.
Local Open Scope Z_scope.

Definition is_nil (ts : list key) : bool := match ts with [] => true | _ => false end.
Definition hd_first (ts : list key) : Z := match ts with (d, _) :: _ => d | [] => 0 end.

(* TimerQueue::insert with the generated `earliestChanged` condition *)
Definition insert_src (st : state) (addr : Z) : result (state * bool) :=
  _ <- assert (sizes_agree st) ;;
  o <- deref st addr ;;
  let earliest := TimerQueue_insert_earliest (is_nil (timers st)) (o_exp o) (hd_first (timers st)) in
  match kinsert (o_exp o, addr) (timers st), kinsert (addr, o_seq o) (active st) with
  | Some t', Some a' => Ok (set_sets st t' a', earliest)
  | _, _ => Fault
  end.
Lemma insert_is_source : forall st addr, insert st addr = insert_src st addr.
Proof.
  intros st addr. unfold insert, insert_src. destruct (assert (sizes_agree st)) as [u| |]; cbn [bind]; auto.
  destruct (deref st addr) as [o| |]; cbn [bind]; auto.
  destruct (timers st) as [|[d1 a1] r]; reflexivity.
Qed.

(* TimerQueue::reset's loop with the generated re-insert condition *)
Fixpoint reset_loop_src (st : state) (ex : list key) (now : Z) : result state :=
  match ex with
  | [] => Ok st
  | (d, a) :: r =>
      o <- deref st a ;;
      if TimerQueue_reset_reinsert (o_repeat o) (kmem (a, o_seq o) (canceling st)) then
        let st1 := set_heap st (hput a (mkT (o_seq o) (now + o_iv o) (o_iv o)) (heap st)) in
        '(st2, _) <- insert_src st1 a ;;
        reset_loop_src st2 r now
      else reset_loop_src (set_heap st (hdel a (heap st))) r now
  end.
Lemma reset_loop_is_source : forall ex st now, reset_loop st ex now = reset_loop_src st ex now.
Proof.
  induction ex as [|[d a] r IH]; intros st now; cbn [reset_loop reset_loop_src]; auto.
  destruct (deref st a) as [o| |]; cbn [bind]; auto.
  change (TimerQueue_reset_reinsert (o_repeat o) (kmem (a, o_seq o) (canceling st)))
    with (o_repeat o && negb (kmem (a, o_seq o) (canceling st))).
  destruct (o_repeat o && negb (kmem (a, o_seq o) (canceling st))); auto.
  rewrite insert_is_source. destruct (insert_src _ a) as [[st2 e]| |]; cbn [bind]; auto.
Qed.

(* the gate of the re-arm at the end of TimerQueue::reset: nextExpire.valid(), nextExpire being the
   head's expiration when timers_ is not empty and Timestamp() otherwise *)
Lemma valid_is_source : forall x, (0 <? x) = Timestamp_valid x.
Proof. intros x. unfold Timestamp_valid. rewrite Z.gtb_ltb. reflexivity. Qed.
Lemma default_timestamp_invalid : Timestamp_valid Timestamp_default_us = false.
Proof. reflexivity. Qed.

(* TimerQueue::cancelInLoop with the two generated tests *)
Definition cancel_src (st : state) (a s : Z) : result state :=
  _ <- assert (sizes_agree st) ;;
  if TimerQueue_cancelInLoop_found (kmem (a, s) (active st)) then
    o <- deref st a ;;
    match kerase (o_exp o, a) (timers st), kerase (a, s) (active st) with
    | Some t', Some a' => Ok (set_heap (set_sets st t' a') (hdel a (heap st)))
    | _, _ => Fault
    end
  else if TimerQueue_cancelInLoop_else_marks (calling st) then Ok (set_canceling st (kadd (a, s) (canceling st)))
  else Ok st.
Lemma cancel_is_source : forall st a s, cancel_in_loop st a s = cancel_src st a s.
Proof. reflexivity. Qed.

(* what the guarded branches do, as read off the AST (canonical text in Gen_C06.v) *)
Lemma structure_facts :
  TimerQueue_insert_returns_guard = true /\ TimerQueue_insert_files_both = true /\
  TimerQueue_addTimerInLoop_rearms_iff_earliest = true /\
  TimerQueue_reset_then_restart_insert = true /\ TimerQueue_reset_else_delete = true /\
  TimerQueue_reset_rearms_head_iff_valid = true /\
  TimerQueue_cancelInLoop_found_erases_both_deletes = true /\ TimerQueue_cancelInLoop_marks_canceling = true.
Proof. repeat split; reflexivity. Qed.

(* Timer::restart / addTime arithmetic, the destructor sweep and the EventLoop wrappers, as read off the AST:
   - addTime(t, seconds) = Timestamp(t.us + static_cast<int64_t>(seconds * kMicroSecondsPerSecond)): the interval,
     a double number of seconds, enters the deadline arithmetic only through this truncated product (the delta =
     o_iv of the model; 0 for an interval below one microsecond; the product is rounded to double first, so e.g.
     0.0029 s gives 2899 us);
   - Timer::restart(now) = repeat_ ? expiration_ := addTime(now, interval_) : invalid  (model: o_exp := now + o_iv);
   - Timer::Timer: repeat_ = (interval > 0.0)  (model: o_repeat = (0 <=? o_iv), o_iv < 0 encoding "not repeating");
   - ~TimerQueue deletes exactly the timers in timers_ (model: destroy);
   - runAt(t) = addTimer(cb, t, 0.0); runAfter(d) = runAt(addTime(now(), d)); runEvery(i) = addTimer(cb, addTime(now(), i), i);
     EventLoop::cancel forwards to TimerQueue::cancel = runInLoop(cancelInLoop(id)). *)
Lemma structure_facts_arith :
  Timestamp_addTime_truncates_product = true /\ Timer_restart_adds_interval_to_now = true /\
  Timer_ctor_repeat_iff_interval_positive = true /\ TimerQueue_dtor_deletes_exactly_timers = true /\
  EventLoop_runAt_is_addTimer_interval_zero = true /\ EventLoop_runAfter_is_runAt_addTime_now = true /\
  EventLoop_runEvery_first_deadline_is_now_plus_interval = true /\ EventLoop_cancel_forwards = true /\
  TimerQueue_cancel_hands_off_cancelInLoop = true.
Proof. repeat split; reflexivity. Qed.
(* the model's restart is that arithmetic on the delta *)
Lemma restart_is_now_plus_delta : forall st a o now ex st', hget a (heap st) = Some o ->
  o_repeat o && negb (kmem (a, o_seq o) (canceling st)) = true ->
  reset_loop st ((o_exp o, a) :: ex) now = Ok st' ->
  exists st2 e, insert (set_heap st (hput a (mkT (o_seq o) (now + o_iv o) (o_iv o)) (heap st))) a = Ok (st2, e) /\
               reset_loop st2 ex now = Ok st'.
Proof.
  intros st a o now ex st' G Br H. cbn [reset_loop] in H. unfold deref in H. rewrite G in H. cbn [bind] in H. rewrite Br in H.
  destruct (insert _ a) as [[st2 e]| |]; cbn [bind] in H; try discriminate. eauto.
Qed.
