(* C20_Calendar: the independent calendar specification the sweeps compare the generated
   Date.cc functions against (proleptic Gregorian day count by leap rule + month lengths +
   summation; POSIX seconds-since-epoch formula).  No proofs.  Kept apart from C20_Model so
   that changes to the zone / text / address model do not re-run the 219 511-day sweeps. *)
From Coq Require Import List ZArith Bool Arith.
From Muduo Require Import Gen_C20.
Import ListNotations.
Local Open Scope Z_scope.

(* ------------------------------------------------------------------ calendar spec *)

Definition is_leap (y : Z) : bool :=
  ((y mod 4 =? 0) && negb (y mod 100 =? 0)) || (y mod 400 =? 0).

Definition days_in_month (y m : Z) : Z :=
  match m with
  | 1 => 31 | 2 => if is_leap y then 29 else 28 | 3 => 31 | 4 => 30 | 5 => 31 | 6 => 30
  | 7 => 31 | 8 => 31 | 9 => 30 | 10 => 31 | 11 => 30 | 12 => 31 | _ => 0
  end.

Definition year_len (y : Z) : Z := if is_leap y then 366 else 365.

Definition first_year : Z := 1900.
Definition last_year : Z := 2500.

(* summation of year lengths y0, y0+1, ... (n terms) and of month lengths *)
Fixpoint sum_years (y0 : Z) (n : nat) : Z :=
  match n with O => 0 | S k => year_len y0 + sum_years (y0 + 1) k end.

Fixpoint sum_months (y m0 : Z) (n : nat) : Z :=
  match n with O => 0 | S k => days_in_month y m0 + sum_months y (m0 + 1) k end.

(* days from 1900-01-01 to y-01-01 / from y-01-01 to y-m-01 *)
Definition days_before_year (y : Z) : Z := sum_years first_year (Z.to_nat (y - first_year)).
Definition days_before_month (y m : Z) : Z := sum_months y 1 (Z.to_nat (m - 1)).

(* number of days from 1900-01-01 to y-m-d in the proleptic Gregorian calendar *)
Definition greg_day_count (y m d : Z) : Z :=
  days_before_year y + days_before_month y m + (d - 1).

Definition valid_date (y m d : Z) : bool :=
  (first_year <=? y) && (y <=? last_year) && (1 <=? m) && (m <=? 12) &&
  (1 <=? d) && (d <=? days_in_month y m).

(* 0 = Sunday ... 6 = Saturday; 1970-01-01 was a Thursday *)
Definition spec_weekday (y m d : Z) : Z :=
  (4 + (greg_day_count y m d - greg_day_count 1970 1 1)) mod 7.

(* Julian day numbers of the first and last supported day; 219511 days *)
Definition jdn_first : Z := 2415021.   (* 1900-01-01 *)
Definition jdn_last : Z := 2634531.    (* 2500-12-31 *)

(* POSIX.1 "Seconds Since the Epoch" (XBD 4.16), with tm_year = y - 1900 and
   tm_yday = days before the day within its year; divisions are floor divisions so
   that the formula is the proleptic Gregorian count for years before 1970 too. *)
Definition posix_seconds (y m d h mi s : Z) : Z :=
  let tm_year := y - 1900 in
  let tm_yday := days_before_month y m + (d - 1) in
  s + mi * 60 + h * 3600 + tm_yday * 86400 + (tm_year - 70) * 31536000 +
  ((tm_year - 69) / 4) * 86400 - ((tm_year - 1) / 100) * 86400 + ((tm_year + 299) / 400) * 86400.

(* ------------------------------------------------------------------ sweep helpers *)
Definition zs (lo : Z) (n : nat) : list Z := map (fun i => lo + Z.of_nat i) (seq 0 n).
