(* C20_TsGen: Timestamp::toString / toFormattedString and Date::toIsoString as snprintf over the
   formats, argument expressions and buffer sizes GENERATED from Timestamp.cc / Date.cc
   (Gen_C20Ts), with a small interpreter for the conversions these formats use
   (%d %ld %u, optional 0 flag and width).  No proofs.  gmtime_r is break_utc (the generated
   BreakTime, proved equal to the POSIX formula and compared with glibc by the harness). *)
From Coq Require Import List ZArith Bool Arith.
From Coq.Strings Require Import Byte.
From Muduo Require Import Base_Bytes Gen_C20 Gen_C20Ts C20_Model.
Import ListNotations.
Local Open Scope Z_scope.

Definition conv (zero : bool) (w : nat) (v : Z) : list byte := if zero then fmt0 w v else fmtsp w v.

(* state: None = copying literally; Some (zero flag, width so far) = inside a conversion *)
Fixpoint printf_z (fmt : list Z) (st : option (bool * nat)) (args : list Z) : list byte :=
  match fmt with
  | [] => []
  | c :: rest =>
    match st with
    | None => if c =? 37 then printf_z rest (Some (false, 0%nat)) args
              else byte_of_Z c :: printf_z rest None args
    | Some (z, w) =>
      if (c =? 48) && negb z && (w =? 0)%nat then printf_z rest (Some (true, 0%nat)) args
      else if (48 <=? c) && (c <=? 57) then printf_z rest (Some (z, (w * 10 + Z.to_nat (c - 48))%nat)) args
      else if c =? 108 then printf_z rest st args
      else if (c =? 100) || (c =? 117) then conv z w (hd 0 args) ++ printf_z rest None (tl args)
      else printf_z rest None args
    end
  end.

(* snprintf(buf, size, fmt, args...): at most size - 1 characters *)
Definition snprintf_z (size : Z) (fmt : list Z) (args : list Z) : list byte :=
  firstn (Z.to_nat (size - 1)) (printf_z fmt None args).

Definition ts_toString_g (us : Z) : list byte :=
  snprintf_z Timestamp_toString_bufsize Timestamp_toString_fmt (Timestamp_toString_args us).

Definition ts_toFormatted_g (us : Z) (showMicro : bool) : list byte :=
  let dt := break_utc (Timestamp_toFormattedString_seconds us) in
  let tm (f : Z -> Z -> Z -> Z -> Z -> Z -> Z -> list Z) :=
    f us (year dt - 1900) (month dt - 1) (day dt) (hour dt) (minute dt) (second dt) in
  if showMicro then snprintf_z Timestamp_toFormattedString_bufsize Timestamp_toFormattedString_fmt_micro (tm Timestamp_toFormattedString_args_micro)
  else snprintf_z Timestamp_toFormattedString_bufsize Timestamp_toFormattedString_fmt_plain (tm Timestamp_toFormattedString_args_plain).

(* Date(j).toIsoString() *)
Definition date_toIsoString_g (j : Z) : list byte :=
  let '(y, m, d) := getYearMonthDay j in
  snprintf_z Date_toIsoString_bufsize Date_toIsoString_fmt (Date_toIsoString_args y m d).

(* ---- specification side ---- *)
(* "YYYY-MM-DD" *)
Definition date_iso (y m d : Z) : list byte := fmtsp 4 y ++ [ch_minus] ++ fmt0 2 m ++ [ch_minus] ++ fmt0 2 d.
Definition date_iso_parse (l : list byte) : Z * Z * Z :=
  let f a n := parse_dec (firstn n (skipn a l)) in (f 0 4, f 5 2, f 8 2)%nat.
