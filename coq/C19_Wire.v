(* C19_Wire: the bytes of a muduo.net.RpcMessage (muduo/net/protorpc/rpc.proto, proto2) as protobuf
   writes and reads them -- the payload that RpcCodec (the ProtobufCodecLite instance of C18 with
   tag "RPC0") frames.  Executable; compared with the real RpcMessage::SerializeAsString /
   ParseFromString by the C19 driver (ops SER / WIRE).  No proofs here (C19_WireProofs).

     message RpcMessage { required MessageType type = 1; required fixed64 id = 2;
                          optional string service = 3; optional string method = 4;
                          optional bytes request = 5;  optional bytes response = 6;
                          optional ErrorCode error = 7; }

   Serialisation: the present fields in field-number order; key = varint (number * 8 + wire type);
   enums as varints, the id as 8 little-endian bytes, strings / bytes length-delimited.
   Parsing (what the generated _InternalParse does): any order, the last occurrence of a field
   wins, a field that arrives with another wire type and every unknown field is skipped according
   to its wire type (groups recursively), an enum value that is not an enumerator is skipped
   (proto2), tag 0 / a stray end-group / field number 0 / wire types 6, 7 / truncation fail, and
   finally both required fields must have been seen. *)
From Coq Require Import List ZArith Bool Arith.
From Coq.Strings Require Import Byte.
From Muduo Require Import Base_Bytes C19_Model.
Import ListNotations.
Local Open Scope Z_scope.

Inductive mtype := MT_REQUEST | MT_RESPONSE | MT_ERROR.

Definition mtype_num (t : mtype) : Z := match t with MT_REQUEST => 1 | MT_RESPONSE => 2 | MT_ERROR => 3 end.
Definition mtype_of_num (v : Z) : option mtype :=
  if v =? 1 then Some MT_REQUEST else if v =? 2 then Some MT_RESPONSE else if v =? 3 then Some MT_ERROR else None.
Definition err_of_num (v : Z) : option errcode :=
  if v =? 0 then Some NO_ERROR else if v =? 1 then Some WRONG_PROTO else if v =? 2 then Some NO_SERVICE
  else if v =? 3 then Some NO_METHOD else if v =? 4 then Some INVALID_REQUEST
  else if v =? 5 then Some INVALID_RESPONSE else if v =? 6 then Some TIMEOUT else None.

Record rpcmsg := mkMsg {
  m_type : mtype;
  m_id : Z;                       (* fixed64: 0 <= id < 2^64 (RpcChannel casts int64 <-> uint64) *)
  m_service : option bytes;
  m_method : option bytes;
  m_request : option bytes;
  m_response : option bytes;
  m_error : option errcode
}.

(* ---- varints ---- *)
Fixpoint varint_enc (fuel : nat) (x : Z) : bytes :=
  match fuel with
  | O => []
  | S f => if x <? 128 then [byte_of_Z x] else byte_of_Z (x mod 128 + 128) :: varint_enc f (x / 128)
  end.
Definition varint (x : Z) : bytes := varint_enc 10 x.

(* at most [fuel] bytes; the value is NOT reduced (callers reduce mod 2^32 / 2^64) *)
Fixpoint varint_dec (fuel : nat) (l : bytes) : option (Z * bytes) :=
  match fuel, l with
  | S f, b :: r =>
      let v := Z_of_byte b in
      if v <? 128 then Some (v, r)
      else match varint_dec f r with
           | Some (hi, r') => Some (v - 128 + 128 * hi, r')
           | None => None
           end
  | _, _ => None
  end.

Definition le64 (x : Z) : bytes := rev (be_encode 8 x).
Definition le64_dec (l : bytes) : option (Z * bytes) :=
  if (length l <? 8)%nat then None else Some (be_decode (rev (firstn 8 l)), skipn 8 l).

(* an int read from a 64-bit varint: the low 32 bits, signed *)
Definition trunc32 (v : Z) : Z := let u := v mod 4294967296 in if u <? 2147483648 then u else u - 4294967296.

(* ---- serialisation ---- *)
Definition key (f wt : Z) : bytes := varint (f * 8 + wt).
Definition ser_len (f : Z) (b : bytes) : bytes := key f 2 ++ varint (Z.of_nat (length b)) ++ b.
Definition ser_opt {A} (f : A -> bytes) (o : option A) : bytes := match o with Some a => f a | None => [] end.

Definition wire_ser (m : rpcmsg) : bytes :=
  (key 1 0 ++ varint (mtype_num (m_type m))) ++
  (key 2 1 ++ le64 (m_id m)) ++
  ser_opt (ser_len 3) (m_service m) ++
  ser_opt (ser_len 4) (m_method m) ++
  ser_opt (ser_len 5) (m_request m) ++
  ser_opt (ser_len 6) (m_response m) ++
  ser_opt (fun e => key 7 0 ++ varint (errnum e)) (m_error m).

(* ---- parsing ---- *)
Record pmsg := mkP {
  p_type : option mtype; p_id : option Z;
  p_service : option bytes; p_method : option bytes; p_request : option bytes; p_response : option bytes;
  p_error : option errcode
}.
Definition p_empty : pmsg := mkP None None None None None None None.

(* a length-delimited value: the size is a varint of at most 5 bytes; the bytes must be there *)
Definition read_len (l : bytes) : option (bytes * bytes) :=
  match varint_dec 5 l with
  | Some (n, r) => if (n <? 2147483632) && (n <=? Z.of_nat (length r)) then Some (firstn (Z.to_nat n) r, skipn (Z.to_nat n) r) else None
  | None => None
  end.

(* skip one value of wire type [wt] that belongs to (unknown) field [fnum] *)
Fixpoint skip_val (fuel : nat) (wt fnum : Z) (l : bytes) : option bytes :=
  match fuel with
  | O => None
  | S f =>
      if wt =? 0 then match varint_dec 10 l with Some (_, r) => Some r | None => None end
      else if wt =? 1 then (if (length l <? 8)%nat then None else Some (skipn 8 l))
      else if wt =? 2 then match read_len l with Some (_, r) => Some r | None => None end
      else if wt =? 5 then (if (length l <? 4)%nat then None else Some (skipn 4 l))
      else if wt =? 3 then skip_group f fnum l
      else None
  end
with skip_group (fuel : nat) (fnum : Z) (l : bytes) : option bytes :=
  match fuel with
  | O => None
  | S f =>
      match varint_dec 5 l with
      | None => None
      | Some (t0, r) =>
          let tag := t0 mod 4294967296 in
          if tag =? 0 then None
          else if tag mod 8 =? 4 then (if tag / 8 =? fnum then Some r else None)
          else if tag / 8 =? 0 then None
          else match skip_val f (tag mod 8) (tag / 8) r with
               | Some r' => skip_group f fnum r'
               | None => None
               end
      end
  end.

(* one field: the rest of the input and the updated message *)
Definition parse_one (l : bytes) (p : pmsg) : option (bytes * pmsg) :=
  match varint_dec 5 l with
  | None => None
  | Some (t0, r) =>
      let tag := t0 mod 4294967296 in
      let fnum := tag / 8 in
      let wt := tag mod 8 in
      if (tag =? 0) || (wt =? 4) || (fnum =? 0) then None
      else
        let unknown := match skip_val (S (length r)) wt fnum r with Some r' => Some (r', p) | None => None end in
        if (fnum =? 1) && (wt =? 0) then
          match varint_dec 10 r with
          | Some (v, r') =>
              Some (r', match mtype_of_num (trunc32 v) with
                        | Some t => mkP (Some t) (p_id p) (p_service p) (p_method p) (p_request p) (p_response p) (p_error p)
                        | None => p
                        end)
          | None => None
          end
        else if (fnum =? 2) && (wt =? 1) then
          match le64_dec r with
          | Some (i, r') => Some (r', mkP (p_type p) (Some i) (p_service p) (p_method p) (p_request p) (p_response p) (p_error p))
          | None => None
          end
        else if (fnum =? 3) && (wt =? 2) then
          match read_len r with
          | Some (b, r') => Some (r', mkP (p_type p) (p_id p) (Some b) (p_method p) (p_request p) (p_response p) (p_error p))
          | None => None
          end
        else if (fnum =? 4) && (wt =? 2) then
          match read_len r with
          | Some (b, r') => Some (r', mkP (p_type p) (p_id p) (p_service p) (Some b) (p_request p) (p_response p) (p_error p))
          | None => None
          end
        else if (fnum =? 5) && (wt =? 2) then
          match read_len r with
          | Some (b, r') => Some (r', mkP (p_type p) (p_id p) (p_service p) (p_method p) (Some b) (p_response p) (p_error p))
          | None => None
          end
        else if (fnum =? 6) && (wt =? 2) then
          match read_len r with
          | Some (b, r') => Some (r', mkP (p_type p) (p_id p) (p_service p) (p_method p) (p_request p) (Some b) (p_error p))
          | None => None
          end
        else if (fnum =? 7) && (wt =? 0) then
          match varint_dec 10 r with
          | Some (v, r') =>
              Some (r', match err_of_num (trunc32 v) with
                        | Some e => mkP (p_type p) (p_id p) (p_service p) (p_method p) (p_request p) (p_response p) (Some e)
                        | None => p
                        end)
          | None => None
          end
        else unknown
  end.

Fixpoint parse_fields (fuel : nat) (l : bytes) (p : pmsg) : option pmsg :=
  match fuel with
  | O => None
  | S f =>
      match l with
      | [] => Some p
      | _ => match parse_one l p with
             | Some (r, p') => parse_fields f r p'
             | None => None
             end
      end
  end.

(* IsInitialized: both required fields *)
Definition finish (p : pmsg) : option rpcmsg :=
  match p_type p, p_id p with
  | Some t, Some i => Some (mkMsg t i (p_service p) (p_method p) (p_request p) (p_response p) (p_error p))
  | _, _ => None
  end.

Definition wire_parse (l : bytes) : option rpcmsg :=
  match parse_fields (S (length l)) l p_empty with
  | Some p => finish p
  | None => None
  end.

(* ---- frames and the channel: what a sent event is on the wire, what a received message is as a label ----
   ids: RpcChannel converts int64 <-> uint64 by a cast *)
Definition u64 (i : Z) : Z := i mod 18446744073709551616.
Definition s64 (u : Z) : Z := if u <? 9223372036854775808 then u else u - 18446744073709551616.

(* the inner message: [wire_of m] = SerializeAsString of the user's message with content m (environment) *)
Section Frames.
  Variable wire_of : bytes -> bytes.
  Variable content_of : bytes -> payload.       (* what ParseFromString makes of the bytes: Valid m / Corrupt *)

  Definition msg_of_event (e : event) : option rpcmsg :=
    match e with
    | ESendRequest i svc meth req => Some (mkMsg MT_REQUEST (u64 i) (Some svc) (Some meth) (Some (wire_of req)) None None)
    | ESendResponse i (RReply m) => Some (mkMsg MT_RESPONSE (u64 i) None None None (Some (wire_of m)) None)
    | ESendResponse i (RError e) => Some (mkMsg MT_RESPONSE (u64 i) None None None None (Some e))
    | _ => None
    end.

  Definition opt_bytes (o : option bytes) : bytes := match o with Some b => b | None => [] end.

  (* RpcChannel::onRpcMessage reads message.service() etc.: an absent field reads as "" *)
  Definition label_of_msg (m : rpcmsg) : label :=
    match m_type m with
    | MT_RESPONSE => LResponse (s64 (m_id m))
                       (mkBody (match m_response m with Some b => Some (content_of b) | None => None end) (m_error m))
    | MT_REQUEST => LRequest (mkReq (s64 (m_id m)) (opt_bytes (m_service m)) (opt_bytes (m_method m))
                                    (content_of (opt_bytes (m_request m))))
    | MT_ERROR => LOther (s64 (m_id m))
    end.

  (* what one channel hands to its connection arrives at the peer's channel as this label *)
  Definition arrives_as (e : event) : option label :=
    match msg_of_event e with
    | Some m => match wire_parse (wire_ser m) with
                | Some m' => Some (label_of_msg m')
                | None => None
                end
    | None => None
    end.
End Frames.
