(* Properties_C09: the loop calls exactly the ready, subscribed channels -- same under epoll and poll.
   Only statements, closed by [exact], with Print Assumptions and non-vacuity examples.
   Models: C09_Model (ep_step = EPollPoller + Channel, pp_step ri = PollPoller + Channel, where
   ri = "removeChannel resets the channel's index"; the value for the current tree is the generated
   Gen_C09.PollPoller_remove_resets_index).  Tie to /repo: regenerated constants/facts
   (Gen_Consts, Gen_C09) and the correspondence check (bin/check C09).

   Histories: [hist_ok extra spec0 ops] = every op meets the documented preconditions of the
   Channel API ([sguard]: one registered channel per descriptor, remove() only when registered and
   isNoneEvent(), destruction only after remove(), no use of a destroyed object) and the extra
   hypothesis [extra].  Interest changes happen at quiescent points (between polls).

   FULL STATEMENTS that the faithful models falsify (findings; see findings/C09.md):
     F-1   poll back-end, pinned removeChannel (ri = false): "for ALL histories" fails on
           remove(); enableReading() of the same object      -> C09_poll_reregister_refuted
     F-14  both back-ends: an update that leaves the interest empty, applied to a channel that is
           not in the kernel's set (fresh, or already fully disabled), registers the descriptor
           with an EMPTY interest: HUP/ERR are then delivered to a disabled channel (epoll: also
           after disableAll(); disableAll()), the back-ends differ, and PollPoller::removeChannel
           asserts                                            -> C09_disabled_called_refuted,
                                                                 C09_backends_agree_refuted,
                                                                 C09_no_fault_refuted
   The theorems below therefore carry [sclean] ("no redundant disable") and are named _partial;
   the poll theorem additionally carries [sfresh] when ri = false. *)
From Coq Require Import List ZArith NArith Lia Bool Arith Permutation.
From Muduo Require Import Gen_Consts Gen_C09 C09_Model C09_Proofs C09_ProofsPoll C09_Witness.
Import ListNotations.

(* ---- epoll back-end ------------------------------------------------------------------------------- *)
(* For every state reached by a history meeting the preconditions (and sclean), and every next op:
   if the op meets them it succeeds (never Fault, never a failed epoll_ctl), and for Poll what the
   kernel had ready is EXACTLY {(c, ready(fd c) & (events c | ERR|HUP|NVAL)) | c registered,
   events c <> 0, intersection <> 0}; the reported list is a duplicate-free min(n,cap)-part of it
   whichever entries the kernel picks; nothing else changes, the array grows iff it was filled.
   If the op violates a precondition it is Rejected. *)
Theorem C09_epoll_refines_partial : forall st sp, reachE st sp ->
  forall o,
    (sguard sp o -> sclean sp o ->
       exists st' act, ep_step st o = Ok (st', act) /\ reachE st' (spec_step sp o) /\
         e_kerr st' = 0 /\
         match o with
         | Poll ready choice =>
             (forall c r, In (c, r) (ep_full st ready) <-> spec_reports sp ready c r) /\
             NoDup (map fst (ep_full st ready)) /\
             (exists rest, Permutation (ep_full st ready) (act ++ rest)) /\
             length act = Nat.min (length (ep_full st ready)) (e_cap st) /\
             e_cap st' = ep_next_cap st (length (ep_full st ready)) /\
             e_objs st' = e_objs st /\ e_map st' = e_map st /\ e_kern st' = e_kern st
         | _ => act = []
         end) /\
    (~ sguard sp o -> ep_step st o = Rejected).
Proof. exact reachE_refines. Qed.
Print Assumptions C09_epoll_refines_partial.

Theorem C09_epoll_no_fault_partial : forall st sp o, reachE st sp -> sclean sp o -> ep_step st o <> Fault.
Proof. exact reachE_no_fault. Qed.
Print Assumptions C09_epoll_no_fault_partial.

(* with N entries ready, after k polls with N < cap * 2^k (initially cap = 16: k = ceil(log2((N+1)/16)))
   the array is larger than N, so poll k+1 reports every ready channel -- whichever subsets the kernel
   picked in between.  Uses 2 <= EPollPoller_grow_factor (regenerated from EPollPoller::poll). *)
Theorem C09_epoll_bounded : forall choices st sp ready,
  InvE st sp ->
  length (ep_full st ready) < e_cap st * 2 ^ length choices ->
  exists st' outs, ep_run st (map (Poll ready) choices) = Ok (st', outs) /\
     InvE st' sp /\ e_kern st' = e_kern st /\ length (ep_full st ready) < e_cap st'.
Proof. exact ep_polls_grow. Qed.
Print Assumptions C09_epoll_bounded.

Theorem C09_epoll_reach_inv : forall st sp, reachE st sp -> InvE st sp.
Proof. exact reachE_inv. Qed.
Print Assumptions C09_epoll_reach_inv.


(* ---- poll back-end ------------------------------------------------------------------------------------ *)
(* [reachP ri]: histories meeting the preconditions, sclean, and -- only when removeChannel does not
   reset the index (ri = false) -- sfresh ("no update of a removed Channel object", finding F-1).
   A conforming op succeeds (never Fault); Poll leaves the state alone and reports EXACTLY the set
   {(c, ready(fd c) & (events c | ERR|HUP|NVAL)) | c registered, events c <> 0, intersection <> 0};
   a violating op is Rejected. *)
Theorem C09_poll_refines_partial : forall ri st sp, reachP ri st sp ->
  forall o,
    (sguard sp o -> pextra ri sp o ->
       exists st' act, pp_step ri st o = Ok (st', act) /\ reachP ri st' (spec_step sp o) /\
         match o with
         | Poll ready _ => st' = st /\ forall c r, In (c, r) act <-> spec_reports sp ready c r
         | _ => act = []
         end) /\
    (~ sguard sp o -> pp_step ri st o = Rejected).
Proof. exact reachP_refines. Qed.
Print Assumptions C09_poll_refines_partial.

(* with the one-line repair (index reset) the F-1 hypothesis disappears: prepared for the fix: commit *)
Theorem C09_poll_reset_no_extra : forall sp o, sclean sp o -> pextra true sp o.
Proof. exact pextra_true. Qed.
Print Assumptions C09_poll_reset_no_extra.

(* the statement for the tree as it is now: ri = the regenerated fact *)
Theorem C09_poll_refines_current : forall st sp, reachP PollPoller_remove_resets_index st sp ->
  forall o,
    (sguard sp o -> pextra PollPoller_remove_resets_index sp o ->
       exists st' act, pp_step_current st o = Ok (st', act) /\
         reachP PollPoller_remove_resets_index st' (spec_step sp o) /\
         match o with
         | Poll ready _ => st' = st /\ forall c r, In (c, r) act <-> spec_reports sp ready c r
         | _ => act = []
         end) /\
    (~ sguard sp o -> pp_step_current st o = Rejected).
Proof. exact (reachP_refines PollPoller_remove_resets_index). Qed.
Print Assumptions C09_poll_refines_current.

Theorem C09_poll_reach_inv : forall ri st sp, reachP ri st sp -> InvP ri st sp.
Proof. exact reachP_inv. Qed.
Print Assumptions C09_poll_reach_inv.

(* ---- both back-ends, same history --------------------------------------------------------------------- *)
(* the poll back-end reports exactly what the kernel has ready for the epoll back-end; epoll reports
   a part of it, and all of it when it fits the result array *)
Theorem C09_backends_agree_partial : forall ri stE stP sp ready choiceE choiceP stP' actP,
  reachE stE sp -> reachP ri stP sp ->
  pp_step ri stP (Poll ready choiceP) = Ok (stP', actP) ->
  (forall c r, In (c, r) actP <-> In (c, r) (ep_full stE ready)) /\
  (exists stE' actE, ep_step stE (Poll ready choiceE) = Ok (stE', actE) /\
     (forall c r, In (c, r) actE -> In (c, r) actP) /\
     (length (ep_full stE ready) <= e_cap stE -> forall c r, In (c, r) actP -> In (c, r) actE)).
Proof. exact backends_agree. Qed.
Print Assumptions C09_backends_agree_partial.

(* ---- dispatch (Channel::handleEventWithGuard) ----------------------------------------------------- *)
Theorem C09_dispatch_sound : forall r,
  (In CbRead (dispatch r) <-> N.land r (N.lor POLLIN (N.lor POLLPRI POLLRDHUP)) <> 0%N) /\
  (In CbWrite (dispatch r) <-> N.land r POLLOUT <> 0%N) /\
  (In CbClose (dispatch r) <-> N.land r POLLHUP <> 0%N /\ N.land r POLLIN = 0%N) /\
  (In CbError (dispatch r) <-> N.land r (N.lor POLLERR POLLNVAL) <> 0%N).
Proof. exact dispatch_sound. Qed.
Print Assumptions C09_dispatch_sound.

Theorem C09_dispatch_order : forall r, exists a b c d : bool,
  dispatch r = (if a then [CbClose] else []) ++ (if b then [CbError] else []) ++
               (if c then [CbRead] else []) ++ (if d then [CbWrite] else []).
Proof. exact dispatch_order. Qed.
Print Assumptions C09_dispatch_order.

(* a reported condition m that is not one of ERR|HUP|NVAL (readable, priority, writable) was
   subscribed and holds of the descriptor; any reported condition holds of the descriptor *)
Theorem C09_reported_subscribed : forall ready_bits ev m, N.land EHN m = 0%N ->
  N.land (N.land ready_bits (N.lor ev EHN)) m <> 0%N -> N.land ev m <> 0%N /\ N.land ready_bits m <> 0%N.
Proof. exact reported_requested. Qed.
Print Assumptions C09_reported_subscribed.
Theorem C09_reported_holds : forall ready_bits ev m,
  N.land (N.land ready_bits (N.lor ev EHN)) m <> 0%N -> N.land ready_bits m <> 0%N.
Proof. exact reported_holds. Qed.
Print Assumptions C09_reported_holds.

(* ---- findings: the full statements are false of the faithful models ------------------------------- *)
(* F-1: with the pinned removeChannel (no index reset) re-enabling a removed Channel object takes the
   update branch with a stale slot: assertion failure / out-of-bounds = Fault.  The history meets all
   preconditions and has no redundant disable; epoll and the repaired poll back-end handle it. *)
Theorem C09_poll_reregister_refuted : exists ops,
  hist_ok sclean spec0 ops /\ pp_run false pp_init ops = Fault /\
  (exists st outs, pp_run true pp_init ops = Ok (st, outs)) /\
  (exists st outs, ep_run ep_init ops = Ok (st, outs)).
Proof.
  exists w_reregister.
  exact (conj w_reregister_ok (conj w_reregister_faults (conj w_reregister_fixed_ok w_reregister_epoll_ok))).
Qed.
Print Assumptions C09_poll_reregister_refuted.

(* F-14: a disabled channel is called (epoll: disableAll twice; both: disableAll on a fresh channel) *)
Theorem C09_disabled_called_refuted : exists ops ready,
  hist_ok any_hist spec0 ops /\
  (forall c r, ~ spec_reports (spec_run spec0 ops) ready c r) /\
  exists st outs, ep_run ep_init ops = Ok (st, outs) /\ last outs [] = [(0, POLLHUP)] /\
                  callbacks (last outs []) = [(0, CbClose)].
Proof.
  exists w_double_disable, readyHUP.
  exact (conj w_double_disable_ok (conj w_double_disable_spec w_double_disable_epoll)).
Qed.
Print Assumptions C09_disabled_called_refuted.

Theorem C09_backends_agree_refuted : exists ops,
  hist_ok any_hist spec0 ops /\
  (exists st outs, ep_run ep_init ops = Ok (st, outs) /\ last outs [] = [(0, POLLHUP)]) /\
  (forall ri, exists st outs, pp_run ri pp_init ops = Ok (st, outs) /\ last outs [] = []).
Proof. exists w_double_disable. exact w_backends_differ. Qed.
Print Assumptions C09_backends_agree_refuted.

Theorem C09_no_fault_refuted : exists ops,
  hist_ok any_hist spec0 ops /\ forall ri, pp_run ri pp_init ops = Fault.
Proof. exists w_fresh_disable_remove. exact (conj w_fresh_disable_remove_ok w_fresh_disable_remove_faults). Qed.
Print Assumptions C09_no_fault_refuted.

(* ---- non-vacuity: reachable states after a swap-and-pop of a middle entry ------------------------------ *)
Example ex_reachE : exists st outs,
  ep_run ep_init w_swap = Ok (st, outs) /\ reachE st (spec_run spec0 w_swap) /\
  length (e_kern st) = 2 /\ last outs [] = [(0, 1%N); (2, 5%N)].
Proof.
  destruct (run_reachE w_swap ep_init spec0 reachE_init) as [st [outs [E R]]].
  { eapply hist_ok_weaken; [|exact w_swap_ok]. intros sp o [H _]. exact H. }
  exists st, outs. split; [exact E|]. split; [exact R|].
  vm_compute in E. injection E as <- <-. split; reflexivity.
Qed.

Example ex_reachP : forall ri, exists st outs,
  pp_run ri pp_init w_swap = Ok (st, outs) /\ reachP ri st (spec_run spec0 w_swap) /\
  p_pfds st = [mkPfd 0 3; mkPfd 2 7] /\ last outs [] = [(0, 1%N); (2, 5%N)].
Proof.
  intros ri. destruct (run_reachP ri w_swap pp_init spec0 (reachP_init ri)) as [st [outs [E R]]].
  { eapply hist_ok_weaken; [|exact w_swap_ok]. intros sp o [H1 H2]. split; [exact H1|intros _; exact H2]. }
  exists st, outs. split; [exact E|]. split; [exact R|].
  destruct ri; vm_compute in E; injection E as <- <-; split; reflexivity.
Qed.

(* the growth bound is not vacuous: 16 * 2^5 exceeds 300 *)
Example ex_bound_300 : 300 < kInitEventListSize * 2 ^ 5.
Proof. vm_compute. lia. Qed.
