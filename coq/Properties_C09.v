(* Properties_C09: the loop calls exactly the ready, subscribed channels -- same under epoll and poll.
   Only statements, closed by [exact], with Print Assumptions and non-vacuity examples.
   Models (C09_Model): ep_step se = EPollPoller + Channel, pp_step ri ne = PollPoller + Channel, where
     ri = PollPoller::removeChannel resets the removed channel's index          (F-1,  fixed bbde8b0)
     se = EPollPoller::updateChannel only records a channel with an EMPTY interest (kDeleted) instead
          of EPOLL_CTL_ADDing it                                                    (F-14, fixed a5a0563)
     ne = PollPoller::updateChannel's new-entry branch stores -fd-1 for an empty interest     (same)
   ep_step_current / pp_step_current instantiate them with the facts regenerated from the current
   sources (Gen_C09); loop_iter = one iteration of EventLoop::loop() around a poller; env_ready /
   handleRead_env / timerRead_env = the wake-up eventfd and the timerfd.
   Tie to /repo: regenerated constants/facts/functions (Gen_Consts, Gen_C09) with link lemmas, and the
   correspondence check (bin/check C09).

   Histories: [reachEC], [reachPC], [hist_ok no_extra] = every op meets the documented preconditions of
   the Channel API ([sguard]: one registered channel per descriptor, remove() only when registered
   and isNoneEvent(), destruction only after remove(), no use of a destroyed object) -- and NOTHING
   else.  Interest changes happen at quiescent points or inside the callbacks of a batch (loop_iter).

   Both findings of this property are FIXED in /repo; the theorems about the current tree carry no
   extra hypothesis and depend on the generated facts through C09_epoll_fix_generated /
   C09_poll_fix_generated: reverting either fix flips a fact and breaks them.  The statements about the
   OLD shapes stay: the parameterised theorems (_partial: [eextra se] = sclean when se = false,
   [pextra ri ne] = sclean when ne = false and sfresh when ri = false) and the refutations
   C09_poll_reregister_refuted (ri = false), C09_disabled_called_refuted, C09_backends_agree_refuted,
   C09_no_fault_refuted (se = false / ne = false).

   DEVIATION of the current tree from the property TEXT (review B-1; candidate finding
   stale-dispatch-within-batch, findings/C09.md): the clause "a callback runs only when ... the channel
   currently subscribes to it ... a disabled or removed channel is never called" read at the moment of
   each call is FALSE -- C09_disabled_never_called_refuted(_poll).  What holds is the _partial
   statement: every callback of an iteration belongs to a channel that was registered, subscribed and
   ready when THAT iteration polled (C09_disabled_never_called_partial, C09_stale_within_batch: the
   precise characterisation), so a channel that is off when an iteration polls gets no callback in it:
   never in a later iteration (C09_off_not_called_next_iteration). *)
From Coq Require Import List ZArith NArith Lia Bool Arith Permutation.
From Muduo Require Import Gen_Consts Gen_C09 C09_Model C09_Proofs C09_ProofsPoll C09_ProofsLoop C09_Witness C09_ProofsStrict.
Import ListNotations.

(* ==== epoll back-end ==================================================================================== *)
(* the generated fact: update(EPOLL_CTL_ADD, ..) only for a non-empty interest, otherwise set_index(kDeleted) *)
Theorem C09_epoll_fix_generated : EPollPoller_add_skips_empty_interest = true.
Proof. exact add_skips_current. Qed.
Print Assumptions C09_epoll_fix_generated.

(* CURRENT tree.  For every state reached by a history meeting the preconditions, and every next op:
   if the op meets them it succeeds (never Fault, never a failed epoll_ctl), and for Poll what the
   kernel has ready is EXACTLY {(c, ready(fd c) & (events c | ERR|HUP|NVAL)) | c registered,
   events c <> 0, intersection <> 0}; the reported list is a duplicate-free min(n,cap)-part of it
   whichever entries the kernel picks; nothing else changes, the array grows iff it was filled.
   If the op violates a precondition it is Rejected. *)
Theorem C09_epoll_refines : forall st sp, reachEC st sp ->
  forall o,
    (sguard sp o ->
       exists st' act, ep_step_current st o = Ok (st', act) /\ reachEC st' (spec_step sp o) /\
         e_kerr st' = 0 /\
         match o with
         | Poll ready choice =>
             (forall c r, In (c, r) (ep_full st ready) <-> spec_reports sp ready c r) /\
             NoDup (map fst (ep_full st ready)) /\
             (exists rest, Permutation (ep_full st ready) (act ++ rest)) /\
             length act = Nat.min (length (ep_full st ready)) (e_cap st) /\
             e_cap st' = ep_next_cap st (length (ep_full st ready)) /\
             e_objs st' = e_objs st /\ e_map st' = e_map st /\ e_kern st' = e_kern st
         | _ => act = []
         end) /\
    (~ sguard sp o -> ep_step_current st o = Rejected).
Proof. exact reachEC_refines. Qed.
Print Assumptions C09_epoll_refines.

(* no op at all -- conforming or not -- faults from a reachable state *)
Theorem C09_epoll_no_fault : forall st sp o, reachEC st sp -> ep_step_current st o <> Fault.
Proof. exact reachEC_no_fault. Qed.
Print Assumptions C09_epoll_no_fault.

(* any shape of updateChannel (se); the old one needs "no redundant disable" *)
Theorem C09_epoll_refines_partial : forall se st sp, reachE se st sp ->
  forall o,
    (sguard sp o -> eextra se sp o ->
       exists st' act, ep_step se st o = Ok (st', act) /\ reachE se st' (spec_step sp o) /\
         e_kerr st' = 0 /\
         match o with
         | Poll ready choice =>
             (forall c r, In (c, r) (ep_full st ready) <-> spec_reports sp ready c r) /\
             NoDup (map fst (ep_full st ready)) /\
             (exists rest, Permutation (ep_full st ready) (act ++ rest)) /\
             length act = Nat.min (length (ep_full st ready)) (e_cap st) /\
             e_cap st' = ep_next_cap st (length (ep_full st ready)) /\
             e_objs st' = e_objs st /\ e_map st' = e_map st /\ e_kern st' = e_kern st
         | _ => act = []
         end) /\
    (~ sguard sp o -> ep_step se st o = Rejected).
Proof. exact reachE_refines. Qed.
Print Assumptions C09_epoll_refines_partial.

Theorem C09_epoll_no_fault_partial : forall se st sp o, reachE se st sp -> eextra se sp o -> ep_step se st o <> Fault.
Proof. exact reachE_no_fault. Qed.
Print Assumptions C09_epoll_no_fault_partial.

Theorem C09_epoll_reach_inv : forall st sp, reachEC st sp -> InvE st sp.
Proof. exact reachEC_inv. Qed.
Print Assumptions C09_epoll_reach_inv.

(* with N entries ready, after k polls with N < cap * 2^k the array is larger than N -- whichever subsets
   the kernel picked in between.  Uses 2 <= EPollPoller_grow_factor (regenerated from EPollPoller::poll). *)
Theorem C09_epoll_bounded : forall choices st sp ready,
  InvE st sp ->
  length (ep_full st ready) < e_cap st * 2 ^ length choices ->
  exists st' outs, ep_run_current st (map (Poll ready) choices) = Ok (st', outs) /\
     InvE st' sp /\ e_kern st' = e_kern st /\ length (ep_full st ready) < e_cap st'.
Proof. exact ep_polls_grow_current. Qed.
Print Assumptions C09_epoll_bounded.

(* the bound in terms of the GENERATED constant and the GENERATED growth guard of EPollPoller::poll:
   from any reachable state (events_ never shrinks below kInitEventListSize), with N entries ready and
   N < kInitEventListSize * 2^k, after k polls -- whichever subsets the kernel picked -- the next poll
   reports every one of them *)
Theorem C09_epoll_bounded_generated : forall choices choice st sp ready,
  reachEC st sp ->
  length (ep_full st ready) < Z.to_nat EPollPoller_kInitEventListSize * 2 ^ length choices ->
  exists st' outs st'' act, ep_run_current st (map (Poll ready) choices) = Ok (st', outs) /\
     ep_step_current st' (Poll ready choice) = Ok (st'', act) /\ Permutation (ep_full st ready) act.
Proof. exact reachEC_polls_report_all. Qed.
Print Assumptions C09_epoll_bounded_generated.

(* the model's growth step IS the guard and the resize argument translated from EPollPoller::poll
   (numEvents = number of entries returned, size = events_.size()) *)
Theorem C09_epoll_growth_generated : forall st ready choice st' act,
  ep_step_current st (Poll ready choice) = Ok (st', act) ->
  Z.of_nat (e_cap st') =
  if EPollPoller_poll_grow_guard (Z.of_nat (length act)) (Z.of_nat (e_cap st))
  then EPollPoller_poll_new_size (Z.of_nat (e_cap st)) else Z.of_nat (e_cap st).
Proof. exact (ep_poll_cap_generated EPollPoller_add_skips_empty_interest). Qed.
Print Assumptions C09_epoll_growth_generated.

Theorem C09_epoll_cap_never_below_init : forall st sp, reachEC st sp ->
  Z.to_nat EPollPoller_kInitEventListSize <= e_cap st.
Proof. exact (fun st sp R => ie_capmin st sp (reachEC_inv st sp R)). Qed.
Print Assumptions C09_epoll_cap_never_below_init.

(* ==== poll back-end ===================================================================================== *)
(* the generated facts: removeChannel ends with channel->set_index(<negative>); a new entry with an empty
   interest is stored as -fd-1 and channels_ is keyed by channel->fd() *)
Theorem C09_poll_fix_generated :
  PollPoller_remove_resets_index = true /\ PollPoller_new_entry_negates_empty = true.
Proof. exact (conj resets_index_current new_entry_negates_current). Qed.
Print Assumptions C09_poll_fix_generated.

(* CURRENT tree, ALL histories meeting the preconditions -- remove() and re-registration of the same
   Channel object and redundant disables included.  Every conforming op succeeds; Poll leaves the state
   alone and reports EXACTLY the interest map's set; a violating op is Rejected. *)
Theorem C09_poll_refines : forall st sp, reachPC st sp ->
  forall o,
    (sguard sp o ->
       exists st' act, pp_step_current st o = Ok (st', act) /\ reachPC st' (spec_step sp o) /\
         match o with
         | Poll ready _ => st' = st /\ forall c r, In (c, r) act <-> spec_reports sp ready c r
         | _ => act = []
         end) /\
    (~ sguard sp o -> pp_step_current st o = Rejected).
Proof. exact reachPC_refines. Qed.
Print Assumptions C09_poll_refines.

Theorem C09_poll_no_fault : forall st sp o, reachPC st sp -> pp_step_current st o <> Fault.
Proof. exact reachPC_no_fault. Qed.
Print Assumptions C09_poll_no_fault.

(* "called once" for the poll back-end too (review B-5): no channel is reported twice by one poll *)
Theorem C09_poll_no_duplicates : forall st sp ready choice st' act, reachPC st sp ->
  pp_step_current st (Poll ready choice) = Ok (st', act) -> NoDup (map fst act).
Proof. exact pp_poll_nodup. Qed.
Print Assumptions C09_poll_no_duplicates.

(* any shape (ri, ne): the old ones need sfresh (ri = false) / sclean (ne = false) *)
Theorem C09_poll_refines_partial : forall ri ne st sp, reachP ri ne st sp ->
  forall o,
    (sguard sp o -> pextra ri ne sp o ->
       exists st' act, pp_step ri ne st o = Ok (st', act) /\ reachP ri ne st' (spec_step sp o) /\
         match o with
         | Poll ready _ => st' = st /\ forall c r, In (c, r) act <-> spec_reports sp ready c r
         | _ => act = []
         end) /\
    (~ sguard sp o -> pp_step ri ne st o = Rejected).
Proof. exact reachP_refines. Qed.
Print Assumptions C09_poll_refines_partial.

(* with both repairs no extra hypothesis is left *)
Theorem C09_poll_fixed_no_extra : forall sp o, pextra true true sp o.
Proof. exact pextra_true. Qed.
Print Assumptions C09_poll_fixed_no_extra.

Theorem C09_poll_reach_inv : forall ri ne st sp, reachP ri ne st sp -> InvP ri st sp.
Proof. exact reachP_inv. Qed.
Print Assumptions C09_poll_reach_inv.

(* every history (list of ops) meeting the preconditions runs to the end on both back-ends of the
   current tree and reaches states related to the same interest map *)
Theorem C09_histories_run : forall ops, hist_ok no_extra spec0 ops ->
  (exists stE outsE, ep_run_current ep_init ops = Ok (stE, outsE) /\ reachEC stE (spec_run spec0 ops)) /\
  (exists stP outsP, pp_run_current pp_init ops = Ok (stP, outsP) /\ reachPC stP (spec_run spec0 ops)).
Proof. exact histories_run. Qed.
Print Assumptions C09_histories_run.

(* ==== both back-ends, same history ====================================================================== *)
(* CURRENT tree, ALL histories: both polls succeed; poll's list = the interest map's set = what the kernel
   has ready for epoll; epoll's list is a part of it, all of it when it fits events_ *)
Theorem C09_backends_agree : forall stE stP sp ready choiceE choiceP,
  reachEC stE sp -> reachPC stP sp ->
  exists actP stE' actE,
    pp_step_current stP (Poll ready choiceP) = Ok (stP, actP) /\
    ep_step_current stE (Poll ready choiceE) = Ok (stE', actE) /\
    (forall c r, In (c, r) actP <-> spec_reports sp ready c r) /\
    (forall c r, In (c, r) actP <-> In (c, r) (ep_full stE ready)) /\
    (forall c r, In (c, r) actE -> In (c, r) actP) /\
    (length (ep_full stE ready) <= e_cap stE -> forall c r, In (c, r) actP -> In (c, r) actE).
Proof. exact backends_agree_current. Qed.
Print Assumptions C09_backends_agree.

(* the same MULTISET on both sides (review B-5): each channel at most once in either list, poll's list a
   permutation of what the kernel has ready for epoll, and -- when that fits events_ -- a permutation of
   epoll's list, hence the same multiset of (channel, callback) invocations *)
Theorem C09_backends_agree_multiset : forall stE stP sp ready choiceE choiceP,
  reachEC stE sp -> reachPC stP sp ->
  exists actP stE' actE,
    pp_step_current stP (Poll ready choiceP) = Ok (stP, actP) /\
    ep_step_current stE (Poll ready choiceE) = Ok (stE', actE) /\
    NoDup (map fst actP) /\ NoDup (map fst actE) /\
    Permutation actP (ep_full stE ready) /\
    (length (ep_full stE ready) <= e_cap stE ->
       Permutation actP actE /\ Permutation (callbacks actP) (callbacks actE)).
Proof. exact backends_agree_multiset. Qed.
Print Assumptions C09_backends_agree_multiset.

Theorem C09_backends_agree_partial : forall se ri ne stE stP sp ready choiceE choiceP stP' actP,
  reachE se stE sp -> reachP ri ne stP sp ->
  pp_step ri ne stP (Poll ready choiceP) = Ok (stP', actP) ->
  (forall c r, In (c, r) actP <-> In (c, r) (ep_full stE ready)) /\
  (exists stE' actE, ep_step se stE (Poll ready choiceE) = Ok (stE', actE) /\
     (forall c r, In (c, r) actE -> In (c, r) actP) /\
     (length (ep_full stE ready) <= e_cap stE -> forall c r, In (c, r) actP -> In (c, r) actE)).
Proof. exact backends_agree. Qed.
Print Assumptions C09_backends_agree_partial.

(* ==== dispatch (Channel::handleEventWithGuard, Channel::handleEvent) ==================================== *)
Theorem C09_dispatch_sound : forall r,
  (In CbRead (dispatch r) <-> N.land r (N.lor POLLIN (N.lor POLLPRI POLLRDHUP)) <> 0%N) /\
  (In CbWrite (dispatch r) <-> N.land r POLLOUT <> 0%N) /\
  (In CbClose (dispatch r) <-> N.land r POLLHUP <> 0%N /\ N.land r POLLIN = 0%N) /\
  (In CbError (dispatch r) <-> N.land r (N.lor POLLERR POLLNVAL) <> 0%N).
Proof. exact dispatch_sound. Qed.
Print Assumptions C09_dispatch_sound.

Theorem C09_dispatch_order : forall r, exists a b c d : bool,
  dispatch r = (if a then [CbClose] else []) ++ (if b then [CbError] else []) ++
               (if c then [CbRead] else []) ++ (if d then [CbWrite] else []).
Proof. exact dispatch_order. Qed.
Print Assumptions C09_dispatch_order.

(* the function translated from the if-statements of Channel::handleEventWithGuard (Gen_C09, callback
   codes 0..3) IS [dispatch]: C09_dispatch_sound is a statement about the generated function *)
Theorem C09_dispatch_generated : forall r,
  map cb_of_code (Channel_handleEventWithGuard_calls r) = dispatch r.
Proof. exact dispatch_link. Qed.
Print Assumptions C09_dispatch_generated.

(* Channel::handleEvent: the generated guard; a tied channel whose owner is gone runs NO callback,
   an untied one or one whose owner is alive runs exactly [dispatch] *)
Theorem C09_handle_event_generated : forall tied alive r,
  handle_event tied alive r =
  if Channel_handleEvent_runs tied alive then map cb_of_code (Channel_handleEventWithGuard_calls r) else [].
Proof. exact handle_event_generated. Qed.
Print Assumptions C09_handle_event_generated.
Theorem C09_tie_guard : forall tied alive r,
  (tied = true -> alive = false -> handle_event tied alive r = []) /\
  (tied = false \/ alive = true -> handle_event tied alive r = dispatch r).
Proof. exact handle_event_tie. Qed.
Print Assumptions C09_tie_guard.
Theorem C09_tie_guard_is_lock_generated : Channel_handleEvent_guard_is_tie_lock = true.
Proof. exact tie_guard_is_lock. Qed.
Print Assumptions C09_tie_guard_is_lock_generated.

(* a reported condition m that is not one of ERR|HUP|NVAL (readable, priority, writable) was
   subscribed and holds of the descriptor; any reported condition holds of the descriptor *)
Theorem C09_reported_subscribed : forall ready_bits ev m, N.land EHN m = 0%N ->
  N.land (N.land ready_bits (N.lor ev EHN)) m <> 0%N -> N.land ev m <> 0%N /\ N.land ready_bits m <> 0%N.
Proof. exact reported_requested. Qed.
Print Assumptions C09_reported_subscribed.
Theorem C09_reported_holds : forall ready_bits ev m,
  N.land (N.land ready_bits (N.lor ev EHN)) m <> 0%N -> N.land ready_bits m <> 0%N.
Proof. exact reported_holds. Qed.
Print Assumptions C09_reported_holds.

(* ==== one iteration of EventLoop::loop(): dispatch from the activeChannels_ snapshot ==================== *)
(* generated: the while body is clear(); poll(.., &activeChannels_); for (channel : activeChannels_)
   handleEvent -- with no test in the loop body *)
Theorem C09_loop_dispatches_snapshot_generated : EventLoop_loop_dispatches_snapshot = true.
Proof. exact loop_snapshot_current. Qed.
Print Assumptions C09_loop_dispatches_snapshot_generated.

(* ---- the strict text is refuted ------------------------------------------------------------------------
   [off sp c] = c is destroyed, not registered, or has no interest enabled; [at_call h sp pre] = the
   interest map at the moment the callback following the prefix [pre] of the iteration's log is invoked;
   [never_called_when_off h sp log] = the clause of the property text, at the moment of each call.
   Two witnesses per back-end, all calls meeting every documented precondition ([batch_ok]):
   (a) 0 and 1 readable, 0's read callback disables 1: 1's read callback still runs;
   (b) 0 readable and writable, its read callback does disableAll(); remove(): the write callback of the
       SAME handleEvent still runs, on a channel that is no longer registered with the loop. *)
Theorem C09_disabled_never_called_refuted :
  (exists st act log st', reachEC st (spec_run spec0 w_two) /\ batch_ok h_stale (map fst act) (spec_run spec0 w_two) log /\
     ep_loop_iter h_stale all_run st readyIN [] = Ok (st', act, log) /\
     ~ never_called_when_off h_stale (spec_run spec0 w_two) log) /\
  (exists st act log st', reachEC st (spec_run spec0 w_rw) /\ batch_ok h_self (map fst act) (spec_run spec0 w_rw) log /\
     ep_loop_iter h_self all_run st readyINOUT [] = Ok (st', act, log) /\
     ~ never_called_when_off h_self (spec_run spec0 w_rw) log).
Proof. exact disabled_never_called_refuted_E. Qed.
Print Assumptions C09_disabled_never_called_refuted.

Theorem C09_disabled_never_called_refuted_poll :
  (exists st act log st', reachPC st (spec_run spec0 w_two) /\ batch_ok h_stale (map fst act) (spec_run spec0 w_two) log /\
     pp_loop_iter_current h_stale all_run st readyIN [] = Ok (st', act, log) /\
     ~ never_called_when_off h_stale (spec_run spec0 w_two) log) /\
  (exists st act log st', reachPC st (spec_run spec0 w_rw) /\ batch_ok h_self (map fst act) (spec_run spec0 w_rw) log /\
     pp_loop_iter_current h_self all_run st readyINOUT [] = Ok (st', act, log) /\
     ~ never_called_when_off h_self (spec_run spec0 w_rw) log).
Proof. exact disabled_never_called_refuted_P. Qed.
Print Assumptions C09_disabled_never_called_refuted_poll.

(* ---- PARTIAL: what holds instead.  Extra hypothesis relative to the text: "off" is judged when the
   iteration POLLS, not when the callback runs.  For every reachable state, poll result and callbacks
   meeting the preconditions: every callback of the iteration belongs to a channel the poll of THIS
   iteration reported, i.e. registered, subscribed and ready at that moment; a channel that is off at
   that moment gets no callback.  The state after the batch is reachable again with the interest map
   the callbacks' calls lead to, so the statement applies to every later iteration: a stale call is
   confined to the iteration whose snapshot contained the channel. *)
Theorem C09_disabled_never_called_partial : forall h runs st sp ready choice st1 act,
  reachEC st sp -> ep_step_current st (Poll ready choice) = Ok (st1, act) ->
  batch_ok h (map fst act) sp (callbacks_g runs act) ->
  exists st', ep_loop_iter h runs st ready choice = Ok (st', act, callbacks_g runs act) /\
    reachEC st' (spec_run sp (batch_ops h (callbacks_g runs act))) /\
    (forall c k, In (c, k) (callbacks_g runs act) ->
       exists r, In (c, r) act /\ In k (dispatch r) /\ spec_reports sp ready c r) /\
    (forall c, off sp c -> forall k, ~ In (c, k) (callbacks_g runs act)).
Proof. exact disabled_never_called_partial_E. Qed.
Print Assumptions C09_disabled_never_called_partial.

Theorem C09_disabled_never_called_partial_poll : forall h runs st sp ready choice st1 act,
  reachPC st sp -> pp_step_current st (Poll ready choice) = Ok (st1, act) ->
  batch_ok h (map fst act) sp (callbacks_g runs act) ->
  exists st', pp_loop_iter_current h runs st ready choice = Ok (st', act, callbacks_g runs act) /\
    reachPC st' (spec_run sp (batch_ops h (callbacks_g runs act))) /\
    (forall c k, In (c, k) (callbacks_g runs act) ->
       exists r, In (c, r) act /\ In k (dispatch r) /\ spec_reports sp ready c r) /\
    (forall c, off sp c -> forall k, ~ In (c, k) (callbacks_g runs act)).
Proof. exact disabled_never_called_partial_P. Qed.
Print Assumptions C09_disabled_never_called_partial_poll.

(* "never in a LATER iteration", spelled out over two consecutive iterations *)
Theorem C09_off_not_called_next_iteration : forall h runs st sp ready choice st1 act,
  reachEC st sp -> ep_step_current st (Poll ready choice) = Ok (st1, act) ->
  batch_ok h (map fst act) sp (callbacks_g runs act) ->
  exists st', ep_loop_iter h runs st ready choice = Ok (st', act, callbacks_g runs act) /\
    forall h2 runs2 ready2 choice2 st2 act2,
      ep_step_current st' (Poll ready2 choice2) = Ok (st2, act2) ->
      batch_ok h2 (map fst act2) (spec_run sp (batch_ops h (callbacks_g runs act))) (callbacks_g runs2 act2) ->
      exists st3, ep_loop_iter h2 runs2 st' ready2 choice2 = Ok (st3, act2, callbacks_g runs2 act2) /\
        forall c, off (spec_run sp (batch_ops h (callbacks_g runs act))) c ->
          forall k, ~ In (c, k) (callbacks_g runs2 act2).
Proof. exact off_not_called_next_iteration_E. Qed.
Print Assumptions C09_off_not_called_next_iteration.

Theorem C09_off_not_called_next_iteration_poll : forall h runs st sp ready choice st1 act,
  reachPC st sp -> pp_step_current st (Poll ready choice) = Ok (st1, act) ->
  batch_ok h (map fst act) sp (callbacks_g runs act) ->
  exists st', pp_loop_iter_current h runs st ready choice = Ok (st', act, callbacks_g runs act) /\
    forall h2 runs2 ready2 choice2 st2 act2,
      pp_step_current st' (Poll ready2 choice2) = Ok (st2, act2) ->
      batch_ok h2 (map fst act2) (spec_run sp (batch_ops h (callbacks_g runs act))) (callbacks_g runs2 act2) ->
      exists st3, pp_loop_iter_current h2 runs2 st' ready2 choice2 = Ok (st3, act2, callbacks_g runs2 act2) /\
        forall c, off (spec_run sp (batch_ops h (callbacks_g runs act))) c ->
          forall k, ~ In (c, k) (callbacks_g runs2 act2).
Proof. exact off_not_called_next_iteration_P. Qed.
Print Assumptions C09_off_not_called_next_iteration_poll.

(* the witness (b) one iteration later: the channel that was called while removed is not called again *)
Theorem C09_stale_confined_to_iteration :
  (exists st0 outs st1 st2, ep_run_current ep_init w_rw = Ok (st0, outs) /\
     ep_loop_iter h_self all_run st0 readyINOUT [] = Ok (st1, [(0, N.lor POLLIN POLLOUT)], [(0, CbRead); (0, CbWrite)]) /\
     ep_loop_iter h_self all_run st1 readyINOUT [] = Ok (st2, [], [])) /\
  (exists st0 outs st1 st2, pp_run_current pp_init w_rw = Ok (st0, outs) /\
     pp_loop_iter_current h_self all_run st0 readyINOUT [] = Ok (st1, [(0, N.lor POLLIN POLLOUT)], [(0, CbRead); (0, CbWrite)]) /\
     pp_loop_iter_current h_self all_run st1 readyINOUT [] = Ok (st2, [], [])).
Proof. exact stale_confined_to_iteration. Qed.
Print Assumptions C09_stale_confined_to_iteration.

(* ---- the precise characterisation of what the code does (also a _partial of the text: same extra
   hypothesis as above) *)
(* For every reachable state, every poll result [act] and every callback behaviour [h] whose Channel
   API calls respect the preconditions ([batch_ok]: sguard, EventLoop::removeChannel's and ~Channel's
   asserts):
   (1) the iteration runs the callbacks of EVERY channel of the snapshot, as dispatched from the revents
       of poll time -- so a channel disabled by an earlier callback of the same batch IS still called;
   (2) every channel of the snapshot was subscribed and ready AT POLL TIME;
   (3) afterwards the poller is in the state the callbacks' calls lead to, and every later poll reports
       only channels subscribed in THAT interest map: the staleness cannot outlive the iteration. *)
Theorem C09_stale_within_batch : forall h runs st sp ready choice st1 act,
  reachEC st sp -> ep_step_current st (Poll ready choice) = Ok (st1, act) ->
  batch_ok h (map fst act) sp (callbacks_g runs act) ->
  exists st', ep_loop_iter h runs st ready choice = Ok (st', act, callbacks_g runs act) /\
    reachEC st' (spec_run sp (batch_ops h (callbacks_g runs act))) /\
    (forall c r, In (c, r) act -> spec_reports sp ready c r) /\
    (forall ready' choice' st'' act', ep_step_current st' (Poll ready' choice') = Ok (st'', act') ->
       forall c r, In (c, r) act' -> spec_reports (spec_run sp (batch_ops h (callbacks_g runs act))) ready' c r).
Proof. exact stale_within_batch_E. Qed.
Print Assumptions C09_stale_within_batch.

Theorem C09_stale_within_batch_poll : forall h runs st sp ready choice st1 act,
  reachPC st sp -> pp_step_current st (Poll ready choice) = Ok (st1, act) ->
  batch_ok h (map fst act) sp (callbacks_g runs act) ->
  exists st', pp_loop_iter_current h runs st ready choice = Ok (st', act, callbacks_g runs act) /\
    reachPC st' (spec_run sp (batch_ops h (callbacks_g runs act))) /\
    (forall c r, In (c, r) act -> spec_reports sp ready c r) /\
    (forall ready' choice' st'' act', pp_step_current st' (Poll ready' choice') = Ok (st'', act') ->
       forall c r, In (c, r) act' -> spec_reports (spec_run sp (batch_ops h (callbacks_g runs act))) ready' c r).
Proof. exact stale_within_batch_P. Qed.
Print Assumptions C09_stale_within_batch_poll.

(* "never later", spelled out: a channel that is unregistered or has no interest is reported by no poll *)
Theorem C09_off_never_reported : forall sp ready c r,
  (forall s, sp c = Some s -> s_reg s = false \/ s_ev s = 0%N) -> ~ spec_reports sp ready c r.
Proof. exact not_reported_when_off. Qed.
Print Assumptions C09_off_never_reported.

(* the two asserts that guard a batch: remove() of a channel of the snapshot other than the current
   one, destruction of the current one -> the callback's op is Rejected *)
Theorem C09_batch_asserts : forall snap cur c,
  (c <> cur -> In c snap -> loop_guard snap cur (Remove c) = false) /\ loop_guard snap cur (Del cur) = false.
Proof. exact (fun snap cur c => conj (loop_guard_remove_ahead snap cur c) (loop_guard_del_current snap cur)). Qed.
Print Assumptions C09_batch_asserts.

(* ==== the loop's own descriptors: drained on notification, so an idle loop blocks ======================= *)
(* generated: EventLoop::handleRead reads 8 bytes from wakeupFd_ unconditionally, the eventfd is no
   semaphore; TimerQueue::handleRead calls readTimerfd(timerfd_, ..) which reads 8 bytes *)
Theorem C09_wakeup_reads_generated :
  drains EventLoop_handleRead_reads_wakeupfd EventLoop_eventfd_semaphore EventLoop_handleRead_read_size = true /\
  drains TimerQueue_handleRead_reads_timerfd false TimerQueue_readTimerfd_read_size = true.
Proof. exact (conj wake_drains_current timer_drains_current). Qed.
Print Assumptions C09_wakeup_reads_generated.

(* wake-up channel wc (eventfd wfd) and timer channel tc (timerfd tfd) registered for reading, every
   other registered channel quiet.  Whatever the eventfd counter and the number of unread expirations:
   one iteration reports exactly the notified ones, runs exactly their read callbacks, which reset both
   counters; after that NOTHING is ready in any state with this interest map: epoll_wait has nothing to
   return and blocks (until its time-out or a new event) -- the loop does not spin. *)
Theorem C09_wakeup_drained : forall h runs user wc tc wfd tfd st sp e choice,
  reachEC st sp -> loop_channels sp wc tc wfd tfd -> others_quiet sp wc tc e ->
  runs wc = true -> runs tc = true -> (forall k, h wc k = []) -> (forall k, h tc k = []) ->
  exists st' act e',
    loop_iter_env ep ep_step_current h runs (effects_current wc tc user) wfd tfd st e choice = Ok (st', act, callbacks_g runs act, e') /\
    reachEC st' sp /\
    (forall c r, In (c, r) act <->
       (c = wc /\ (0 < k_wake e)%N /\ r = POLLIN) \/ (c = tc /\ (0 < k_texp e)%N /\ r = POLLIN)) /\
    (forall ck, In ck (callbacks_g runs act) <->
       (ck = (wc, CbRead) /\ (0 < k_wake e)%N) \/ (ck = (tc, CbRead) /\ (0 < k_texp e)%N)) /\
    k_wake e' = 0%N /\ k_texp e' = 0%N /\ k_rd e' = k_rd e /\
    (forall st2, reachEC st2 sp -> ep_full st2 (env_ready wfd tfd e') = []).
Proof. exact wakeup_drained_E. Qed.
Print Assumptions C09_wakeup_drained.

Theorem C09_wakeup_drained_poll : forall h runs user wc tc wfd tfd st sp e choice,
  reachPC st sp -> loop_channels sp wc tc wfd tfd -> others_quiet sp wc tc e ->
  runs wc = true -> runs tc = true -> (forall k, h wc k = []) -> (forall k, h tc k = []) ->
  exists st' act e',
    loop_iter_env pp pp_step_current h runs (effects_current wc tc user) wfd tfd st e choice = Ok (st', act, callbacks_g runs act, e') /\
    reachPC st' sp /\
    (forall c r, In (c, r) act <->
       (c = wc /\ (0 < k_wake e)%N /\ r = POLLIN) \/ (c = tc /\ (0 < k_texp e)%N /\ r = POLLIN)) /\
    (forall ck, In ck (callbacks_g runs act) <->
       (ck = (wc, CbRead) /\ (0 < k_wake e)%N) \/ (ck = (tc, CbRead) /\ (0 < k_texp e)%N)) /\
    k_wake e' = 0%N /\ k_texp e' = 0%N /\ k_rd e' = k_rd e /\
    (forall st2 choice2, reachPC st2 sp -> pp_step_current st2 (Poll (env_ready wfd tfd e') choice2) = Ok (st2, [])).
Proof. exact wakeup_drained_P. Qed.
Print Assumptions C09_wakeup_drained_poll.

(* the contrast (why the read matters): a handleRead that does not read leaves the eventfd readable and
   the wake-up channel is in the kernel's ready set again at once -- every iteration returns immediately *)
Theorem C09_wakeup_undrained_spins : forall h runs user sem sz wc tc wfd tfd st sp e choice,
  reachEC st sp -> loop_channels sp wc tc wfd tfd -> others_quiet sp wc tc e ->
  runs wc = true -> runs tc = true -> (forall k, h wc k = []) -> (forall k, h tc k = []) ->
  (0 < k_wake e)%N ->
  exists st' act e',
    loop_iter_env ep ep_step_current h runs (loop_effects (handleRead_env false sem sz) timer_rd_current wc tc user)
      wfd tfd st e choice = Ok (st', act, callbacks_g runs act, e') /\
    reachEC st' sp /\ In (wc, POLLIN) act /\ k_wake e' = k_wake e /\
    In (wc, POLLIN) (ep_full st' (env_ready wfd tfd e')).
Proof. exact wakeup_undrained_spins_E. Qed.
Print Assumptions C09_wakeup_undrained_spins.

(* ==== the whole iteration (doPendingFunctors), several iterations, "blocks instead of spinning" ======== *)
(* generated: queueInLoop's wake-up condition = !isInLoopThread() || callingPendingFunctors_ || !looping_;
   loop() calls doPendingFunctors() after the dispatch loop; doPendingFunctors sets callingPendingFunctors_,
   swaps the queue into a local vector and runs every element *)
Theorem C09_queue_facts_generated :
  (forall a b c, EventLoop_queueInLoop_wake_guard a b c = queue_wakes a b c) /\
  EventLoop_loop_pending_after_dispatch = true /\ EventLoop_doPendingFunctors_swaps = true.
Proof. exact (conj queue_wake_link (conj pending_after_dispatch_current doPending_swaps_current)). Qed.
Print Assumptions C09_queue_facts_generated.

(* one whole iteration from any reachable state: after the batch (C09_stale_within_batch) every functor
   that is pending when doPendingFunctors starts -- queued before the poll or by a callback of this very
   batch -- runs in this iteration, once, in order; what the functors queue stays pending; the poller ends
   in the state the callbacks' and the functors' Channel API calls lead to *)
Theorem C09_iteration_runs_functors : forall h hq fb runs st sp ready choice pending st1 act,
  reachEC st sp -> ep_step_current st (Poll ready choice) = Ok (st1, act) ->
  batch_ok h (map fst act) sp (callbacks_g runs act) ->
  functors_ok fb (spec_run sp (batch_ops h (callbacks_g runs act)))
    (pending ++ flat_map (fun ck => hq (fst ck) (snd ck)) (callbacks_g runs act)) ->
  exists st', ep_loop_iter_full h hq fb runs st ready choice pending =
      Ok (st', act, callbacks_g runs act,
          pending ++ flat_map (fun ck => hq (fst ck) (snd ck)) (callbacks_g runs act),
          functors_queued fb (pending ++ flat_map (fun ck => hq (fst ck) (snd ck)) (callbacks_g runs act))) /\
    reachEC st' (spec_run (spec_run sp (batch_ops h (callbacks_g runs act)))
                   (functors_ops fb (pending ++ flat_map (fun ck => hq (fst ck) (snd ck)) (callbacks_g runs act)))).
Proof. exact iteration_full_E. Qed.
Print Assumptions C09_iteration_runs_functors.

Theorem C09_iteration_runs_functors_poll : forall h hq fb runs st sp ready choice pending st1 act,
  reachPC st sp -> pp_step_current st (Poll ready choice) = Ok (st1, act) ->
  batch_ok h (map fst act) sp (callbacks_g runs act) ->
  functors_ok fb (spec_run sp (batch_ops h (callbacks_g runs act)))
    (pending ++ flat_map (fun ck => hq (fst ck) (snd ck)) (callbacks_g runs act)) ->
  exists st', pp_loop_iter_full_current h hq fb runs st ready choice pending =
      Ok (st', act, callbacks_g runs act,
          pending ++ flat_map (fun ck => hq (fst ck) (snd ck)) (callbacks_g runs act),
          functors_queued fb (pending ++ flat_map (fun ck => hq (fst ck) (snd ck)) (callbacks_g runs act))) /\
    reachPC st' (spec_run (spec_run sp (batch_ops h (callbacks_g runs act)))
                   (functors_ops fb (pending ++ flat_map (fun ck => hq (fst ck) (snd ck)) (callbacks_g runs act)))).
Proof. exact iteration_full_P. Qed.
Print Assumptions C09_iteration_runs_functors_poll.

(* along ANY run of the loop -- any back-end, callbacks, functors, and external events (wake-ups, timer
   expirations, readiness changes, tasks queued from other threads) between the iterations -- with the
   wake-up guard generated from queueInLoop: at every poll a non-empty task queue comes with a non-zero
   wake-up counter ([pend_inv e p] = p <> [] -> 0 < k_wake e) *)
Theorem C09_queued_task_wakes : forall S step h hq fb runs eff wfd tfd ins st e p st' e' p' outs,
  pend_inv e p ->
  loop_run S step h hq fb runs eff EventLoop_queueInLoop_wake_guard wfd tfd st e p ins = Ok (st', e', p', outs) ->
  pend_inv e' p' /\ Forall (fun o => pend_inv (fst (fst o)) (snd (fst o))) outs.
Proof. exact queued_task_wakes_current. Qed.
Print Assumptions C09_queued_task_wakes.

(* THE LAST SENTENCE OF THE PROPERTY.  In a reachable state with the loop's wake-up and timer channels
   registered: the kernel has nothing to return -- the poll blocks -- IFF the wake-up counter is zero,
   the timerfd is not due and no other registered channel with some interest is ready; and then (by the
   invariant above) no task is queued.  Conversely a queued task puts the wake-up channel into the ready set. *)
Theorem C09_idle_blocks_iff : forall st sp wc tc wfd tfd e p,
  reachEC st sp -> loop_channels sp wc tc wfd tfd -> pend_inv e p ->
  (ep_full st (env_ready wfd tfd e) = [] <->
     (k_wake e = 0%N /\ k_texp e = 0%N /\ others_quiet sp wc tc e)) /\
  (ep_full st (env_ready wfd tfd e) = [] -> p = []).
Proof. exact idle_blocks_iff_E. Qed.
Print Assumptions C09_idle_blocks_iff.

Theorem C09_idle_blocks_iff_poll : forall st sp wc tc wfd tfd e p choice,
  reachPC st sp -> loop_channels sp wc tc wfd tfd -> pend_inv e p ->
  (pp_step_current st (Poll (env_ready wfd tfd e) choice) = Ok (st, []) <->
     (k_wake e = 0%N /\ k_texp e = 0%N /\ others_quiet sp wc tc e)) /\
  (pp_step_current st (Poll (env_ready wfd tfd e) choice) = Ok (st, []) -> p = []).
Proof. exact idle_blocks_iff_P. Qed.
Print Assumptions C09_idle_blocks_iff_poll.

Theorem C09_queued_task_not_blocked : forall st sp wc tc wfd tfd e p,
  reachEC st sp -> loop_channels sp wc tc wfd tfd -> pend_inv e p -> p <> [] ->
  In (wc, POLLIN) (ep_full st (env_ready wfd tfd e)).
Proof. exact queued_task_not_blocked_E. Qed.
Print Assumptions C09_queued_task_not_blocked.

(* ==== back-end selection, hasChannel, confinement to the loop thread ===================================== *)
(* generated: newDefaultPoller constructs PollPoller iff ::getenv("MUDUO_USE_POLL") is set, EPollPoller
   otherwise; by C09_backends_agree the choice does not change which callbacks run *)
Theorem C09_default_poller_generated : forall set,
  default_backend set = if Poller_newDefaultPoller_uses_poll set then BPoll else BEpoll.
Proof. exact default_backend_link. Qed.
Print Assumptions C09_default_poller_generated.

(* generated: hasChannel is the channels_ lookup; updateChannel / removeChannel of both back-ends and
   hasChannel begin with assertInLoopThread() *)
Theorem C09_poller_entry_facts_generated :
  Poller_hasChannel_is_map_lookup = true /\ Poller_entry_points_assert_thread = true.
Proof. exact (conj hasChannel_lookup_current entry_points_assert_thread_current). Qed.
Print Assumptions C09_poller_entry_facts_generated.

(* Poller::hasChannel (what ~Channel asserts to be false) holds exactly of the registered channels *)
Theorem C09_hasChannel : forall st sp c, reachEC st sp ->
  (ep_hasChannel st c = true <-> exists s, sp c = Some s /\ s_reg s = true).
Proof. exact ep_hasChannel_iff. Qed.
Print Assumptions C09_hasChannel.
Theorem C09_hasChannel_poll : forall st sp c, reachPC st sp ->
  (pp_hasChannel st c = true <-> exists s, sp c = Some s /\ s_reg s = true).
Proof. exact pp_hasChannel_iff. Qed.
Print Assumptions C09_hasChannel_poll.

(* ==== findings: the full statements are false of the models of the OLD shapes of the code ============== *)
(* F-1 (fixed bbde8b0): without the index reset re-enabling a removed Channel object takes the update
   branch with a stale slot: assertion failure / out-of-bounds = Fault.  The history meets all
   preconditions and has no redundant disable; epoll and the repaired poll back-end handle it. *)
Theorem C09_poll_reregister_refuted : exists ops,
  hist_ok sclean spec0 ops /\ (forall ne, pp_run false ne pp_init ops = Fault) /\
  (forall ne, exists st outs, pp_run true ne pp_init ops = Ok (st, outs)) /\
  (forall se, exists st outs, ep_run se ep_init ops = Ok (st, outs)).
Proof.
  exists w_reregister.
  exact (conj w_reregister_ok (conj w_reregister_faults (conj w_reregister_fixed_ok w_reregister_epoll_ok))).
Qed.
Print Assumptions C09_poll_reregister_refuted.

(* F-14 (fixed a5a0563): with the old updateChannel (se = false) a disabled channel is called (epoll:
   disableAll twice), the back-ends differ, and (ne = false) disableAll on a fresh channel followed by
   remove() faults under poll *)
Theorem C09_disabled_called_refuted : exists ops ready,
  hist_ok any_hist spec0 ops /\
  (forall c r, ~ spec_reports (spec_run spec0 ops) ready c r) /\
  exists st outs, ep_run false ep_init ops = Ok (st, outs) /\ last outs [] = [(0, POLLHUP)] /\
                  callbacks (last outs []) = [(0, CbClose)].
Proof.
  exists w_double_disable, readyHUP.
  exact (conj w_double_disable_ok (conj w_double_disable_spec w_double_disable_epoll)).
Qed.
Print Assumptions C09_disabled_called_refuted.

Theorem C09_backends_agree_refuted : exists ops,
  hist_ok any_hist spec0 ops /\
  (exists st outs, ep_run false ep_init ops = Ok (st, outs) /\ last outs [] = [(0, POLLHUP)]) /\
  (forall ri ne, exists st outs, pp_run ri ne pp_init ops = Ok (st, outs) /\ last outs [] = []).
Proof. exists w_double_disable. exact w_backends_differ. Qed.
Print Assumptions C09_backends_agree_refuted.

Theorem C09_no_fault_refuted : exists ops,
  hist_ok any_hist spec0 ops /\ forall ri, pp_run ri false pp_init ops = Fault.
Proof. exists w_fresh_disable_remove. exact (conj w_fresh_disable_remove_ok w_fresh_disable_remove_faults). Qed.
Print Assumptions C09_no_fault_refuted.

(* the same three F-14 histories on the CURRENT tree: nothing is reported for the disabled channel under
   either back-end, and the remove() runs *)
Theorem C09_f14_witnesses_current :
  ((exists st outs, ep_run_current ep_init w_double_disable = Ok (st, outs) /\ last outs [] = []) /\
   (exists st outs, pp_run_current pp_init w_double_disable = Ok (st, outs) /\ last outs [] = [])) /\
  ((exists st outs, ep_run_current ep_init w_fresh_disable_remove = Ok (st, outs)) /\
   (exists st outs, pp_run_current pp_init w_fresh_disable_remove = Ok (st, outs))) /\
  ((exists st outs, ep_run_current ep_init w_fresh_disable_poll = Ok (st, outs) /\ last outs [] = []) /\
   (exists st outs, pp_run_current pp_init w_fresh_disable_poll = Ok (st, outs) /\ last outs [] = [])).
Proof. exact (conj w_double_disable_current (conj w_fresh_disable_remove_current w_fresh_disable_poll_current)). Qed.
Print Assumptions C09_f14_witnesses_current.

(* ==== non-vacuity ======================================================================================== *)
(* reachable states after a swap-and-pop of a middle entry *)
Example ex_reachE : exists st outs,
  ep_run_current ep_init w_swap = Ok (st, outs) /\ reachEC st (spec_run spec0 w_swap) /\
  length (e_kern st) = 2 /\ last outs [] = [(0, 1%N); (2, 5%N)].
Proof.
  destruct (run_reachEC w_swap ep_init spec0 reachEC_init) as [st [outs [E R]]].
  { eapply hist_ok_weaken; [|exact w_swap_ok]. intros sp o _. exact Logic.I. }
  exists st, outs. split; [exact E|]. split; [exact R|].
  vm_compute in E. injection E as <- <-. split; reflexivity.
Qed.

Example ex_reachP : forall ri ne, exists st outs,
  pp_run ri ne pp_init w_swap = Ok (st, outs) /\ reachP ri ne st (spec_run spec0 w_swap) /\
  p_pfds st = [mkPfd 0 3; mkPfd 2 7] /\ last outs [] = [(0, 1%N); (2, 5%N)].
Proof.
  intros ri ne. destruct (run_reachP ri ne w_swap pp_init spec0 (reachP_init ri ne)) as [st [outs [E R]]].
  { eapply hist_ok_weaken; [|exact w_swap_ok]. intros sp o [H1 H2]. split; intros _; assumption. }
  exists st, outs. split; [exact E|]. split; [exact R|].
  destruct ri, ne; vm_compute in E; injection E as <- <-; split; reflexivity.
Qed.

(* the growth bound is not vacuous: 16 * 2^5 exceeds 300 *)
Example ex_bound_300 : 300 < kInitEventListSize * 2 ^ 5.
Proof. vm_compute. lia. Qed.

(* an instance of C09_epoll_bounded_generated on a real state (review B-6): 40 channels, all readable,
   40 < 16 * 2^2.  Back-to-back polls with the same readiness and no interest change in between (what the
   theorem covers): the first returns 16 entries (array filled -> 32), the second 32 (-> 64), the third
   40 entries among which every channel 0..39 occurs with revents POLLIN (hence each exactly once) *)
Definition w_many (n : nat) : list op := flat_map (fun i => [New i i; Upd UEnableR i]) (seq 0 n).
Definition bound_instance_check (n : nat) (l1 l2 cap3 : nat) : bool :=
  match ep_run_current ep_init (w_many n) with
  | Ok (st, _) =>
      match ep_run_current st [Poll readyIN []; Poll readyIN []; Poll readyIN []] with
      | Ok (st3, [a1; a2; a3]) =>
          (length (ep_full st readyIN) =? n) && (length a1 =? l1) && (length a2 =? l2) && (length a3 =? n) &&
          (e_cap st3 =? cap3) &&
          forallb (fun c => existsb (fun cr => (fst cr =? c) && N.eqb (snd cr) POLLIN) a3) (seq 0 n)
      | _ => false
      end
  | _ => false
  end.
Example ex_bound_instance :
  bound_instance_check 40 16 32 64 = true /\ 40 < Z.to_nat EPollPoller_kInitEventListSize * 2 ^ 2.
Proof. split; [vm_compute; reflexivity|vm_compute; lia]. Qed.

(* the F-1 witness on the current tree: it runs, reaches a related state, and the re-registered channel
   is reported *)
Example ex_reregister_current : exists st outs,
  pp_run_current pp_init w_reregister = Ok (st, outs) /\ reachPC st (spec_run spec0 w_reregister) /\
  pp_step_current st (Poll readyIN []) = Ok (st, [(0, POLLIN)]).
Proof.
  destruct (run_reachPC w_reregister pp_init spec0 reachPC_init w_reregister_pre) as [st [outs [E R]]].
  exists st, outs. split; [exact E|]. split; [exact R|].
  vm_compute in E. injection E as <- <-. vm_compute. reflexivity.
Qed.

(* the F-14 witness (disableAll twice) is a history of the current theorems' domain *)
Example ex_double_disable_current : exists stE stP,
  reachEC stE (spec_run spec0 w_double_disable) /\ reachPC stP (spec_run spec0 w_double_disable).
Proof.
  destruct (histories_run w_double_disable w_double_disable_ok) as [[stE [oE [_ RE]]] [stP [oP [_ RP]]]].
  exists stE, stP. split; assumption.
Qed.

(* stale within the batch is not vacuous: 0 and 1 both readable, 0's read callback disables 1 -- 1 is
   still called in this iteration, and is not reported in the next one *)
Example ex_stale_within_batch : exists st0 outs st1 st2,
  ep_run_current ep_init w_two = Ok (st0, outs) /\ reachEC st0 (spec_run spec0 w_two) /\
  batch_ok h_stale [0; 1] (spec_run spec0 w_two) [(0, CbRead); (1, CbRead)] /\
  ep_loop_iter h_stale all_run st0 readyIN [] = Ok (st1, [(0, POLLIN); (1, POLLIN)], [(0, CbRead); (1, CbRead)]) /\
  ep_loop_iter h_stale all_run st1 readyIN [] = Ok (st2, [(0, POLLIN)], [(0, CbRead)]).
Proof.
  destruct (run_reachEC w_two ep_init spec0 reachEC_init w_two_ok) as [st0 [outs [E R]]].
  exists st0, outs. vm_compute in E. injection E as <- <-.
  eexists _, _. split; [reflexivity|]. split; [exact R|]. split.
  - cbn [batch_ok fst snd h_stale]. split; [|split; exact I].
    cbn [cb_ops_ok]. split; [reflexivity|]. split; [|exact I].
    eexists. split; [reflexivity|]. left. reflexivity.
  - split; vm_compute; reflexivity.
Qed.

(* the hypotheses of C09_wakeup_drained are inhabited: the loop's channels as its constructors leave them *)
Example ex_wakeup_setup : exists st outs,
  ep_run_current ep_init w_loop_init = Ok (st, outs) /\ reachEC st (spec_run spec0 w_loop_init) /\
  loop_channels (spec_run spec0 w_loop_init) 1 0 4 3 /\
  forall e, others_quiet (spec_run spec0 w_loop_init) 1 0 e.
Proof.
  destruct (run_reachEC w_loop_init ep_init spec0 reachEC_init w_loop_init_ok) as [st [outs [E R]]].
  exists st, outs. split; [exact E|]. split; [exact R|]. split.
  - split; [discriminate|]. split; exists false; vm_compute; reflexivity.
  - intros e c s H _ _ N1 N0. destruct c as [|[|c]]; [contradiction|contradiction|]. cbn in H. discriminate.
Qed.

(* a run of three iterations on the loop's constructor state: the timerfd becomes due; the timer callback
   queues functor 7, which runs in the same iteration and queues functor 8 (waking the loop); 8 runs in
   the second iteration; the third poll finds nothing: the loop blocks with an empty queue *)
Example ex_loop_run : exists st0 outs0,
  ep_run_current ep_init w_loop_init = Ok (st0, outs0) /\
  exists stf ef outs,
    loop_run ep ep_step_current (fun _ _ => []) hq_ex fb_ex all_run (effects_current 1 0 (fun _ _ e => e))
      EventLoop_queueInLoop_wake_guard 4 3 st0 env0 [] [([XTimer], []); ([], []); ([], [])] = Ok (stf, ef, [], outs) /\
    map snd outs = [([(0, POLLIN)], [(0, CbRead)], [7]); ([(1, POLLIN)], [(1, CbRead)], [8]); ([], [], [])] /\
    map (fun o => k_wake (fst (fst o))) outs = [0%N; 1%N; 0%N] /\ k_wake ef = 0%N /\ k_texp ef = 0%N.
Proof.
  destruct (run_reachEC w_loop_init ep_init spec0 reachEC_init w_loop_init_ok) as [st0 [outs0 [E R]]].
  exists st0, outs0. split; [exact E|]. vm_compute in E. injection E as <- <-.
  eexists _, _, _. split; [vm_compute; reflexivity|]. repeat split; vm_compute; reflexivity.
Qed.


(* ========================================================================================== *)
(* Cross-model links (appended; owner: the links, docs/Link.md section L2)                      *)
(* ========================================================================================== *)
(* The iteration of this file takes "the timerfd has an unread expiration" (k_texp) as an input
   of the environment and models TimerQueue::handleRead only by its effect on that counter.
   Link_LoopTimer joins it with C06's TimerQueue model (T = C06_Model: armed instant of the
   one-shot timerfd, clock, timers_, handleRead = T.fire) by the kernel's timerfd contract AS A
   DEFINITION: the timerfd is readable iff it is armed for an instant that has passed ([due]);
   [env_of w rd tq] is the kenv the poll sees when the wake-up counter is w, the other
   descriptors are in condition rd and the timer queue is in state tq.  TH = C06_Hist. *)
From Muduo Require Import Link_LoopQueue Link_LoopTimer Link_Properties_L2.

Theorem C09_link_timer_defs : forall w rd tq tc log,
  (due tq <-> exists x, T.armed tq = Some x /\ (x <= T.clk tq)%Z) /\
  (tq_reach tq <-> exists c ops evs, T.run (T.init c) ops = T.Ok (tq, evs)) /\
  floor_val = Gen_C06.TimerQueue_floor_val /\
  (timer_fired tc log = true <-> In (tc, CbRead) log) /\
  k_wake (env_of w rd tq) = w /\ k_rd (env_of w rd tq) = rd /\
  ((0 < k_texp (env_of w rd tq))%N <-> due tq).
Proof.
  exact (fun w rd tq tc log =>
    match L2_timer_defs tq tc log with
    | conj a (conj b (conj c d)) =>
        conj a (conj b (conj c (conj d (conj eq_refl (conj eq_refl (env_of_texp w rd tq))))))
    end).
Qed.
Print Assumptions C09_link_timer_defs.

(* THE LAST SENTENCE OF THIS PROPERTY AND OF C06, AS ONE STATEMENT (= C09_idle_blocks_iff +
   C06_armed_for_earliest).  In any combined state - poller reached by any history with the loop's
   two channels registered, wake-up counter w, functor queue p under the queue invariant
   (pend_inv), timer queue tq reached by any C06 history (adds, cancels, expiries, functors,
   foreign micro-steps, clock ticks): the kernel has nothing to return IFF the wake-up counter is
   0, no armed instant of the timerfd has passed and no other registered channel with interest is
   ready; then no functor is queued, and a registered timer means the timerfd is armed for a later
   instant, no later than max(earliest deadline, last arming + floor): the block ends by then; a
   registered timer whose deadline has passed (the floor since the last arming too) keeps the
   poll from blocking. *)
Theorem C09_next_poll_blocks_iff_combined : forall st sp wc tc wfd tfd w rd (p : list nat) tq,
  reachEC st sp -> loop_channels sp wc tc wfd tfd -> (p <> [] -> (0 < w)%N) -> tq_reach tq ->
  let e := env_of w rd tq in
  (ep_full st (env_ready wfd tfd e) = [] <-> (w = 0%N /\ ~ due tq /\ others_quiet sp wc tc e)) /\
  (ep_full st (env_ready wfd tfd e) = [] ->
     p = [] /\
     forall d a r, T.timers tq = (d, a) :: r ->
       exists x, T.armed tq = Some x /\ (T.clk tq < x <= Z.max d (T.arm_at tq + floor_val))%Z) /\
  (forall d a, In (d, a) (T.timers tq) -> (d <= T.clk tq)%Z -> (T.arm_at tq + floor_val <= T.clk tq)%Z ->
     ep_full st (env_ready wfd tfd e) <> []).
Proof. exact L2_next_poll_blocks_iff. Qed.
Print Assumptions C09_next_poll_blocks_iff_combined.

Theorem C09_next_poll_blocks_iff_combined_poll : forall st sp wc tc wfd tfd w rd (p : list nat) tq choice,
  reachPC st sp -> loop_channels sp wc tc wfd tfd -> (p <> [] -> (0 < w)%N) -> tq_reach tq ->
  let e := env_of w rd tq in
  let blocks := pp_step_current st (Poll (env_ready wfd tfd e) choice) = Ok (st, []) in
  (blocks <-> (w = 0%N /\ ~ due tq /\ others_quiet sp wc tc e)) /\
  (blocks ->
     p = [] /\
     forall d a r, T.timers tq = (d, a) :: r ->
       exists x, T.armed tq = Some x /\ (T.clk tq < x <= Z.max d (T.arm_at tq + floor_val))%Z) /\
  (forall d a, In (d, a) (T.timers tq) -> (d <= T.clk tq)%Z -> (T.arm_at tq + floor_val <= T.clk tq)%Z ->
     ~ blocks).
Proof. exact L2_next_poll_blocks_iff_poll. Qed.
Print Assumptions C09_next_poll_blocks_iff_combined_poll.

(* a poll that has something to return returns at least one channel (epoll_wait returns
   min(ready, capacity) >= 1 entries): an iteration that does not block dispatches something *)
Theorem C09_unblocked_poll_returns_a_channel : forall st sp ready choice,
  reachEC st sp -> ep_full st ready <> [] ->
  exists st' act, ep_step_current st (Poll ready choice) = Ok (st', act) /\ act <> [].
Proof. exact L2_unblocked_poll_returns_a_channel. Qed.
Print Assumptions C09_unblocked_poll_returns_a_channel.

(* the combined iteration: this file's whole iteration (epoll back-end of the current tree) in
   the environment the components determine; if the timer channel's read callback ran it was
   TimerQueue::handleRead (TimerQueue.cc:102-103 binds it), i.e. C06's fire on the timer queue *)
Theorem C09_link_combined_iter_def : forall h hq fb runs user qw wc tc wfd tfd st w rd p tq choice script,
  combined_iter h hq fb runs user qw wc tc wfd tfd st w rd p tq choice script =
  match loop_iter_full_env ep ep_step_current h hq fb runs (effects_current wc tc user) qw wfd tfd
          st (env_of w rd tq) p choice with
  | Ok (st', e', p', (act, log, ran)) =>
      if timer_fired tc log then
        match T.fire tq script with
        | T.Ok (tq', ev) => Some (st', e', p', tq', (act, log, ran, ev))
        | _ => None
        end
      else Some (st', e', p', tq, (act, log, ran, []))
  | _ => None
  end.
Proof. exact L2b_combined_iter_def. Qed.
Print Assumptions C09_link_combined_iter_def.

(* PROGRESS.  Only the loop's own channels can be ready and the poll does not block (w > 0 or the
   timerfd is due): the iteration succeeds; a callback runs (EventLoop::handleRead iff w > 0,
   TimerQueue::handleRead iff the timerfd is due); every functor queued at poll time - and what
   the callbacks queued - runs in this iteration, in order; the wake-up counter is consumed and
   afterwards counts only wake-ups for functors queued during this iteration (a stale wake-up is
   not repeated); a due timerfd makes handleRead run the earliest timer, or - the arming was stale
   - re-arm for exactly max(earliest, now + floor) (C06_progress); a timerfd that is not due
   leaves the timer queue untouched. *)
Theorem C09_unblocked_iteration_progress :
  forall h hq fb runs user qw wc tc wfd tfd st sp w rd p tq choice script,
  reachEC st sp -> loop_channels sp wc tc wfd tfd ->
  others_quiet sp wc tc (env_of w rd tq) ->
  runs wc = true -> runs tc = true -> (forall k, h wc k = []) -> (forall k, h tc k = []) ->
  tq_reach tq ->
  (forall log, (forall ck, In ck log -> ck = (wc, CbRead) \/ ck = (tc, CbRead)) ->
     functors_ok fb sp (p ++ flat_map (fun ck => hq (fst ck) (snd ck)) log)) ->
  (0 < w)%N \/ due tq ->
  exists st' e' p' tq' act log ran ev,
    combined_iter h hq fb runs user qw wc tc wfd tfd st w rd p tq choice script
      = Some (st', e', p', tq', (act, log, ran, ev)) /\
    reachEC st' (spec_run sp (functors_ops fb ran)) /\
    log <> [] /\
    (In (wc, CbRead) log <-> (0 < w)%N) /\ (In (tc, CbRead) log <-> due tq) /\
    ran = p ++ flat_map (fun ck => hq (fst ck) (snd ck)) log /\
    p' = functors_queued fb ran /\
    k_wake e' = ((if qw true false true
                  then N.of_nat (length (flat_map (fun ck => hq (fst ck) (snd ck)) log)) else 0)
                 + (if qw true true true then N.of_nat (length p') else 0))%N /\
    (due tq ->
       T.fire tq script = T.Ok (tq', ev) /\
       forall d a r x, T.timers tq = (d, a) :: r -> T.armed tq = Some x ->
         ((d <= T.clk tq)%Z /\
            exists o t, T.hget a (T.heap tq) = Some o /\ In (T.ERun (T.o_seq o) d (T.clk tq) t) ev) \/
         ((T.clk tq < d)%Z /\ (x < d)%Z /\ TH.rlog ev = [] /\ T.timers tq' = T.timers tq /\
            T.clk tq' = T.clk tq /\ T.armed tq' = Some (Z.max d (T.clk tq + floor_val)))) /\
    (~ due tq -> tq' = tq /\ ev = []).
Proof. exact L2_unblocked_iteration_progress. Qed.
Print Assumptions C09_unblocked_iteration_progress.

(* the queue view of any successful iteration of this file (any back-end): the batch is the queue
   at poll time followed by what the callbacks queued; the left-over queue is what the batch
   queued; the wake-up counter is what the callbacks' effects left plus one per functor queued
   where queueInLoop's guard says so.  (Properties_C04.v, section "Cross-model links", shows that
   this is a schedule of C04's micro-step transition system.) *)
Theorem C09_iteration_queue_view :
  forall S step h hq fb runs eff qw wfd tfd st e pending choice st' e' pend' act log ran,
  loop_iter_full_env S step h hq fb runs eff qw wfd tfd st e pending choice
    = Ok (st', e', pend', (act, log, ran)) ->
  ran = pending ++ flat_map (fun ck => hq (fst ck) (snd ck)) log /\
  pend' = functors_queued fb ran /\
  k_wake e' = (k_wake (apply_effects eff log e)
               + (if qw true false true
                  then N.of_nat (length (flat_map (fun ck => hq (fst ck) (snd ck)) log)) else 0)
               + (if qw true true true then N.of_nat (length pend') else 0))%N.
Proof. exact c09_iteration_queue_view_spelled. Qed.
Print Assumptions C09_iteration_queue_view.

(* ---- the two views of pendingFunctors_ and of the timer callbacks, connected --------------- *)
(* In C09_unblocked_iteration_progress the C06 side (callback scripts [script], queue
   [T.pending tq]) and this file's side (functor ids: queue p, [hq tc CbRead] = what the timer
   channel's read callback queued) are independent parameters.  Here they are tied together by three
   explicit hypotheses under a naming [fun_of] of this file's functor ids by C06's functors
   (T.pfun: PAdd / PCancel / PUser):
     T.pending tq = map fun_of p                                  the same queue at poll time
     due tq -> T.fire tq script = T.Ok (tq', _) ->
       T.pending tq' = T.pending tq ++ map fun_of (hq tc CbRead)   the same functors queued by the timer callbacks
     hq wc CbRead = []                                             EventLoop::handleRead queues nothing
   Then the batch this file's doPendingFunctors runs is C06's queue after the expiry, in the same
   order; and (last clause) THE STALE WAKE-UP: empty queue, timerfd not due, w > 0 - the iteration
   runs exactly handleRead of the wake-up channel, no functor and no timer, and leaves the counter
   0 (the "consumes a stale wake-up" case of C09_unblocked_iteration_progress). *)
Theorem C09_link_dueb_def : forall tq,
  dueb tq = match T.armed tq with Some x => (x <=? T.clk tq)%Z | None => false end /\
  (dueb tq = true <-> due tq).
Proof. exact L2_dueb_def. Qed.
Print Assumptions C09_link_dueb_def.

Theorem C09_unblocked_iteration_views_connected :
  forall h hq fb runs user qw wc tc wfd tfd st sp w rd p tq choice script (fun_of : nat -> T.pfun),
  reachEC st sp -> loop_channels sp wc tc wfd tfd ->
  others_quiet sp wc tc (env_of w rd tq) ->
  runs wc = true -> runs tc = true -> (forall k, h wc k = []) -> (forall k, h tc k = []) ->
  tq_reach tq ->
  (forall log, (forall ck, In ck log -> ck = (wc, CbRead) \/ ck = (tc, CbRead)) ->
     functors_ok fb sp (p ++ flat_map (fun ck => hq (fst ck) (snd ck)) log)) ->
  (0 < w)%N \/ due tq ->
  hq wc CbRead = [] ->
  T.pending tq = map fun_of p ->
  (due tq -> forall tq' ev, T.fire tq script = T.Ok (tq', ev) ->
     T.pending tq' = T.pending tq ++ map fun_of (hq tc CbRead)) ->
  exists st' e' p' tq' act log ran ev,
    combined_iter h hq fb runs user qw wc tc wfd tfd st w rd p tq choice script
      = Some (st', e', p', tq', (act, log, ran, ev)) /\
    reachEC st' (spec_run sp (functors_ops fb ran)) /\
    ran = p ++ (if dueb tq then hq tc CbRead else []) /\
    T.pending tq' = map fun_of ran /\
    p' = functors_queued fb ran /\
    k_wake e' = ((if qw true false true
                  then N.of_nat (length (if dueb tq then hq tc CbRead else [])) else 0)
                 + (if qw true true true then N.of_nat (length p') else 0))%N /\
    (p = [] -> ~ due tq ->
       log = [(wc, CbRead)] /\ ran = [] /\ p' = [] /\ k_wake e' = 0%N /\ tq' = tq /\ ev = []).
Proof. exact L2_iteration_views_connected. Qed.
Print Assumptions C09_unblocked_iteration_views_connected.

(* non-vacuity: the connecting hypotheses are satisfied - one due timer whose callback queues a
   user functor (script [[CQueue []]]), functor id 7 standing for it: the batch is [7] here and
   [PUser []] in C06's queue.  And the stale wake-up: counter 1, nothing queued, timer not due -
   only handleRead of the wake-up channel (channel 1) runs, counter 0 afterwards, timer queue
   untouched, and the next poll blocks. *)
Example C09_link_ex_views_connected : exists tq st' e' p' tq' act log ev,
  tq_reach tq /\ due tq /\ T.pending tq = map l2c_fun_of [] /\ l2c_hq 1 CbRead = [] /\
  (forall tq1 ev1, T.fire tq l2c_script = T.Ok (tq1, ev1) ->
     T.pending tq1 = T.pending tq ++ map l2c_fun_of (l2c_hq 0 CbRead)) /\
  combined_iter (fun _ _ => []) l2c_hq l2c_fb all_run (fun _ _ e => e) queue_wakes 1 0 4 3
    l2c_st0 0 (fun _ => 0%N) [] tq [] l2c_script = Some (st', e', p', tq', (act, log, [7], ev)) /\
  T.pending tq' = [T.PUser []] /\ p' = [8] /\ k_wake e' = 1%N.
Proof. exact l2_ex_views_connected. Qed.
Example C09_link_ex_stale_wakeup : exists tq st' e' p' tq' act ev,
  tq_reach tq /\ ~ due tq /\
  combined_iter (fun _ _ => []) l2c_hq l2c_fb all_run (fun _ _ e => e) queue_wakes 1 0 4 3
    l2c_st0 1 (fun _ => 0%N) [] tq [] l2c_script = Some (st', e', p', tq', (act, [(1, CbRead)], [], ev)) /\
  p' = [] /\ k_wake e' = 0%N /\ tq' = tq /\ ev = [] /\
  ep_full st' (env_ready 4 3 (env_of (k_wake e') (fun _ => 0%N) tq')) = [].
Proof. exact l2_ex_stale_wakeup. Qed.
