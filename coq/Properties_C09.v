(* Properties_C09: the loop calls exactly the ready, subscribed channels -- same under epoll and poll.
   Only statements, closed by [exact], with Print Assumptions and non-vacuity examples.
   Models: C09_Model (ep_step = EPollPoller + Channel; pp_step ri = PollPoller + Channel with
   ri = "removeChannel resets the channel's index"; pp_step_current = pp_step at the generated
   Gen_C09.PollPoller_remove_resets_index; loop_iter = one iteration of EventLoop::loop() around a
   poller; env_ready / handleRead_env / timerRead_env = the wake-up eventfd and the timerfd).
   Tie to /repo: regenerated constants/facts/functions (Gen_Consts, Gen_C09) with link lemmas, and the
   correspondence check (bin/check C09).

   Histories: [hist_ok extra spec0 ops] / [reachE], [reachPC] = every op meets the documented
   preconditions of the Channel API ([sguard]: one registered channel per descriptor, remove() only
   when registered and isNoneEvent(), destruction only after remove(), no use of a destroyed object)
   and the extra hypothesis.  Interest changes happen at quiescent points or inside the callbacks of
   a batch (loop_iter).

   F-1 (PollPoller::removeChannel left index_ set) is FIXED in /repo (bbde8b0): the theorems about the
   current tree (C09_poll_refines, C09_backends_agree, ...) carry no hypothesis for it, they depend on
   the generated fact through C09_poll_fix_generated; reverting the fix breaks them.  The statement
   about the old code stays as C09_poll_reregister_refuted (ri = false).
   F-14 (recorded in KNOWN_FINDINGS.txt, key F14.empty-interest-registered): an update that leaves the
   interest empty, applied to a channel that is not in the kernel's set (fresh, or already fully
   disabled), registers the descriptor with an EMPTY interest: HUP/ERR are then delivered to a
   disabled channel (epoll: also after disableAll(); disableAll()), the back-ends differ, and
   PollPoller::removeChannel asserts -> C09_disabled_called_refuted, C09_backends_agree_refuted,
   C09_no_fault_refuted.  Every positive theorem therefore carries [sclean] ("no redundant
   disable"): it is part of reachE / reachPC / hist_ok sclean / batch_ok and spelled out there. *)
From Coq Require Import List ZArith NArith Lia Bool Arith Permutation.
From Muduo Require Import Gen_Consts Gen_C09 C09_Model C09_Proofs C09_ProofsPoll C09_ProofsLoop C09_Witness.
Import ListNotations.

(* ---- epoll back-end ------------------------------------------------------------------------------- *)
(* For every state reached by a history meeting the preconditions (and sclean), and every next op:
   if the op meets them it succeeds (never Fault, never a failed epoll_ctl), and for Poll what the
   kernel had ready is EXACTLY {(c, ready(fd c) & (events c | ERR|HUP|NVAL)) | c registered,
   events c <> 0, intersection <> 0}; the reported list is a duplicate-free min(n,cap)-part of it
   whichever entries the kernel picks; nothing else changes, the array grows iff it was filled.
   If the op violates a precondition it is Rejected. *)
Theorem C09_epoll_refines_partial : forall st sp, reachE st sp ->
  forall o,
    (sguard sp o -> sclean sp o ->
       exists st' act, ep_step st o = Ok (st', act) /\ reachE st' (spec_step sp o) /\
         e_kerr st' = 0 /\
         match o with
         | Poll ready choice =>
             (forall c r, In (c, r) (ep_full st ready) <-> spec_reports sp ready c r) /\
             NoDup (map fst (ep_full st ready)) /\
             (exists rest, Permutation (ep_full st ready) (act ++ rest)) /\
             length act = Nat.min (length (ep_full st ready)) (e_cap st) /\
             e_cap st' = ep_next_cap st (length (ep_full st ready)) /\
             e_objs st' = e_objs st /\ e_map st' = e_map st /\ e_kern st' = e_kern st
         | _ => act = []
         end) /\
    (~ sguard sp o -> ep_step st o = Rejected).
Proof. exact reachE_refines. Qed.
Print Assumptions C09_epoll_refines_partial.

Theorem C09_epoll_no_fault_partial : forall st sp o, reachE st sp -> sclean sp o -> ep_step st o <> Fault.
Proof. exact reachE_no_fault. Qed.
Print Assumptions C09_epoll_no_fault_partial.

(* with N entries ready, after k polls with N < cap * 2^k (initially cap = 16: k = ceil(log2((N+1)/16)))
   the array is larger than N, so poll k+1 reports every ready channel -- whichever subsets the kernel
   picked in between.  Uses 2 <= EPollPoller_grow_factor (regenerated from EPollPoller::poll). *)
Theorem C09_epoll_bounded : forall choices st sp ready,
  InvE st sp ->
  length (ep_full st ready) < e_cap st * 2 ^ length choices ->
  exists st' outs, ep_run st (map (Poll ready) choices) = Ok (st', outs) /\
     InvE st' sp /\ e_kern st' = e_kern st /\ length (ep_full st ready) < e_cap st'.
Proof. exact ep_polls_grow. Qed.
Print Assumptions C09_epoll_bounded.

Theorem C09_epoll_reach_inv : forall st sp, reachE st sp -> InvE st sp.
Proof. exact reachE_inv. Qed.
Print Assumptions C09_epoll_reach_inv.

(* the bound in terms of the GENERATED constant and the GENERATED growth guard of EPollPoller::poll:
   from any reachable state (events_ never shrinks below kInitEventListSize), with N entries ready and
   N < kInitEventListSize * 2^k, after k polls -- whichever subsets the kernel picked -- the next poll
   reports every one of them *)
Theorem C09_epoll_bounded_generated : forall choices choice st sp ready,
  reachE st sp ->
  length (ep_full st ready) < Z.to_nat EPollPoller_kInitEventListSize * 2 ^ length choices ->
  exists st' outs st'' act, ep_run st (map (Poll ready) choices) = Ok (st', outs) /\
     ep_step st' (Poll ready choice) = Ok (st'', act) /\ Permutation (ep_full st ready) act.
Proof. exact reachE_polls_report_all. Qed.
Print Assumptions C09_epoll_bounded_generated.

(* the model's growth step IS the guard and the resize argument translated from EPollPoller::poll
   (numEvents = number of entries returned, size = events_.size()) *)
Theorem C09_epoll_growth_generated : forall st ready choice st' act,
  ep_step st (Poll ready choice) = Ok (st', act) ->
  Z.of_nat (e_cap st') =
  if EPollPoller_poll_grow_guard (Z.of_nat (length act)) (Z.of_nat (e_cap st))
  then EPollPoller_poll_new_size (Z.of_nat (e_cap st)) else Z.of_nat (e_cap st).
Proof. exact ep_poll_cap_generated. Qed.
Print Assumptions C09_epoll_growth_generated.

Theorem C09_epoll_cap_never_below_init : forall st sp, reachE st sp ->
  Z.to_nat EPollPoller_kInitEventListSize <= e_cap st.
Proof. exact (fun st sp R => ie_capmin st sp (reachE_inv st sp R)). Qed.
Print Assumptions C09_epoll_cap_never_below_init.


(* ---- poll back-end ------------------------------------------------------------------------------------ *)
(* [reachP ri]: histories meeting the preconditions, sclean, and -- only when removeChannel does not
   reset the index (ri = false) -- sfresh ("no update of a removed Channel object", finding F-1).
   A conforming op succeeds (never Fault); Poll leaves the state alone and reports EXACTLY the set
   {(c, ready(fd c) & (events c | ERR|HUP|NVAL)) | c registered, events c <> 0, intersection <> 0};
   a violating op is Rejected. *)
Theorem C09_poll_refines_partial : forall ri st sp, reachP ri st sp ->
  forall o,
    (sguard sp o -> pextra ri sp o ->
       exists st' act, pp_step ri st o = Ok (st', act) /\ reachP ri st' (spec_step sp o) /\
         match o with
         | Poll ready _ => st' = st /\ forall c r, In (c, r) act <-> spec_reports sp ready c r
         | _ => act = []
         end) /\
    (~ sguard sp o -> pp_step ri st o = Rejected).
Proof. exact reachP_refines. Qed.
Print Assumptions C09_poll_refines_partial.

(* with the one-line repair (index reset) the F-1 hypothesis disappears: prepared for the fix: commit *)
Theorem C09_poll_reset_no_extra : forall sp o, sclean sp o -> pextra true sp o.
Proof. exact pextra_true. Qed.
Print Assumptions C09_poll_reset_no_extra.

(* the statement for the tree as it is now: ri = the regenerated fact *)
Theorem C09_poll_refines_current : forall st sp, reachP PollPoller_remove_resets_index st sp ->
  forall o,
    (sguard sp o -> pextra PollPoller_remove_resets_index sp o ->
       exists st' act, pp_step_current st o = Ok (st', act) /\
         reachP PollPoller_remove_resets_index st' (spec_step sp o) /\
         match o with
         | Poll ready _ => st' = st /\ forall c r, In (c, r) act <-> spec_reports sp ready c r
         | _ => act = []
         end) /\
    (~ sguard sp o -> pp_step_current st o = Rejected).
Proof. exact (reachP_refines PollPoller_remove_resets_index). Qed.
Print Assumptions C09_poll_refines_current.

Theorem C09_poll_reach_inv : forall ri st sp, reachP ri st sp -> InvP ri st sp.
Proof. exact reachP_inv. Qed.
Print Assumptions C09_poll_reach_inv.

(* ---- poll back-end of the CURRENT tree: F-1 fixed, no sfresh ------------------------------------------ *)
(* the generated fact: PollPoller::removeChannel ends with channel->set_index(<negative>) *)
Theorem C09_poll_fix_generated : PollPoller_remove_resets_index = true.
Proof. exact resets_index_current. Qed.
Print Assumptions C09_poll_fix_generated.

(* [reachPC]: ALL histories meeting the preconditions and sclean under pp_step_current -- remove() and
   re-registration of the same Channel object included.  Every conforming op succeeds; Poll leaves the
   state alone and reports EXACTLY the interest map's set; a violating op is Rejected. *)
Theorem C09_poll_refines : forall st sp, reachPC st sp ->
  forall o,
    (sguard sp o -> sclean sp o ->
       exists st' act, pp_step_current st o = Ok (st', act) /\ reachPC st' (spec_step sp o) /\
         match o with
         | Poll ready _ => st' = st /\ forall c r, In (c, r) act <-> spec_reports sp ready c r
         | _ => act = []
         end) /\
    (~ sguard sp o -> pp_step_current st o = Rejected).
Proof. exact reachPC_refines. Qed.
Print Assumptions C09_poll_refines.

Theorem C09_poll_no_fault : forall st sp o, reachPC st sp -> sclean sp o -> pp_step_current st o <> Fault.
Proof. exact reachPC_no_fault. Qed.
Print Assumptions C09_poll_no_fault.

(* every history (list of ops) meeting the preconditions and sclean runs to the end on both back-ends
   and reaches states related to the same interest map *)
Theorem C09_histories_run : forall ops, hist_ok sclean spec0 ops ->
  (exists stE outsE, ep_run ep_init ops = Ok (stE, outsE) /\ reachE stE (spec_run spec0 ops)) /\
  (exists stP outsP, pp_run_current pp_init ops = Ok (stP, outsP) /\ reachPC stP (spec_run spec0 ops)).
Proof. exact histories_run. Qed.
Print Assumptions C09_histories_run.

(* ---- both back-ends, same history --------------------------------------------------------------------- *)
(* the poll back-end reports exactly what the kernel has ready for the epoll back-end; epoll reports
   a part of it, and all of it when it fits the result array *)
Theorem C09_backends_agree_partial : forall ri stE stP sp ready choiceE choiceP stP' actP,
  reachE stE sp -> reachP ri stP sp ->
  pp_step ri stP (Poll ready choiceP) = Ok (stP', actP) ->
  (forall c r, In (c, r) actP <-> In (c, r) (ep_full stE ready)) /\
  (exists stE' actE, ep_step stE (Poll ready choiceE) = Ok (stE', actE) /\
     (forall c r, In (c, r) actE -> In (c, r) actP) /\
     (length (ep_full stE ready) <= e_cap stE -> forall c r, In (c, r) actP -> In (c, r) actE)).
Proof. exact backends_agree. Qed.
Print Assumptions C09_backends_agree_partial.

(* the current tree, ALL sclean histories: both polls succeed; poll's list = the interest map's set =
   what the kernel has ready for epoll; epoll's list is a part of it, all of it when it fits events_ *)
Theorem C09_backends_agree : forall stE stP sp ready choiceE choiceP,
  reachE stE sp -> reachPC stP sp ->
  exists actP stE' actE,
    pp_step_current stP (Poll ready choiceP) = Ok (stP, actP) /\
    ep_step stE (Poll ready choiceE) = Ok (stE', actE) /\
    (forall c r, In (c, r) actP <-> spec_reports sp ready c r) /\
    (forall c r, In (c, r) actP <-> In (c, r) (ep_full stE ready)) /\
    (forall c r, In (c, r) actE -> In (c, r) actP) /\
    (length (ep_full stE ready) <= e_cap stE -> forall c r, In (c, r) actP -> In (c, r) actE).
Proof. exact backends_agree_current. Qed.
Print Assumptions C09_backends_agree.

(* ---- dispatch (Channel::handleEventWithGuard) ----------------------------------------------------- *)
Theorem C09_dispatch_sound : forall r,
  (In CbRead (dispatch r) <-> N.land r (N.lor POLLIN (N.lor POLLPRI POLLRDHUP)) <> 0%N) /\
  (In CbWrite (dispatch r) <-> N.land r POLLOUT <> 0%N) /\
  (In CbClose (dispatch r) <-> N.land r POLLHUP <> 0%N /\ N.land r POLLIN = 0%N) /\
  (In CbError (dispatch r) <-> N.land r (N.lor POLLERR POLLNVAL) <> 0%N).
Proof. exact dispatch_sound. Qed.
Print Assumptions C09_dispatch_sound.

Theorem C09_dispatch_order : forall r, exists a b c d : bool,
  dispatch r = (if a then [CbClose] else []) ++ (if b then [CbError] else []) ++
               (if c then [CbRead] else []) ++ (if d then [CbWrite] else []).
Proof. exact dispatch_order. Qed.
Print Assumptions C09_dispatch_order.

(* the function translated from the if-statements of Channel::handleEventWithGuard (Gen_C09, callback
   codes 0..3) IS [dispatch]: C09_dispatch_sound is a statement about the generated function *)
Theorem C09_dispatch_generated : forall r,
  map cb_of_code (Channel_handleEventWithGuard_calls r) = dispatch r.
Proof. exact dispatch_link. Qed.
Print Assumptions C09_dispatch_generated.

(* Channel::handleEvent: the generated guard; a tied channel whose owner is gone runs NO callback,
   an untied one or one whose owner is alive runs exactly [dispatch] *)
Theorem C09_handle_event_generated : forall tied alive r,
  handle_event tied alive r =
  if Channel_handleEvent_runs tied alive then map cb_of_code (Channel_handleEventWithGuard_calls r) else [].
Proof. exact handle_event_generated. Qed.
Print Assumptions C09_handle_event_generated.
Theorem C09_tie_guard : forall tied alive r,
  (tied = true -> alive = false -> handle_event tied alive r = []) /\
  (tied = false \/ alive = true -> handle_event tied alive r = dispatch r).
Proof. exact handle_event_tie. Qed.
Print Assumptions C09_tie_guard.
Theorem C09_tie_guard_is_lock_generated : Channel_handleEvent_guard_is_tie_lock = true.
Proof. exact tie_guard_is_lock. Qed.
Print Assumptions C09_tie_guard_is_lock_generated.

(* a reported condition m that is not one of ERR|HUP|NVAL (readable, priority, writable) was
   subscribed and holds of the descriptor; any reported condition holds of the descriptor *)
Theorem C09_reported_subscribed : forall ready_bits ev m, N.land EHN m = 0%N ->
  N.land (N.land ready_bits (N.lor ev EHN)) m <> 0%N -> N.land ev m <> 0%N /\ N.land ready_bits m <> 0%N.
Proof. exact reported_requested. Qed.
Print Assumptions C09_reported_subscribed.
Theorem C09_reported_holds : forall ready_bits ev m,
  N.land (N.land ready_bits (N.lor ev EHN)) m <> 0%N -> N.land ready_bits m <> 0%N.
Proof. exact reported_holds. Qed.
Print Assumptions C09_reported_holds.

(* ---- one iteration of EventLoop::loop(): dispatch from the activeChannels_ snapshot ------------------ *)
(* generated: the while body is clear(); poll(.., &activeChannels_); for (channel : activeChannels_)
   handleEvent -- with no test in the loop body *)
Theorem C09_loop_dispatches_snapshot_generated : EventLoop_loop_dispatches_snapshot = true.
Proof. exact loop_snapshot_current. Qed.
Print Assumptions C09_loop_dispatches_snapshot_generated.

(* For every reachable state, every poll result [act] and every callback behaviour [h] whose Channel
   API calls respect the preconditions ([batch_ok]: sguard, sclean, EventLoop::removeChannel's and
   ~Channel's asserts):
   (1) the iteration runs the callbacks of EVERY channel of the snapshot, as dispatched from the revents
       of poll time -- so a channel disabled by an earlier callback of the same batch IS still called;
   (2) every channel of the snapshot was subscribed and ready AT POLL TIME;
   (3) afterwards the poller is in the state the callbacks' calls lead to, and every later poll reports
       only channels subscribed in THAT interest map: the staleness cannot outlive the iteration. *)
Theorem C09_stale_within_batch : forall h runs st sp ready choice st1 act,
  reachE st sp -> ep_step st (Poll ready choice) = Ok (st1, act) ->
  batch_ok h (map fst act) sp (callbacks_g runs act) ->
  exists st', ep_loop_iter h runs st ready choice = Ok (st', act, callbacks_g runs act) /\
    reachE st' (spec_run sp (batch_ops h (callbacks_g runs act))) /\
    (forall c r, In (c, r) act -> spec_reports sp ready c r) /\
    (forall ready' choice' st'' act', ep_step st' (Poll ready' choice') = Ok (st'', act') ->
       forall c r, In (c, r) act' -> spec_reports (spec_run sp (batch_ops h (callbacks_g runs act))) ready' c r).
Proof. exact stale_within_batch_E. Qed.
Print Assumptions C09_stale_within_batch.

Theorem C09_stale_within_batch_poll : forall h runs st sp ready choice st1 act,
  reachPC st sp -> pp_step_current st (Poll ready choice) = Ok (st1, act) ->
  batch_ok h (map fst act) sp (callbacks_g runs act) ->
  exists st', pp_loop_iter_current h runs st ready choice = Ok (st', act, callbacks_g runs act) /\
    reachPC st' (spec_run sp (batch_ops h (callbacks_g runs act))) /\
    (forall c r, In (c, r) act -> spec_reports sp ready c r) /\
    (forall ready' choice' st'' act', pp_step_current st' (Poll ready' choice') = Ok (st'', act') ->
       forall c r, In (c, r) act' -> spec_reports (spec_run sp (batch_ops h (callbacks_g runs act))) ready' c r).
Proof. exact stale_within_batch_P. Qed.
Print Assumptions C09_stale_within_batch_poll.

(* "never later", spelled out: a channel that is unregistered or has no interest is reported by no poll *)
Theorem C09_off_never_reported : forall sp ready c r,
  (forall s, sp c = Some s -> s_reg s = false \/ s_ev s = 0%N) -> ~ spec_reports sp ready c r.
Proof. exact not_reported_when_off. Qed.
Print Assumptions C09_off_never_reported.

(* the two asserts that guard a batch: remove() of a channel of the snapshot other than the current
   one, destruction of the current one -> the callback's op is Rejected *)
Theorem C09_batch_asserts : forall snap cur c,
  (c <> cur -> In c snap -> loop_guard snap cur (Remove c) = false) /\ loop_guard snap cur (Del cur) = false.
Proof. exact (fun snap cur c => conj (loop_guard_remove_ahead snap cur c) (loop_guard_del_current snap cur)). Qed.
Print Assumptions C09_batch_asserts.

(* ---- the loop's own descriptors: drained on notification, so an idle loop blocks ------------------------ *)
(* generated: EventLoop::handleRead reads 8 bytes from wakeupFd_ unconditionally, the eventfd is no
   semaphore; TimerQueue::handleRead calls readTimerfd(timerfd_, ..) which reads 8 bytes *)
Theorem C09_wakeup_reads_generated :
  drains EventLoop_handleRead_reads_wakeupfd EventLoop_eventfd_semaphore EventLoop_handleRead_read_size = true /\
  drains TimerQueue_handleRead_reads_timerfd false TimerQueue_readTimerfd_read_size = true.
Proof. exact (conj wake_drains_current timer_drains_current). Qed.
Print Assumptions C09_wakeup_reads_generated.

(* wake-up channel wc (eventfd wfd) and timer channel tc (timerfd tfd) registered for reading, every
   other registered channel quiet.  Whatever the eventfd counter and the number of unread expirations:
   one iteration reports exactly the notified ones, runs exactly their read callbacks, which reset both
   counters; after that NOTHING is ready in any state with this interest map: epoll_wait has nothing to
   return and blocks (until its time-out or a new event) -- the loop does not spin. *)
Theorem C09_wakeup_drained : forall h runs user wc tc wfd tfd st sp e choice,
  reachE st sp -> loop_channels sp wc tc wfd tfd -> others_quiet sp wc tc e ->
  runs wc = true -> runs tc = true -> (forall k, h wc k = []) -> (forall k, h tc k = []) ->
  exists st' act e',
    loop_iter_env ep ep_step h runs (effects_current wc tc user) wfd tfd st e choice = Ok (st', act, callbacks_g runs act, e') /\
    reachE st' sp /\
    (forall c r, In (c, r) act <->
       (c = wc /\ (0 < k_wake e)%N /\ r = POLLIN) \/ (c = tc /\ (0 < k_texp e)%N /\ r = POLLIN)) /\
    (forall ck, In ck (callbacks_g runs act) <->
       (ck = (wc, CbRead) /\ (0 < k_wake e)%N) \/ (ck = (tc, CbRead) /\ (0 < k_texp e)%N)) /\
    k_wake e' = 0%N /\ k_texp e' = 0%N /\ k_rd e' = k_rd e /\
    (forall st2, reachE st2 sp -> ep_full st2 (env_ready wfd tfd e') = []).
Proof. exact wakeup_drained_E. Qed.
Print Assumptions C09_wakeup_drained.

Theorem C09_wakeup_drained_poll : forall h runs user wc tc wfd tfd st sp e choice,
  reachPC st sp -> loop_channels sp wc tc wfd tfd -> others_quiet sp wc tc e ->
  runs wc = true -> runs tc = true -> (forall k, h wc k = []) -> (forall k, h tc k = []) ->
  exists st' act e',
    loop_iter_env pp pp_step_current h runs (effects_current wc tc user) wfd tfd st e choice = Ok (st', act, callbacks_g runs act, e') /\
    reachPC st' sp /\
    (forall c r, In (c, r) act <->
       (c = wc /\ (0 < k_wake e)%N /\ r = POLLIN) \/ (c = tc /\ (0 < k_texp e)%N /\ r = POLLIN)) /\
    (forall ck, In ck (callbacks_g runs act) <->
       (ck = (wc, CbRead) /\ (0 < k_wake e)%N) \/ (ck = (tc, CbRead) /\ (0 < k_texp e)%N)) /\
    k_wake e' = 0%N /\ k_texp e' = 0%N /\ k_rd e' = k_rd e /\
    (forall st2 choice2, reachPC st2 sp -> pp_step_current st2 (Poll (env_ready wfd tfd e') choice2) = Ok (st2, [])).
Proof. exact wakeup_drained_P. Qed.
Print Assumptions C09_wakeup_drained_poll.

(* the contrast (why the read matters): a handleRead that does not read leaves the eventfd readable and
   the wake-up channel is in the kernel's ready set again at once -- every iteration returns immediately *)
Theorem C09_wakeup_undrained_spins : forall h runs user sem sz wc tc wfd tfd st sp e choice,
  reachE st sp -> loop_channels sp wc tc wfd tfd -> others_quiet sp wc tc e ->
  runs wc = true -> runs tc = true -> (forall k, h wc k = []) -> (forall k, h tc k = []) ->
  (0 < k_wake e)%N ->
  exists st' act e',
    loop_iter_env ep ep_step h runs (loop_effects (handleRead_env false sem sz) timer_rd_current wc tc user)
      wfd tfd st e choice = Ok (st', act, callbacks_g runs act, e') /\
    reachE st' sp /\ In (wc, POLLIN) act /\ k_wake e' = k_wake e /\
    In (wc, POLLIN) (ep_full st' (env_ready wfd tfd e')).
Proof. exact wakeup_undrained_spins_E. Qed.
Print Assumptions C09_wakeup_undrained_spins.

(* ---- findings: the full statements are false of the faithful models ------------------------------- *)
(* F-1: with the pinned removeChannel (no index reset) re-enabling a removed Channel object takes the
   update branch with a stale slot: assertion failure / out-of-bounds = Fault.  The history meets all
   preconditions and has no redundant disable; epoll and the repaired poll back-end handle it. *)
Theorem C09_poll_reregister_refuted : exists ops,
  hist_ok sclean spec0 ops /\ pp_run false pp_init ops = Fault /\
  (exists st outs, pp_run true pp_init ops = Ok (st, outs)) /\
  (exists st outs, ep_run ep_init ops = Ok (st, outs)).
Proof.
  exists w_reregister.
  exact (conj w_reregister_ok (conj w_reregister_faults (conj w_reregister_fixed_ok w_reregister_epoll_ok))).
Qed.
Print Assumptions C09_poll_reregister_refuted.

(* F-14: a disabled channel is called (epoll: disableAll twice; both: disableAll on a fresh channel) *)
Theorem C09_disabled_called_refuted : exists ops ready,
  hist_ok any_hist spec0 ops /\
  (forall c r, ~ spec_reports (spec_run spec0 ops) ready c r) /\
  exists st outs, ep_run ep_init ops = Ok (st, outs) /\ last outs [] = [(0, POLLHUP)] /\
                  callbacks (last outs []) = [(0, CbClose)].
Proof.
  exists w_double_disable, readyHUP.
  exact (conj w_double_disable_ok (conj w_double_disable_spec w_double_disable_epoll)).
Qed.
Print Assumptions C09_disabled_called_refuted.

Theorem C09_backends_agree_refuted : exists ops,
  hist_ok any_hist spec0 ops /\
  (exists st outs, ep_run ep_init ops = Ok (st, outs) /\ last outs [] = [(0, POLLHUP)]) /\
  (forall ri, exists st outs, pp_run ri pp_init ops = Ok (st, outs) /\ last outs [] = []).
Proof. exists w_double_disable. exact w_backends_differ. Qed.
Print Assumptions C09_backends_agree_refuted.

Theorem C09_no_fault_refuted : exists ops,
  hist_ok any_hist spec0 ops /\ forall ri, pp_run ri pp_init ops = Fault.
Proof. exists w_fresh_disable_remove. exact (conj w_fresh_disable_remove_ok w_fresh_disable_remove_faults). Qed.
Print Assumptions C09_no_fault_refuted.

(* ---- non-vacuity: reachable states after a swap-and-pop of a middle entry ------------------------------ *)
Example ex_reachE : exists st outs,
  ep_run ep_init w_swap = Ok (st, outs) /\ reachE st (spec_run spec0 w_swap) /\
  length (e_kern st) = 2 /\ last outs [] = [(0, 1%N); (2, 5%N)].
Proof.
  destruct (run_reachE w_swap ep_init spec0 reachE_init) as [st [outs [E R]]].
  { eapply hist_ok_weaken; [|exact w_swap_ok]. intros sp o [H _]. exact H. }
  exists st, outs. split; [exact E|]. split; [exact R|].
  vm_compute in E. injection E as <- <-. split; reflexivity.
Qed.

Example ex_reachP : forall ri, exists st outs,
  pp_run ri pp_init w_swap = Ok (st, outs) /\ reachP ri st (spec_run spec0 w_swap) /\
  p_pfds st = [mkPfd 0 3; mkPfd 2 7] /\ last outs [] = [(0, 1%N); (2, 5%N)].
Proof.
  intros ri. destruct (run_reachP ri w_swap pp_init spec0 (reachP_init ri)) as [st [outs [E R]]].
  { eapply hist_ok_weaken; [|exact w_swap_ok]. intros sp o [H1 H2]. split; [exact H1|intros _; exact H2]. }
  exists st, outs. split; [exact E|]. split; [exact R|].
  destruct ri; vm_compute in E; injection E as <- <-; split; reflexivity.
Qed.

(* the growth bound is not vacuous: 16 * 2^5 exceeds 300 *)
Example ex_bound_300 : 300 < kInitEventListSize * 2 ^ 5.
Proof. vm_compute. lia. Qed.

(* the F-1 witness on the current tree: it runs, reaches a related state, and the re-registered channel
   is reported *)
Example ex_reregister_current : exists st outs,
  pp_run_current pp_init w_reregister = Ok (st, outs) /\ reachPC st (spec_run spec0 w_reregister) /\
  pp_step_current st (Poll readyIN []) = Ok (st, [(0, POLLIN)]).
Proof.
  destruct (run_reachPC w_reregister pp_init spec0 reachPC_init w_reregister_ok) as [st [outs [E R]]].
  exists st, outs. split; [exact E|]. split; [exact R|].
  vm_compute in E. injection E as <- <-. vm_compute. reflexivity.
Qed.

(* stale within the batch is not vacuous: 0 and 1 both readable, 0's read callback disables 1 -- 1 is
   still called in this iteration, and is not reported in the next one *)
Example ex_stale_within_batch : exists st0 outs st1 st2,
  ep_run ep_init w_two = Ok (st0, outs) /\ reachE st0 (spec_run spec0 w_two) /\
  batch_ok h_stale [0; 1] (spec_run spec0 w_two) [(0, CbRead); (1, CbRead)] /\
  ep_loop_iter h_stale all_run st0 readyIN [] = Ok (st1, [(0, POLLIN); (1, POLLIN)], [(0, CbRead); (1, CbRead)]) /\
  ep_loop_iter (fun _ _ => []) all_run st1 readyIN [] = Ok (st2, [(0, POLLIN)], [(0, CbRead)]).
Proof.
  destruct (run_reachE w_two ep_init spec0 reachE_init w_two_ok) as [st0 [outs [E R]]].
  exists st0, outs. vm_compute in E. injection E as <- <-.
  eexists _, _. split; [reflexivity|]. split; [exact R|]. split.
  - cbn [batch_ok fst snd h_stale]. split; [|split; exact I].
    cbn [cb_ops_ok]. split; [reflexivity|]. split; [|split; [|exact I]].
    + eexists. split; [reflexivity|]. left. reflexivity.
    + intros s H. injection H as <-. intros _. split; [reflexivity|]. vm_compute. discriminate.
  - split; vm_compute; reflexivity.
Qed.

(* the hypotheses of C09_wakeup_drained are inhabited: the loop's channels as its constructors leave them *)
Example ex_wakeup_setup : exists st outs,
  ep_run ep_init w_loop_init = Ok (st, outs) /\ reachE st (spec_run spec0 w_loop_init) /\
  loop_channels (spec_run spec0 w_loop_init) 1 0 4 3 /\
  forall e, others_quiet (spec_run spec0 w_loop_init) 1 0 e.
Proof.
  destruct (run_reachE w_loop_init ep_init spec0 reachE_init w_loop_init_ok) as [st [outs [E R]]].
  exists st, outs. split; [exact E|]. split; [exact R|]. split.
  - split; [discriminate|]. split; exists false; vm_compute; reflexivity.
  - intros e c s H _ N1 N0. destruct c as [|[|c]]; [contradiction|contradiction|]. cbn in H. discriminate.
Qed.
