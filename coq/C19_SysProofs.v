(* C19_SysProofs: a client channel and a server channel joined by a connection (C19_Sys).
   For every interleaving of CallMethod micro-steps, frame deliveries and deferred completions:
   a closure runs only with the reply the service gave for ITS request (or with the error reply for
   it), and once nothing is in flight every call has completed exactly once. *)
From Coq Require Import List ZArith Bool Arith Lia.
From Coq.Strings Require Import Byte.
From Muduo Require Import Base_Bytes C19_Model C19_Proofs C19_DownProofs C19_Wire C19_WireProofs C19_Sys.
Import ListNotations.
Local Open Scope Z_scope.

Section SysProofs.
  Variable wire_of : bytes -> bytes.
  Variable content_of : bytes -> payload.
  Hypothesis user_roundtrip : forall m, content_of (wire_of m) = Valid m.

  Notation sstep_ := (sys_step wire_of content_of).
  Notation sexec := (sys_exec wire_of content_of).
  Notation arrives := (arrives_as wire_of content_of).

  (* sizes below 2 GiB: every call's names and request, every reply *)
  Definition label_wf (l : slabel) : Prop :=
    match l with
    | SCall (LFetch _ c) => short (c_svc c) /\ short (c_meth c) /\ short (wire_of (c_req c))
    | SDone _ m => short (wire_of m)
    | _ => True
    end.
  Definition sys_wf (ls : list slabel) : Prop := forall l, In l ls -> label_wf l.

  (* ---------------------------------------------------------------- one step, by cases *)
  Lemma step_call y l0 y' st :
    sstep_ y (SCall l0) = Some (y', st) ->
    exists ev, step (cl y) l0 = Some (cl y', ev) /\ st = mkSS (Some (l0, ev)) None /\
      sv y' = sv y /\ c2s y' = c2s y ++ frames ev /\ s2c y' = s2c y /\
      ((exists t c, l0 = LFetch t c) \/ (exists t, l0 = LRegister t) \/ (exists t, l0 = LSend t)).
  Proof.
    cbn [sys_step]. destruct l0 as [t c|t|t|i b|r|k m|i]; try discriminate;
      (destruct (step (cl y) _) as [[c' ev]|] eqn:E; [|discriminate]); intros H; inversion H; subst; cbn;
      exists ev; repeat split; eauto.
  Qed.

  Lemma step_req y y' st :
    sstep_ y SReq = Some (y', st) ->
    exists e q r ev, c2s y = e :: q /\ arrives e = Some (LRequest r) /\ step (sv y) (LRequest r) = Some (sv y', ev) /\
      st = mkSS None (Some (LRequest r, ev)) /\ cl y' = cl y /\ c2s y' = q /\ s2c y' = s2c y ++ frames ev.
  Proof.
    cbn [sys_step]. destruct (c2s y) as [|e q]; [discriminate|].
    destruct (arrives e) as [[t c|t|t|i b|r|k m|i]|] eqn:Ea; try discriminate.
    destruct (step (sv y) (LRequest r)) as [[s' ev]|] eqn:E; [|discriminate].
    intros H; inversion H; subst; cbn. exists e, q, r, ev. repeat split; auto.
  Qed.

  Lemma step_sdone y k m y' st :
    sstep_ y (SDone k m) = Some (y', st) ->
    exists ev, step (sv y) (LDone k m) = Some (sv y', ev) /\ st = mkSS None (Some (LDone k m, ev)) /\
      cl y' = cl y /\ c2s y' = c2s y /\ s2c y' = s2c y ++ frames ev.
  Proof.
    cbn [sys_step]. destruct (step (sv y) (LDone k m)) as [[s' ev]|] eqn:E; [|discriminate].
    intros H; inversion H; subst; cbn. exists ev. repeat split; auto.
  Qed.

  Lemma step_resp y y' st :
    sstep_ y SResp = Some (y', st) ->
    exists e q i b ev, s2c y = e :: q /\ arrives e = Some (LResponse i b) /\ step (cl y) (LResponse i b) = Some (cl y', ev) /\
      st = mkSS (Some (LResponse i b, ev)) None /\ sv y' = sv y /\ c2s y' = c2s y /\ s2c y' = q.
  Proof.
    cbn [sys_step]. destruct (s2c y) as [|e q]; [discriminate|].
    destruct (arrives e) as [[t c|t|t|i b|r|k m|i]|] eqn:Ea; try discriminate.
    destruct (step (cl y) (LResponse i b)) as [[c' ev]|] eqn:E; [|discriminate].
    intros H; inversion H; subst; cbn. exists e, q, i, b, ev. repeat split; auto.
  Qed.

  (* ---------------------------------------------------------------- histories *)
  Lemma sexec_cons y l r y'' tr :
    sexec y (l :: r) = Some (y'', tr) ->
    exists y' st tr', sstep_ y l = Some (y', st) /\ sexec y' r = Some (y'', tr') /\ tr = (l, st) :: tr'.
  Proof.
    cbn [sys_exec]. destruct (sstep_ y l) as [[y' st]|] eqn:E1; [|discriminate].
    destruct (sexec y' r) as [[y3 tr']|] eqn:E2; [|discriminate].
    intros H; inversion H; subst. exists y', st, tr'. auto.
  Qed.

  Lemma sexec_snoc ls : forall y l y2 tr2,
    sexec y (ls ++ [l]) = Some (y2, tr2) ->
    exists y1 tr1 st, sexec y ls = Some (y1, tr1) /\ sstep_ y1 l = Some (y2, st) /\ tr2 = tr1 ++ [(l, st)].
  Proof.
    induction ls as [|l0 r IH]; intros y l y2 tr2 H.
    - cbn [app] in H. apply sexec_cons in H. destruct H as (y' & st & tr' & Hs & He & ->). inversion He; subst.
      exists y, [], st. auto.
    - cbn [app] in H. apply sexec_cons in H. destruct H as (y' & st & tr' & Hs & He & ->).
      destruct (IH _ _ _ _ He) as (y1 & tr1 & st1 & H1 & Hs1 & ->).
      exists y1, ((l0, st) :: tr1), st1. cbn [sys_exec]. rewrite Hs, H1. auto.
  Qed.

  Lemma cproj_app a b : cproj (a ++ b) = cproj a ++ cproj b.
  Proof. unfold cproj. apply flat_map_app. Qed.
  Lemma sproj_app a b : sproj (a ++ b) = sproj a ++ sproj b.
  Proof. unfold sproj. apply flat_map_app. Qed.

  Lemma cproj_one l x o : cproj [(l, mkSS (Some x) o)] = [x]. Proof. reflexivity. Qed.
  Lemma cproj_none l o : cproj [(l, mkSS None o)] = []. Proof. reflexivity. Qed.
  Lemma sproj_one l x o : sproj [(l, mkSS o (Some x))] = [x]. Proof. reflexivity. Qed.
  Lemma sproj_none l o : sproj [(l, mkSS o None)] = []. Proof. reflexivity. Qed.

  Lemma exec_snoc_intro s ls s1 tr1 l s2 ev :
    exec s ls = Some (s1, tr1) -> step s1 l = Some (s2, ev) -> exec s (ls ++ [l]) = Some (s2, tr1 ++ [(l, ev)]).
  Proof.
    intros H1 Hs. eapply exec_app_intro; [exact H1|]. eapply exec_cons_intro; [exact Hs|reflexivity].
  Qed.

  (* each channel's part of a system history is a history of that channel *)
  Lemma projections ls : forall y y' tr,
    sexec y ls = Some (y', tr) ->
    exec (cl y) (map fst (cproj tr)) = Some (cl y', cproj tr) /\
    exec (sv y) (map fst (sproj tr)) = Some (sv y', sproj tr).
  Proof.
    induction ls as [|l ls IH] using rev_ind; intros y y' tr H.
    - inversion H; subst. split; reflexivity.
    - apply sexec_snoc in H. destruct H as (y1 & tr1 & st & H1 & Hs & ->).
      destruct (IH _ _ _ H1) as [HC HS]. rewrite cproj_app, sproj_app, !map_app.
      destruct l as [l0| |k m|].
      + destruct (step_call _ _ _ _ Hs) as (ev & Hst & -> & Hsv & _). rewrite ?cproj_one, ?cproj_none, ?sproj_one, ?sproj_none. cbn [map fst].
        rewrite ?app_nil_r, Hsv. split; [|exact HS]. eapply exec_snoc_intro; eauto.
      + destruct (step_req _ _ _ Hs) as (e & q & r & ev & _ & _ & Hst & -> & Hcl & _). rewrite ?cproj_one, ?cproj_none, ?sproj_one, ?sproj_none. cbn [map fst].
        rewrite ?app_nil_r, Hcl. split; [exact HC|]. eapply exec_snoc_intro; eauto.
      + destruct (step_sdone _ _ _ _ _ Hs) as (ev & Hst & -> & Hcl & _). rewrite ?cproj_one, ?cproj_none, ?sproj_one, ?sproj_none. cbn [map fst].
        rewrite ?app_nil_r, Hcl. split; [exact HC|]. eapply exec_snoc_intro; eauto.
      + destruct (step_resp _ _ _ Hs) as (e & q & i & b & ev & _ & _ & Hst & -> & Hsv & _). rewrite ?cproj_one, ?cproj_none, ?sproj_one, ?sproj_none. cbn [map fst].
        rewrite ?app_nil_r, Hsv. split; [|exact HS]. eapply exec_snoc_intro; eauto.
  Qed.

  (* the client's labels: its CallMethod micro-steps and the responses delivered *)
  Lemma step_labels y l y' st :
    sstep_ y l = Some (y', st) ->
    fetch_tags (map fst (cproj [(l, st)])) = sfetch_tags [l] /\
    (forall t c, l = SCall (LFetch t c) <-> In (LFetch t c) (map fst (cproj [(l, st)]))) /\
    (forall k m, l = SDone k m <-> In (LDone k m) (map fst (sproj [(l, st)]))).
  Proof.
    intros Hs. destruct l as [l0| |k0 m0|].
    - destruct (step_call _ _ _ _ Hs) as (ev & _ & -> & _ & _ & _ & Hk). rewrite cproj_one, sproj_none. cbn [map fst].
      split; [destruct Hk as [(t & c & ->)|[(t & ->)|(t & ->)]]; reflexivity|]. split.
      + intros t c. split; [intros E; inversion E; left; reflexivity|intros [E|[]]; congruence].
      + intros k m. split; [discriminate|intros []].
    - destruct (step_req _ _ _ Hs) as (e & q & r & ev & _ & _ & _ & -> & _). rewrite cproj_none, sproj_one. cbn [map fst].
      split; [reflexivity|]. split.
      + intros t c. split; [discriminate|intros []].
      + intros k m. split; [discriminate|intros [E|[]]; discriminate].
    - destruct (step_sdone _ _ _ _ _ Hs) as (ev & _ & -> & _). rewrite cproj_none, sproj_one. cbn [map fst].
      split; [reflexivity|]. split.
      + intros t c. split; [discriminate|intros []].
      + intros k m. split; [intros E; inversion E; left; reflexivity|intros [E|[]]; congruence].
    - destruct (step_resp _ _ _ Hs) as (e & q & i & b & ev & _ & _ & _ & -> & _). rewrite cproj_one, sproj_none. cbn [map fst].
      split; [reflexivity|]. split.
      + intros t c. split; [discriminate|intros [E|[]]; discriminate].
      + intros k m. split; [discriminate|intros []].
  Qed.

  Lemma client_labels ls : forall y y' tr,
    sexec y ls = Some (y', tr) ->
    fetch_tags (map fst (cproj tr)) = sfetch_tags ls /\
    (forall t c, In (SCall (LFetch t c)) ls <-> In (LFetch t c) (map fst (cproj tr))) /\
    (forall k m, In (SDone k m) ls <-> In (LDone k m) (map fst (sproj tr))).
  Proof.
    induction ls as [|l ls IH]; intros y y' tr H.
    - inversion H; subst. split; [reflexivity|]. split; intros; split; intros [].
    - apply sexec_cons in H. destruct H as (y1 & st & tr' & Hs & He & ->).
      destruct (IH _ _ _ He) as (A & B & C). destruct (step_labels _ _ _ _ Hs) as (A1 & B1 & C1).
      change ((l, st) :: tr') with ([(l, st)] ++ tr'). rewrite cproj_app, sproj_app, !map_app.
      split.
      + unfold fetch_tags, sfetch_tags in *. rewrite flat_map_app, A, A1. cbn [flat_map]. rewrite app_nil_r. reflexivity.
      + split.
        * intros t c. rewrite in_app_iff, <- B, <- B1. cbn [In]. split; [intros [E|E]; auto|intros [E|E]; auto].
        * intros k m. rewrite in_app_iff, <- C, <- C1. cbn [In]. split; [intros [E|E]; auto|intros [E|E]; auto].
  Qed.

  (* ---------------------------------------------------------------- what is in flight, and where it came from *)
  Definition frame_id (e : event) : option Z :=
    match e with ESendRequest i _ _ _ | ESendResponse i _ => Some i | _ => None end.

  Definition inflight (y : sys) (i : Z) : Prop :=
    (exists e, In e (c2s y) /\ frame_id e = Some i) \/
    (exists k, nlookup k (pending (sv y)) = Some i) \/
    (exists e, In e (s2c y) /\ frame_id e = Some i).

  (* the request (i, svc, meth, req) is the request of a call made in this history, fetched with id i *)
  Definition origin (ls : list slabel) (tr : strace) (i : Z) (svc meth : name) (req : bytes) : Prop :=
    exists t t' c, In (SCall (LFetch t c)) ls /\ In (EFetch t' i (c_tag c)) (events (cproj tr)) /\
                   svc = c_svc c /\ meth = c_meth c /\ req = c_req c.

  (* what a closure that runs has been given: the reply the service made for this call's request, or the
     error reply to it *)
  Definition served (svcs : option (list (name * list name))) (ls : list slabel) (tr : strace) (tg : tag) (sn : seen) : Prop :=
    exists t t' c i, In (SCall (LFetch t c)) ls /\ c_tag c = tg /\ In (EFetch t' i tg) (events (cproj tr)) /\
      ((exists k m, sn = Parsed m /\ In (SDone k m) ls /\
                    In (EDispatch k i (c_svc c) (c_meth c) (c_req c)) (events (sproj tr))) \/
       (exists e, sn = Untouched /\ resolve svcs (mkReq i (c_svc c) (c_meth c) (Valid (c_req c))) = inl e)).

  Record sinv (svcs : option (list (name * list name))) (ls : list slabel) (tr : strace) (y : sys) : Prop := mkSinv {
    si_flight : forall i c, lookup i (outs (cl y)) = Some c ->
                  (exists t c', tget t (threads (cl y)) = TRegistered i c') \/ inflight y i;
    si_c2s : forall e, In e (c2s y) -> exists i svc meth req, e = ESendRequest i svc meth req /\ origin ls tr i svc meth req;
    si_pend : forall k i, nlookup k (pending (sv y)) = Some i ->
                exists svc meth req, In (EDispatch k i svc meth req) (events (sproj tr)) /\ origin ls tr i svc meth req;
    si_s2c : forall e, In e (s2c y) -> exists i r, e = ESendResponse i r /\
                match r with
                | RReply m => exists k svc meth req, In (SDone k m) ls /\ In (EDispatch k i svc meth req) (events (sproj tr)) /\
                                                     origin ls tr i svc meth req
                | RError e' => exists svc meth req, origin ls tr i svc meth req /\ resolve svcs (mkReq i svc meth (Valid req)) = inl e'
                end;
    si_runs : forall l st ev tg sn, In (l, st) tr -> ss_cl st = Some ev -> In (ERun tg sn) (snd ev) -> served svcs ls tr tg sn
  }.

  Lemma origin_mono ls tr l st i svc meth req :
    origin ls tr i svc meth req -> origin (ls ++ [l]) (tr ++ [(l, st)]) i svc meth req.
  Proof.
    intros (t & t' & c & A & B & C). exists t, t', c. split; [apply in_or_app; auto|]. split; [|exact C].
    rewrite cproj_app, events_app. apply in_or_app. auto.
  Qed.

  Lemma served_mono svcs ls tr l st tg sn :
    served svcs ls tr tg sn -> served svcs (ls ++ [l]) (tr ++ [(l, st)]) tg sn.
  Proof.
    intros (t & t' & c & i & A & B & C & D). exists t, t', c, i. split; [apply in_or_app; auto|]. split; [exact B|].
    split; [rewrite cproj_app, events_app; apply in_or_app; auto|].
    destruct D as [(k & m & D1 & D2 & D3)|D]; [left|right; exact D].
    exists k, m. split; [exact D1|]. split; [apply in_or_app; auto|]. rewrite sproj_app, events_app. apply in_or_app. auto.
  Qed.

  Lemma sev_mono tr l st e : In e (events (sproj tr)) -> In e (events (sproj (tr ++ [(l, st)]))).
  Proof. intros H. rewrite sproj_app, events_app. apply in_or_app. auto. Qed.

  Lemma in_events_last (tr : trace) l ev e : In e ev -> In e (events (tr ++ [(l, ev)])).
  Proof. intros H. rewrite events_app. apply in_or_app. right. unfold events. cbn. rewrite app_nil_r. exact H. Qed.

  (* ---------------------------------------------------------------- the invariant *)
  Lemma sinv_holds svcs ls : forall y tr,
    sexec (sys_init svcs) ls = Some (y, tr) ->
    sys_wf ls -> NoDup (sfetch_tags ls) -> next_id (cl y) < 9223372036854775808 ->
    sinv svcs ls tr y.
  Proof.
    induction ls as [|l ls IH] using rev_ind; intros y tr H Hwf Hnd Hid.
    - inversion H; subst. constructor; cbn; intros; try discriminate; try contradiction.
    - apply sexec_snoc in H. destruct H as (y1 & tr1 & st & H1 & Hs & ->).
      assert (sys_wf ls) as Hwf1 by (intros x Hx; apply Hwf; apply in_or_app; auto).
      assert (NoDup (sfetch_tags ls)) as Hnd1.
      { unfold sfetch_tags in *. rewrite flat_map_app in Hnd. revert Hnd.
        generalize (flat_map (fun l0 => match l0 with SCall (LFetch _ c) => [c_tag c] | _ => [] end) ls).
        intros a Ha. induction a as [|x a IHa]; [constructor|]. cbn [app] in Ha. inversion Ha; subst. constructor; [|auto].
        intros Hx. apply H2. apply in_or_app. auto. }
      destruct (projections _ _ _ _ H1) as [HC1 HS1]. cbn [sys_init cl sv] in HC1, HS1.
      destruct (client_labels _ _ _ _ H1) as (HT1 & HL1 & HD1).
      assert (next_id (cl y1) <= next_id (cl y)) as Hmono.
      { destruct l as [l0| |k m|].
        - destruct (step_call _ _ _ _ Hs) as (ev & Hst & _). destruct (step_next_id _ _ _ _ Hst) as [[_ E]|[_ E]]; lia.
        - destruct (step_req _ _ _ Hs) as (e & q & r & ev & _ & _ & _ & _ & E & _). rewrite E. lia.
        - destruct (step_sdone _ _ _ _ _ Hs) as (ev & _ & _ & E & _). rewrite E. lia.
        - destruct (step_resp _ _ _ Hs) as (e & q & i & b & ev & _ & _ & Hst & _). destruct (step_next_id _ _ _ _ Hst) as [[_ E]|[_ E]]; lia. }
      pose proof (IH _ _ H1 Hwf1 Hnd1 ltac:(lia)) as [IF IC IP IS IR].
      pose proof (inv_exec _ _ _ _ (inv_init None) HC1) as [HK HF HD].
      (* facts about ids: an id with an origin is a positive int64 *)
      assert (forall i svc meth req, origin ls tr1 i svc meth req -> int64 i /\ short svc /\ short meth /\ short (wire_of req)) as Horg.
      { intros i svc meth req (t & t' & c & A & B & -> & -> & ->).
        pose proof (Hwf1 _ A) as (W1 & W2 & W3). cbn in W1, W2, W3.
        destruct (exec_ids _ _ _ _ HC1) as (_ & Hin & _). pose proof (Hin i (in_fetched_ids _ _ _ _ B)) as Hr. cbn in Hr.
        unfold int64. repeat split; auto; lia. }
      assert (forall x, In x tr1 -> In x (tr1 ++ [(l, st)])) as Hin1 by (intros; apply in_or_app; auto).
      destruct l as [l0| |k m|].
      + (* ---- a CallMethod micro-step *)
        destruct (step_call _ _ _ _ Hs) as (ev & Hst & -> & Hsv & Hc2s & Hs2c & Hk).
        assert (forall tg sn, ~ In (ERun tg sn) ev) as Hnorun.
        { intros tg sn Hr. destruct Hk as [(t & c & ->)|[(t & ->)|(t & ->)]].
          - apply step_fetch in Hst. destruct Hst as (_ & _ & ->). destruct Hr as [E|[]]; discriminate.
          - apply step_register in Hst. destruct Hst as (i & d & _ & _ & ->). destruct Hr as [E|[]]; discriminate.
          - apply step_send in Hst. destruct Hst as (i & d & _ & _ & ->). destruct Hr as [E|[]]; discriminate. }
        constructor.
        * (* in flight *)
          intros i c Hl. unfold inflight. rewrite Hsv, Hc2s, Hs2c.
          destruct Hk as [(t & d & ->)|[(t & ->)|(t & ->)]].
          -- pose proof (step_fetch _ _ _ _ _ Hst) as (Hg & E & Eev). rewrite E in Hl |- *. cbn [outs threads] in *. subst ev. cbn [frames filter is_frame]. rewrite app_nil_r.
             destruct (IF _ _ Hl) as [(u & c' & Hu)|Hfl]; [left|right; exact Hfl].
             exists u, c'. rewrite tget_tset. destruct (Nat.eq_dec t u) as [->|]; [congruence|exact Hu].
          -- pose proof (step_register _ _ _ _ Hst) as (j & d & Hg & E & Eev). rewrite E in Hl |- *. cbn [outs threads] in *. subst ev. cbn [frames filter is_frame]. rewrite app_nil_r.
             destruct (Z.eq_dec j i) as [->|Hne].
             ++ left. exists t, d. apply tget_tset_same.
             ++ rewrite lookup_insert_other in Hl by exact Hne. destruct (IF _ _ Hl) as [(u & c' & Hu)|Hfl]; [left|right; exact Hfl].
                exists u, c'. rewrite tget_tset. destruct (Nat.eq_dec t u) as [->|]; [congruence|exact Hu].
          -- pose proof (step_send _ _ _ _ Hst) as (j & d & Hg & E & Eev). rewrite E in Hl |- *. cbn [outs threads] in *. subst ev. cbn [frames filter is_frame].
             destruct (IF _ _ Hl) as [(u & c' & Hu)|Hfl].
             ++ destruct (Nat.eq_dec t u) as [->|Hne].
                ** rewrite Hg in Hu. inversion Hu; subst. right. left. eexists. split; [apply in_or_app; right; left; reflexivity|reflexivity].
                ** left. exists u, c'. rewrite tget_tset. destruct (Nat.eq_dec t u); [congruence|exact Hu].
             ++ right. destruct Hfl as [(e & He & Hf)|[Hp|Hq]]; [left; exists e; split; [apply in_or_app; auto|exact Hf]|right; left; exact Hp|right; right; exact Hq].
        * (* frames to the server *)
          intros e He. rewrite Hc2s in He. apply in_app_or in He. destruct He as [He|He].
          -- destruct (IC _ He) as (i & svc & meth & req & -> & Ho). exists i, svc, meth, req. split; [reflexivity|apply origin_mono; exact Ho].
          -- destruct Hk as [(t & d & ->)|[(t & ->)|(t & ->)]].
             ++ apply step_fetch in Hst. destruct Hst as (_ & _ & ->). destruct He.
             ++ apply step_register in Hst. destruct Hst as (j & d & _ & _ & ->). destruct He.
             ++ pose proof (step_send _ _ _ _ Hst) as (j & d & Hg & _ & ->). cbn in He. destruct He as [<-|[]].
                exists j, (c_svc d), (c_meth d), (c_req d). split; [reflexivity|].
                pose proof (proj2 (exec_linv2 _ _ _ _ HC1) _ _ _ Hg) as Hlf.
                pose proof (exec_rinv [] [] _ _ _ _ (inv_init None) (hinv_init None) (rinv_init None) HC1 _ _ _ Hg) as (Hef & _). cbn [app] in Hef.
                exists t, t, d. split; [apply in_or_app; left; apply HL1; exact Hlf|].
                split; [rewrite cproj_app, events_app; apply in_or_app; left; exact Hef|auto].
        * intros k i Hp. rewrite Hsv in Hp. destruct (IP _ _ Hp) as (svc & meth & req & A & B).
          exists svc, meth, req. split; [apply sev_mono; exact A|apply origin_mono; exact B].
        * intros e He. rewrite Hs2c in He. destruct (IS _ He) as (i & r & -> & Hr). exists i, r. split; [reflexivity|].
          destruct r as [m|e'].
          -- destruct Hr as (k & svc & meth & req & A & B & C). exists k, svc, meth, req.
             split; [apply in_or_app; auto|]. split; [apply sev_mono; exact B|apply origin_mono; exact C].
          -- destruct Hr as (svc & meth & req & A & B). exists svc, meth, req. split; [apply origin_mono; exact A|exact B].
        * intros l st ev' tg sn Hin Hcl Hrun. apply in_app_or in Hin. destruct Hin as [Hin|[E|[]]].
          -- apply served_mono. eapply IR; eauto.
          -- inversion E; subst. cbn in Hcl. inversion Hcl; subst. cbn in Hrun. exfalso. eapply Hnorun; eauto.
      + (* ---- a REQUEST frame reaches the server *)
        destruct (step_req _ _ _ Hs) as (e & q & r & ev & Hq & Har & Hst & -> & Hcl & Hc2s & Hs2c).
        destruct (IC e ltac:(rewrite Hq; left; reflexivity)) as (i & svc & meth & req & -> & Ho).
        destruct (Horg _ _ _ _ Ho) as (Hi & W1 & W2 & W3).
        rewrite (request_arrives wire_of content_of user_roundtrip i svc meth req Hi W1 W2 W3) in Har. inversion Har; subst r. clear Har.
        pose proof (exec_services _ _ _ _ HS1) as Hsvc. cbn in Hsvc.
        pose proof (step_request _ _ _ _ Hst) as Hcase. rewrite Hsvc in Hcase. cbn [rq_id rq_svc rq_meth] in Hcase.
        assert (forall j, inflight y1 j -> inflight y j) as Hfl.
        { intros j [(e & He & Hf)|[(k & Hk)|(e & He & Hf)]].
          - rewrite Hq in He. destruct He as [<-|He].
            + cbn in Hf. inversion Hf; subst j.
              destruct Hcase as [(e' & _ & E & ->)|(p & _ & E & ->)].
              * right. right. rewrite Hs2c. eexists. split; [apply in_or_app; right; left; reflexivity|reflexivity].
              * right. left. rewrite E. cbn [pending nlookup]. exists (next_tok (sv y1)). rewrite Nat.eqb_refl. reflexivity.
            + left. exists e. rewrite Hc2s. auto.
          - right. left. destruct Hcase as [(e' & _ & E & _)|(p & _ & E & _)]; rewrite E; [eauto|].
            exists k. cbn [pending nlookup]. destruct (Nat.eqb k (next_tok (sv y1))) eqn:Ek; [|exact Hk].
            apply Nat.eqb_eq in Ek. subst k. exfalso.
            assert (pinv (sv y1)) as Hpi by (eapply pinv_exec; [|exact HS1]; intros k0 i0 E0; discriminate).
            apply Hpi in Hk. lia.
          - right. right. exists e. rewrite Hs2c. split; [apply in_or_app; auto|exact Hf]. }
        constructor.
        * intros j c Hl. rewrite Hcl in Hl |- *. destruct (IF _ _ Hl) as [Ht|Hf]; [left; exact Ht|right; apply Hfl; exact Hf].
        * intros e He. rewrite Hc2s in He. destruct (IC e ltac:(rewrite Hq; right; exact He)) as (j & s1 & m1 & r1 & -> & Ho1).
          exists j, s1, m1, r1. split; [reflexivity|apply origin_mono; exact Ho1].
        * intros k j Hp. destruct Hcase as [(e' & _ & E & Eev)|(p & Hres & E & Eev)]; rewrite E in Hp.
          -- destruct (IP _ _ Hp) as (s1 & m1 & r1 & A & B). exists s1, m1, r1. split; [apply sev_mono; exact A|apply origin_mono; exact B].
          -- cbn [pending nlookup] in Hp. destruct (Nat.eqb k (next_tok (sv y1))) eqn:Ek.
             ++ apply Nat.eqb_eq in Ek. subst k. inversion Hp; subst j.
                pose proof (resolve_cases svcs (mkReq i svc meth (Valid req))) as Hrc. rewrite Hres in Hrc.
                destruct Hrc as (m0 & ms & _ & _ & _ & Hparse). cbn in Hparse. inversion Hparse; subst p.
                exists svc, meth, req. split; [|apply origin_mono; exact Ho].
                rewrite sproj_app, sproj_one. apply in_events_last. subst ev. left. reflexivity.
             ++ destruct (IP _ _ Hp) as (s1 & m1 & r1 & A & B). exists s1, m1, r1. split; [apply sev_mono; exact A|apply origin_mono; exact B].
        * intros e He. rewrite Hs2c in He. apply in_app_or in He. destruct He as [He|He].
          -- destruct (IS _ He) as (j & r & -> & Hr). exists j, r. split; [reflexivity|].
             destruct r as [m|e'].
             ++ destruct Hr as (k & s1 & m1 & r1 & A & B & C). exists k, s1, m1, r1.
                split; [apply in_or_app; auto|]. split; [apply sev_mono; exact B|apply origin_mono; exact C].
             ++ destruct Hr as (s1 & m1 & r1 & A & B). exists s1, m1, r1. split; [apply origin_mono; exact A|exact B].
          -- destruct Hcase as [(e' & Hres & _ & ->)|(p & _ & _ & ->)]; cbn in He; [|destruct He].
             destruct He as [<-|[]]. exists i, (RError e'). split; [reflexivity|].
             exists svc, meth, req. split; [apply origin_mono; exact Ho|exact Hres].
        * intros l st ev' tg sn Hin Hcl' Hrun. apply in_app_or in Hin. destruct Hin as [Hin|[E|[]]].
          -- apply served_mono. eapply IR; eauto.
          -- inversion E; subst. cbn in Hcl'. discriminate.
      + (* ---- the service completes a deferred request *)
        destruct (step_sdone _ _ _ _ _ Hs) as (ev & Hst & -> & Hcl & Hc2s & Hs2c).
        pose proof (step_done _ _ _ _ _ Hst) as (i & Hpk & E & ->).
        assert (forall j, inflight y1 j -> inflight y j) as Hfl.
        { intros j [(e & He & Hf)|[(k' & Hk)|(e & He & Hf)]].
          - left. exists e. rewrite Hc2s. auto.
          - destruct (Nat.eq_dec k k') as [->|Hne].
            + rewrite Hpk in Hk. inversion Hk; subst j. right. right. rewrite Hs2c.
              eexists. split; [apply in_or_app; right; left; reflexivity|reflexivity].
            + right. left. exists k'. rewrite E. cbn [pending]. rewrite nlookup_nremove_other by exact Hne. exact Hk.
          - right. right. exists e. rewrite Hs2c. split; [apply in_or_app; auto|exact Hf]. }
        constructor.
        * intros j c Hl. rewrite Hcl in Hl |- *. destruct (IF _ _ Hl) as [Ht|Hf]; [left; exact Ht|right; apply Hfl; exact Hf].
        * intros e He. rewrite Hc2s in He. destruct (IC _ He) as (j & s1 & m1 & r1 & -> & Ho1).
          exists j, s1, m1, r1. split; [reflexivity|apply origin_mono; exact Ho1].
        * intros k' j Hp. rewrite E in Hp. cbn [pending] in Hp.
          destruct (Nat.eq_dec k k') as [->|Hne]; [rewrite nlookup_nremove_same in Hp; discriminate|].
          rewrite nlookup_nremove_other in Hp by exact Hne.
          destruct (IP _ _ Hp) as (s1 & m1 & r1 & A & B). exists s1, m1, r1. split; [apply sev_mono; exact A|apply origin_mono; exact B].
        * intros e He. rewrite Hs2c in He. apply in_app_or in He. destruct He as [He|He].
          -- destruct (IS _ He) as (j & r & -> & Hr). exists j, r. split; [reflexivity|].
             destruct r as [m'|e'].
             ++ destruct Hr as (k' & s1 & m1 & r1 & A & B & C). exists k', s1, m1, r1.
                split; [apply in_or_app; auto|]. split; [apply sev_mono; exact B|apply origin_mono; exact C].
             ++ destruct Hr as (s1 & m1 & r1 & A & B). exists s1, m1, r1. split; [apply origin_mono; exact A|exact B].
          -- cbn in He. destruct He as [<-|[]]. exists i, (RReply m). split; [reflexivity|].
             destruct (IP _ _ Hpk) as (s1 & m1 & r1 & A & B). exists k, s1, m1, r1.
             split; [apply in_or_app; right; left; reflexivity|]. split; [apply sev_mono; exact A|apply origin_mono; exact B].
        * intros l st ev' tg sn Hin Hcl' Hrun. apply in_app_or in Hin. destruct Hin as [Hin|[E'|[]]].
          -- apply served_mono. eapply IR; eauto.
          -- inversion E'; subst. cbn in Hcl'. discriminate.
      + (* ---- a RESPONSE frame reaches the client *)
        destruct (step_resp _ _ _ Hs) as (e & q & i & b & ev & Hq & Har & Hst & -> & Hsv & Hc2s & Hs2c).
        destruct (IS e ltac:(rewrite Hq; left; reflexivity)) as (i' & r & -> & Hr).
        assert (i' = i /\ b = match r with RReply m => mkBody (Some (Valid m)) None | RError e' => mkBody None (Some e') end) as [-> Hb].
        { destruct r as [m|e'].
          - destruct Hr as (k & s1 & m1 & r1 & A & _ & C). destruct (Horg _ _ _ _ C) as (Hi & _).
            pose proof (Hwf1 _ A) as W. cbn in W.
            rewrite (reply_arrives wire_of content_of user_roundtrip i' m Hi W) in Har. inversion Har; auto.
          - destruct Hr as (s1 & m1 & r1 & C & _). destruct (Horg _ _ _ _ C) as (Hi & _).
            rewrite (error_reply_arrives wire_of content_of i' e' Hi) in Har. inversion Har; auto. }
        pose proof (step_response _ _ _ _ _ Hst) as (_ & Hcase).
        constructor.
        * intros j c Hl.
          assert (lookup j (outs (cl y1)) = Some c /\ j <> i \/ (lookup i (outs (cl y1)) = None /\ lookup j (outs (cl y1)) = Some c)) as Hold.
          { destruct Hcase as [(d & Hld & E & _)|(Hn & E & _)]; rewrite E in Hl.
            - cbn [outs] in Hl. destruct (Z.eq_dec i j) as [->|Hne]; [rewrite lookup_remove_same in Hl; discriminate|].
              rewrite lookup_remove_other in Hl by exact Hne. left. split; [exact Hl|congruence].
            - right. auto. }
          assert (threads (cl y) = threads (cl y1)) as Hth by (destruct Hcase as [(d & _ & E & _)|(_ & E & _)]; rewrite E; reflexivity).
          rewrite Hth. unfold inflight. rewrite Hsv, Hc2s, Hs2c.
          assert (lookup j (outs (cl y1)) = Some c /\ j <> i) as [Hl1 Hji].
          { destruct Hold as [A|[A B]]; [exact A|]. split; [exact B|]. intros ->. congruence. }
          destruct (IF _ _ Hl1) as [Ht|[(e & He & Hf)|[Hp|(e & He & Hf)]]]; [left; exact Ht|right; left; eauto|right; right; left; exact Hp|].
          right. right. right. rewrite Hq in He. destruct He as [<-|He]; [cbn in Hf; inversion Hf; congruence|eauto].
        * intros e He. rewrite Hc2s in He. destruct (IC _ He) as (j & s1 & m1 & r1 & -> & Ho1).
          exists j, s1, m1, r1. split; [reflexivity|apply origin_mono; exact Ho1].
        * intros k j Hp. rewrite Hsv in Hp. destruct (IP _ _ Hp) as (s1 & m1 & r1 & A & B).
          exists s1, m1, r1. split; [apply sev_mono; exact A|apply origin_mono; exact B].
        * intros e He. rewrite Hs2c in He. destruct (IS e ltac:(rewrite Hq; right; exact He)) as (j & r' & -> & Hr'). exists j, r'. split; [reflexivity|].
          destruct r' as [m'|e'].
          -- destruct Hr' as (k' & s1 & m1 & r1 & A & B & C). exists k', s1, m1, r1.
             split; [apply in_or_app; auto|]. split; [apply sev_mono; exact B|apply origin_mono; exact C].
          -- destruct Hr' as (s1 & m1 & r1 & A & B). exists s1, m1, r1. split; [apply origin_mono; exact A|exact B].
        * intros l st ev' tg sn Hin Hcl' Hrun. apply in_app_or in Hin. destruct Hin as [Hin|[E'|[]]].
          -- apply served_mono. eapply IR; eauto.
          -- inversion E'; subst. cbn in Hcl'. inversion Hcl'; subst ev'. cbn [snd] in Hrun.
             (* the call that runs is the call whose request the server answered *)
             destruct (step_run _ _ _ _ _ _ Hst Hrun) as (i0 & b0 & d & El & Hld & -> & ->). inversion El; subst i0 b0.
             pose proof (exec_hinv [] _ _ _ _ (hinv_init None) HC1) as [HO _]. cbn [app] in HO. destruct (HO _ _ Hld) as [td Htd].
             pose proof (exec_linv [] _ _ _ _ (linv_init None) HC1) as [HLo _]. cbn [app] in HLo. destruct (HLo _ _ Hld) as [td' Hfd].
             destruct (exec_ids _ _ _ _ HC1) as (_ & _ & Hndi).
             assert (forall s1 m1 r1, origin ls tr1 i s1 m1 r1 -> s1 = c_svc d /\ m1 = c_meth d /\ r1 = c_req d) as Hsame.
             { intros s1 m1 r1 (t & t' & c & A & B & -> & -> & ->).
               pose proof (efetch_id_unique _ _ _ _ _ _ Hndi B Htd) as Htag.
               assert (c = d) as ->; [|auto]. eapply (fetch_tag_injective (map fst (cproj tr1))); [rewrite HT1; exact Hnd1|apply HL1; exact A|exact Hfd|exact Htag]. }
             exists td', td, d, i. split; [apply in_or_app; left; apply HL1; exact Hfd|]. split; [reflexivity|].
             split; [rewrite cproj_app, events_app; apply in_or_app; left; exact Htd|].
             destruct r as [m|e'].
             ++ destruct Hr as (k & s1 & m1 & r1 & A & B & C). destruct (Hsame _ _ _ C) as (-> & -> & ->).
                left. exists k, m. split; [reflexivity|]. split; [apply in_or_app; auto|apply sev_mono; exact B].
             ++ destruct Hr as (s1 & m1 & r1 & C & Hres). destruct (Hsame _ _ _ C) as (-> & -> & ->).
                right. exists e'. split; [reflexivity|exact Hres].
  Qed.
  (* ---------------------------------------------------------------- end to end *)
  Theorem end_to_end svcs ls y tr :
    sexec (sys_init svcs) ls = Some (y, tr) ->
    sys_wf ls -> NoDup (sfetch_tags ls) -> next_id (cl y) < 9223372036854775808 ->
    (* a closure that runs was given the service's reply for ITS call's request (or the error reply to it) ... *)
    (forall l st ev tg sn, In (l, st) tr -> ss_cl st = Some ev -> In (ERun tg sn) (snd ev) -> served svcs ls tr tg sn) /\
    (* ... no closure runs twice, whatever is still in flight ... *)
    (forall tg, (count_occ Nat.eq_dec (run_tags (events (cproj tr))) tg <= 1)%nat) /\
    (* ... and once nothing is in flight every call that was made has completed exactly once *)
    (quiescent y -> forall t c, In (SCall (LFetch t c)) ls ->
       count_occ Nat.eq_dec (run_tags (events (cproj tr))) (c_tag c) = (if c_done c then 1 else 0)%nat /\
       count_occ Nat.eq_dec (del_tags (events (cproj tr))) (c_tag c) = 1%nat).
  Proof.
    intros H Hwf Hnd Hid. pose proof (sinv_holds svcs ls y tr H Hwf Hnd Hid) as [IF IC IP IS IR].
    destruct (projections _ _ _ _ H) as [HC HS]. cbn [sys_init cl sv] in HC, HS.
    destruct (client_labels _ _ _ _ H) as (HT & HL & HD).
    split; [exact IR|]. split.
    - intros tg. eapply closure_at_most_once; [exact HC|]. rewrite HT. exact Hnd.
    - intros (Q1 & Q2 & Q3 & Q4) t c Hin.
      assert (forall i d, lookup i (outs (cl y)) = Some d -> False) as Hempty.
      { intros i d Hl. destruct (IF _ _ Hl) as [(u & c' & Hu)|[(e & He & _)|[(k & Hk)|(e & He & _)]]].
        - rewrite Q4 in Hu. discriminate.
        - rewrite Q1 in He. destruct He.
        - rewrite Q3 in Hk. discriminate.
        - rewrite Q2 in He. destruct He. }
      destruct (call_accounting None _ _ _ HC ltac:(rewrite HT; exact Hnd) t c (proj1 (HL t c) Hin)) as [[[i Hl]|(u & i & Hu)]|Hc].
      + exfalso. eapply Hempty; eauto.
      + rewrite Q4 in Hu. discriminate.
      + exact Hc.
  Qed.
End SysProofs.
