(* C07_Proofs: the add-vs-fire race (F-7) for both read orders. *)
From Coq Require Import List Bool.
From Muduo Require Import Gen_C07 C07_Model.
Import ListNotations.

(* repaired order: invariant over all schedules *)
Definition okb (s : rs) : bool :=
  negb (uaf s) &&
  match fpc s with
  | P0 => match obj s with NotAlloc => true | _ => false end && negb (queued s) && negb (inserted s)
  | P1 => match obj s with Live => true | _ => false end && negb (queued s) && negb (inserted s)
  | P2 => got s && negb (queued s) && negb (inserted s)
  | P3 => got s
  end.
Lemma okb_fstep : forall s, okb s = true -> okb (fstep false s) = true.
Proof. intros [[] [] [] [] [] []]; cbn; intros H; try discriminate; reflexivity. Qed.
Lemma okb_lstep : forall s, okb s = true -> okb (lstep s) = true.
Proof. intros [[] [] [] [] [] []]; cbn; intros H; try discriminate; reflexivity. Qed.
Lemma okb_exec : forall sched s, okb s = true -> okb (exec false s sched) = true.
Proof.
  induction sched as [|[] r IH]; intros s H; cbn [exec]; auto.
  - apply IH. apply okb_fstep; auto.
  - apply IH. apply okb_lstep; auto.
Qed.
Lemma fixed_order_valid : forall sched,
  uaf (exec false rs0 sched) = false /\ (fpc (exec false rs0 sched) = P3 -> got (exec false rs0 sched) = true).
Proof.
  intros sched. pose proof (okb_exec sched rs0 eq_refl) as H.
  destruct (exec false rs0 sched) as [[] [] [] [] [] []]; cbn in *; try discriminate; split; auto; discriminate.
Qed.

(* pinned order: witness schedule alloc ; hand-off ; loop runs the functor ; loop expires+deletes ; read *)
Definition witness : list bool := [true; true; false; false; true].
Lemma pinned_order_uaf : uaf (exec true rs0 witness) = true.
Proof. vm_compute. reflexivity. Qed.

(* pinned order, partial: no use-after-free => the id is the Timer's own *)
Definition okb2 (s : rs) : bool :=
  match fpc s with
  | P0 => match obj s with NotAlloc => true | _ => false end
  | P1 | P2 => match obj s with NotAlloc => false | _ => true end
  | P3 => uaf s || got s
  end.
Lemma okb2_fstep : forall s, okb2 s = true -> okb2 (fstep true s) = true.
Proof. intros [[] [] [] [] [] []]; cbn; intros H; try discriminate; reflexivity. Qed.
Lemma okb2_lstep : forall s, okb2 s = true -> okb2 (lstep s) = true.
Proof. intros [[] [] [] [] [] []]; cbn; intros H; try discriminate; reflexivity. Qed.
Lemma okb2_exec : forall sched s, okb2 s = true -> okb2 (exec true s sched) = true.
Proof.
  induction sched as [|[] r IH]; intros s H; cbn [exec]; auto.
  - apply IH. apply okb2_fstep; auto.
  - apply IH. apply okb2_lstep; auto.
Qed.
Lemma pinned_alive_valid : forall sched, fpc (exec true rs0 sched) = P3 ->
  uaf (exec true rs0 sched) = false -> got (exec true rs0 sched) = true.
Proof.
  intros sched. pose proof (okb2_exec sched rs0 eq_refl) as H.
  destruct (exec true rs0 sched) as [[] [] [] [] [] []]; cbn in *; intros; try discriminate; auto.
Qed.
(* pinned order on the loop thread itself: runInLoop runs the functor inline and no expiry can be
   dispatched before addTimer returns; any number of loop steps afterwards *)
Lemma pinned_loop_thread_valid : forall n,
  let s := exec true rs0 ([true; true; false; true] ++ repeat false n) in
  uaf s = false /\ got s = true /\ fpc s = P3.
Proof.
  intros n. cbn [app exec]. change (fstep true (lstep (fstep true (fstep true rs0)))) with (mkR P3 Live true true false true).
  assert (G : forall m s, uaf s = false -> got s = true -> fpc s = P3 ->
            uaf (exec true s (repeat false m)) = false /\ got (exec true s (repeat false m)) = true /\ fpc (exec true s (repeat false m)) = P3).
  { induction m as [|m IH]; intros s U Gt F; cbn [repeat exec]; auto.
    apply IH; destruct s as [[] [] [] [] [] []]; cbn in *; auto; discriminate. }
  apply G; reflexivity.
Qed.

(* what holds of the order the current sources have *)
Definition current_verdict (after : bool) : Prop :=
  if after then exists sched, uaf (exec after rs0 sched) = true
  else forall sched, uaf (exec after rs0 sched) = false /\ (fpc (exec after rs0 sched) = P3 -> got (exec after rs0 sched) = true).
Lemma current_tree : current_verdict current_order.
Proof.
  unfold current_order, current_verdict. cbv [TimerQueue_addTimer_reads_seq_after_handoff].
  first [ exact (ex_intro _ witness pinned_order_uaf) | exact fixed_order_valid ].
Qed.
