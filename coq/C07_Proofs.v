(* C07_Proofs: the add-vs-fire race (F-7) for both read orders. *)
From Coq Require Import List Bool.
From Muduo Require Import Gen_C07 C07_Model.
Import ListNotations.

(* repaired order: invariant over all schedules *)
Definition okb (s : rs) : bool :=
  negb (uaf s) &&
  match fpc s with
  | P0 => match obj s with NotAlloc => true | _ => false end && negb (queued s) && negb (inserted s)
  | P1 => match obj s with Live => true | _ => false end && negb (queued s) && negb (inserted s)
  | P2 => got s && negb (queued s) && negb (inserted s)
  | P3 => got s
  end.
Lemma okb_fstep : forall s, okb s = true -> okb (fstep false s) = true.
Proof. intros [[] [] [] [] [] []]; cbn; intros H; try discriminate; reflexivity. Qed.
Lemma okb_lstep : forall s, okb s = true -> okb (lstep s) = true.
Proof. intros [[] [] [] [] [] []]; cbn; intros H; try discriminate; reflexivity. Qed.
Lemma okb_exec : forall sched s, okb s = true -> okb (exec false s sched) = true.
Proof.
  induction sched as [|[] r IH]; intros s H; cbn [exec]; auto.
  - apply IH. apply okb_fstep; auto.
  - apply IH. apply okb_lstep; auto.
Qed.
Lemma fixed_order_valid : forall sched,
  uaf (exec false rs0 sched) = false /\ (fpc (exec false rs0 sched) = P3 -> got (exec false rs0 sched) = true).
Proof.
  intros sched. pose proof (okb_exec sched rs0 eq_refl) as H.
  destruct (exec false rs0 sched) as [[] [] [] [] [] []]; cbn in *; try discriminate; split; auto; discriminate.
Qed.

(* pinned order: witness schedule alloc ; hand-off ; loop runs the functor ; loop expires+deletes ; read *)
Definition witness : list bool := [true; true; false; false; true].
Lemma pinned_order_uaf : uaf (exec true rs0 witness) = true.
Proof. vm_compute. reflexivity. Qed.

(* pinned order, partial: no use-after-free => the id is the Timer's own *)
Definition okb2 (s : rs) : bool :=
  match fpc s with
  | P0 => match obj s with NotAlloc => true | _ => false end
  | P1 | P2 => match obj s with NotAlloc => false | _ => true end
  | P3 => uaf s || got s
  end.
Lemma okb2_fstep : forall s, okb2 s = true -> okb2 (fstep true s) = true.
Proof. intros [[] [] [] [] [] []]; cbn; intros H; try discriminate; reflexivity. Qed.
Lemma okb2_lstep : forall s, okb2 s = true -> okb2 (lstep s) = true.
Proof. intros [[] [] [] [] [] []]; cbn; intros H; try discriminate; reflexivity. Qed.
Lemma okb2_exec : forall sched s, okb2 s = true -> okb2 (exec true s sched) = true.
Proof.
  induction sched as [|[] r IH]; intros s H; cbn [exec]; auto.
  - apply IH. apply okb2_fstep; auto.
  - apply IH. apply okb2_lstep; auto.
Qed.
Lemma pinned_alive_valid : forall sched, fpc (exec true rs0 sched) = P3 ->
  uaf (exec true rs0 sched) = false -> got (exec true rs0 sched) = true.
Proof.
  intros sched. pose proof (okb2_exec sched rs0 eq_refl) as H.
  destruct (exec true rs0 sched) as [[] [] [] [] [] []]; cbn in *; intros; try discriminate; auto.
Qed.
(* pinned order on the loop thread itself: runInLoop runs the functor inline and no expiry can be
   dispatched before addTimer returns; any number of loop steps afterwards *)
Lemma pinned_loop_thread_valid : forall n,
  let s := exec true rs0 ([true; true; false; true] ++ repeat false n) in
  uaf s = false /\ got s = true /\ fpc s = P3.
Proof.
  intros n. cbn [app exec]. change (fstep true (lstep (fstep true (fstep true rs0)))) with (mkR P3 Live true true false true).
  assert (G : forall m s, uaf s = false -> got s = true -> fpc s = P3 ->
            uaf (exec true s (repeat false m)) = false /\ got (exec true s (repeat false m)) = true /\ fpc (exec true s (repeat false m)) = P3).
  { induction m as [|m IH]; intros s U Gt F; cbn [repeat exec]; auto.
    apply IH; destruct s as [[] [] [] [] [] []]; cbn in *; auto; discriminate. }
  apply G; reflexivity.
Qed.

(* what holds of the order the current sources have *)
Definition current_verdict (after : bool) : Prop :=
  if after then exists sched, uaf (exec after rs0 sched) = true
  else forall sched, uaf (exec after rs0 sched) = false /\ (fpc (exec after rs0 sched) = P3 -> got (exec after rs0 sched) = true).
Lemma current_tree : current_verdict current_order.
Proof.
  unfold current_order, current_verdict. cbv [TimerQueue_addTimer_reads_seq_after_handoff].
  first [ exact (ex_intro _ witness pinned_order_uaf) | exact fixed_order_valid ].
Qed.

(* ================================================================== same-batch cancel (TimerModel) *)
From Coq Require Import ZArith Lia Sorted Arith Permutation.
From Muduo Require Import Gen_Consts Gen_C06 C06_Model C06_Proofs C06_Hist C06_Order C06_Marshal.
Local Open Scope Z_scope.

(* cancelingTimers_ only grows while the callbacks of a batch run *)
Lemma cb_step_canceling : forall st c st' ev, cb_step st c = Ok (st', ev) ->
  forall k, In k (canceling st) -> In k (canceling st').
Proof.
  intros st c st' ev H k Hk. destruct c as [d|w iv a|a s|w iv a|a s|w iv a|a|cs]; cbn [cb_step] in H.
  - destruct (d <? 0); inversion H; subst. exact Hk.
  - destruct (alloc st w iv a) as [[st1 s]| |] eqn:EA; cbn [bind] in H; try discriminate.
    destruct (add_in_loop st1 a) as [[st2 e]| |] eqn:EL; cbn [bind] in H; try discriminate.
    inversion H; subst. destruct (alloc_shape _ _ _ _ _ _ EA) as (_ & _ & _ & _ & _ & _ & Ec & _).
    destruct (add_in_loop_shape _ _ _ _ EL) as (_ & _ & _ & _ & Ec2 & _). rewrite Ec2, Ec. exact Hk.
  - destruct (cancel_in_loop st a s) as [st1| |] eqn:EC; cbn [bind] in H; try discriminate. inversion H; subst.
    unfold cancel_in_loop in EC. destruct (assert (sizes_agree st)); cbn [bind] in EC; try discriminate.
    destruct (kmem (a, s) (active st)).
    + destruct (deref st a) as [o| |]; cbn [bind] in EC; try discriminate.
      destruct (kerase _ (timers st)); try discriminate. destruct (kerase _ (active st)); try discriminate.
      inversion EC; subst. exact Hk.
    + destruct (calling st); inversion EC; subst; [|exact Hk]. cbn. apply kadd_in. auto.
  - destruct (alloc st w iv a) as [[st1 s]| |] eqn:EA; cbn [bind] in H; try discriminate. inversion H; subst.
    destruct (alloc_shape _ _ _ _ _ _ EA) as (_ & _ & _ & _ & _ & _ & Ec & _). cbn. rewrite Ec. exact Hk.
  - inversion H; subst. exact Hk.
  - destruct (alloc st w iv a) as [[st1 s]| |] eqn:EA; cbn [bind] in H; try discriminate. inversion H; subst.
    destruct (alloc_shape _ _ _ _ _ _ EA) as (_ & _ & _ & _ & _ & _ & Ec & _). cbn. rewrite Ec. exact Hk.
  - destruct (zmem a (inflight st)); inversion H; subst. exact Hk.
  - inversion H; subst. exact Hk.
Qed.
Lemma cb_run_canceling : forall cs st st' ev, cb_run st cs = Ok (st', ev) ->
  forall k, In k (canceling st) -> In k (canceling st').
Proof.
  induction cs as [|c r IH]; intros st st' ev H k Hk; cbn [cb_run] in H.
  - inversion H; subst; auto.
  - destruct (cb_step st c) as [[st1 e1]| |] eqn:E1; try discriminate.
    + destruct (cb_run st1 r) as [[st2 e2]| |] eqn:E2; cbn [bind] in H; try discriminate.
      inversion H; subst. eapply IH; eauto. eapply cb_step_canceling; eauto.
    + destruct (cb_run st r) as [[st2 e2]| |] eqn:E2; cbn [bind] in H; try discriminate.
      inversion H; subst. eauto.
Qed.
Lemma run_cbs_canceling : forall ex st script now st' ev, run_cbs st ex script now = Ok (st', ev) ->
  forall k, In k (canceling st) -> In k (canceling st').
Proof.
  induction ex as [|[d b] ex IH]; intros st script now st' ev H k Hk; cbn [run_cbs] in H.
  - inversion H; subst; auto.
  - destruct (deref st b) as [ob| |]; cbn [bind] in H; try discriminate.
    destruct (cb_run st (hd [] script)) as [[st1 e1]| |] eqn:E1; cbn [bind] in H; try discriminate.
    destruct (run_cbs st1 ex (tl script) now) as [[st2 e2]| |] eqn:E2; cbn [bind] in H; try discriminate.
    inversion H; subst. eapply IH; eauto. eapply cb_run_canceling; eauto.
Qed.

(* a cancel of an expired (detached) timer issued by a callback of the batch is recorded *)
Lemma cancel_detached : forall st a s, Inv st -> det st a -> calling st = true ->
  cb_step st (CCancel a s) = Ok (set_canceling st (kadd (a, s) (canceling st)), []).
Proof.
  intros st a s I Db C. cbn [cb_step]. unfold cancel_in_loop. rewrite (sizes_agree_inv _ I). cbn [assert bind].
  destruct (kmem (a, s) (active st)) eqn:KM; [apply kmem_iff in KM; exfalso; exact (det_not_active st a s I Db KM)|].
  rewrite C. reflexivity.
Qed.
Lemma cb_run_cancel_marks : forall cs st X st' ev a s, Inv st -> DInv st (X ++ detq st) -> In a X ->
  calling st = true -> In (CCancel a s) cs -> cb_run st cs = Ok (st', ev) -> In (a, s) (canceling st').
Proof.
  induction cs as [|c r IH]; intros st X st' ev a s I D Ha C Hc H; [contradiction|]. cbn [cb_run] in H.
  assert (Db : det st a) by (apply (proj2 D); apply in_or_app; auto).
  pose proof (cb_step_good st c X I D) as G1.
  destruct Hc as [->|Hc].
  - rewrite (cancel_detached st a s I Db C) in H.
    destruct (cb_run _ r) as [[st2 e2]| |] eqn:E2; cbn [bind] in H; try discriminate. inversion H; subst.
    eapply cb_run_canceling; [exact E2|]. cbn. apply kadd_in. auto.
  - destruct (cb_step st c) as [[st1 e1]| |] eqn:E1; try discriminate.
    + destruct (cb_run st1 r) as [[st2 e2]| |] eqn:E2; cbn [bind] in H; try discriminate.
      inversion H; subst. destruct G1 as (I1 & D1 & _ & C1). cbn [fst] in *.
      eapply IH; eauto; congruence.
    + destruct (cb_run st r) as [[st2 e2]| |] eqn:E2; cbn [bind] in H; try discriminate.
      inversion H; subst. eapply IH; eauto.
Qed.

Lemma run_cbs_cancel_marks : forall ex st script now X st' ev a s i g,
  Inv st -> DInv st (X ++ detq st) -> incl (map snd ex) X -> In a X -> calling st = true ->
  nth_error script i = Some g -> (i < length ex)%nat -> In (CCancel a s) g ->
  run_cbs st ex script now = Ok (st', ev) -> In (a, s) (canceling st').
Proof.
  induction ex as [|[d b] ex IH]; intros st script now X st' ev a s i g I D Sub Ha C Hn Hi Hc H; cbn [length] in Hi; [lia|].
  cbn [run_cbs] in H.
  destruct (deref st b) as [ob| |]; cbn [bind] in H; try discriminate.
  destruct (cb_run st (hd [] script)) as [[st1 e1]| |] eqn:E1; cbn [bind] in H; try discriminate.
  destruct (run_cbs st1 ex (tl script) now) as [[st2 e2]| |] eqn:E2; cbn [bind] in H; try discriminate.
  inversion H; subst st2 ev; clear H.
  pose proof (cb_run_good (hd [] script) st X I D) as G1. rewrite E1 in G1. destruct G1 as (I1 & D1 & _ & C1). cbn [fst] in *.
  destruct i as [|j].
  - destruct script as [|g0 rest]; cbn [nth_error] in Hn; [discriminate|]. inversion Hn; subst g0. cbn [hd] in E1.
    eapply run_cbs_canceling; [exact E2|]. exact (cb_run_cancel_marks g st X st1 e1 a s I D Ha C Hc E1).
  - destruct script as [|g0 rest]; cbn [nth_error] in Hn; [discriminate|]. cbn [tl] in E2.
    assert (Sub' : incl (map snd ex) X) by (intros x Hx; apply Sub; right; auto).
    assert (C1' : calling st1 = true) by congruence.
    assert (Hj : (j < length ex)%nat) by lia.
    exact (IH st1 rest now X st' e2 a s j g I1 D1 Sub' Ha C1' Hn Hj Hc E2).
Qed.

(* TimerQueue::reset deletes an expired timer whose id is in cancelingTimers_ (repeater or not) *)
Lemma reset_loop_cancelled : forall ex st now P st' a o, Inv st -> DInv st (map snd ex ++ P) -> (ex <> [] -> 0 < now) ->
  In a (map snd ex) -> hget a (heap st) = Some o -> In (a, o_seq o) (canceling st) ->
  reset_loop st ex now = Ok st' -> gone st' (o_seq o).
Proof.
  induction ex as [|[d b] ex IH]; intros st now P st' a o I D Pn Ha G Hc H; [contradiction|]. cbn [reset_loop] in H.
  cbn [map snd app] in D. destruct D as [N Dt]. inversion N as [|x l NIb N']; subst.
  destruct (Dt b (or_introl eq_refl)) as [[ob [Gb Po]] NDb].
  assert (Pnow : 0 < now) by (apply Pn; discriminate).
  unfold deref in H. rewrite Gb in H. cbn [bind] in H.
  destruct (Z.eq_dec b a) as [->|Nab].
  - rewrite G in Gb. inversion Gb; subst ob. apply kmem_iff in Hc. rewrite Hc, andb_false_r in H.
    eapply reset_loop_gone; [exact H|]. unfold gone, gonec. cbn. split; [apply (i_hp _ _ _ _ I) in G; lia|].
    intros c p Gc Eq. destruct (Z.eq_dec a c) as [->|Nc]; [rewrite hget_hdel_same in Gc; discriminate|].
    rewrite hget_hdel_other in Gc by auto. apply Nc. eapply (i_sq _ _ _ _ I); eauto.
  - cbn [map snd In] in Ha. destruct Ha as [Ha|Ha]; [congruence|].
    destruct (o_repeat ob && negb (kmem (b, o_seq ob) (canceling st))) eqn:Br.
    + apply andb_true_iff in Br as [Rp _]. unfold o_repeat in Rp. apply Z.leb_le in Rp.
      set (o' := mkT (o_seq ob) (now + o_iv ob) (o_iv ob)) in *.
      set (st1 := set_heap st (hput b o' (heap st))) in *.
      assert (I1 : Inv st1) by (apply inv_hput_det; auto).
      assert (G1 : hget b (heap st1) = Some o') by (apply hget_hput_same).
      assert (P1 : 0 < o_exp o') by (cbn; lia).
      destruct (insert_shape st1 b o' I1 G1 NDb P1) as (t' & a' & E & I2 & M & _).
      rewrite E in H. cbn [bind] in H.
      assert (D2 : DInv (set_sets st1 t' a') (map snd ex ++ P)).
      { split; auto. intros c Hc'. assert (b <> c) by (intros ->; auto).
        destruct (Dt c (or_intror Hc')) as [[oc [Gc Pc]] NDc]. split.
        - exists oc. unfold st1. cbn [heap set_sets set_heap]. rewrite hget_hput_other; auto.
        - intros d' Hd'. cbn in Hd'. apply M in Hd' as [Eq|Hd']; [inversion Eq; congruence| eapply NDc; eauto]. }
      eapply (IH (set_sets st1 t' a') now P st' a o I2 D2 (fun _ => Pnow) Ha); [| |exact H].
      * unfold st1. cbn [heap set_sets set_heap]. rewrite hget_hput_other; auto.
      * exact Hc.
    + set (st1 := set_heap st (hdel b (heap st))) in *.
      assert (I1 : Inv st1) by (apply inv_hdel_det; auto).
      assert (D1 : DInv st1 (map snd ex ++ P)).
      { split; auto. intros c Hc'. assert (b <> c) by (intros ->; auto).
        cbn. apply detc_hdel with (ts := timers st); auto. apply Dt. right; auto. }
      eapply (IH st1 now P st' a o I1 D1 (fun _ => Pnow) Ha); [| |exact H].
      * unfold st1. cbn [heap set_heap]. rewrite hget_hdel_other; auto.
      * exact Hc.
Qed.

(* in one expiry every sequence number runs at most once *)
Lemma filter_none : forall (l : list key) (f : key -> Z) (now s : Z), (forall k, In k l -> f k <> s) ->
  filter (fun r : Z * Z * Z => (fst (fst r) =? s)%Z) (map (fun k => (f k, fst k, now)) l) = [].
Proof.
  induction l as [|k l IH]; intros f now s H; cbn [map filter fst]; auto.
  destruct (Z.eqb_spec (f k) s); [exfalso; eapply H; [left|]; eauto|]. apply IH. intros k' Hk'. apply H. right; auto.
Qed.
Lemma count_map_le1 : forall (l : list key) (f : key -> Z) (now s : Z), NoDup l ->
  (forall k k', In k l -> In k' l -> f k = s -> f k' = s -> k = k') ->
  (length (filter (fun r : Z * Z * Z => (fst (fst r) =? s)%Z) (map (fun k => (f k, fst k, now)) l)) <= 1)%nat.
Proof.
  induction l as [|k l IH]; intros f now s N U; cbn [map filter fst length]; [lia|].
  apply NoDup_cons_iff in N as [NI N]. destruct (Z.eqb_spec (f k) s) as [E|NE].
  - rewrite filter_none; [cbn; lia|]. intros k' Hk' E'. assert (k = k') by (apply U; auto; [left|right]; auto).
    subst. contradiction.
  - apply IH; auto. intros k1 k2 H1 H2. apply U; right; auto.
Qed.
Lemma fire_once : forall c ops st evs script st' ev s, run (init c) ops = Ok (st, evs) ->
  fire st script = Ok (st', ev) -> (length (runs_of s ev) <= 1)%nat.
Proof.
  intros c ops st evs script st' ev s H HF.
  destruct (fire_runs_due _ _ _ _ _ _ _ H HF) as (RL & Sd & DI & _). destruct (reach_top _ _ _ _ H) as (I & _).
  assert (E : Z.of_nat (length (runs_of s ev)) = nruns s ev) by (symmetry; apply nruns_filter).
  rewrite nruns_rlog, RL in E. apply Nat2Z.inj in E. rewrite E.
  apply count_map_le1; [apply Srt_NoDup; auto|].
  intros [d1 a1] [d2 a2] H1 H2 E1 E2. cbn [snd] in *. apply DI in H1 as [H1 _]. apply DI in H2 as [H2 _].
  destruct (i_ta _ _ _ _ I _ _ H1) as (o1 & G1 & X1 & _). destruct (i_ta _ _ _ _ I _ _ H2) as (o2 & G2 & X2 & _).
  unfold seqof in E1, E2. rewrite G1 in E1. rewrite G2 in E2.
  assert (a1 = a2) by (eapply (i_sq _ _ _ _ I); eauto; congruence). subst a2.
  rewrite G1 in G2. inversion G2; subst o2. congruence.
Qed.

(* Same-batch cancel.  A timer (repeater or one-shot) that is due in an expiry and whose id is
   cancelled by ANY callback of that expiry (its own: self-cancel; an earlier or a later sibling) runs
   exactly the one invocation that was already due, is deleted by TimerQueue::reset instead of being
   re-inserted, and is dead afterwards. *)
Lemma same_batch_cancel : forall c ops st evs script st' ev d a o i g,
  run (init c) ops = Ok (st, evs) -> fire st script = Ok (st', ev) ->
  In (d, a) (timers st) -> d <= clk st -> hget a (heap st) = Some o ->
  nth_error script i = Some g -> (i < length (due st))%nat -> In (CCancel a (o_seq o)) g ->
  gone st' (o_seq o) /\ ~ In (a, o_seq o) (active st') /\
  (exists t, In (ERun (o_seq o) d (clk st) t) ev) /\ length (runs_of (o_seq o) ev) = 1%nat.
Proof.
  intros c ops st evs script st' ev d a o i g H HF Hi Le G Hn Hlt Hc.
  pose proof (reach_top _ _ _ _ H) as T. pose proof T as (I & _).
  destruct (fire_decomp _ _ _ _ T HF) as (ex & rest & act & st4 & evs' & st6 & KS & Eapp & Lex & I3 & D3 & ER & I4 & D4 & C4 & EL & I6 & Eh & Et & Ea & En & _).
  assert (Edue : due st = ex) by (unfold due; rewrite KS; reflexivity).
  assert (Hex : In (d, a) ex) by (rewrite <- Edue; apply due_iff; auto).
  assert (HaX : In a (map snd ex)) by (apply in_map_iff; exists (d, a); auto).
  destruct (consume_same st) as (Eh0 & _ & _ & En0 & _).
  set (st3 := set_canceling (set_calling (set_sets (consume st) rest act) true) []) in *.
  assert (Mk : In (a, o_seq o) (canceling st4)).
  { eapply (run_cbs_cancel_marks ex st3 script (clk st) (map snd ex) st4 evs' a (o_seq o) i g); eauto.
    - apply incl_refl.
    - rewrite <- Edue. exact Hlt. }
  assert (G4 : hget a (heap st4) = Some o).
  { assert (F : hget a (heap st4) = hget a (heap st3)).
    { assert (H3 : HI noR st3 evs) by (eapply HI_same; [| |exact (reach_hist _ _ _ _ H)]; unfold st3; cbn; auto).
      assert (NDex : NoDup (map snd ex)) by (destruct D3 as [N _]; apply NoDup_app_l in N; auto).
      assert (Hex0 : forall d0 a0, In (d0, a0) ex -> exists o0, hget a0 (heap st3) = Some o0 /\ o_exp o0 = d0).
      { intros d0 a0 Hi0. destruct (i_ta _ _ _ _ I d0 a0) as (o0 & G0 & E0 & _); [rewrite Eapp; apply in_or_app; auto|].
        exists o0. split; auto. cbn. rewrite Eh0. auto. }
      destruct (run_cbs_hist ex st3 script (clk st) (map snd ex) noR evs st4 evs' I3 D3 (incl_refl _)
                  (fun b (F : noR b) => match F with end) NDex (fun b _ (F : noR b) => F) Hex0 H3 ER) as (_ & _ & Fr).
      apply Fr; auto. }
    rewrite F. cbn. rewrite Eh0. auto. }
  assert (Pn : ex <> [] -> 0 < clk st).
  { destruct ex as [|[d1 a1] ex']; [congruence|]. intros _.
    assert (0 < d1) by (eapply (i_pos _ _ _ _ I); rewrite Eapp; left; eauto).
    pose proof (Lex d1 a1 (or_introl eq_refl)). lia. }
  assert (G6 : gone st6 (o_seq o)).
  { eapply (reset_loop_cancelled ex (set_calling st4 false) (clk st) (detq st4) st6 a o); eauto. }
  assert (Gn : gone st' (o_seq o)) by (unfold gone in *; rewrite Eh, En; exact G6).
  pose proof (fire_good st script T) as GT. rewrite HF in GT. cbn [good fst] in GT. destruct GT as (I' & _).
  destruct (none_lost _ _ _ _ _ _ _ H HF _ _ Hi Le) as (o2 & t & G2 & HR). rewrite G in G2. inversion G2; subst o2.
  splits; auto.
  - intros HA. destruct (i_at _ _ _ _ I' _ _ HA) as (o' & G' & Es & _). destruct Gn as [_ Gn]. eapply Gn; eauto.
  - eauto.
  - pose proof (fire_once _ _ _ _ _ _ _ (o_seq o) H HF). pose proof (nruns_in _ _ _ _ _ HR) as Ge. rewrite nruns_filter in Ge. lia.
Qed.

(* a cancel issued from a foreign thread (queued as a functor) takes effect when doPendingFunctors runs it:
   if the id is registered when the batch of functors starts, it is dead when the batch ends *)
Lemma run_functors_cancels : forall fs st st' ev a o, Inv st -> DInv st (padds fs ++ detq st) ->
  hget a (heap st) = Some o -> In (o_exp o, a) (timers st) -> In (PCancel a (o_seq o)) fs ->
  run_functors st fs = Ok (st', ev) -> gone st' (o_seq o).
Proof.
  induction fs as [|[b|b s|cs] r IH]; intros st st' ev a o I D G Hi Hc H; [contradiction| | |]; cbn [run_functors] in H.
  - destruct Hc as [Hc|Hc]; [discriminate|].
    cbn [padds app] in D. destruct D as [N Dt]. inversion N as [|x l NIb N']; subst.
    destruct (Dt b (or_introl eq_refl)) as [[ob [Gb Pob]] NDb].
    assert (D' : DInv st (padds r ++ detq st)) by (split; auto; intros c Hc'; apply Dt; right; auto).
    pose proof (add_in_loop_good st b ob _ I Gb NDb Pob D' NIb) as GA.
    destruct (add_in_loop st b) as [[st1 e1]| |] eqn:E1; cbn [bind good] in *; try discriminate.
    destruct (run_functors st1 r) as [[st2 e2]| |] eqn:E2; cbn [bind] in H; try discriminate.
    inversion H; subst. destruct GA as (I1 & D1 & _ & F1 & Eh & _). cbn [fst] in *.
    rewrite <- (detq_frame _ _ F1) in D1.
    eapply (IH st1 st' e2 a o I1 D1); eauto; [rewrite Eh; auto | eapply add_in_loop_timers; eauto].
  - cbn [padds] in D. pose proof (cancel_good st b s _ I D) as GC.
    destruct (cancel_in_loop st b s) as [st1| |] eqn:E1; cbn [bind good] in *; try discriminate.
    destruct GC as (I1 & D1 & _ & F1). rewrite <- (detq_frame _ _ F1) in D1.
    assert (E1' : cb_step st (CCancel b s) = Ok (st1, [])) by (cbn [cb_step]; rewrite E1; reflexivity).
    destruct (cb_step_obj _ _ _ _ _ _ I G E1') as [[G' T']|[_ Gn]].
    + destruct Hc as [Hc|Hc].
      * (* this is the cancel of (a, seq): the id is in activeTimers_, so it is erased and deleted *)
        exfalso. inversion Hc; subst b s.
        destruct (i_ta _ _ _ _ I _ _ Hi) as (o2 & G2 & _ & HA). rewrite G in G2. inversion G2; subst o2.
        unfold cancel_in_loop in E1. rewrite (sizes_agree_inv _ I) in E1. cbn [assert bind] in E1.
        apply kmem_iff in HA. rewrite HA in E1. unfold deref in E1. rewrite G in E1. cbn [bind] in E1.
        destruct (kerase _ (timers st)); try discriminate. destruct (kerase _ (active st)); try discriminate.
        inversion E1; subst. cbn in G'. rewrite hget_hdel_same in G'. discriminate.
      * eapply (IH st1 st' ev a o I1 D1); eauto.
    + eapply run_functors_gone; eauto.
  - destruct Hc as [Hc|Hc]; [discriminate|].
    cbn [padds] in D. pose proof (cb_run_good cs st (padds r) I D) as GC.
    destruct (cb_run st cs) as [[st1 e1]| |] eqn:E1; cbn [bind good] in *; try discriminate.
    destruct (run_functors st1 r) as [[st2 e2]| |] eqn:E2; cbn [bind] in H; try discriminate.
    inversion H; subst. destruct GC as (I1 & D1 & _ & _). cbn [fst] in *.
    destruct (cb_run_reg _ _ _ _ _ _ _ _ I D G Hi E1) as [[G' Hi']|Gn].
    + eapply (IH st1 st' e2 a o I1 D1); eauto.
    + eapply run_functors_gone; eauto.
Qed.

Lemma foreign_cancel_stops : forall c ops st evs a o st' ev, run (init c) ops = Ok (st, evs) ->
  hget a (heap st) = Some o -> In (o_exp o, a) (timers st) -> In (PCancel a (o_seq o)) (pending st) ->
  step st RunPending = Ok (st', ev) -> gone st' (o_seq o) /\ (forall dl now t, ~ In (ERun (o_seq o) dl now t) ev).
Proof.
  intros c ops st evs a o st' ev H G Hi Hc HS. destruct (reach_top _ _ _ _ H) as (I & D & _). cbn [step] in HS. split.
  - exact (run_functors_cancels (pending st) (set_pending st []) st' ev a o I D G Hi Hc HS).
  - destruct (run_functors_shape _ _ _ _ HS) as (_ & NR & _). intros dl now t. eapply rlog_nil_norun; eauto.
Qed.

(* ================================================================== marshalling: queue order *)
(* FIFO: add(id) ... cancel(id) queued in this order (e.g. by the same foreign thread) are processed in
   this order, so the cancel finds the timer: it is dead when the batch ends and never ran.  (The
   refuted boundary is C07-b: a cancel that by-passes the queue.) *)
Lemma run_functors_add_then_cancel : forall l1 fs2 st st' ev a o, Inv st -> DInv st (padds (l1 ++ PAdd a :: fs2) ++ detq st) ->
  hget a (heap st) = Some o -> In (PCancel a (o_seq o)) fs2 ->
  run_functors st (l1 ++ PAdd a :: fs2) = Ok (st', ev) -> gone st' (o_seq o).
Proof.
  induction l1 as [|[b|b s|cs] r IH]; intros fs2 st st' ev a o I D G Hc H; cbn [app run_functors] in H.
  - cbn [app padds] in D. pose proof D as [N Dt]. inversion N as [|x l NIb N']; subst.
    destruct (Dt a (or_introl eq_refl)) as [[ob [Gb Pob]] NDb]. rewrite G in Gb. inversion Gb; subst ob.
    assert (D' : DInv st (padds fs2 ++ detq st)) by (split; auto; intros c Hc'; apply Dt; right; auto).
    pose proof (add_in_loop_good st a o _ I G NDb Pob D' NIb) as GA.
    destruct (add_in_loop st a) as [[st1 e1]| |] eqn:E1; cbn [bind good] in *; try discriminate.
    destruct (run_functors st1 fs2) as [[st2 e2]| |] eqn:E2; cbn [bind] in H; try discriminate.
    inversion H; subst. destruct GA as (I1 & D1 & _ & F1 & Eh & _). cbn [fst] in *.
    rewrite <- (detq_frame _ _ F1) in D1.
    assert (Hi1 : In (o_exp o, a) (timers st1)).
    { unfold add_in_loop in E1.
      destruct (insert_shape _ _ _ I G NDb Pob) as (t' & a' & Ei & _ & M & _). rewrite Ei in E1. cbn [bind] in E1.
      destruct (match timers st with [] => true | (d, _) :: _ => o_exp o <? d end).
      - destruct (deref (set_sets st t' a') a) as [oo| |]; cbn [bind] in E1; try discriminate.
        unfold reset_timerfd in E1. inversion E1; subst. unfold settime.
        destruct (_ =? 0); [|destruct (_ <? 0)]; cbn; apply M; auto.
      - inversion E1; subst. cbn. apply M; auto. }
    eapply (run_functors_cancels fs2 st1 st' e2 a o I1 D1); eauto. rewrite Eh; auto.
  - cbn [app padds] in D. pose proof D as [N Dt]. inversion N as [|x l NIb N']; subst.
    destruct (Dt b (or_introl eq_refl)) as [[ob [Gb Pob]] NDb].
    assert (D' : DInv st (padds (r ++ PAdd a :: fs2) ++ detq st)) by (split; auto; intros c Hc'; apply Dt; right; auto).
    pose proof (add_in_loop_good st b ob _ I Gb NDb Pob D' NIb) as GA.
    destruct (add_in_loop st b) as [[st1 e1]| |] eqn:E1; cbn [bind good] in *; try discriminate.
    destruct (run_functors st1 (r ++ PAdd a :: fs2)) as [[st2 e2]| |] eqn:E2; cbn [bind] in H; try discriminate.
    inversion H; subst. destruct GA as (I1 & D1 & _ & F1 & Eh & _). cbn [fst] in *.
    rewrite <- (detq_frame _ _ F1) in D1. eapply (IH fs2 st1 st' e2 a o I1 D1); eauto. rewrite Eh; auto.
  - cbn [app padds] in D. pose proof (cancel_good st b s _ I D) as GC.
    destruct (cancel_in_loop st b s) as [st1| |] eqn:E1; cbn [bind good] in *; try discriminate.
    destruct GC as (I1 & D1 & _ & F1). rewrite <- (detq_frame _ _ F1) in D1.
    assert (E1' : cb_step st (CCancel b s) = Ok (st1, [])) by (cbn [cb_step]; rewrite E1; reflexivity).
    assert (Da : det st a).
    { apply (proj2 D). apply in_or_app. left. rewrite padds_app. apply in_or_app. right. left. auto. }
    destruct (cb_step_obj _ _ _ _ _ _ I G E1') as [[G' _]|[HA _]]; [|exfalso; exact (det_not_active st a _ I Da HA)].
    eapply (IH fs2 st1 st' ev a o I1 D1); eauto.
  - cbn [app padds] in D. pose proof (cb_run_good cs st (padds (r ++ PAdd a :: fs2)) I D) as GC.
    destruct (cb_run st cs) as [[st1 e1]| |] eqn:E1; cbn [bind good] in *; try discriminate.
    destruct (run_functors st1 (r ++ PAdd a :: fs2)) as [[st2 e2]| |] eqn:E2; cbn [bind] in H; try discriminate.
    inversion H; subst. destruct GC as (I1 & D1 & _ & _). cbn [fst] in *.
    assert (HaX : In a (padds (r ++ PAdd a :: fs2))) by (rewrite padds_app; apply in_or_app; right; left; auto).
    assert (G1 : hget a (heap st1) = Some o) by (rewrite (cb_run_frame _ _ _ _ _ _ I D HaX E1); auto).
    eapply (IH fs2 st1 st' e2 a o I1 D1); eauto.
Qed.

Lemma foreign_add_then_cancel : forall c ops st evs l1 l2 a o st' ev, run (init c) ops = Ok (st, evs) ->
  pending st = l1 ++ PAdd a :: l2 -> In (PCancel a (o_seq o)) l2 -> hget a (heap st) = Some o ->
  step st RunPending = Ok (st', ev) ->
  gone st' (o_seq o) /\ (forall dl now t, ~ In (ERun (o_seq o) dl now t) ev).
Proof.
  intros c ops st evs l1 l2 a o st' ev H Ep Hc G HS. destruct (reach_top _ _ _ _ H) as (I & D & _). cbn [step] in HS.
  rewrite Ep in HS. split.
  - refine (run_functors_add_then_cancel l1 l2 (set_pending st []) st' ev a o I _ G Hc HS).
    rewrite <- Ep. exact D.
  - destruct (run_functors_shape _ _ _ _ HS) as (_ & NR & _). intros dl now t. eapply rlog_nil_norun; eauto.
Qed.

(* ================================================================== a due repeater that is not cancelled is rescheduled *)
(* cancelingTimers_ receives only ids that a callback op cancels *)
Lemma cb_step_canceling_origin : forall st c st' ev k, cb_step st c = Ok (st', ev) -> In k (canceling st') ->
  In k (canceling st) \/ c = CCancel (fst k) (snd k).
Proof.
  intros st c st' ev k H Hk. destruct c as [d|w iv a|a s|w iv a|a s|w iv a|a|cs]; cbn [cb_step] in H.
  - destruct (d <? 0); inversion H; subst. auto.
  - destruct (alloc st w iv a) as [[st1 s]| |] eqn:EA; cbn [bind] in H; try discriminate.
    destruct (add_in_loop st1 a) as [[st2 e]| |] eqn:EL; cbn [bind] in H; try discriminate.
    inversion H; subst. destruct (alloc_shape _ _ _ _ _ _ EA) as (_ & _ & _ & _ & _ & _ & Ec & _).
    destruct (add_in_loop_shape _ _ _ _ EL) as (_ & _ & _ & _ & Ec2 & _). rewrite Ec2, Ec in Hk. auto.
  - destruct (cancel_in_loop st a s) as [st1| |] eqn:EC; cbn [bind] in H; try discriminate. inversion H; subst.
    unfold cancel_in_loop in EC. destruct (assert (sizes_agree st)); cbn [bind] in EC; try discriminate.
    destruct (kmem (a, s) (active st)).
    + destruct (deref st a) as [o| |]; cbn [bind] in EC; try discriminate.
      destruct (kerase _ (timers st)); try discriminate. destruct (kerase _ (active st)); try discriminate.
      inversion EC; subst. auto.
    + destruct (calling st); inversion EC; subst; auto. cbn in Hk. apply kadd_in in Hk as [->|Hk]; auto.
  - destruct (alloc st w iv a) as [[st1 s]| |] eqn:EA; cbn [bind] in H; try discriminate. inversion H; subst.
    destruct (alloc_shape _ _ _ _ _ _ EA) as (_ & _ & _ & _ & _ & _ & Ec & _). cbn in Hk. rewrite Ec in Hk. auto.
  - inversion H; subst. auto.
  - destruct (alloc st w iv a) as [[st1 s]| |] eqn:EA; cbn [bind] in H; try discriminate. inversion H; subst.
    destruct (alloc_shape _ _ _ _ _ _ EA) as (_ & _ & _ & _ & _ & _ & Ec & _). cbn in Hk. rewrite Ec in Hk. auto.
  - destruct (zmem a (inflight st)); inversion H; subst. auto.
  - inversion H; subst. auto.
Qed.
Lemma cb_run_canceling_origin : forall cs st st' ev a s, cb_run st cs = Ok (st', ev) ->
  existsb (cb_cancels a s) cs = false -> ~ In (a, s) (canceling st) -> ~ In (a, s) (canceling st').
Proof.
  induction cs as [|c r IH]; intros st st' ev a s H NC NI; cbn [cb_run] in H.
  - inversion H; subst; auto.
  - cbn [existsb] in NC. apply orb_false_iff in NC as [N1 N2].
    destruct (cb_step st c) as [[st1 e1]| |] eqn:E1; try discriminate.
    + destruct (cb_run st1 r) as [[st2 e2]| |] eqn:E2; cbn [bind] in H; try discriminate.
      inversion H; subst. eapply IH; [exact E2 | exact N2 |]. intros Hk.
      destruct (cb_step_canceling_origin _ _ _ _ _ E1 Hk) as [Hk'|Ec]; [auto|].
      cbn [fst snd] in Ec. subst c. cbn [cb_cancels] in N1. rewrite !Z.eqb_refl in N1. discriminate.
    + destruct (cb_run st r) as [[st2 e2]| |] eqn:E2; cbn [bind] in H; try discriminate.
      inversion H; subst. eapply IH; eauto.
Qed.
Lemma run_cbs_canceling_origin : forall ex st script now st' ev a s, run_cbs st ex script now = Ok (st', ev) ->
  existsb (existsb (cb_cancels a s)) script = false -> ~ In (a, s) (canceling st) -> ~ In (a, s) (canceling st').
Proof.
  induction ex as [|[d b] ex IH]; intros st script now st' ev a s H NC NI; cbn [run_cbs] in H.
  - inversion H; subst; auto.
  - destruct (deref st b) as [ob| |]; cbn [bind] in H; try discriminate.
    destruct (cb_run st (hd [] script)) as [[st1 e1]| |] eqn:E1; cbn [bind] in H; try discriminate.
    destruct (run_cbs st1 ex (tl script) now) as [[st2 e2]| |] eqn:E2; cbn [bind] in H; try discriminate.
    inversion H; subst. destruct (script_nc_split _ _ NC) as [N1 N2].
    eapply IH; [exact E2 | exact N2 |]. eapply cb_run_canceling_origin; eauto.
Qed.

(* TimerQueue::reset restarts a repeater whose id is not in cancelingTimers_ at batch instant + delta and files it again *)
Lemma reset_loop_restarts : forall ex st now P st' a o, Inv st -> DInv st (map snd ex ++ P) -> (ex <> [] -> 0 < now) ->
  In a (map snd ex) -> hget a (heap st) = Some o -> o_repeat o = true -> ~ In (a, o_seq o) (canceling st) ->
  reset_loop st ex now = Ok st' -> reg st' a (mkT (o_seq o) (now + o_iv o) (o_iv o)).
Proof.
  induction ex as [|[d b] ex IH]; intros st now P st' a o I D Pn Ha G Rp NC H; [contradiction|]. cbn [reset_loop] in H.
  cbn [map snd app] in D. destruct D as [N Dt]. inversion N as [|x l NIb N']; subst.
  destruct (Dt b (or_introl eq_refl)) as [[ob [Gb Po]] NDb].
  assert (Pnow : 0 < now) by (apply Pn; discriminate).
  unfold deref in H. rewrite Gb in H. cbn [bind] in H.
  destruct (Z.eq_dec b a) as [->|Nab].
  - rewrite G in Gb. inversion Gb; subst ob. apply kmem_false in NC. rewrite NC, Rp in H. cbn [andb negb] in H.
    unfold o_repeat in Rp. apply Z.leb_le in Rp.
    set (o' := mkT (o_seq o) (now + o_iv o) (o_iv o)) in *.
    set (st1 := set_heap st (hput a o' (heap st))) in *.
    assert (I1 : Inv st1) by (apply inv_hput_det; auto).
    assert (G1 : hget a (heap st1) = Some o') by (apply hget_hput_same).
    assert (P1 : 0 < o_exp o') by (cbn; lia).
    destruct (insert_shape st1 a o' I1 G1 NDb P1) as (t' & a' & E & I2 & M & _).
    rewrite E in H. cbn [bind] in H.
    assert (D2 : DInv (set_sets st1 t' a') (map snd ex ++ P)).
    { split; auto. intros c Hc'. assert (a <> c) by (intros ->; auto).
      destruct (Dt c (or_intror Hc')) as [[oc [Gc Pc]] NDc]. split.
      - exists oc. unfold st1. cbn [heap set_sets set_heap]. rewrite hget_hput_other; auto.
      - intros d' Hd'. cbn in Hd'. apply M in Hd' as [Eq|Hd']; [inversion Eq; congruence| eapply NDc; eauto]. }
    eapply (reset_loop_reg ex (set_sets st1 t' a') now P st' a o' I2 D2 (fun _ => Pnow)); [|exact H].
    split; [exact G1|]. cbn [timers set_sets]. apply M. left. reflexivity.
  - cbn [map snd In] in Ha. destruct Ha as [Ha|Ha]; [congruence|].
    destruct (o_repeat ob && negb (kmem (b, o_seq ob) (canceling st))) eqn:Br.
    + apply andb_true_iff in Br as [Rpb _]. unfold o_repeat in Rpb. apply Z.leb_le in Rpb.
      set (o' := mkT (o_seq ob) (now + o_iv ob) (o_iv ob)) in *.
      set (st1 := set_heap st (hput b o' (heap st))) in *.
      assert (I1 : Inv st1) by (apply inv_hput_det; auto).
      assert (G1 : hget b (heap st1) = Some o') by (apply hget_hput_same).
      assert (P1 : 0 < o_exp o') by (cbn; lia).
      destruct (insert_shape st1 b o' I1 G1 NDb P1) as (t' & a' & E & I2 & M & _).
      rewrite E in H. cbn [bind] in H.
      assert (D2 : DInv (set_sets st1 t' a') (map snd ex ++ P)).
      { split; auto. intros c Hc'. assert (b <> c) by (intros ->; auto).
        destruct (Dt c (or_intror Hc')) as [[oc [Gc Pc]] NDc]. split.
        - exists oc. unfold st1. cbn [heap set_sets set_heap]. rewrite hget_hput_other; auto.
        - intros d' Hd'. cbn in Hd'. apply M in Hd' as [Eq|Hd']; [inversion Eq; congruence| eapply NDc; eauto]. }
      eapply (IH (set_sets st1 t' a') now P st' a o I2 D2 (fun _ => Pnow) Ha); [| | |exact H]; auto.
      unfold st1. cbn [heap set_sets set_heap]. rewrite hget_hput_other; auto.
    + set (st1 := set_heap st (hdel b (heap st))) in *.
      assert (I1 : Inv st1) by (apply inv_hdel_det; auto).
      assert (D1 : DInv st1 (map snd ex ++ P)).
      { split; auto. intros c Hc'. assert (b <> c) by (intros ->; auto).
        cbn. apply detc_hdel with (ts := timers st); auto. apply Dt. right; auto. }
      eapply (IH st1 now P st' a o I1 D1 (fun _ => Pnow) Ha); [| | |exact H]; auto.
      unfold st1. cbn [heap set_heap]. rewrite hget_hdel_other; auto.
Qed.

(* A repeater that is due in an expiry and whose id no callback of that expiry cancels runs exactly once in it
   and is filed again under (batch instant + delta), delta = o_iv >= 0 -- also for delta = 0 (interval below one
   microsecond): it is then filed under the batch instant itself, does NOT run again in this expiry, and the
   timerfd is re-armed no earlier than clock + floor (C06_expiry_runs_exactly_due), so the loop does not spin. *)
Lemma repeater_rescheduled : forall c ops st evs script st' ev d a o,
  run (init c) ops = Ok (st, evs) -> fire st script = Ok (st', ev) ->
  In (d, a) (timers st) -> d <= clk st -> hget a (heap st) = Some o -> 0 <= o_iv o ->
  existsb (existsb (cb_cancels a (o_seq o))) script = false ->
  hget a (heap st') = Some (mkT (o_seq o) (clk st + o_iv o) (o_iv o)) /\ In (clk st + o_iv o, a) (timers st') /\
  length (runs_of (o_seq o) ev) = 1%nat /\
  (forall x, armed st' = Some x -> clk st' + TimerQueue_floor_val <= x).
Proof.
  intros c ops st evs script st' ev d a o H HF Hi Le G Rp NC.
  pose proof (reach_top _ _ _ _ H) as T. pose proof T as (I & _).
  destruct (fire_decomp _ _ _ _ T HF) as (ex & rest & act & st4 & evs' & st6 & KS & Eapp & Lex & I3 & D3 & ER & I4 & D4 & C4 & EL & I6 & Eh & Et & Ea & En & _).
  assert (Edue : due st = ex) by (unfold due; rewrite KS; reflexivity).
  assert (Hex : In (d, a) ex) by (rewrite <- Edue; apply due_iff; auto).
  assert (HaX : In a (map snd ex)) by (apply in_map_iff; exists (d, a); auto).
  destruct (consume_same st) as (Eh0 & _ & _ & En0 & _).
  set (st3 := set_canceling (set_calling (set_sets (consume st) rest act) true) []) in *.
  assert (NC4 : ~ In (a, o_seq o) (canceling st4)).
  { eapply (run_cbs_canceling_origin ex st3 script (clk st) st4 evs' a (o_seq o) ER NC). unfold st3. cbn. tauto. }
  assert (G4 : hget a (heap st4) = Some o).
  { assert (F : hget a (heap st4) = hget a (heap st3)).
    { assert (H3 : HI noR st3 evs) by (eapply HI_same; [| |exact (reach_hist _ _ _ _ H)]; unfold st3; cbn; auto).
      assert (NDex : NoDup (map snd ex)) by (destruct D3 as [N _]; apply NoDup_app_l in N; auto).
      assert (Hex0 : forall d0 a0, In (d0, a0) ex -> exists o0, hget a0 (heap st3) = Some o0 /\ o_exp o0 = d0).
      { intros d0 a0 Hi0. destruct (i_ta _ _ _ _ I d0 a0) as (o0 & G0 & E0 & _); [rewrite Eapp; apply in_or_app; auto|].
        exists o0. split; auto. cbn. rewrite Eh0. auto. }
      destruct (run_cbs_hist ex st3 script (clk st) (map snd ex) noR evs st4 evs' I3 D3 (incl_refl _)
                  (fun b (F : noR b) => match F with end) NDex (fun b _ (F : noR b) => F) Hex0 H3 ER) as (_ & _ & Fr).
      apply Fr; auto. }
    rewrite F. cbn. rewrite Eh0. auto. }
  assert (Pn : ex <> [] -> 0 < clk st).
  { destruct ex as [|[d1 a1] ex']; [congruence|]. intros _.
    assert (0 < d1) by (eapply (i_pos _ _ _ _ I); rewrite Eapp; left; eauto).
    pose proof (Lex d1 a1 (or_introl eq_refl)). lia. }
  assert (Rb : o_repeat o = true) by (unfold o_repeat; apply Z.leb_le; auto).
  destruct (reset_loop_restarts ex (set_calling st4 false) (clk st) (detq st4) st6 a o I4 D4 Pn HaX G4 Rb NC4 EL) as [G6 T6].
  cbn [o_exp] in T6.
  destruct (fire_runs_due _ _ _ _ _ _ _ H HF) as (_ & _ & _ & RA).
  destruct (none_lost _ _ _ _ _ _ _ H HF _ _ Hi Le) as (o2 & t & G2 & HR). rewrite G in G2. inversion G2; subst o2.
  splits.
  - rewrite Eh. exact G6.
  - rewrite Et. exact T6.
  - pose proof (fire_once _ _ _ _ _ _ _ (o_seq o) H HF). pose proof (nruns_in _ _ _ _ _ HR) as Ge. rewrite nruns_filter in Ge. lia.
  - intros x Ax. destruct (timers st') as [|[d0 a0] r0] eqn:ET'; [rewrite <- Et in T6; contradiction|].
    destruct (RA _ _ _ ET') as [A' _]. rewrite A' in Ax. inversion Ax; subst. lia.
Qed.
